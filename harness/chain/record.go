package chain

import (
	"bufio"
	"encoding/base64"
	"encoding/json"
	"fmt"
	"os"
	"path/filepath"
	"sync/atomic"
	"time"

	sdk "github.com/cosmos/cosmos-sdk/types"
)

// Recording: every chain built while VERIF_RECORD_DIR is set writes what it was
// fed — genesis bytes, and per block the height, time and raw transaction bytes
// (plus authority messages executed between blocks) — to a .rec file of JSON
// lines.  The replica (C11) and genesis (C12) harnesses replay these files
// byte-for-byte on fresh applications, so every module driver is a source of
// histories for the cross-module properties.

type RecHeader struct {
	Kind          string `json:"kind"` // "header"
	Profile       string `json:"profile"`
	Genesis       string `json:"genesis"` // base64
	GenesisUnixNs int64  `json:"genesis_unix_ns"`
	InitialHeight int64  `json:"initial_height"`
}

type RecBlock struct {
	Kind      string   `json:"kind"` // "block"
	Height    int64    `json:"height"`
	UnixNs    int64    `json:"unix_ns"`
	Txs       []string `json:"txs"`       // base64 raw tx bytes, in order
	Authority []string `json:"authority"` // codec JSON (Any) of authority msgs run before this block
	// what the recording run itself computed (written after the block as a
	// separate "result" line and merged on reading): the "live" replica
	App     string `json:"app,omitempty"`
	Store   string `json:"store,omitempty"`
	Results string `json:"results,omitempty"`
	Halt    bool   `json:"halt,omitempty"`
}

type recorder struct {
	f       *os.File
	w       *bufio.Writer
	pending []string
}

var recCounter int64

func newRecorder(c *Chain, ih int64) *recorder {
	dir := os.Getenv("VERIF_RECORD_DIR")
	if dir == "" {
		return nil
	}
	os.MkdirAll(dir, 0o755)
	n := atomic.AddInt64(&recCounter, 1)
	prof := filepath.Base(os.Args[0])
	path := filepath.Join(dir, fmt.Sprintf("%s-%d-%d.rec", prof, os.Getpid(), n))
	f, err := os.Create(path)
	if err != nil {
		panic(err)
	}
	r := &recorder{f: f, w: bufio.NewWriterSize(f, 1<<20)}
	h := RecHeader{Kind: "header", Profile: prof, Genesis: base64.StdEncoding.EncodeToString(c.Genesis),
		GenesisUnixNs: c.Time.UnixNano(), InitialHeight: ih}
	r.line(h)
	return r
}

func (r *recorder) line(v any) {
	bz, err := json.Marshal(v)
	if err != nil {
		panic(err)
	}
	r.w.Write(bz)
	r.w.WriteByte('\n')
	r.w.Flush()
}

func (r *recorder) block(h int64, t time.Time, raw [][]byte) {
	b := RecBlock{Kind: "block", Height: h, UnixNs: t.UnixNano(), Authority: r.pending}
	if b.Authority == nil {
		b.Authority = []string{}
	}
	b.Txs = make([]string, len(raw))
	for i, x := range raw {
		b.Txs[i] = base64.StdEncoding.EncodeToString(x)
	}
	r.pending = nil
	r.line(b)
}

func (r *recorder) result(h int64, app, store, results string, halt bool) {
	r.line(RecBlock{Kind: "result", Height: h, App: app, Store: store, Results: results, Halt: halt})
}

func (r *recorder) authority(c *Chain, msg sdk.Msg) {
	bz, err := c.App.AppCodec().MarshalInterfaceJSON(msg)
	if err != nil {
		return
	}
	r.pending = append(r.pending, string(bz))
}

func (r *recorder) doomed(c *Chain, msg sdk.Msg) {
	bz, err := c.App.AppCodec().MarshalInterfaceJSON(msg)
	if err != nil {
		return
	}
	r.pending = append(r.pending, DoomedPrefix+string(bz))
}

// Recording is a parsed .rec file.
type Recording struct {
	Header RecHeader
	Blocks []RecBlock
	Path   string
}

// ReadRecording parses a .rec file.
func ReadRecording(path string) (*Recording, error) {
	f, err := os.Open(path)
	if err != nil {
		return nil, err
	}
	defer f.Close()
	rec := &Recording{Path: path}
	sc := bufio.NewScanner(f)
	sc.Buffer(make([]byte, 1<<20), 1<<28)
	first := true
	for sc.Scan() {
		if len(sc.Bytes()) == 0 {
			continue
		}
		if first {
			if err := json.Unmarshal(sc.Bytes(), &rec.Header); err != nil {
				return nil, err
			}
			first = false
			continue
		}
		var b RecBlock
		if err := json.Unmarshal(sc.Bytes(), &b); err != nil {
			return nil, err
		}
		if b.Kind == "result" {
			for i := range rec.Blocks {
				if rec.Blocks[i].Height == b.Height {
					rec.Blocks[i].App, rec.Blocks[i].Store, rec.Blocks[i].Results, rec.Blocks[i].Halt = b.App, b.Store, b.Results, b.Halt
				}
			}
			continue
		}
		rec.Blocks = append(rec.Blocks, b)
	}
	if first {
		return nil, fmt.Errorf("%s: empty recording", path)
	}
	return rec, nil
}

// GenesisBytes decodes the recorded genesis.
func (r *Recording) GenesisBytes() []byte {
	bz, err := base64.StdEncoding.DecodeString(r.Header.Genesis)
	if err != nil {
		panic(err)
	}
	return bz
}

// RawTxs decodes a block's transactions.
func (b *RecBlock) RawTxs() [][]byte {
	out := make([][]byte, len(b.Txs))
	for i, s := range b.Txs {
		bz, err := base64.StdEncoding.DecodeString(s)
		if err != nil {
			panic(err)
		}
		out[i] = bz
	}
	return out
}
