package chain

import (
	"bufio"
	"encoding/json"
	"fmt"
	"math/big"
	"os"
	"sort"

	sdkmath "cosmossdk.io/math"
	sdk "github.com/cosmos/cosmos-sdk/types"
)

// M is a JSON object.
type M = map[string]any

// TraceWriter writes ndjson trace lines {"ev":…, "st":…}.  TLC's Json module
// rejects null and integers >= 2^31; the writer refuses both so that a bad
// projection fails loudly in the harness instead of obscurely in TLC.
type TraceWriter struct {
	f     *os.File
	w     *bufio.Writer
	Lines int
	Path  string
}

func NewTraceWriter(path string) *TraceWriter {
	f, err := os.Create(path)
	if err != nil {
		panic(err)
	}
	t := &TraceWriter{f: f, w: bufio.NewWriterSize(f, 1<<20), Path: path}
	openWriters = append(openWriters, t)
	return t
}

var openWriters []*TraceWriter

// FlushAll writes out what every trace writer has buffered (called by drv.Main when a driver
// dies: what the real code did up to that point is still validated).
func FlushAll() {
	for _, t := range openWriters {
		t.w.Flush()
	}
}

// DriverCfg is the -cfg string of the running driver (set by drv.Main); it is
// written into every Init line so that a trace can be replayed with the same
// driver configuration.
var DriverCfg string

func (t *TraceWriter) Write(ev M, st any) {
	line := M{"ev": ev, "st": st}
	// the member of a failed multi-message transaction is logged as "TxFailed"; the event's own
	// name travels beside the event (not inside it: event records have a fixed shape), so that a
	// behaviour cut out of this trace re-executes the same messages in the same block shape
	if o, ok := ev["_orig"]; ok {
		line["orig"] = o
		delete(ev, "_orig")
	}
	if n, _ := ev["name"].(string); n == "Init" {
		line["cfg"] = DriverCfg
	}
	if err := checkJSON(line, "line"); err != nil {
		panic(fmt.Sprintf("trace line not TLC-safe: %v\n%v", err, line))
	}
	bz, err := json.Marshal(line)
	if err != nil {
		panic(err)
	}
	t.w.Write(bz)
	t.w.WriteByte('\n')
	t.Lines++
}

func (t *TraceWriter) Close() {
	t.w.Flush()
	t.f.Close()
}

const maxTLC = int64(1)<<31 - 1

func checkJSON(v any, path string) error {
	switch x := v.(type) {
	case nil:
		return fmt.Errorf("%s: null", path)
	case map[string]any:
		for k, e := range x {
			if err := checkJSON(e, path+"."+k); err != nil {
				return err
			}
		}
	case []any:
		for i, e := range x {
			if err := checkJSON(e, fmt.Sprintf("%s[%d]", path, i)); err != nil {
				return err
			}
		}
	case []M:
		for i, e := range x {
			if err := checkJSON(e, fmt.Sprintf("%s[%d]", path, i)); err != nil {
				return err
			}
		}
	case int:
		if int64(x) > maxTLC || int64(x) < -maxTLC {
			return fmt.Errorf("%s: %d out of TLC range", path, x)
		}
	case int64:
		if x > maxTLC || x < -maxTLC {
			return fmt.Errorf("%s: %d out of TLC range", path, x)
		}
	case uint64:
		if x > uint64(maxTLC) {
			return fmt.Errorf("%s: %d out of TLC range", path, x)
		}
	case float64:
		if x != float64(int64(x)) || int64(x) > maxTLC || int64(x) < -maxTLC {
			return fmt.Errorf("%s: %v not a TLC integer", path, x)
		}
	case string, bool, int32, uint32:
	default:
		// marshal and re-check generically
		bz, err := json.Marshal(x)
		if err != nil {
			return fmt.Errorf("%s: %v", path, err)
		}
		var g any
		if err := json.Unmarshal(bz, &g); err != nil {
			return err
		}
		return checkJSON(g, path)
	}
	return nil
}

// Small converts an Int to int64 and reports whether it fits TLC's range.
func Small(i sdkmath.Int) (int64, bool) {
	if !i.IsInt64() {
		return 0, false
	}
	v := i.Int64()
	if v > maxTLC || v < -maxTLC {
		return 0, false
	}
	return v, true
}

// Scaled divides by unit and reports the quotient and whether it was exact
// and in range.
func Scaled(i sdkmath.Int, unit *big.Int) (int64, bool) {
	q, r := new(big.Int).QuoRem(i.BigInt(), unit, new(big.Int))
	if r.Sign() != 0 || !q.IsInt64() {
		if q.IsInt64() {
			return q.Int64(), false
		}
		return 0, false
	}
	v := q.Int64()
	return v, v <= maxTLC && v >= -maxTLC
}

// CoinsM renders coins as {denom: amount}; ok=false if an amount is too large.
func CoinsM(cs sdk.Coins) (M, bool) {
	out := M{}
	ok := true
	for _, c := range cs {
		v, fit := Small(c.Amount)
		ok = ok && fit
		out[c.Denom] = v
	}
	return out, ok
}

// ReadBehaviours reads a file of JSON lines, each a JSON array of event
// objects (one abstract behaviour per line).
func ReadBehaviours(path string) [][]M {
	f, err := os.Open(path)
	if err != nil {
		panic(err)
	}
	defer f.Close()
	var out [][]M
	sc := bufio.NewScanner(f)
	sc.Buffer(make([]byte, 1<<20), 1<<26)
	for sc.Scan() {
		line := sc.Bytes()
		if len(line) == 0 {
			continue
		}
		var evs []M
		if err := json.Unmarshal(line, &evs); err != nil {
			panic(fmt.Sprintf("bad behaviour line: %v: %s", err, line))
		}
		out = append(out, evs)
	}
	return out
}

// Str / Num / Bool / Obj read fields of abstract events leniently (TLC writes
// empty functions as [] and numbers as JSON numbers).
func Str(m M, k string) string {
	if v, ok := m[k].(string); ok {
		return v
	}
	return ""
}

func Num(m M, k string) int64 {
	switch v := m[k].(type) {
	case float64:
		return int64(v)
	case int64:
		return v
	case int:
		return int64(v)
	}
	return 0
}

func Bool(m M, k string) bool {
	v, _ := m[k].(bool)
	return v
}

// Obj returns a {string: int} object field; [] or missing gives an empty map.
func Obj(m M, k string) map[string]int64 {
	out := map[string]int64{}
	if o, ok := m[k].(map[string]any); ok {
		for kk, vv := range o {
			switch n := vv.(type) {
			case float64:
				out[kk] = int64(n)
			case int64:
				out[kk] = n
			case int:
				out[kk] = int64(n)
			}
		}
	}
	return out
}

// SortedKeys returns the keys of a map in order.
func SortedKeys[V any](m map[string]V) []string {
	ks := make([]string, 0, len(m))
	for k := range m {
		ks = append(ks, k)
	}
	sort.Strings(ks)
	return ks
}

// CopyM shallow-copies an event.
func CopyM(m M) M {
	o := M{}
	for k, v := range m {
		o[k] = v
	}
	return o
}
