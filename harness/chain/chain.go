// Package chain runs a real irismod application (simapp + e2e.AppConfig, all ten
// modules) through the real ABCI path and exposes the observation points the
// TLA+ trace specifications need: the result of every transaction, and a
// projected abstract state after BeginBlock, after every transaction and after
// EndBlock+Commit.
//
// Observation without hooks in /repo: a baseapp PostHandler (installed through
// the public baseAppOptions of simapp.NewSimApp) runs inside runTx after the
// messages of a transaction, on the transaction's own cache branch; it calls the
// driver's projection function.  A leading "probe" transaction (a 1-unit bank
// send of the probe account to itself) makes the state after BeginBlock visible
// the same way.
package chain

import (
	"context"
	"crypto/sha256"
	"encoding/hex"
	"encoding/json"
	"fmt"
	"math/rand"
	"regexp"
	"sort"
	"strconv"
	"strings"
	"time"

	"cosmossdk.io/depinject"
	"cosmossdk.io/log"
	sdkmath "cosmossdk.io/math"
	storetypes "cosmossdk.io/store/types"
	abci "github.com/cometbft/cometbft/abci/types"
	cmtproto "github.com/cometbft/cometbft/proto/tendermint/types"
	cmttypes "github.com/cometbft/cometbft/types"
	dbm "github.com/cosmos/cosmos-db"
	"github.com/cosmos/cosmos-sdk/baseapp"
	"github.com/cosmos/cosmos-sdk/client/flags"
	codectypes "github.com/cosmos/cosmos-sdk/codec/types"
	cryptocodec "github.com/cosmos/cosmos-sdk/crypto/codec"
	"github.com/cosmos/cosmos-sdk/crypto/keys/ed25519"
	"github.com/cosmos/cosmos-sdk/crypto/keys/secp256k1"
	cryptotypes "github.com/cosmos/cosmos-sdk/crypto/types"
	"github.com/cosmos/cosmos-sdk/server"
	simtestutil "github.com/cosmos/cosmos-sdk/testutil/sims"
	sdk "github.com/cosmos/cosmos-sdk/types"
	authtypes "github.com/cosmos/cosmos-sdk/x/auth/types"
	banktypes "github.com/cosmos/cosmos-sdk/x/bank/types"
	distrtypes "github.com/cosmos/cosmos-sdk/x/distribution/types"
	govtypes "github.com/cosmos/cosmos-sdk/x/gov/types"
	minttypes "github.com/cosmos/cosmos-sdk/x/mint/types"
	stakingtypes "github.com/cosmos/cosmos-sdk/x/staking/types"

	"mods.irisnet.org/e2e"
	coinswapkeeper "mods.irisnet.org/modules/coinswap/keeper"
	farmkeeper "mods.irisnet.org/modules/farm/keeper"
	htlckeeper "mods.irisnet.org/modules/htlc/keeper"
	mtkeeper "mods.irisnet.org/modules/mt/keeper"
	nftkeeper "mods.irisnet.org/modules/nft/keeper"
	oraclekeeper "mods.irisnet.org/modules/oracle/keeper"
	randomkeeper "mods.irisnet.org/modules/random/keeper"
	recordkeeper "mods.irisnet.org/modules/record/keeper"
	servicekeeper "mods.irisnet.org/modules/service/keeper"
	tokenkeeper "mods.irisnet.org/modules/token/keeper"
	tokentypes "mods.irisnet.org/modules/token/types"
	"mods.irisnet.org/simapp"
)

// DoomedPrefix marks a recorded authority entry that is a doomed proposal (see Authority).
const DoomedPrefix = "DOOMED:"

const (
	ChainID     = "verif-1"
	PanicCode   = 111222 // sdkerrors.ErrPanic
	ProbeName   = "probe"
	ProbeDenom  = "probecoin"
	DefaultGas  = uint64(50_000_000)
	genesisUnix = int64(1_700_000_000)
)

// Keepers are the irismod keepers of the running application.
type Keepers struct {
	Coinswap coinswapkeeper.Keeper
	Farm     farmkeeper.Keeper
	HTLC     htlckeeper.Keeper
	MT       mtkeeper.Keeper
	NFT      nftkeeper.Keeper
	Oracle   oraclekeeper.Keeper
	Random   randomkeeper.Keeper
	Record   recordkeeper.Keeper
	Service  servicekeeper.Keeper
	Token    tokenkeeper.Keeper
}

// Account is a deterministic user account.
type Account struct {
	Name string
	Priv cryptotypes.PrivKey
	Addr sdk.AccAddress
	Num  uint64
	Seq  uint64
}

// Options configures a new chain.
type Options struct {
	// Accounts: name -> genesis coins (e.g. "1000stake,500btc").
	Accounts map[string]string
	// AccountOrder fixes the order of account creation (account numbers).
	AccountOrder []string
	// GenesisTime; zero means a fixed default.
	GenesisTime time.Time
	// MutateGenesis may edit the genesis state before InitChain.
	MutateGenesis func(c *Chain, gs simapp.GenesisState)
	// GenesisBytes, when set, is used verbatim as app state (import tests).
	GenesisBytes []byte
	// DB to reuse (restart); nil means a fresh MemDB.
	DB *dbm.MemDB
	// NoPostHandler disables the observation post handler (replica runs).
	NoPostHandler bool
	// EVM / ICS20 providers for the token module; nil = repository mocks.
	EVM   tokentypes.EVMKeeper
	ICS20 tokentypes.ICS20Keeper
	// SkipInit: only construct the app on DB (restart on existing state).
	SkipInit bool
	// InitialHeight for InitChain (0 → 1).
	InitialHeight int64
	// NoFirstBlock: do not run the empty first block (replicas replay it).
	NoFirstBlock bool
	// ExtraConfig, when set, is merged into the depinject configuration of the
	// application (e2e.AppConfig): wiring a host application adds on top of the
	// repository's own configuration, e.g. a module's gov hooks or legacy
	// proposal route.  Nil (the default) leaves the e2e application as it is.
	ExtraConfig depinject.Config
	// AfterBuild, when set, runs on every freshly constructed application (also
	// after Restart) before the latest version is loaded.
	AfterBuild func(app *simapp.SimApp)
}

// Tx is one transaction to deliver.
type Tx struct {
	Signer  string   // account name (first signer); more signers in Signers
	Signers []string // optional additional signers
	Msgs    []sdk.Msg
	Tag     any // opaque, returned in the result
	// NoBundle keeps this transaction out of bundles (Chain.BundlePct).
	NoBundle bool
}

// TxResult is what the chain did with a transaction.
type TxResult struct {
	Tag       any
	OK        bool
	Code      uint32
	Codespace string
	Log       string
	Panic     bool
	Stage     string // "validate_basic" when rejected before delivery, else "deliver"
	Data      []byte
	MsgResps  []*codectypes.Any
	Events    []abci.Event
	TxBytes   []byte
	TxHash    string
	// State is the projection after this transaction (nil if no projector).
	State any
	// Bundle > 1: this transaction was delivered as member BundlePos (0-based) of ONE
	// real transaction carrying the messages of Bundle consecutive Tx entries of the
	// same signer (Chain.BundlePct).  Aborted: the real transaction failed and this
	// member's messages either ran and were rolled back with it or never ran; the
	// member that made it fail is reported as Aborted too unless it was the first one
	// (then its pre-state is the pre-transaction state and it is an ordinary rejection).
	Bundle    int
	BundlePos int
	Aborted   bool
}

// BlockResult is what a block did.
type BlockResult struct {
	Height     int64
	Time       time.Time
	Halt       bool // FinalizeBlock/Commit panicked or returned an error
	HaltMsg    string
	BeginState any // projection after BeginBlock (from the probe transaction)
	Txs        []TxResult
	EndState   any // projection after EndBlock + Commit
	AppHash    []byte
	Events     []abci.Event // block events (begin/end block)
}

// Chain is a running application.
type Chain struct {
	App     *simapp.SimApp
	K       Keepers
	DB      *dbm.MemDB
	Height  int64 // last committed height
	Time    time.Time
	Accts   map[string]*Account
	Order   []string
	Project func(ctx sdk.Context) any
	ValPub  cryptotypes.PubKey
	Genesis []byte
	opts    Options

	// BundlePct > 0: RunBlock merges runs of consecutive single-signer transactions of one
	// signer (up to three) into one real multi-message transaction with this probability
	// (percent) per junction; the decision is a hash of the block's shape (height, position,
	// signer, message types), so that re-executing a recorded history bundles identically.
	// Set from the driver cfg entry bundle=<pct>.  The state between the messages of a
	// successful bundle is observed through the message router's circuit-breaker callback
	// (called before every message on the transaction's own store branch), so every member
	// still gets its own result and post-state.
	BundlePct int
	// BundleHook, when set, is told when the first message of a bundled transaction is about
	// to run ("start") and when a bundled transaction has failed as a whole ("abort", called
	// at the end of that transaction, before anything else is observed), so that a driver
	// whose projection has side effects (naming of ids in order of appearance) can checkpoint
	// and restore them.
	BundleHook func(phase string)
	openBundle string // hash of the bundled transaction whose messages are running
	lastAuth   map[string]sdk.Msg // last successful authority message per type (proposal noise)
	propNoise  bool

	snaps    map[string]any
	preSnaps map[string][]any // bundled tx hash -> projection before each of its messages
	rec      *recorder
	snapErr string
	halted  bool
}

// DetKey derives a deterministic secp256k1 key from a name.
func DetKey(name string) cryptotypes.PrivKey {
	return secp256k1.GenPrivKeyFromSecret([]byte("verif-account-" + name))
}

// AddrOf returns the address of a named user account (deterministic).
func AddrOf(name string) sdk.AccAddress {
	return sdk.AccAddress(DetKey(name).PubKey().Address())
}

// ModuleAddr returns the address of a module account.
func ModuleAddr(name string) sdk.AccAddress { return authtypes.NewModuleAddress(name) }

func newApp(c *Chain, db *dbm.MemDB, opts Options) *simapp.SimApp {
	appOptions := make(simtestutil.AppOptionsMap, 0)
	appOptions[flags.FlagHome] = "/nonexistent/verif-home"
	appOptions[server.FlagInvCheckPeriod] = uint(0)
	appOptions["x-crisis-skip-assert-invariants"] = true

	var evm tokentypes.EVMKeeper = opts.EVM
	if evm == nil {
		evm = tokenkeeper.ProvideMockEVM()
	}
	var ics tokentypes.ICS20Keeper = opts.ICS20
	if ics == nil {
		ics = tokenkeeper.ProvideMockICS20()
	}
	appCfg := e2e.AppConfig
	if opts.ExtraConfig != nil {
		appCfg = depinject.Configs(appCfg, opts.ExtraConfig)
	}
	dep := simapp.DepinjectOptions{
		Config:    appCfg,
		Providers: []interface{}{evm, ics},
		Consumers: []interface{}{
			&c.K.Coinswap, &c.K.Farm, &c.K.HTLC, &c.K.MT, &c.K.NFT,
			&c.K.Oracle, &c.K.Random, &c.K.Record, &c.K.Service, &c.K.Token,
		},
	}
	bopts := []func(*baseapp.BaseApp){baseapp.SetChainID(ChainID)}
	// The auth/tx depinject module installs its (empty) post handler chain after
	// our options run, so the app is built unsealed (loadLatest=false), the
	// observation handler installed, and the latest version loaded afterwards.
	app := simapp.NewSimApp(log.NewNopLogger(), db, nil, false, dep, appOptions, bopts...)
	// providers that need the application instance (store keys change on every
	// NewSimApp, i.e. on every restart) bind themselves here
	if b, ok := evm.(interface{ BindApp(*simapp.SimApp) }); ok {
		b.BindApp(app)
	}
	if opts.AfterBuild != nil {
		opts.AfterBuild(app)
	}
	if !opts.NoPostHandler {
		app.SetPostHandler(c.postHandler)
		app.MsgServiceRouter().SetCircuit(msgObserver{c})
	}
	if err := app.LoadLatestVersion(); err != nil {
		panic(err)
	}
	return app
}

// msgObserver is installed as the message router's circuit breaker.  It allows everything;
// for the messages of a bundled transaction it records the projection that holds BEFORE the
// message (= after the previous message of the same transaction).
type msgObserver struct{ c *Chain }

func (o msgObserver) IsAllowed(goCtx context.Context, _ string) (bool, error) {
	c := o.c
	if c.Project == nil || len(c.preSnaps) == 0 {
		return true, nil
	}
	ctx := sdk.UnwrapSDKContext(goCtx)
	if ctx.ExecMode() != sdk.ExecModeFinalize || len(ctx.TxBytes()) == 0 {
		return true, nil
	}
	sum := sha256.Sum256(ctx.TxBytes())
	key := hex.EncodeToString(sum[:])
	lst, ok := c.preSnaps[key]
	if !ok {
		return true, nil
	}
	func() {
		defer func() {
			if r := recover(); r != nil {
				c.snapErr = fmt.Sprint("projection panic (bundle): ", r)
			}
		}()
		c.closeBundle(key)
		if len(lst) == 0 {
			c.openBundle = key
			if c.BundleHook != nil {
				c.BundleHook("start")
			}
		}
		c.preSnaps[key] = append(lst, c.Project(ctx.WithGasMeter(storetypes.NewInfiniteGasMeter())))
	}()
	return true, nil
}

// closeBundle: a bundled transaction that never reached the post handler (it panicked) is
// known to have failed as soon as anything else is observed.
func (c *Chain) closeBundle(now string) {
	if c.openBundle != "" && c.openBundle != now {
		c.openBundle = ""
		if c.BundleHook != nil {
			c.BundleHook("abort")
		}
	}
}

// MsgIndex returns the index of the message of a bundled transaction that is executing in
// ctx (-1 when ctx does not belong to a bundled transaction).
func (c *Chain) MsgIndex(ctx sdk.Context) int {
	if len(c.preSnaps) == 0 || len(ctx.TxBytes()) == 0 {
		return -1
	}
	sum := sha256.Sum256(ctx.TxBytes())
	lst, ok := c.preSnaps[hex.EncodeToString(sum[:])]
	if !ok {
		return -1
	}
	return len(lst) - 1
}

func (c *Chain) postHandler(ctx sdk.Context, tx sdk.Tx, simulate, success bool) (sdk.Context, error) {
	if simulate {
		return ctx, nil
	}
	sum := sha256.Sum256(ctx.TxBytes())
	key := hex.EncodeToString(sum[:])
	c.closeBundle(key)
	var snap any
	if success && c.Project != nil {
		func() {
			defer func() {
				if r := recover(); r != nil {
					c.snapErr = fmt.Sprint("projection panic: ", r)
				}
			}()
			snap = c.Project(ctx.WithGasMeter(storetypes.NewInfiniteGasMeter()))
		}()
	}
	if c.openBundle == key {
		c.openBundle = ""
		if !success && c.BundleHook != nil {
			c.BundleHook("abort")
		}
	}
	c.snaps[key] = snap
	return ctx, nil
}

// New builds a chain, runs InitChain and an empty block 1.
func New(opts Options) *Chain {
	c := &Chain{Accts: map[string]*Account{}, opts: opts, propNoise: true}
	for _, kv := range strings.Split(DriverCfg, ",") {
		if kv == "propnoise=0" {
			c.propNoise = false
		}
		if strings.HasPrefix(kv, "bundle=") {
			if v, err := strconv.Atoi(kv[len("bundle="):]); err == nil {
				c.BundlePct = v
			}
		}
	}
	c.DB = opts.DB
	if c.DB == nil {
		c.DB = dbm.NewMemDB()
	}
	c.App = newApp(c, c.DB, opts)
	c.Time = opts.GenesisTime
	if c.Time.IsZero() {
		c.Time = time.Unix(genesisUnix, 0).UTC()
	}
	order := opts.AccountOrder
	if len(order) == 0 {
		for n := range opts.Accounts {
			order = append(order, n)
		}
		sort.Strings(order)
	}
	// the probe account always exists, first
	order = append([]string{ProbeName}, order...)
	c.Order = order
	for i, n := range order {
		priv := DetKey(n)
		c.Accts[n] = &Account{Name: n, Priv: priv, Addr: sdk.AccAddress(priv.PubKey().Address()), Num: uint64(i)}
	}
	if opts.SkipInit {
		c.Height = c.App.LastBlockHeight()
		c.refreshAccounts()
		return c
	}

	// deterministic validator
	valPriv := ed25519.GenPrivKeyFromSecret([]byte("verif-validator"))
	c.ValPub = valPriv.PubKey()

	var stateBytes []byte
	if opts.GenesisBytes != nil {
		stateBytes = opts.GenesisBytes
	} else {
		gs := c.App.DefaultGenesis()
		c.buildGenesis(gs, opts)
		if opts.MutateGenesis != nil {
			opts.MutateGenesis(c, gs)
		}
		var err error
		stateBytes, err = json.Marshal(gs)
		if err != nil {
			panic(err)
		}
	}
	c.Genesis = stateBytes
	cp := simtestutil.DefaultConsensusParams
	cpCopy := *cp
	blk := *cp.Block
	blk.MaxGas = -1
	cpCopy.Block = &blk
	ih := opts.InitialHeight
	if ih == 0 {
		ih = 1
	}
	if _, err := c.App.InitChain(&abci.RequestInitChain{
		ChainId:         ChainID,
		Time:            c.Time,
		Validators:      []abci.ValidatorUpdate{},
		ConsensusParams: &cpCopy,
		AppStateBytes:   stateBytes,
		InitialHeight:   ih,
	}); err != nil {
		panic(fmt.Errorf("InitChain: %w", err))
	}
	c.Height = ih - 1
	c.rec = newRecorder(c, ih)
	if opts.NoFirstBlock {
		return c
	}
	// block 1: empty, commits the genesis branch
	r := c.RunBlock(0, nil)
	if r.Halt {
		panic("first block halted: " + r.HaltMsg)
	}
	return c
}

func (c *Chain) buildGenesis(gs simapp.GenesisState, opts Options) {
	cdc := c.App.AppCodec()
	var genAccs []authtypes.GenesisAccount
	var balances []banktypes.Balance
	total := sdk.NewCoins()
	for _, n := range c.Order {
		a := c.Accts[n]
		genAccs = append(genAccs, authtypes.NewBaseAccount(a.Addr, a.Priv.PubKey(), a.Num, 0))
		coinsStr := opts.Accounts[n]
		if n == ProbeName {
			coinsStr = "1000000" + ProbeDenom
		}
		coins, err := sdk.ParseCoinsNormalized(coinsStr)
		if err != nil {
			panic(err)
		}
		if !coins.IsZero() {
			balances = append(balances, banktypes.Balance{Address: a.Addr.String(), Coins: coins})
			total = total.Add(coins...)
		}
	}
	gs[authtypes.ModuleName] = cdc.MustMarshalJSON(authtypes.NewGenesisState(authtypes.DefaultParams(), genAccs))

	// one bonded validator, delegated by the probe account
	pkAny, err := codectypes.NewAnyWithValue(c.ValPub)
	if err != nil {
		panic(err)
	}
	tmpk, err := cryptocodec.ToCmtPubKeyInterface(c.ValPub)
	if err != nil {
		panic(err)
	}
	val := cmttypes.NewValidator(tmpk, 1)
	bondAmt := sdk.DefaultPowerReduction
	validator := stakingtypes.Validator{
		OperatorAddress: sdk.ValAddress(val.Address).String(),
		ConsensusPubkey: pkAny,
		Status:          stakingtypes.Bonded,
		Tokens:          bondAmt,
		DelegatorShares: sdkmath.LegacyOneDec(),
		UnbondingTime:   time.Unix(0, 0).UTC(),
		Commission: stakingtypes.NewCommission(sdkmath.LegacyZeroDec(), sdkmath.LegacyZeroDec(),
			sdkmath.LegacyZeroDec()),
		MinSelfDelegation: sdkmath.ZeroInt(),
	}
	deleg := stakingtypes.NewDelegation(c.Accts[ProbeName].Addr.String(), sdk.ValAddress(val.Address).String(), sdkmath.LegacyOneDec())
	gs[stakingtypes.ModuleName] = cdc.MustMarshalJSON(stakingtypes.NewGenesisState(stakingtypes.DefaultParams(),
		[]stakingtypes.Validator{validator}, []stakingtypes.Delegation{deleg}))
	bonded := sdk.NewCoin(sdk.DefaultBondDenom, bondAmt)
	balances = append(balances, banktypes.Balance{
		Address: authtypes.NewModuleAddress(stakingtypes.BondedPoolName).String(),
		Coins:   sdk.Coins{bonded},
	})
	total = total.Add(bonded)
	gs[banktypes.ModuleName] = cdc.MustMarshalJSON(banktypes.NewGenesisState(
		banktypes.DefaultGenesisState().Params, balances, total, []banktypes.Metadata{}, []banktypes.SendEnabled{}))

	// no inflation: the tracked "stake" supply must only change through irismod
	mg := minttypes.DefaultGenesisState()
	mg.Minter.Inflation = sdkmath.LegacyZeroDec()
	mg.Params.InflationMax = sdkmath.LegacyZeroDec()
	mg.Params.InflationMin = sdkmath.LegacyZeroDec()
	mg.Params.InflationRateChange = sdkmath.LegacyZeroDec()
	gs[minttypes.ModuleName] = cdc.MustMarshalJSON(mg)
}

// Ctx returns a context on the committed state (reads; writes are possible but
// bypass the block machinery — use CacheContext for authority messages).
func (c *Chain) Ctx() sdk.Context {
	return c.App.NewUncachedContext(false, cmtproto.Header{ChainID: ChainID, Height: c.Height, Time: c.Time}).
		WithGasMeter(storetypes.NewInfiniteGasMeter())
}

func (c *Chain) refreshAccounts() {
	ctx := c.Ctx()
	for _, a := range c.Accts {
		acc := c.App.AccountKeeper.GetAccount(ctx, a.Addr)
		if acc != nil {
			a.Num = acc.GetAccountNumber()
			a.Seq = acc.GetSequence()
		}
	}
}

// BuildTx signs a transaction for the given signer(s) with explicit sequences.
func (c *Chain) BuildTx(tx Tx, seqs map[string]uint64) ([]byte, error) {
	names := append([]string{tx.Signer}, tx.Signers...)
	var nums, sq []uint64
	var privs []cryptotypes.PrivKey
	for _, n := range names {
		a, ok := c.Accts[n]
		if !ok {
			return nil, fmt.Errorf("unknown account %q", n)
		}
		s, ok := seqs[n]
		if !ok {
			s = a.Seq
		}
		nums = append(nums, a.Num)
		sq = append(sq, s)
		privs = append(privs, a.Priv)
		seqs[n] = s + 1
	}
	txCfg := c.App.TxConfig()
	stx, err := simtestutil.GenSignedMockTx(rand.New(rand.NewSource(1)), txCfg, tx.Msgs, sdk.Coins{}, DefaultGas, ChainID, nums, sq, privs...)
	if err != nil {
		return nil, err
	}
	return txCfg.TxEncoder()(stx)
}

func (c *Chain) probeTx(seqs map[string]uint64) []byte {
	p := c.Accts[ProbeName]
	msg := banktypes.NewMsgSend(p.Addr, p.Addr, sdk.NewCoins(sdk.NewInt64Coin(ProbeDenom, 1)))
	bz, err := c.BuildTx(Tx{Signer: ProbeName, Msgs: []sdk.Msg{msg}}, seqs)
	if err != nil {
		panic(err)
	}
	return bz
}

// PlanBlock says how RunBlock will deliver txs in the next block: which of them fail
// ValidateBasic (not delivered, no sequence number consumed) and how the others are grouped
// into real transactions (singletons unless BundlePct > 0).  Deterministic in the block's
// shape, so a driver can predict transaction hashes.
func (c *Chain) PlanBlock(txs []Tx) (vbErrs []error, groups [][]int) {
	h := c.Height + 1
	vbErrs = make([]error, len(txs))
	for i, tx := range txs {
		for _, m := range tx.Msgs {
			if vb, ok := m.(sdk.HasValidateBasic); ok {
				if err := vb.ValidateBasic(); err != nil {
					vbErrs[i] = err
					break
				}
			}
		}
	}
	bundling := c.Project != nil && !c.opts.NoPostHandler && c.BundlePct > 0
	join := func(i, j int) bool {
		// (not the number of transactions: the decision must be the same when a behaviour cut off
		// inside this block is re-executed)
		d := sha256.Sum256([]byte(fmt.Sprintf("bundle|%d|%d|%s|%s|%s", h, i, txs[i].Signer,
			sdk.MsgTypeURL(txs[i].Msgs[0]), sdk.MsgTypeURL(txs[j].Msgs[0]))))
		return int(d[0])%100 < c.BundlePct
	}
	for i := 0; i < len(txs); i++ {
		if vbErrs[i] != nil {
			continue
		}
		g := []int{i}
		for bundling && len(txs[i].Signers) == 0 && !txs[i].NoBundle && len(g) < 3 {
			j := g[len(g)-1] + 1
			if j >= len(txs) || vbErrs[j] != nil || txs[j].Signer != txs[i].Signer || len(txs[j].Signers) != 0 ||
				txs[j].NoBundle || len(txs[i].Msgs) == 0 || len(txs[j].Msgs) == 0 || !join(j-1, j) {
				break
			}
			g = append(g, j)
		}
		groups = append(groups, g)
		i = g[len(g)-1]
	}
	return vbErrs, groups
}

// MergeTx is the real transaction RunBlock builds for a group of PlanBlock.
func MergeTx(txs []Tx, members []int) Tx {
	merged := Tx{Signer: txs[members[0]].Signer, Signers: txs[members[0]].Signers}
	for _, m := range members {
		merged.Msgs = append(merged.Msgs, txs[m].Msgs...)
	}
	return merged
}

// RunBlock executes one block at height c.Height+1 whose time is dt after the
// previous block's time.  Transactions whose messages fail ValidateBasic are
// reported as rejected without being delivered (exactly what baseapp does
// before the ante handler; skipping delivery keeps later sequences valid).
func (c *Chain) RunBlock(dt time.Duration, txs []Tx) (res BlockResult) {
	if c.halted {
		return BlockResult{Height: c.Height, Halt: true, HaltMsg: "chain already halted"}
	}
	h := c.Height + 1
	t := c.Time.Add(dt)
	res.Height, res.Time = h, t
	res.Txs = make([]TxResult, len(txs))
	seqs := map[string]uint64{}
	var raw [][]byte
	var idx []int
	withProbe := c.Project != nil && !c.opts.NoPostHandler
	if withProbe {
		raw = append(raw, c.probeTx(seqs))
		idx = append(idx, -1)
	}
	hashOf := func(bz []byte) string { s := sha256.Sum256(bz); return hex.EncodeToString(s[:]) }
	// validate every transaction's messages first (baseapp does it before the ante handler)
	vbErrs, groups := c.PlanBlock(txs)
	for i, tx := range txs {
		res.Txs[i].Tag = tx.Tag
		res.Txs[i].Stage = "deliver"
		if vbErrs[i] != nil {
			res.Txs[i].Stage = "validate_basic"
			res.Txs[i].Log = vbErrs[i].Error()
			res.Txs[i].Code = 1
		}
	}
	// real transactions: one per Tx, or one per bundle of consecutive Tx of one signer
	type realTx struct {
		members []int // indices into txs
		counts  []int // number of messages of each member
	}
	var reals []realTx
	c.preSnaps = map[string][]any{}
	for _, members := range groups {
		i := members[0]
		g := realTx{members: members}
		for _, m := range members {
			g.counts = append(g.counts, len(txs[m].Msgs))
		}
		_ = i
		bz, err := c.BuildTx(MergeTx(txs, g.members), seqs)
		if err != nil {
			for _, m := range g.members {
				res.Txs[m].Stage = "build"
				res.Txs[m].Log = err.Error()
				res.Txs[m].Code = 1
			}
			continue
		}
		txh := hashOf(bz)
		for k, m := range g.members {
			res.Txs[m].TxBytes = bz
			res.Txs[m].TxHash = txh
			res.Txs[m].Bundle = len(g.members)
			res.Txs[m].BundlePos = k
		}
		if len(g.members) > 1 {
			c.preSnaps[txh] = []any{}
		}
		raw = append(raw, bz)
		idx = append(idx, len(reals))
		reals = append(reals, g)
	}
	c.snaps = map[string]any{}
	c.snapErr = ""
	if c.rec != nil {
		c.rec.block(h, t, raw)
	}
	var fin *abci.ResponseFinalizeBlock
	func() {
		defer func() {
			if r := recover(); r != nil {
				res.Halt = true
				res.HaltMsg = fmt.Sprint("panic: ", r)
			}
		}()
		var err error
		fin, err = c.App.FinalizeBlock(&abci.RequestFinalizeBlock{
			Height: h, Time: t, Txs: raw,
			Hash: blockHash(h),
		})
		if err != nil {
			res.Halt = true
			res.HaltMsg = "FinalizeBlock: " + err.Error()
			return
		}
		if _, err = c.App.Commit(); err != nil {
			res.Halt = true
			res.HaltMsg = "Commit: " + err.Error()
		}
	}()
	c.closeBundle("")
	if res.Halt {
		c.halted = true
		if c.rec != nil {
			c.rec.result(h, "", "", "", true)
		}
		return res
	}
	c.Height, c.Time = h, t
	if c.rec != nil {
		c.rec.result(h, hex.EncodeToString(fin.AppHash), c.StoreDigest(), ResultsDigest(fin.TxResults), false)
	}
	res.AppHash = fin.AppHash
	res.Events = fin.Events
	if c.snapErr != "" {
		panic(c.snapErr)
	}
	// distribute results; the post handler recorded a projection per tx hash
	// (only for transactions whose messages all succeeded).  Every transaction —
	// delivered or rejected before delivery — gets the state that holds after it.
	realRes := map[int]*abci.ExecTxResult{}
	var last any
	for k, r := range fin.TxResults {
		if idx[k] == -1 {
			if r.Code != 0 {
				panic("probe transaction failed: " + r.Log)
			}
			res.BeginState = c.snaps[hashOf(raw[k])]
			last = res.BeginState
			continue
		}
		realRes[idx[k]] = r
	}
	// member index -> (real transaction, position)
	type where struct{ g, pos int }
	at := map[int]where{}
	for gi, g := range reals {
		for k, m := range g.members {
			at[m] = where{gi, k}
		}
	}
	for i := range res.Txs {
		tr := &res.Txs[i]
		w, delivered := at[i]
		if !delivered {
			tr.State = last
			continue
		}
		g, r := reals[w.g], realRes[w.g]
		if len(g.members) == 1 {
			tr.OK = r.Code == 0
			tr.Code, tr.Codespace, tr.Log, tr.Panic = r.Code, r.Codespace, r.Log, r.Code == PanicCode
			tr.Data = r.Data
			tr.Events = r.Events
			if tr.OK {
				var tmd sdk.TxMsgData
				if err := tmd.Unmarshal(r.Data); err == nil {
					tr.MsgResps = tmd.MsgResponses
				}
				if snap := c.snaps[tr.TxHash]; snap != nil {
					last = snap
				}
			}
			tr.State = last
			continue
		}
		// a member of a bundle
		first := 0 // index of this member's first message within the real transaction
		for k := 0; k < w.pos; k++ {
			first += g.counts[k]
		}
		n := g.counts[w.pos]
		tr.Code, tr.Codespace, tr.Log, tr.Panic = r.Code, r.Codespace, r.Log, r.Code == PanicCode
		if r.Code == 0 {
			tr.OK = true
			var tmd sdk.TxMsgData
			if err := tmd.Unmarshal(r.Data); err == nil && len(tmd.MsgResponses) >= first+n {
				tr.MsgResps = tmd.MsgResponses[first : first+n]
			}
			tr.Events = eventsOfMsgs(r.Events, first, n)
			pre := c.preSnaps[tr.TxHash]
			total := 0
			for _, cnt := range g.counts {
				total += cnt
			}
			if len(pre) != total {
				panic(fmt.Sprintf("bundle observation: %d pre-message projections for %d messages", len(pre), total))
			}
			if w.pos == len(g.members)-1 {
				if snap := c.snaps[tr.TxHash]; snap != nil {
					last = snap
				}
			} else {
				last = pre[first+n] // the state before the next member's first message
			}
			tr.State = last
			continue
		}
		// the real transaction failed: everything it did was rolled back
		failing := -1
		if mm := msgIndexRe.FindStringSubmatch(r.Log); mm != nil {
			if v, err := strconv.Atoi(mm[1]); err == nil {
				failing = v
			}
		}
		tr.Aborted = !(w.pos == 0 && failing >= 0 && failing < n)
		tr.State = last
	}
	if c.Project != nil {
		res.EndState = c.Project(c.Ctx())
	}
	if !withProbe && c.Project != nil {
		res.BeginState = nil
	}
	c.refreshAccounts()
	return res
}

var msgIndexRe = regexp.MustCompile(`message index: (\d+)`)

// eventsOfMsgs returns the events of a transaction result that belong to messages
// first..first+n-1 (attribute msg_index), with the index rebased to the member.
func eventsOfMsgs(evs []abci.Event, first, n int) []abci.Event {
	var out []abci.Event
	for _, e := range evs {
		keep := false
		ne := abci.Event{Type: e.Type}
		for _, a := range e.Attributes {
			if a.Key == "msg_index" {
				if v, err := strconv.Atoi(a.Value); err == nil && v >= first && v < first+n {
					keep = true
					a.Value = strconv.Itoa(v - first)
				}
			}
			ne.Attributes = append(ne.Attributes, a)
		}
		if keep {
			out = append(out, ne)
		}
	}
	return out
}

func blockHash(h int64) []byte {
	s := sha256.Sum256([]byte(fmt.Sprintf("verif-block-%d", h)))
	return s[:]
}

// Authority executes a message that only the governance authority may send
// (MsgUpdateParams and the like) between blocks: ValidateBasic, then the
// message router on a cache branch of the committed state, written on success.
func (c *Chain) Authority(msg sdk.Msg) (ok bool, panicked bool, log string) {
	if vb, is := msg.(sdk.HasValidateBasic); is {
		if err := vb.ValidateBasic(); err != nil {
			return false, false, "validate_basic: " + err.Error()
		}
	}
	if c.rec != nil {
		c.rec.authority(c, msg)
	}
	ok, panicked, log = c.authorityBatch([]sdk.Msg{msg})
	// Proposal noise (on unless the driver cfg says propnoise=0): after an authority message,
	// the PREVIOUS authority message of the same type is executed once more as the first
	// message of a two-message proposal whose second message is bound to fail — the way x/gov
	// executes a passed proposal: all messages on one cache branch, written only if every one
	// succeeds.  The branch is discarded, so on a correct chain this is a no-op that no trace
	// shows; code that keeps anything outside the committed store sees a handler that ran and
	// was rolled back.  Recorded, so replicas replay it.
	url := sdk.MsgTypeURL(msg)
	if prev, has := c.lastAuth[url]; has && c.propNoise && !panicked {
		c.DoomedProposal(prev)
	}
	if ok {
		if c.lastAuth == nil {
			c.lastAuth = map[string]sdk.Msg{}
		}
		c.lastAuth[url] = msg
	}
	return ok, panicked, log
}

// DoomedProposal executes [msg, <a message that cannot succeed>] as one proposal; nothing is
// written.
func (c *Chain) DoomedProposal(msg sdk.Msg) {
	gov := authtypes.NewModuleAddress(govtypes.ModuleName)
	huge, _ := sdkmath.NewIntFromString("1000000000000000000000000000000000000000")
	poison := banktypes.NewMsgSend(gov, gov, sdk.NewCoins(sdk.NewCoin(ProbeDenom, huge)))
	if c.rec != nil {
		c.rec.doomed(c, msg)
	}
	func() {
		defer func() { _ = recover() }()
		if ok, _, _ := c.authorityBatch([]sdk.Msg{msg, poison}); ok {
			panic("harness: the doomed proposal succeeded")
		}
	}()
}

// authorityBatch runs msgs on one cache branch of the committed state; written only if every
// message succeeds.
func (c *Chain) authorityBatch(msgs []sdk.Msg) (ok bool, panicked bool, log string) {
	ctx, write := c.Ctx().CacheContext()
	defer func() {
		if r := recover(); r != nil {
			ok, panicked, log = false, true, fmt.Sprint("panic: ", r)
		}
	}()
	for _, msg := range msgs {
		handler := c.App.MsgServiceRouter().Handler(msg)
		if handler == nil {
			return false, false, "no handler"
		}
		if _, err := handler(ctx, msg); err != nil {
			return false, false, err.Error()
		}
	}
	write()
	return true, false, ""
}

// GovAuthority is the address allowed to update parameters.
func GovAuthority() string { return authtypes.NewModuleAddress(govtypes.ModuleName).String() }

// Bal returns a balance as int64 (panics when it does not fit).
func (c *Chain) Bal(ctx sdk.Context, addr sdk.AccAddress, denom string) sdkmath.Int {
	return c.App.BankKeeper.GetBalance(ctx, addr, denom).Amount
}

// Supply returns a denom's total supply.
func (c *Chain) Supply(ctx sdk.Context, denom string) sdkmath.Int {
	return c.App.BankKeeper.GetSupply(ctx, denom).Amount
}

// FeePool is the combined balance of the fee collector and the distribution
// module account (the SDK's distribution begin-blocker moves the former into
// the latter every block, so only the sum is stable between events).
func (c *Chain) FeePool(ctx sdk.Context, denom string) sdkmath.Int {
	a := c.Bal(ctx, ModuleAddr(authtypes.FeeCollectorName), denom)
	b := c.Bal(ctx, ModuleAddr(distrtypes.ModuleName), denom)
	return a.Add(b)
}

// Restart constructs a new application on the same database, as a process
// restart would: everything not in the store is rebuilt.
func (c *Chain) Restart() *Chain {
	o := c.opts
	o.DB = c.DB
	o.SkipInit = true
	n := New(o)
	n.Time = c.Time
	n.Project = c.Project
	n.ValPub = c.ValPub
	n.Genesis = c.Genesis
	return n
}

// StoreDigest hashes the ordered key/value dump of every store.
func (c *Chain) StoreDigest() string {
	ctx := c.Ctx()
	h := sha256.New()
	keys := c.App.UnsafeFindStoreKey
	_ = keys
	names := c.storeNames()
	for _, n := range names {
		k := c.App.UnsafeFindStoreKey(n)
		if k == nil {
			continue
		}
		it := ctx.KVStore(k).Iterator(nil, nil)
		fmt.Fprintf(h, "store:%s\n", n)
		for ; it.Valid(); it.Next() {
			fmt.Fprintf(h, "%x=%x\n", it.Key(), it.Value())
		}
		it.Close()
	}
	return hex.EncodeToString(h.Sum(nil))
}

// PerStoreDigest returns a digest per store (diagnostics for divergences).
func (c *Chain) PerStoreDigest() map[string]string {
	ctx := c.Ctx()
	out := map[string]string{}
	for _, n := range c.storeNames() {
		k := c.App.UnsafeFindStoreKey(n)
		if k == nil {
			continue
		}
		h := sha256.New()
		it := ctx.KVStore(k).Iterator(nil, nil)
		for ; it.Valid(); it.Next() {
			fmt.Fprintf(h, "%x=%x\n", it.Key(), it.Value())
		}
		it.Close()
		out[n] = hex.EncodeToString(h.Sum(nil))[:16]
	}
	return out
}

func (c *Chain) storeNames() []string {
	var names []string
	for _, k := range c.App.GetStoreKeys() {
		if _, ok := k.(*storetypes.KVStoreKey); ok {
			names = append(names, k.Name())
		}
	}
	sort.Strings(names)
	return names
}

// RawResult is what a raw block did (replica runs).
type RawResult struct {
	Halt    bool
	HaltMsg string
	AppHash []byte
	Txs     []*abci.ExecTxResult
}

// RunRawBlock executes a recorded block byte-for-byte.
func (c *Chain) RunRawBlock(height int64, t time.Time, raw [][]byte) (res RawResult) {
	if c.halted {
		return RawResult{Halt: true, HaltMsg: "chain already halted"}
	}
	func() {
		defer func() {
			if r := recover(); r != nil {
				res.Halt = true
				res.HaltMsg = fmt.Sprint("panic: ", r)
			}
		}()
		fin, err := c.App.FinalizeBlock(&abci.RequestFinalizeBlock{Height: height, Time: t, Txs: raw, Hash: blockHash(height)})
		if err != nil {
			res.Halt, res.HaltMsg = true, "FinalizeBlock: "+err.Error()
			return
		}
		if _, err = c.App.Commit(); err != nil {
			res.Halt, res.HaltMsg = true, "Commit: "+err.Error()
			return
		}
		res.AppHash = fin.AppHash
		res.Txs = fin.TxResults
	}()
	c.closeBundle("")
	if res.Halt {
		c.halted = true
		return res
	}
	c.Height, c.Time = height, t
	return res
}

// AuthorityJSON replays a recorded authority message (codec JSON of the Any).
func (c *Chain) AuthorityJSON(js string) (ok bool, panicked bool, log string) {
	if strings.HasPrefix(js, DoomedPrefix) {
		var msg sdk.Msg
		if err := c.App.AppCodec().UnmarshalInterfaceJSON([]byte(js[len(DoomedPrefix):]), &msg); err != nil {
			return false, false, "decode: " + err.Error()
		}
		rec := c.rec
		c.rec = nil
		c.DoomedProposal(msg)
		c.rec = rec
		return false, false, "doomed"
	}
	var msg sdk.Msg
	if err := c.App.AppCodec().UnmarshalInterfaceJSON([]byte(js), &msg); err != nil {
		return false, false, "decode: " + err.Error()
	}
	// a replayed recording carries its own doomed proposals
	noise := c.propNoise
	c.propNoise = false
	defer func() { c.propNoise = noise }()
	return c.Authority(msg)
}

// ExportGenesis exports the application state as genesis JSON from a cache
// branch of the committed state (nothing is written).  With zeroHeight the
// irismod modules' own PrepForZeroHeightGenesis steps run first, as an
// application does before a restart export.
func (c *Chain) ExportGenesis(zeroHeight bool, prep func(ctx sdk.Context)) (out map[string]json.RawMessage, err error) {
	defer func() {
		if r := recover(); r != nil {
			err = fmt.Errorf("export panic: %v", r)
		}
	}()
	ctx, _ := c.Ctx().CacheContext()
	if zeroHeight && prep != nil {
		prep(ctx)
	}
	gs, e := c.App.ModuleManager.ExportGenesisForModules(ctx, c.App.AppCodec(), nil)
	if e != nil {
		return nil, e
	}
	return gs, nil
}

// ResultsDigest hashes what C11 calls transaction results: code, codespace, data
// and gas (the deterministic part of a result, which CometBFT hashes into the
// block's LastResultsHash) — not events or logs.
func ResultsDigest(txs []*abci.ExecTxResult) string {
	h := sha256.New()
	for _, t := range txs {
		fmt.Fprintf(h, "%d|%s|%x|%d|%d\n", t.Code, t.Codespace, t.Data, t.GasWanted, t.GasUsed)
	}
	return hex.EncodeToString(h.Sum(nil))
}
