// Package evmledger is a transactional ERC20 ledger (state kept in the KV store) that
// implements the token module's EVMKeeper (and ICS20Keeper) interfaces for the
// verification harnesses.
//
// Why not the repository's mock (keeper.ProvideMockEVM)?  That mock keeps the
// contracts in a Go map: a transaction that fails after the EVM call keeps its
// ERC20 side effects (not transactional), the state is lost on restart, it is
// not part of the application state that replicas compare, and it never bumps
// the deployer's nonce, so two deployments get the same contract address.
//
// This ledger keeps ALL its state (contracts, balances) inside the token
// module's own KV store, under the otherwise unused key prefix 0xEE, accessed
// through ctx.KVStore(key).  Consequences:
//
//   - it participates in the SDK's cache-wrapping: a failed transaction (or a
//     discarded CacheContext) rolls the ERC20 side back together with the bank
//     side, exactly like a real EVM module whose state lives in the multistore;
//   - it survives an application restart on the same database, is exported by
//     no genesis (like a real EVM's state it belongs to another module) and is
//     included in store digests;
//   - the object itself holds no mutable state besides the binding to the
//     running application (store key and account keeper), which the chain
//     package refreshes on every NewSimApp through BindApp.
//
// Failure injection is a pure function of the message content, so replicas that
// replay the same transactions behave identically: three deterministic "quirky"
// accounts (derived exactly like chain.DetKey derives user keys) misbehave:
//
//	evrevert  every mint to / burn from this address reverts
//	evshort   a mint credits amount-1, a burn debits amount-1 (the keeper's
//	          post-balance check must catch it)
//	evnokey   SupportedKey reports false for this account's public key
//
// and the creation of a contract whose NAME is "evrevert" reverts.
//
// The ledger decodes the ABI calls the keeper makes (contract creation through
// the TokenProxy constructor, balanceOf, mint, burn) plus name, symbol,
// decimals, totalSupply, transfer and swapToNative (which burns the caller's
// tokens and returns the SwapToNative log for the keeper's PostTxProcessing hook).
package evmledger

import (
	"context"
	"encoding/json"
	"fmt"
	"math/big"

	storetypes "cosmossdk.io/store/types"
	"github.com/cosmos/cosmos-sdk/crypto/keys/secp256k1"
	cryptotypes "github.com/cosmos/cosmos-sdk/crypto/types"
	sdk "github.com/cosmos/cosmos-sdk/types"
	"github.com/ethereum/go-ethereum/accounts/abi"
	"github.com/ethereum/go-ethereum/common"
	"github.com/ethereum/go-ethereum/core"
	ethtypes "github.com/ethereum/go-ethereum/core/types"
	"github.com/ethereum/go-ethereum/core/vm"
	"github.com/ethereum/go-ethereum/crypto"

	"mods.irisnet.org/modules/token/contracts"
	tokentypes "mods.irisnet.org/modules/token/types"
	"mods.irisnet.org/simapp"
)

// Quirk account names (also valid chain account names).
const (
	QuirkRevert = "evrevert"
	QuirkShort  = "evshort"
	QuirkNoKey  = "evnokey"
)

var (
	prefix         = []byte{0xEE}
	prefixContract = []byte{0xEE, 0x01}
	prefixBalance  = []byte{0xEE, 0x02}
	prefixBeacon   = []byte{0xEE, 0x03} // beacon address -> implementation address

	_ tokentypes.EVMKeeper   = (*Ledger)(nil)
	_ tokentypes.ICS20Keeper = ICS20{}
)

// accountKeeper is the part of the auth keeper the ledger uses to bump the
// deployer's nonce on contract creation (as a real EVM does).
type accountKeeper interface {
	GetAccount(context.Context, sdk.AccAddress) sdk.AccountI
	SetAccount(context.Context, sdk.AccountI)
}

// Ledger implements tokentypes.EVMKeeper.
type Ledger struct {
	key storetypes.StoreKey
	ak  accountKeeper
}

// New returns an unbound ledger; the chain package binds it to every
// application instance it builds (BindApp).
func New() *Ledger { return &Ledger{} }

// BindApp binds the ledger to an application instance: the token module's store
// key (a new pointer on every NewSimApp) and the account keeper.
func (l *Ledger) BindApp(app *simapp.SimApp) {
	l.key = app.UnsafeFindStoreKey(tokentypes.StoreKey)
	l.ak = app.AccountKeeper
}

// ICS20 returns the companion ICS20Keeper: a denom has a trace iff it starts
// with "ibc/".
func (l *Ledger) ICS20() tokentypes.ICS20Keeper { return ICS20{} }

// ICS20 implements tokentypes.ICS20Keeper.
type ICS20 struct{}

// HasTrace implements tokentypes.ICS20Keeper.
func (ICS20) HasTrace(ctx sdk.Context, denom string) bool {
	return len(denom) > 4 && denom[:4] == "ibc/"
}

// QuirkKey is the private key of a quirk account (same derivation as chain.DetKey).
func QuirkKey(name string) cryptotypes.PrivKey {
	return secp256k1.GenPrivKeyFromSecret([]byte("verif-account-" + name))
}

// QuirkAddr is the 20-byte address of a quirk account.
func QuirkAddr(name string) common.Address {
	return common.BytesToAddress(QuirkKey(name).PubKey().Address())
}

var (
	addrRevert = QuirkAddr(QuirkRevert)
	addrShort  = QuirkAddr(QuirkShort)
	addrNoKey  = QuirkAddr(QuirkNoKey)
)

// ChainID implements tokentypes.EVMKeeper.
func (l *Ledger) ChainID() *big.Int { return big.NewInt(16688) }

// EstimateGas implements tokentypes.EVMKeeper.
func (l *Ledger) EstimateGas(ctx context.Context, req *tokentypes.EthCallRequest) (uint64, error) {
	return 3000000, nil
}

// SupportedKey implements tokentypes.EVMKeeper.
func (l *Ledger) SupportedKey(pubKey cryptotypes.PubKey) bool {
	if pubKey == nil {
		return true
	}
	return common.BytesToAddress(pubKey.Address()) != addrNoKey
}

type meta struct {
	Name   string `json:"name"`
	Symbol string `json:"symbol"`
	Scale  uint8  `json:"scale"`
}

func (l *Ledger) store(ctx sdk.Context) storetypes.KVStore {
	if l.key == nil {
		panic("evmledger: not bound to an application (BindApp)")
	}
	return ctx.KVStore(l.key)
}

func contractKey(c common.Address) []byte { return append(append([]byte{}, prefixContract...), c.Bytes()...) }
func balanceKey(c, a common.Address) []byte {
	return append(append(append([]byte{}, prefixBalance...), c.Bytes()...), a.Bytes()...)
}

func (l *Ledger) getMeta(ctx sdk.Context, c common.Address) (meta, bool) {
	bz := l.store(ctx).Get(contractKey(c))
	if bz == nil {
		return meta{}, false
	}
	var m meta
	if err := json.Unmarshal(bz, &m); err != nil {
		panic(err)
	}
	return m, true
}

// BalanceOf reads a balance directly (projection).
func (l *Ledger) BalanceOf(ctx sdk.Context, c, a common.Address) *big.Int {
	bz := l.store(ctx).Get(balanceKey(c, a))
	return new(big.Int).SetBytes(bz)
}

func (l *Ledger) setBalance(ctx sdk.Context, c, a common.Address, v *big.Int) {
	if v.Sign() < 0 {
		panic("evmledger: negative balance")
	}
	if v.Sign() == 0 {
		l.store(ctx).Delete(balanceKey(c, a))
		return
	}
	l.store(ctx).Set(balanceKey(c, a), v.Bytes())
}

// Contracts lists the deployed contracts in store order.
func (l *Ledger) Contracts(ctx sdk.Context) []common.Address {
	var out []common.Address
	it := storetypes.KVStorePrefixIterator(l.store(ctx), prefixContract)
	defer it.Close()
	for ; it.Valid(); it.Next() {
		out = append(out, common.BytesToAddress(it.Key()[len(prefixContract):]))
	}
	return out
}

// Balances returns every non-zero balance: contract -> holder -> amount.
func (l *Ledger) Balances(ctx sdk.Context) map[common.Address]map[common.Address]*big.Int {
	out := map[common.Address]map[common.Address]*big.Int{}
	it := storetypes.KVStorePrefixIterator(l.store(ctx), prefixBalance)
	defer it.Close()
	for ; it.Valid(); it.Next() {
		k := it.Key()[len(prefixBalance):]
		c, a := common.BytesToAddress(k[:20]), common.BytesToAddress(k[20:40])
		if out[c] == nil {
			out[c] = map[common.Address]*big.Int{}
		}
		out[c][a] = new(big.Int).SetBytes(it.Value())
	}
	return out
}

// TotalSupply sums the balances of one contract.
func (l *Ledger) TotalSupply(ctx sdk.Context, c common.Address) *big.Int {
	sum := new(big.Int)
	for _, v := range l.Balances(ctx)[c] {
		sum.Add(sum, v)
	}
	return sum
}

func reverted(reason string) (*tokentypes.Result, error) {
	return &tokentypes.Result{VMError: vm.ErrExecutionReverted.Error(), Ret: []byte(reason)}, nil
}

// ApplyMessage implements tokentypes.EVMKeeper.  With commit=false the call is
// executed on a discarded cache branch (eth_call semantics).
func (l *Ledger) ApplyMessage(ctx sdk.Context, msg core.Message, tracer vm.EVMLogger, commit bool) (*tokentypes.Result, error) {
	if !commit {
		cctx, _ := ctx.CacheContext()
		return l.apply(cctx, msg)
	}
	return l.apply(ctx, msg)
}

func (l *Ledger) apply(ctx sdk.Context, msg core.Message) (*tokentypes.Result, error) {
	if msg.To() == nil {
		return l.create(ctx, msg)
	}
	c := *msg.To()
	m, ok := l.getMeta(ctx, c)
	if !ok {
		// not an ERC20 of this ledger: the UpgradeableBeacon at params.Beacon
		// (UpgradeERC20 calls upgradeTo(implementation) on it)
		if res, handled := l.beaconCall(ctx, c, msg.Data()); handled {
			return res, nil
		}
		return nil, fmt.Errorf("evmledger: contract %s not found", c.Hex())
	}
	data := msg.Data()
	if len(data) < 4 {
		return reverted("no selector")
	}
	erc := contracts.ERC20TokenContract.ABI
	method, err := erc.MethodById(data[:4])
	if err != nil {
		return reverted("unknown selector")
	}
	args, err := method.Inputs.Unpack(data[4:])
	if err != nil {
		return reverted("bad arguments")
	}
	ret, logs, revert, err := l.call(ctx, c, m, msg.From(), method, args)
	if err != nil {
		return nil, err
	}
	if revert != "" {
		return reverted(revert)
	}
	return &tokentypes.Result{Hash: c.Hex(), Ret: ret, Logs: logs}, nil
}

// beaconCall: any address without ERC20 code answers the beacon's upgradeTo and
// implementation methods; upgrading to the quirk address evrevert reverts
// (BeaconInvalidImplementation in the real contract).
func (l *Ledger) beaconCall(ctx sdk.Context, beacon common.Address, data []byte) (*tokentypes.Result, bool) {
	if len(data) < 4 {
		return nil, false
	}
	babi := contracts.BeaconContract.ABI
	method, err := babi.MethodById(data[:4])
	if err != nil {
		return nil, false
	}
	key := append(append([]byte{}, prefixBeacon...), beacon.Bytes()...)
	switch method.Name {
	case contracts.MethodUpgradeTo:
		args, err := method.Inputs.Unpack(data[4:])
		if err != nil {
			res, _ := reverted("bad arguments")
			return res, true
		}
		impl := args[0].(common.Address)
		if impl == addrRevert {
			res, _ := reverted("BeaconInvalidImplementation")
			return res, true
		}
		l.store(ctx).Set(key, impl.Bytes())
		return &tokentypes.Result{Hash: beacon.Hex()}, true
	case "implementation":
		out, _ := method.Outputs.Pack(common.BytesToAddress(l.store(ctx).Get(key)))
		return &tokentypes.Result{Hash: beacon.Hex(), Ret: out}, true
	}
	return nil, false
}

// Implementation returns the implementation recorded for a beacon (zero if none).
func (l *Ledger) Implementation(ctx sdk.Context, beacon common.Address) (common.Address, bool) {
	bz := l.store(ctx).Get(append(append([]byte{}, prefixBeacon...), beacon.Bytes()...))
	return common.BytesToAddress(bz), bz != nil
}

// ForgedLog builds a SwapToNative log as a contract at `addr` would emit it,
// without any balance moving (the token keeper's hook is exercised on logs of
// contracts it does not know and on malformed logs).
func ForgedLog(addr, from common.Address, to string, amount *big.Int) (*ethtypes.Log, error) {
	ev := contracts.ERC20TokenContract.ABI.Events[contracts.EventSwapToNative]
	data, err := ev.Inputs.Pack(from, to, amount)
	if err != nil {
		return nil, err
	}
	return &ethtypes.Log{Address: addr, Topics: []common.Hash{ev.ID}, Data: data}, nil
}

func (l *Ledger) create(ctx sdk.Context, msg core.Message) (*tokentypes.Result, error) {
	bin := contracts.TokenProxyContract.Bin
	data := msg.Data()
	if len(data) < len(bin) {
		return reverted("not a TokenProxy creation")
	}
	args, err := contracts.TokenProxyContract.ABI.Constructor.Inputs.Unpack(data[len(bin):])
	if err != nil {
		return nil, err
	}
	init, _ := args[1].([]byte)
	if len(init) < 4 {
		return reverted("no initializer")
	}
	iargs, err := contracts.ERC20TokenContract.ABI.Methods[contracts.MethodInitialize].Inputs.Unpack(init[4:])
	if err != nil {
		return nil, err
	}
	name, _ := iargs[0].(string)
	symbol, _ := iargs[1].(string)
	scale, _ := iargs[2].(uint8)
	if name == QuirkRevert {
		// failure injection: the creation of a contract NAMED evrevert reverts
		// (DeployERC20 must bind nothing)
		return reverted("creation reverted (quirk)")
	}
	addr := crypto.CreateAddress(msg.From(), msg.Nonce())
	if _, exists := l.getMeta(ctx, addr); exists {
		return reverted("contract address collision")
	}
	bz, _ := json.Marshal(meta{Name: name, Symbol: symbol, Scale: scale})
	l.store(ctx).Set(contractKey(addr), bz)
	// a real EVM increments the creator's nonce
	if l.ak != nil {
		if acc := l.ak.GetAccount(ctx, sdk.AccAddress(msg.From().Bytes())); acc != nil {
			if err := acc.SetSequence(acc.GetSequence() + 1); err != nil {
				return nil, err
			}
			l.ak.SetAccount(ctx, acc)
		}
	}
	return &tokentypes.Result{Hash: addr.Hex()}, nil
}

func (l *Ledger) call(ctx sdk.Context, c common.Address, m meta, from common.Address, method *abi.Method, args []interface{}) (ret []byte, logs []*ethtypes.Log, revert string, err error) {
	pack := func(v ...interface{}) ([]byte, []*ethtypes.Log, string, error) {
		out, err := method.Outputs.Pack(v...)
		return out, nil, "", err
	}
	switch method.Name {
	case "name":
		return pack(m.Name)
	case "symbol":
		return pack(m.Symbol)
	case "decimals":
		return pack(m.Scale)
	case "totalSupply":
		return pack(l.TotalSupply(ctx, c))
	case "balanceOf":
		return pack(l.BalanceOf(ctx, c, args[0].(common.Address)))
	case "mint":
		to, amt := args[0].(common.Address), args[1].(*big.Int)
		if to == addrRevert {
			return nil, nil, "mint reverted (quirk)", nil
		}
		credit := new(big.Int).Set(amt)
		if to == addrShort && credit.Sign() > 0 {
			credit.Sub(credit, big.NewInt(1))
		}
		l.setBalance(ctx, c, to, new(big.Int).Add(l.BalanceOf(ctx, c, to), credit))
		return nil, nil, "", nil
	case "burn":
		acct, amt := args[0].(common.Address), args[1].(*big.Int)
		if acct == addrRevert {
			return nil, nil, "burn reverted (quirk)", nil
		}
		bal := l.BalanceOf(ctx, c, acct)
		if bal.Cmp(amt) < 0 {
			return nil, nil, "ERC20InsufficientBalance", nil
		}
		debit := new(big.Int).Set(amt)
		if acct == addrShort && debit.Sign() > 0 {
			debit.Sub(debit, big.NewInt(1))
		}
		l.setBalance(ctx, c, acct, new(big.Int).Sub(bal, debit))
		return nil, nil, "", nil
	case "transfer":
		to, amt := args[0].(common.Address), args[1].(*big.Int)
		bal := l.BalanceOf(ctx, c, from)
		if bal.Cmp(amt) < 0 {
			return nil, nil, "ERC20InsufficientBalance", nil
		}
		l.setBalance(ctx, c, from, new(big.Int).Sub(bal, amt))
		l.setBalance(ctx, c, to, new(big.Int).Add(l.BalanceOf(ctx, c, to), amt))
		return pack(true)
	case "swapToNative":
		// Token.sol: _burn(msg.sender, amount); emit SwapToNative(sender, to, amount)
		to, amt := args[0].(string), args[1].(*big.Int)
		if len(to) == 0 {
			return nil, nil, "to must be vaild iaa address", nil
		}
		bal := l.BalanceOf(ctx, c, from)
		if bal.Cmp(amt) < 0 {
			return nil, nil, "ERC20InsufficientBalance", nil
		}
		l.setBalance(ctx, c, from, new(big.Int).Sub(bal, amt))
		ev := contracts.ERC20TokenContract.ABI.Events[contracts.EventSwapToNative]
		data, err := ev.Inputs.Pack(from, to, amt)
		if err != nil {
			return nil, nil, "", err
		}
		return nil, []*ethtypes.Log{{Address: c, Topics: []common.Hash{ev.ID}, Data: data}}, "", nil
	}
	return nil, nil, "unsupported method " + method.Name, nil
}

// SwapToNativeCall builds the message a holder would send to the contract to
// convert ERC20 tokens back (Token.sol swapToNative).
func SwapToNativeCall(from, contract common.Address, to string, amount *big.Int) (core.Message, error) {
	data, err := contracts.ERC20TokenContract.ABI.Pack("swapToNative", to, amount)
	if err != nil {
		return nil, err
	}
	return ethtypes.NewMessage(from, &contract, 0, big.NewInt(0), 3000000, big.NewInt(0), big.NewInt(0),
		big.NewInt(0), data, ethtypes.AccessList{}, false), nil
}
