module verif/harness

go 1.21

require (
	cosmossdk.io/collections v0.4.0
	cosmossdk.io/depinject v1.0.0
	cosmossdk.io/log v1.4.1
	cosmossdk.io/math v1.3.0
	cosmossdk.io/store v1.1.1
	github.com/cometbft/cometbft v0.38.12
	github.com/cosmos/cosmos-db v1.0.2
	github.com/cosmos/cosmos-sdk v0.50.10
	github.com/cosmos/gogoproto v1.7.0
	github.com/ethereum/go-ethereum v1.10.26
	mods.irisnet.org/e2e v0.0.0
	mods.irisnet.org/modules/coinswap v0.0.0-20240725053619-ef0885f8eb03
	mods.irisnet.org/modules/farm v0.0.0-20240725053619-ef0885f8eb03
	mods.irisnet.org/modules/htlc v0.0.0-20240725053619-ef0885f8eb03
	mods.irisnet.org/modules/mt v0.0.0-20240725053619-ef0885f8eb03
	mods.irisnet.org/modules/nft v0.0.0-20240725053619-ef0885f8eb03
	mods.irisnet.org/modules/oracle v0.0.0-20240725053619-ef0885f8eb03
	mods.irisnet.org/modules/random v0.0.0-20240725053619-ef0885f8eb03
	mods.irisnet.org/modules/record v0.0.0-20240725053619-ef0885f8eb03
	mods.irisnet.org/modules/service v0.0.0-20241118093307-345265846e1d
	mods.irisnet.org/modules/token v0.0.0-20240725053619-ef0885f8eb03
	mods.irisnet.org/simapp v0.0.0
)

require (
	cloud.google.com/go v0.112.1 // indirect
	cloud.google.com/go/compute/metadata v0.3.0 // indirect
	cloud.google.com/go/iam v1.1.6 // indirect
	cloud.google.com/go/storage v1.38.0 // indirect
	cosmossdk.io/api v0.7.5 // indirect
	cosmossdk.io/core v0.11.1 // indirect
	cosmossdk.io/errors v1.0.1 // indirect
	cosmossdk.io/x/evidence v0.1.1 // indirect
	cosmossdk.io/x/feegrant v0.1.1 // indirect
	cosmossdk.io/x/nft v0.1.1 // indirect
	cosmossdk.io/x/tx v0.13.5 // indirect
	cosmossdk.io/x/upgrade v0.1.4 // indirect
	filippo.io/edwards25519 v1.0.0 // indirect
	github.com/99designs/keyring v1.2.1 // indirect
	github.com/DataDog/datadog-go v3.2.0+incompatible // indirect
	github.com/VictoriaMetrics/fastcache v1.6.0 // indirect
	github.com/aws/aws-sdk-go v1.44.224 // indirect
	github.com/beorn7/perks v1.0.1 // indirect
	github.com/bgentry/go-netrc v0.0.0-20140422174119-9fd32a8b3d3d // indirect
	github.com/bgentry/speakeasy v0.1.1-0.20220910012023-760eaf8b6816 // indirect
	github.com/bits-and-blooms/bitset v1.8.0 // indirect
	github.com/btcsuite/btcd/btcec/v2 v2.3.4 // indirect
	github.com/cenkalti/backoff/v4 v4.1.3 // indirect
	github.com/cespare/xxhash/v2 v2.3.0 // indirect
	github.com/chzyer/readline v1.5.1 // indirect
	github.com/cockroachdb/apd/v2 v2.0.2 // indirect
	github.com/cockroachdb/errors v1.11.3 // indirect
	github.com/cockroachdb/logtags v0.0.0-20230118201751-21c54148d20b // indirect
	github.com/cockroachdb/redact v1.1.5 // indirect
	github.com/cometbft/cometbft-db v0.11.0 // indirect
	github.com/cosmos/btcutil v1.0.5 // indirect
	github.com/cosmos/cosmos-proto v1.0.0-beta.5 // indirect
	github.com/cosmos/go-bip39 v1.0.0 // indirect
	github.com/cosmos/gogogateway v1.2.0 // indirect
	github.com/cosmos/iavl v1.2.0 // indirect
	github.com/cosmos/ics23/go v0.11.0 // indirect
	github.com/davecgh/go-spew v1.1.2-0.20180830191138-d8f796af33cc // indirect
	github.com/deckarep/golang-set v1.8.0 // indirect
	github.com/decred/dcrd/dcrec/secp256k1/v4 v4.2.0 // indirect
	github.com/desertbit/timer v0.0.0-20180107155436-c41aec40b27f // indirect
	github.com/dvsekhvalnov/jose2go v1.6.0 // indirect
	github.com/emicklei/dot v1.6.1 // indirect
	github.com/fatih/color v1.15.0 // indirect
	github.com/felixge/httpsnoop v1.0.4 // indirect
	github.com/fsnotify/fsnotify v1.7.0 // indirect
	github.com/getsentry/sentry-go v0.27.0 // indirect
	github.com/go-kit/kit v0.12.0 // indirect
	github.com/go-kit/log v0.2.1 // indirect
	github.com/go-logfmt/logfmt v0.6.0 // indirect
	github.com/go-logr/logr v1.4.1 // indirect
	github.com/go-logr/stdr v1.2.2 // indirect
	github.com/go-stack/stack v1.8.0 // indirect
	github.com/godbus/dbus v0.0.0-20190726142602-4481cbc300e2 // indirect
	github.com/gogo/googleapis v1.4.1 // indirect
	github.com/gogo/protobuf v1.3.2 // indirect
	github.com/golang/groupcache v0.0.0-20210331224755-41bb18bfe9da // indirect
	github.com/golang/mock v1.6.0 // indirect
	github.com/golang/protobuf v1.5.4 // indirect
	github.com/golang/snappy v0.0.4 // indirect
	github.com/google/btree v1.1.2 // indirect
	github.com/google/go-cmp v0.6.0 // indirect
	github.com/google/orderedcode v0.0.1 // indirect
	github.com/google/s2a-go v0.1.7 // indirect
	github.com/google/uuid v1.6.0 // indirect
	github.com/googleapis/enterprise-certificate-proxy v0.3.2 // indirect
	github.com/googleapis/gax-go/v2 v2.12.3 // indirect
	github.com/gorilla/handlers v1.5.1 // indirect
	github.com/gorilla/mux v1.8.0 // indirect
	github.com/gorilla/websocket v1.5.3 // indirect
	github.com/grpc-ecosystem/go-grpc-middleware v1.4.0 // indirect
	github.com/grpc-ecosystem/grpc-gateway v1.16.0 // indirect
	github.com/gsterjov/go-libsecret v0.0.0-20161001094733-a6f4afe4910c // indirect
	github.com/hashicorp/go-cleanhttp v0.5.2 // indirect
	github.com/hashicorp/go-getter v1.7.4 // indirect
	github.com/hashicorp/go-hclog v1.5.0 // indirect
	github.com/hashicorp/go-immutable-radix v1.3.1 // indirect
	github.com/hashicorp/go-metrics v0.5.3 // indirect
	github.com/hashicorp/go-plugin v1.5.2 // indirect
	github.com/hashicorp/go-safetemp v1.0.0 // indirect
	github.com/hashicorp/go-version v1.6.0 // indirect
	github.com/hashicorp/golang-lru v1.0.2 // indirect
	github.com/hashicorp/golang-lru/v2 v2.0.7 // indirect
	github.com/hashicorp/hcl v1.0.0 // indirect
	github.com/hashicorp/yamux v0.1.1 // indirect
	github.com/hdevalence/ed25519consensus v0.1.0 // indirect
	github.com/holiman/bloomfilter/v2 v2.0.3 // indirect
	github.com/holiman/uint256 v1.2.0 // indirect
	github.com/huandu/skiplist v1.2.0 // indirect
	github.com/iancoleman/strcase v0.3.0 // indirect
	github.com/improbable-eng/grpc-web v0.15.0 // indirect
	github.com/jmespath/go-jmespath v0.4.0 // indirect
	github.com/klauspost/compress v1.17.9 // indirect
	github.com/kr/pretty v0.3.1 // indirect
	github.com/kr/text v0.2.0 // indirect
	github.com/lib/pq v1.10.7 // indirect
	github.com/magiconair/properties v1.8.7 // indirect
	github.com/manifoldco/promptui v0.9.0 // indirect
	github.com/mattn/go-colorable v0.1.13 // indirect
	github.com/mattn/go-isatty v0.0.20 // indirect
	github.com/mattn/go-runewidth v0.0.9 // indirect
	github.com/minio/highwayhash v1.0.2 // indirect
	github.com/mitchellh/go-homedir v1.1.0 // indirect
	github.com/mitchellh/go-testing-interface v1.14.1 // indirect
	github.com/mitchellh/mapstructure v1.5.0 // indirect
	github.com/mtibben/percent v0.2.1 // indirect
	github.com/munnerz/goautoneg v0.0.0-20191010083416-a7dc8b61c822 // indirect
	github.com/oasisprotocol/curve25519-voi v0.0.0-20230904125328-1f23a7beb09a // indirect
	github.com/oklog/run v1.1.0 // indirect
	github.com/olekukonko/tablewriter v0.0.5 // indirect
	github.com/pelletier/go-toml/v2 v2.2.2 // indirect
	github.com/pkg/errors v0.9.1 // indirect
	github.com/pmezard/go-difflib v1.0.1-0.20181226105442-5d4384ee4fb2 // indirect
	github.com/prometheus/client_golang v1.20.1 // indirect
	github.com/prometheus/client_model v0.6.1 // indirect
	github.com/prometheus/common v0.55.0 // indirect
	github.com/prometheus/procfs v0.15.1 // indirect
	github.com/prometheus/tsdb v0.7.1 // indirect
	github.com/rcrowley/go-metrics v0.0.0-20201227073835-cf1acfcdf475 // indirect
	github.com/rogpeppe/go-internal v1.12.0 // indirect
	github.com/rs/cors v1.11.1 // indirect
	github.com/rs/zerolog v1.33.0 // indirect
	github.com/sagikazarmark/slog-shim v0.1.0 // indirect
	github.com/shirou/gopsutil v3.21.4-0.20210419000835-c7a38de76ee5+incompatible // indirect
	github.com/spf13/afero v1.11.0 // indirect
	github.com/spf13/cast v1.6.0 // indirect
	github.com/spf13/cobra v1.8.1 // indirect
	github.com/spf13/pflag v1.0.5 // indirect
	github.com/spf13/viper v1.19.0 // indirect
	github.com/stretchr/testify v1.9.0 // indirect
	github.com/subosito/gotenv v1.6.0 // indirect
	github.com/syndtr/goleveldb v1.0.1-0.20220721030215-126854af5e6d // indirect
	github.com/tendermint/go-amino v0.16.0 // indirect
	github.com/tidwall/btree v1.7.0 // indirect
	github.com/tidwall/gjson v1.14.4 // indirect
	github.com/tidwall/match v1.1.1 // indirect
	github.com/tidwall/pretty v1.2.0 // indirect
	github.com/tklauser/go-sysconf v0.3.5 // indirect
	github.com/tklauser/numcpus v0.2.2 // indirect
	github.com/ulikunitz/xz v0.5.11 // indirect
	github.com/xeipuuv/gojsonpointer v0.0.0-20180127040702-4e3ac2762d5f // indirect
	github.com/xeipuuv/gojsonreference v0.0.0-20180127040603-bd5ef7bd5415 // indirect
	github.com/xeipuuv/gojsonschema v1.2.0 // indirect
	go.opencensus.io v0.24.0 // indirect
	go.opentelemetry.io/contrib/instrumentation/google.golang.org/grpc/otelgrpc v0.49.0 // indirect
	go.opentelemetry.io/contrib/instrumentation/net/http/otelhttp v0.49.0 // indirect
	go.opentelemetry.io/otel v1.24.0 // indirect
	go.opentelemetry.io/otel/metric v1.24.0 // indirect
	go.opentelemetry.io/otel/trace v1.24.0 // indirect
	golang.org/x/crypto v0.26.0 // indirect
	golang.org/x/exp v0.0.0-20240404231335-c0f41cb1a7a0 // indirect
	golang.org/x/net v0.28.0 // indirect
	golang.org/x/oauth2 v0.21.0 // indirect
	golang.org/x/sync v0.8.0 // indirect
	golang.org/x/sys v0.24.0 // indirect
	golang.org/x/term v0.23.0 // indirect
	golang.org/x/text v0.17.0 // indirect
	golang.org/x/time v0.5.0 // indirect
	google.golang.org/api v0.171.0 // indirect
	google.golang.org/genproto v0.0.0-20240227224415-6ceb2ff114de // indirect
	google.golang.org/genproto/googleapis/api v0.0.0-20240318140521-94a12d6c2237 // indirect
	google.golang.org/genproto/googleapis/rpc v0.0.0-20240709173604-40e1e62336c5 // indirect
	google.golang.org/grpc v1.64.1 // indirect
	google.golang.org/protobuf v1.34.2 // indirect
	gopkg.in/ini.v1 v1.67.0 // indirect
	gopkg.in/yaml.v2 v2.4.0 // indirect
	gopkg.in/yaml.v3 v3.0.1 // indirect
	gotest.tools/v3 v3.5.1 // indirect
	mods.irisnet.org/api v0.0.0-20241121030837-903540d1123f // indirect
	nhooyr.io/websocket v1.8.6 // indirect
	pgregory.net/rapid v1.1.0 // indirect
	sigs.k8s.io/yaml v1.4.0 // indirect
)

replace (
	github.com/99designs/keyring => github.com/cosmos/keyring v1.2.0
	github.com/dgrijalva/jwt-go => github.com/golang-jwt/jwt/v4 v4.4.2
	github.com/gin-gonic/gin => github.com/gin-gonic/gin v1.9.0
	github.com/syndtr/goleveldb => github.com/syndtr/goleveldb v1.0.1-0.20210819022825-2ae1ddf74ef7
	mods.irisnet.org/api => /repo/api
	mods.irisnet.org/e2e => /repo/e2e
	mods.irisnet.org/modules/coinswap => /repo/modules/coinswap
	mods.irisnet.org/modules/farm => /repo/modules/farm
	mods.irisnet.org/modules/htlc => /repo/modules/htlc
	mods.irisnet.org/modules/mt => /repo/modules/mt
	mods.irisnet.org/modules/nft => /repo/modules/nft
	mods.irisnet.org/modules/oracle => /repo/modules/oracle
	mods.irisnet.org/modules/random => /repo/modules/random
	mods.irisnet.org/modules/record => /repo/modules/record
	mods.irisnet.org/modules/service => /repo/modules/service
	mods.irisnet.org/modules/token => /repo/modules/token
	mods.irisnet.org/simapp => /repo/simapp
)
