// Command harness-tokenbig (C10, big-number tier): calls the real
// types.LossLessSwap on amounts up to 2^128, every pair of scales 0..18 and
// arbitrary 18-decimal ratios (values TLC's 32-bit integers cannot hold) and
// writes what the function returned as JSON rows; bin/check turns the rows into
// a TLA+ module whose invariant — the same SwapClauses.tla operators TLC checks
// on the small table — is evaluated by Apalache/Z3 on unbounded integers.
package main

import (
	"encoding/json"
	"fmt"
	"math/big"
	"math/rand"
	"os"

	sdkmath "cosmossdk.io/math"

	"verif/harness/drv"

	tokentypes "mods.irisnet.org/modules/token/types"
)

func main() { drv.Main("tokenbig", driver) }

type row struct {
	Inp  string `json:"inp"`
	Rn   string `json:"rn"` // ratio mantissa: ratio = rn / 10^18
	Rd   string `json:"rd"`
	SIn  int    `json:"sin"`
	SOut int    `json:"sout"`
	WIn  string `json:"wIn"`
	WOut string `json:"wOut"`
	Burn string `json:"burn"`
	Mint string `json:"mint"`
	Pan  bool   `json:"pan"`
}

func pow10(k int) *big.Int { return new(big.Int).Exp(big.NewInt(10), big.NewInt(int64(k)), nil) }

func call(input *big.Int, ratio sdkmath.LegacyDec, sIn, sOut int) (r row) {
	one18 := pow10(18)
	r = row{Inp: input.String(), Rn: ratio.BigInt().String(), Rd: one18.String(), SIn: sIn, SOut: sOut, Burn: "0", Mint: "0"}
	if sIn >= sOut {
		r.WIn, r.WOut = pow10(sIn-sOut).String(), "1"
	} else {
		r.WIn, r.WOut = "1", pow10(sOut-sIn).String()
	}
	defer func() {
		if e := recover(); e != nil {
			r.Pan = true
		}
	}()
	burn, mint := tokentypes.LossLessSwap(sdkmath.NewIntFromBigInt(input), ratio, uint32(sIn), uint32(sOut))
	r.Burn, r.Mint = burn.String(), mint.String()
	return r
}

// magnitude strata [lo, hi) as powers of two
var strata = [][2]uint{{0, 31}, {31, 32}, {32, 53}, {53, 63}, {63, 64}, {64, 65}, {95, 97}, {127, 129}}

// inStratum draws a value of stratum i with busy low bits.
func inStratum(rng *rand.Rand, i int) *big.Int {
	lo := new(big.Int).Lsh(big.NewInt(1), strata[i][0])
	if strata[i][0] == 0 {
		lo = big.NewInt(1)
	}
	hi := new(big.Int).Lsh(big.NewInt(1), strata[i][1])
	v := new(big.Int).Rand(rng, new(big.Int).Sub(hi, lo))
	v.Add(v, lo)
	if v.Bit(0) == 0 && v.Cmp(new(big.Int).Sub(hi, big.NewInt(1))) < 0 {
		v.Add(v, big.NewInt(1))
	}
	return v
}

const nRatioClasses = 6

// ratioClass: 0 exactly one, 1 simple below one, 2 residue-rich below one, 3
// residue-rich above one, 4 numerator in [2^63, 2^64), 5 numerator >= 2^64
func ratioClass(rng *rand.Rand, c int) sdkmath.LegacyDec {
	switch c % nRatioClasses {
	case 0:
		return sdkmath.LegacyOneDec()
	case 1:
		return sdkmath.LegacyMustNewDecFromStr([]string{"0.5", "0.3", "0.25"}[rng.Intn(3)])
	case 2:
		return sdkmath.LegacyNewDecFromBigIntWithPrec(inStratum(rng, 3), 18) // 0.009 .. 9.2
	case 3:
		m := new(big.Int).Add(pow10(18), inStratum(rng, 3))
		return sdkmath.LegacyNewDecFromBigIntWithPrec(m, 18)
	case 4:
		return sdkmath.LegacyNewDecFromBigIntWithPrec(inStratum(rng, 4), 18)
	default:
		return sdkmath.LegacyNewDecFromBigIntWithPrec(inStratum(rng, 5+rng.Intn(2)), 18)
	}
}

func driver(mode string, fl *drv.Flags) error {
	if mode != "rows" {
		return fmt.Errorf("unknown mode %q", mode)
	}
	rng := rand.New(rand.NewSource(fl.Seed))
	var rows []row
	if fl.In != "" {
		// replay: recompute recorded inputs
		var old []row
		bz, err := os.ReadFile(fl.In)
		if err != nil {
			return err
		}
		if err := json.Unmarshal(bz, &old); err != nil {
			return err
		}
		for _, o := range old {
			in, _ := new(big.Int).SetString(o.Inp, 10)
			m, _ := new(big.Int).SetString(o.Rn, 10)
			rows = append(rows, call(in, sdkmath.LegacyNewDecFromBigIntWithPrec(m, 18), o.SIn, o.SOut))
		}
		f, err := os.Create(fl.Out)
		if err != nil {
			return err
		}
		defer f.Close()
		return json.NewEncoder(f).Encode(rows)
	}
	// ratios: residue-rich 18-decimal mantissas, boundaries, and simple ones
	special := []string{"0.666666666666666667", "0.333333333333333333", "0.999999999999999995", "1.234567890123456789",
		"0.000000000000000001", "0.000000000000000003", "1.000000000000000001", "0.999999999999999999",
		"1", "0.5", "2", "1.5", "0.3", "10", "123456.789012345678901234", "0.000001000000000007", "3.141592653589793238"}
	ratio := func() sdkmath.LegacyDec {
		if rng.Intn(3) == 0 {
			return sdkmath.LegacyMustNewDecFromStr(special[rng.Intn(len(special))])
		}
		// random mantissa with 1..24 significant digits
		digits := 1 + rng.Intn(24)
		m := new(big.Int).Rand(rng, pow10(digits))
		if m.Sign() == 0 {
			m = big.NewInt(1)
		}
		return sdkmath.LegacyNewDecFromBigIntWithPrec(m, 18)
	}
	amount := func() *big.Int {
		switch rng.Intn(6) {
		case 0:
			return big.NewInt(int64(rng.Intn(5000)))
		case 1:
			return new(big.Int).Lsh(big.NewInt(1), uint(rng.Intn(128)))
		case 2:
			return new(big.Int).Sub(new(big.Int).Lsh(big.NewInt(1), 128), big.NewInt(int64(1+rng.Intn(3))))
		case 3:
			x := pow10(rng.Intn(30))
			return x.Add(x, big.NewInt(int64(rng.Intn(3))))
		default:
			return new(big.Int).Rand(rng, new(big.Int).Lsh(big.NewInt(1), uint(1+rng.Intn(128))))
		}
	}
	// MAGNITUDE STRATA: the operands of one call — the input amount, the scale
	// multiplier 10^|sIn-sOut| and the ratio's numerator — are drawn TOGETHER from
	// each stratum, and in mixed cells each operand fits a machine word while the
	// product does not (a fixed-width fast path is bit-identical to big-integer
	// arithmetic everywhere else).  Low bits are non-zero.
	for i := 0; i < len(strata); i++ { // A: input stratum x ratio class, equal scales
		for rc := 0; rc < nRatioClasses; rc++ {
			s := rng.Intn(19)
			rows = append(rows, call(inStratum(rng, i), ratioClass(rng, rc), s, s))
		}
	}
	for _, b := range []uint{53, 63, 64, 128} { // B: input * 10^k just below / at / above 2^b
		B := new(big.Int).Lsh(big.NewInt(1), b)
		for _, k := range []int{1, 3, 9, 18} {
			m := pow10(k)
			for side := 0; side < 2; side++ {
				// scale up by 10^k: input ~ 2^b / 10^k
				in := new(big.Int).Quo(B, m)
				if side == 0 {
					in.Sub(in, big.NewInt(int64(1+rng.Intn(3))))
				} else {
					in.Add(in, big.NewInt(int64(1+rng.Intn(3))))
				}
				if in.Sign() > 0 {
					base := rng.Intn(19 - k)
					rows = append(rows, call(in, ratioClass(rng, side), base, base+k))
				}
				// scale down by 10^k: the give-back multiplies by 10^k again; input ~ 2^b
				in2 := new(big.Int).Set(B)
				if side == 0 {
					in2.Sub(in2, big.NewInt(int64(1+rng.Intn(1000))))
				} else {
					in2.Add(in2, big.NewInt(int64(1+rng.Intn(1000))))
				}
				base := rng.Intn(19 - k)
				rows = append(rows, call(in2, ratioClass(rng, 1+side), base+k, base))
			}
		}
	}
	for _, b := range []uint{53, 63, 64, 128} { // C: input * ratio numerator crossing 2^b, both below it
		B := new(big.Int).Lsh(big.NewInt(1), b)
		for j := 0; j < 2; j++ {
			rn := inStratum(rng, 1+j) // numerator in [2^31,2^32) / [2^32,2^53): ratio ~1e-9 .. 1e-3
			in := new(big.Int).Quo(B, rn)
			in.Add(in, big.NewInt(int64(rng.Intn(5))-2))
			if in.Sign() > 0 {
				s := rng.Intn(19)
				rows = append(rows, call(in, sdkmath.LegacyNewDecFromBigIntWithPrec(rn, 18), s, s))
			}
		}
	}
	for i := 0; i < fl.N; i++ {
		sIn, sOut := rng.Intn(19), rng.Intn(19)
		if rng.Intn(4) == 0 {
			sOut = sIn
		}
		rows = append(rows, call(amount(), ratio(), sIn, sOut))
	}
	// a fixed corpus of hand-picked rows (scale gaps with residue-rich ratios)
	for _, c := range []struct {
		in   string
		r    string
		a, b int
	}{
		{"1000000000000000001", "0.666666666666666667", 18, 6},
		{"3000000000001", "0.333333333333333333", 18, 6},
		{"1999", "0.999999999999999995", 8, 6},
		{"3", "1.5", 0, 0}, {"1", "2", 1, 0}, {"4", "0.3", 0, 0},
		{"340282366920938463463374607431768211455", "1", 18, 0},
		{"340282366920938463463374607431768211455", "0.999999999999999999", 0, 18},
	} {
		in, _ := new(big.Int).SetString(c.in, 10)
		rows = append(rows, call(in, sdkmath.LegacyMustNewDecFromStr(c.r), c.a, c.b))
	}
	f, err := os.Create(fl.Out)
	if err != nil {
		return err
	}
	defer f.Close()
	return json.NewEncoder(f).Encode(rows)
}
