package main

// Harness for Service.tla (C07, C08, service part of C13).
//
// Model <-> chain mapping
//
//	accounts   "u1".."uN" users (any of them may be provider, owner, consumer,
//	           withdraw address), "deposit" = service_deposit_account,
//	           "request" = service_request_account, "feepool" =
//	           service_fee_collector (the collector the e2e app wires into the
//	           service keeper); "blocked" = the SDK fee collector (a blocked
//	           address, only used as an illegal withdraw address).
//	denom      a single denom "stake" (deposits, prices, fee caps); amounts are
//	           small integers, used verbatim.
//	time       one tick = 5 s; now = (block time - genesis time) / 5 s; the zero
//	           time is tick 0.
//	discounts  n/4 with n in 1..3 ("0.25","0.5","0.75"); n = 4 = no promotion.
//	context id "c<k>" = k-th request context created in the trace; every
//	           context carries rank = position of its real id (tx hash ++
//	           index) in byte order among all contexts of the trace.
//	request id "<ctx>-<batch>-<index>" (index in the filtered provider list).
//
// Module-owned contexts: the harness registers the callback module "verif" on
// the service keeper and performs the keeper calls a module would make
// (CreateRequestContext / Pause / Start / Kill / Update with moduleName) inside
// a real transaction: a carrier transaction (1-unit bank self-send of the
// "modsigner" account) is delivered and the keeper call runs on that
// transaction's own store branch from the chain's observation hook, so that
// ctx.TxBytes, height, time, atomicity and ordering are those of a message.

import (
	"encoding/binary"
	"encoding/hex"
	"fmt"
	"os"
	"sort"
	"strings"
	"time"

	sdkmath "cosmossdk.io/math"
	storetypes "cosmossdk.io/store/types"
	tmbytes "github.com/cometbft/cometbft/libs/bytes"
	sdk "github.com/cosmos/cosmos-sdk/types"
	authtypes "github.com/cosmos/cosmos-sdk/x/auth/types"
	banktypes "github.com/cosmos/cosmos-sdk/x/bank/types"
	gogotypes "github.com/cosmos/gogoproto/types"

	"verif/harness/chain"
	"verif/harness/drv"

	servicetypes "mods.irisnet.org/modules/service/types"
	"mods.irisnet.org/simapp"
)

func main() { drv.Main("service", serviceDriver) }

const (
	denom     = "stake"
	denom2    = "btc" // second price / fee denom; needs the exchange rate of the "oracle" module service
	tick      = 5 * time.Second
	modName   = "verif"
	modSigner = "modsigner"
	modDenom  = "modcoin"
	schemas   = `{"input":{"type":"object"},"output":{"type":"object"}}`
	input     = `{"header":{},"body":{}}`
	output    = `{"header":{},"body":{}}`
	resultOK  = `{"code":200,"message":""}`
	resultBad = `{"code":400,"message":"bad"}`
)

type firing struct {
	key   string // tx hash (hex) or "block"
	ctx   string // real context id (hex, upper case)
	batch int64
	outs  int64
	err   bool
	state bool // state callback (context paused by the module)
}

type modAction struct {
	ev    chain.M
	ok    bool
	panic bool
	log   string
}

type line struct {
	ev chain.M
	st any
}

type env struct {
	c       *chain.Chain
	fl      *drv.Flags
	users   []string
	names   map[string]string // bech32 -> name
	t0      time.Time
	off     map[string]sdkmath.Int
	rateN   int64 // exchange rate btc -> stake answered by the harness-owned module service: rateN/rateD, 0 = none
	rateD   int64
	nextDt  int64             // ticks the next block is ahead of the last one
	ctxName map[string]string // real ctx id (hex upper) -> "c<k>"
	ctxReal map[string]string // "c<k>" -> real id
	ctxMaps []struct {
		m  chain.M
		id string
	}
	reqReal   map[string]string // abstract request id -> real id (hex)
	ckpt      *namingCkpt
	predicted map[string]string // contexts to be created in the block being built
	fired     []firing
	mods      []*modAction
	lines     []line
	last      chain.M
	cfg       struct {
		init, initBtc, taxNum, taxDen, slashNum, slashDen, maxTimeout, minMult, minDep, wait int64
	}
}

func decStr(num, den int64) sdkmath.LegacyDec {
	return sdkmath.LegacyNewDec(num).QuoInt64(den)
}

func newEnv(fl *drv.Flags) *env {
	e := &env{fl: fl, names: map[string]string{}, ctxName: map[string]string{}, ctxReal: map[string]string{},
		reqReal: map[string]string{}, nextDt: 1}
	nu := int(fl.CfgInt("users", 4))
	for i := 1; i <= nu; i++ {
		e.users = append(e.users, fmt.Sprintf("u%d", i))
	}
	e.cfg.init = fl.CfgInt("init", 100)
	// every user holds some of the second denom, so that a deposit / fee cap of the wrong denom
	// that the code wrongly accepted could actually be paid
	e.cfg.initBtc = fl.CfgInt("initbtc", 9)
	e.rateN, e.rateD = fl.CfgInt("raten", 0), fl.CfgInt("rated", 1)
	e.cfg.taxNum, e.cfg.taxDen = fl.CfgInt("taxnum", 1), fl.CfgInt("taxden", 10)
	e.cfg.slashNum, e.cfg.slashDen = fl.CfgInt("slashnum", 1), fl.CfgInt("slashden", 2)
	e.cfg.maxTimeout = fl.CfgInt("maxtimeout", 5)
	e.cfg.minMult = fl.CfgInt("minmult", 2)
	e.cfg.minDep = fl.CfgInt("mindep", 2)
	e.cfg.wait = fl.CfgInt("wait", 2)
	accts := map[string]string{modSigner: "1000000" + modDenom + ",1000btc"}
	for _, u := range e.users {
		accts[u] = fmt.Sprintf("%d%s", e.cfg.init, denom)
		if e.cfg.initBtc > 0 {
			accts[u] += fmt.Sprintf(",%d%s", e.cfg.initBtc, denom2)
		}
	}
	e.c = chain.New(chain.Options{
		Accounts: accts,
		MutateGenesis: func(c *chain.Chain, gs simapp.GenesisState) {
			cdc := c.App.AppCodec()
			var sg servicetypes.GenesisState
			cdc.MustUnmarshalJSON(gs[servicetypes.ModuleName], &sg)
			sg.Params.ServiceFeeTax = decStr(e.cfg.taxNum, e.cfg.taxDen)
			sg.Params.SlashFraction = decStr(e.cfg.slashNum, e.cfg.slashDen)
			sg.Params.MaxRequestTimeout = e.cfg.maxTimeout
			sg.Params.MinDepositMultiple = e.cfg.minMult
			if e.cfg.minDep > 0 {
				sg.Params.MinDeposit = sdk.NewCoins(sdk.NewInt64Coin(denom, e.cfg.minDep))
			} else {
				sg.Params.MinDeposit = sdk.Coins{}
			}
			a := e.cfg.wait / 2
			sg.Params.ArbitrationTimeLimit = time.Duration(a) * tick
			sg.Params.ComplaintRetrospect = time.Duration(e.cfg.wait-a) * tick
			sg.Params.BaseDenom = denom
			gs[servicetypes.ModuleName] = cdc.MustMarshalJSON(&sg)
		},
	})
	c := e.c
	e.t0 = c.Time
	for _, u := range e.users {
		e.names[c.Accts[u].Addr.String()] = u
	}
	e.names[chain.ModuleAddr(servicetypes.DepositAccName).String()] = "deposit"
	e.names[chain.ModuleAddr(servicetypes.RequestAccName).String()] = "request"
	e.names[chain.ModuleAddr(servicetypes.FeeCollectorName).String()] = "feepool"
	e.names[chain.ModuleAddr(authtypes.FeeCollectorName).String()] = "blocked"
	e.names[servicetypes.OraclePriceServiceProvider.String()] = "oracle"

	// the recording callback module
	if err := c.K.Service.RegisterResponseCallback(modName, e.onResponse); err != nil {
		panic(err)
	}
	if err := c.K.Service.RegisterStateCallback(modName, e.onState); err != nil {
		panic(err)
	}
	// the exchange-rate module service ("oracle-price") is the harness' own: it
	// answers with the configured rate, or "feed not found" when there is none
	c.K.Service.SetModuleService(servicetypes.RegisterModuleName, &servicetypes.ModuleService{
		ServiceName: servicetypes.OraclePriceServiceName, Provider: servicetypes.OraclePriceServiceProvider,
		ReuquestService: e.rateService})
	ctx := c.Ctx()
	e.off = map[string]sdkmath.Int{}
	for _, d := range denoms {
		sum := sdkmath.ZeroInt()
		for _, a := range e.accounts() {
			sum = sum.Add(e.balD(ctx, a, d))
		}
		e.off[d] = c.Supply(ctx, d).Sub(sum)
	}
	c.Project = func(ctx sdk.Context) any { return e.observe(ctx) }
	c.BundleHook = e.bundleHook
	return e
}

func (e *env) accounts() []string {
	return append(append([]string{}, e.users...), "deposit", "request", "feepool")
}

func (e *env) addrOf(name string) sdk.AccAddress {
	switch name {
	case "deposit":
		return chain.ModuleAddr(servicetypes.DepositAccName)
	case "request":
		return chain.ModuleAddr(servicetypes.RequestAccName)
	case "feepool":
		return chain.ModuleAddr(servicetypes.FeeCollectorName)
	case "blocked":
		return chain.ModuleAddr(authtypes.FeeCollectorName)
	}
	if a, ok := e.c.Accts[name]; ok {
		return a.Addr
	}
	// an account outside the universe: deterministic, never funded
	return chain.AddrOf("stranger-" + name)
}

var denoms = []string{denom, denom2}

func (e *env) balD(ctx sdk.Context, a, d string) sdkmath.Int {
	return e.c.Bal(ctx, e.addrOf(a), d)
}

func (e *env) rateService(ctx sdk.Context, input string) (result, output string) {
	if e.rateN == 0 {
		return `{"code":400,"message":"feed not found"}`, ""
	}
	return `{"code":200,"message":""}`, fmt.Sprintf(`{"header":{},"body":{"rate":"%s"}}`, decStr(e.rateN, e.rateD).String())
}

func (e *env) nameOf(bech string) string {
	if n, ok := e.names[bech]; ok {
		return n
	}
	return bech
}

func (e *env) nameOfAddr(bz []byte) string { return e.nameOf(sdk.AccAddress(bz).String()) }

func txKey(ctx sdk.Context) string {
	if len(ctx.TxBytes()) == 0 {
		return "block"
	}
	return hexSha(ctx.TxBytes())
}

// firingKey: callbacks fired by a message of a bundled transaction (several events of the
// behaviour delivered as ONE real transaction) are attributed to that message.
func (e *env) firingKey(ctx sdk.Context) string {
	k := txKey(ctx)
	if i := e.c.MsgIndex(ctx); i >= 0 {
		k += fmt.Sprintf("#%d", i)
	}
	return k
}

// bundleHook keeps the naming of contexts and requests (assigned in order of first
// appearance in a projection) independent of projections taken inside a bundled transaction
// that is rolled back afterwards.
func (e *env) bundleHook(phase string) {
	cp := func(m map[string]string) map[string]string {
		o := make(map[string]string, len(m))
		for k, v := range m {
			o[k] = v
		}
		return o
	}
	switch phase {
	case "start":
		e.ckpt = &namingCkpt{cp(e.ctxName), cp(e.ctxReal), cp(e.reqReal), len(e.ctxMaps), len(e.fired)}
	case "abort":
		if e.ckpt != nil {
			e.ctxName, e.ctxReal, e.reqReal = e.ckpt.ctxName, e.ckpt.ctxReal, e.ckpt.reqReal
			e.ctxMaps = e.ctxMaps[:e.ckpt.nMaps]
			e.fired = e.fired[:e.ckpt.nFired]
			e.ckpt = nil
		}
	}
}

type namingCkpt struct {
	ctxName, ctxReal, reqReal map[string]string
	nMaps, nFired             int
}

// --- callbacks of the module "verif" ---------------------------------------

func (e *env) onResponse(ctx sdk.Context, id tmbytes.HexBytes, responses []string, err error) {
	rc, _ := e.c.K.Service.GetRequestContext(ctx, id)
	e.fired = append(e.fired, firing{key: e.firingKey(ctx), ctx: id.String(), batch: int64(rc.BatchCounter),
		outs: int64(len(responses)), err: err != nil})
}

func (e *env) onState(ctx sdk.Context, id tmbytes.HexBytes, cause string) {
	e.fired = append(e.fired, firing{key: e.firingKey(ctx), ctx: id.String(), state: true})
}

// --- observation ------------------------------------------------------------

// observe is the chain's projection hook.  For a carrier transaction it first
// performs the pending module action on the transaction's own branch.
func (e *env) observe(ctx sdk.Context) any {
	if bz := ctx.TxBytes(); len(bz) > 0 {
		if tx, err := e.c.App.TxConfig().TxDecoder()(bz); err == nil {
			msgs := tx.GetMsgs()
			if len(msgs) == 1 {
				if ms, ok := msgs[0].(*banktypes.MsgSend); ok && ms.FromAddress == e.c.Accts[modSigner].Addr.String() {
					idx := int(ms.Amount.AmountOf(modDenom).Int64()) - 1
					if idx >= 0 && idx < len(e.mods) {
						e.runMod(ctx, e.mods[idx])
					}
				}
			}
		}
	}
	return e.project(ctx)
}

func (e *env) ticksOf(t time.Time, inexact *int) int64 {
	if t.IsZero() || t.Unix() <= 0 {
		return 0
	}
	d := t.Sub(e.t0)
	if d%tick != 0 {
		*inexact++
	}
	return int64(d / tick)
}

func disc4(d sdkmath.LegacyDec, inexact *int) int64 {
	v := d.MulInt64(4)
	if !v.IsInteger() {
		*inexact++
	}
	return v.TruncateInt64()
}

func (e *env) ctxNameOf(real string) string {
	real = strings.ToUpper(real)
	if n, ok := e.ctxName[real]; ok {
		return n
	}
	n := fmt.Sprintf("c%d", len(e.ctxName)+1)
	if os.Getenv("VERIF_DEBUG") != "" {
		fmt.Fprintln(os.Stderr, "real   ", n, real)
	}
	e.ctxName[real] = n
	e.ctxReal[n] = real
	return n
}

func (e *env) reqNameOf(rid []byte) string {
	cid, batch, _, idx, err := servicetypes.SplitRequestID(rid)
	if err != nil {
		return "bad-" + hex.EncodeToString(rid)
	}
	n := fmt.Sprintf("%s-%d-%d", e.ctxNameOf(cid.String()), batch, idx)
	e.reqReal[n] = strings.ToUpper(hex.EncodeToString(rid))
	return n
}

func stateName(s servicetypes.RequestContextState) string {
	switch s {
	case servicetypes.RUNNING:
		return "running"
	case servicetypes.PAUSED:
		return "paused"
	}
	return "completed"
}

func bstateName(s servicetypes.RequestContextBatchState) string {
	if s == servicetypes.BATCHRUNNING {
		return "running"
	}
	return "completed"
}

func (e *env) project(ctx sdk.Context) any {
	c := e.c
	k := c.K.Service
	inexact := 0
	sm := func(i sdkmath.Int) int64 {
		v, ok := chain.Small(i)
		if !ok {
			inexact++
		}
		return v
	}
	coinsAmt := func(cs sdk.Coins) int64 {
		for _, co := range cs {
			if co.Denom != denom {
				inexact++
			}
		}
		return sm(cs.AmountOf(denom))
	}
	// a fee is at most one coin; an empty fee is reported in the base denom
	feeOf := func(cs sdk.Coins) (int64, string) {
		if len(cs) == 0 {
			return 0, denom
		}
		if len(cs) > 1 || (cs[0].Denom != denom && cs[0].Denom != denom2) {
			inexact++
		}
		return sm(cs[0].Amount), cs[0].Denom
	}
	store := ctx.KVStore(c.App.UnsafeFindStoreKey(servicetypes.StoreKey))
	cdc := c.App.AppCodec()
	iter := func(prefix []byte, f func(key, val []byte)) {
		it := storetypes.KVStorePrefixIterator(store, prefix)
		defer it.Close()
		for ; it.Valid(); it.Next() {
			f(it.Key()[len(prefix):], it.Value())
		}
	}

	defs := chain.M{}
	k.IterateServiceDefinitions(ctx, func(d servicetypes.ServiceDefinition) bool {
		defs[d.Name] = chain.M{"author": e.nameOf(d.Author)}
		return false
	})
	bind := chain.M{}
	k.IterateServiceBindings(ctx, func(b servicetypes.ServiceBinding) bool {
		prov, _ := sdk.AccAddressFromBech32(b.Provider)
		pr := k.GetPricing(ctx, b.ServiceName, prov)
		rec := chain.M{
			"deposit": coinsAmt(b.Deposit), "available": b.Available, "disabledAt": e.ticksOf(b.DisabledTime, &inexact),
			"owner": e.nameOf(b.Owner), "qos": int64(b.QoS),
			"price": int64(0), "pdenom": denom, "tStart": int64(0), "tEnd": int64(0), "tDisc": int64(4), "vVol": int64(0), "vDisc": int64(4),
		}
		if len(pr.Price) == 1 {
			rec["pdenom"] = pr.Price[0].Denom
			rec["price"] = sm(pr.Price[0].Amount)
		} else {
			inexact++
		}
		if n := len(pr.PromotionsByTime); n >= 1 {
			p := pr.PromotionsByTime[0]
			rec["tStart"], rec["tEnd"], rec["tDisc"] = e.ticksOf(p.StartTime, &inexact), e.ticksOf(p.EndTime, &inexact), disc4(p.Discount, &inexact)
			if n > 1 {
				inexact++
			}
		}
		if n := len(pr.PromotionsByVolume); n >= 1 {
			p := pr.PromotionsByVolume[0]
			rec["vVol"], rec["vDisc"] = int64(p.Volume), disc4(p.Discount, &inexact)
			if n > 1 {
				inexact++
			}
		}
		row, _ := bind[b.ServiceName].(chain.M)
		if row == nil {
			row = chain.M{}
			bind[b.ServiceName] = row
		}
		row[e.nameOf(b.Provider)] = rec
		return false
	})
	owner := chain.M{}
	iter(servicetypes.OwnerKey, func(key, val []byte) {
		var bv gogotypes.BytesValue
		cdc.MustUnmarshal(val, &bv)
		owner[e.nameOfAddr(key)] = e.nameOfAddr(bv.Value)
	})
	ownerProv := []any{}
	iter(servicetypes.OwnerProviderKey, func(key, val []byte) {
		if len(key) == 40 {
			ownerProv = append(ownerProv, []any{e.nameOfAddr(key[:20]), e.nameOfAddr(key[20:])})
		} else {
			inexact++
		}
	})
	withdraw := chain.M{}
	iter(servicetypes.WithdrawAddrKey, func(key, val []byte) {
		withdraw[e.nameOfAddr(key)] = e.nameOfAddr(val)
	})
	vol := chain.M{}
	iter(servicetypes.RequestVolumeKey, func(key, val []byte) {
		parts := strings.Split(string(key), "\x00")
		var v gogotypes.UInt64Value
		cdc.MustUnmarshal(val, &v)
		if len(parts) != 3 {
			inexact++
			return
		}
		cons, svc, prov := e.nameOf(parts[0]), parts[1], e.nameOf(parts[2])
		a, _ := vol[svc].(chain.M)
		if a == nil {
			a = chain.M{}
			vol[svc] = a
		}
		b, _ := a[prov].(chain.M)
		if b == nil {
			b = chain.M{}
			a[prov] = b
		}
		b[cons] = int64(v.Value)
	})
	ctxs := chain.M{}
	k.IterateRequestContexts(ctx, func(id tmbytes.HexBytes, rc servicetypes.RequestContext) bool {
		name := e.ctxNameOf(id.String())
		provs := []any{}
		for _, p := range rc.Providers {
			provs = append(provs, e.nameOf(p))
		}
		m := chain.M{
			"svc": rc.ServiceName, "consumer": e.nameOf(rc.Consumer), "providers": provs,
			"feeCap": coinsAmt(rc.ServiceFeeCap), "timeout": rc.Timeout, "repeated": rc.Repeated,
			"freq": int64(rc.RepeatedFrequency), "total": rc.RepeatedTotal, "batch": int64(rc.BatchCounter),
			"bstate": bstateName(rc.BatchState), "reqCount": int64(rc.BatchRequestCount),
			"respCount": int64(rc.BatchResponseCount), "bthreshold": int64(rc.BatchResponseThreshold),
			"threshold": int64(rc.ResponseThreshold), "state": stateName(rc.State), "module": rc.ModuleName,
			"rank": int64(0),
		}
		e.ctxMaps = append(e.ctxMaps, struct {
			m  chain.M
			id string
		}{m, strings.ToUpper(id.String())})
		ctxs[name] = m
		return false
	})
	reqs := chain.M{}
	iter(servicetypes.RequestKey, func(key, val []byte) {
		var r servicetypes.CompactRequest
		cdc.MustUnmarshal(val, &r)
		_, _, _, idx, _ := servicetypes.SplitRequestID(key)
		fee, fd := feeOf(r.ServiceFee)
		reqs[e.reqNameOf(key)] = chain.M{
			"ctx": e.ctxNameOf(r.RequestContextId), "batch": int64(r.RequestContextBatchCounter),
			"provider": e.nameOf(r.Provider), "fee": fee, "fdenom": fd, "reqH": r.RequestHeight, "expH": r.ExpirationHeight,
			"idx": int64(idx),
		}
	})
	active := []any{}
	iter(servicetypes.ActiveRequestByIDKey, func(key, val []byte) { active = append(active, e.reqNameOf(key)) })
	activeB := []any{}
	iter(servicetypes.ActiveRequestKey, func(key, val []byte) {
		var bv gogotypes.BytesValue
		cdc.MustUnmarshal(val, &bv)
		n := len(key)
		if n < 58+8 {
			inexact++
			return
		}
		head := strings.Split(string(key[:n-58-8-1]), "\x00")
		prov := ""
		if len(head) == 2 {
			prov = e.nameOf(head[1])
		}
		activeB = append(activeB, []any{e.reqNameOf(bv.Value), int64(sdk.BigEndianToUint64(key[n-58-8 : n-58])), prov})
	})
	resps := chain.M{}
	iter(servicetypes.ResponseKey, func(key, val []byte) {
		var r servicetypes.Response
		cdc.MustUnmarshal(val, &r)
		resps[e.reqNameOf(key)] = chain.M{
			"ctx": e.ctxNameOf(r.RequestContextId), "batch": int64(r.RequestContextBatchCounter),
			"provider": e.nameOf(r.Provider), "consumer": e.nameOf(r.Consumer), "out": len(r.Output) > 0,
		}
	})
	fees := func(prefix []byte) chain.M {
		out := chain.M{}
		iter(prefix, func(key, val []byte) {
			var co sdk.Coin
			cdc.MustUnmarshal(val, &co)
			if co.Denom != denom && co.Denom != denom2 {
				inexact++
				return
			}
			// key = address ++ denom.  The address may be EMPTY: AddEarnedFee looks up the
			// owner of the provider and credits whatever it gets — for the module service's
			// provider (no owner) that is the empty address (finding F36); reported as "none".
			var n string
			switch {
			case string(key) == co.Denom:
				n = "none"
			case len(key) == 20+len(co.Denom) && string(key[20:]) == co.Denom:
				n = e.nameOfAddr(key[:20])
			default:
				inexact++
				return
			}
			row, _ := out[n].(chain.M)
			if row == nil {
				row = chain.M{}
				out[n] = row
			}
			prev, _ := row[co.Denom].(int64)
			row[co.Denom] = prev + sm(co.Amount)
		})
		return out
	}
	earned, ownerEarned := fees(servicetypes.EarnedFeesKey), fees(servicetypes.OwnerEarnedFeesKey)
	queue := func(prefix []byte) []any {
		out := []any{}
		iter(prefix, func(key, val []byte) {
			if len(key) != 48 {
				inexact++
				return
			}
			out = append(out, []any{int64(sdk.BigEndianToUint64(key[:8])), e.ctxNameOf(hex.EncodeToString(key[8:]))})
		})
		return out
	}
	marks := func(prefix []byte) chain.M {
		out := chain.M{}
		iter(prefix, func(key, val []byte) {
			var v gogotypes.Int64Value
			cdc.MustUnmarshal(val, &v)
			out[e.ctxNameOf(hex.EncodeToString(key))] = v.Value
		})
		return out
	}
	bal := chain.M{}
	for _, a := range e.accounts() {
		row := chain.M{}
		for _, d := range denoms {
			row[d] = sm(e.balD(ctx, a, d))
		}
		bal[a] = row
	}
	supply := chain.M{}
	for _, d := range denoms {
		supply[d] = sm(c.Supply(ctx, d).Sub(e.off[d]))
	}
	p := k.GetParams(ctx)
	params := chain.M{
		"taxNum": e.cfg.taxNum, "taxDen": e.cfg.taxDen, "slashNum": e.cfg.slashNum, "slashDen": e.cfg.slashDen,
		"maxTimeout": p.MaxRequestTimeout, "minMult": p.MinDepositMultiple, "minDep": coinsAmt(p.MinDeposit),
		"wait": int64((p.ArbitrationTimeLimit + p.ComplaintRetrospect) / tick),
	}
	if !p.ServiceFeeTax.Equal(decStr(e.cfg.taxNum, e.cfg.taxDen)) || !p.SlashFraction.Equal(decStr(e.cfg.slashNum, e.cfg.slashDen)) ||
		p.BaseDenom != denom {
		inexact++
	}
	h := ctx.BlockHeight()
	now := e.ticksOf(ctx.BlockTime(), &inexact)
	if h == c.Height {
		// committed state: the next transaction executes in the next block
		h = c.Height + 1
		now += e.nextDt
	}
	return chain.M{
		"h": h, "now": now, "seq": int64(len(e.ctxName)), "params": params,
		"defs": defs, "bind": bind, "owner": owner, "ownerProv": ownerProv, "withdraw": withdraw, "vol": vol,
		"ctx": ctxs, "req": reqs, "active": active, "activeB": activeB, "resp": resps,
		"earned": earned, "ownerEarned": ownerEarned,
		"newQ": queue(servicetypes.NewRequestBatchKey), "expQ": queue(servicetypes.ExpiredRequestBatchKey),
		"newH": marks(servicetypes.NewRequestBatchHeightKey), "expH": marks(servicetypes.ExpiredRequestBatchHeightKey),
		"bal": bal, "supply": supply, "rate": chain.M{"n": e.rateN, "d": e.rateD},
		"inexact": int64(inexact),
	}
}

// --- events -----------------------------------------------------------------

func svcEvent(name, who string) chain.M {
	return chain.M{"name": name, "who": who, "svc": "", "prov": "", "provs": []any{}, "ctx": "", "req": "",
		"amt": int64(0), "price": int64(0), "tStart": int64(0), "tEnd": int64(0), "tDisc": int64(4),
		"vVol": int64(0), "vDisc": int64(4), "setp": false, "pdenom": denom, "ddenom": denom, "idv": "", "qos": int64(0), "timeout": int64(0),
		"repeated": false, "freq": int64(0), "total": int64(0), "thr": int64(0), "paused0": false,
		"okres": true, "to": "", "dt": int64(1), "rank": int64(0), "rn": int64(0), "rd": int64(1),
		"ok": true, "panic": false, "halt": false, "cbs": []any{}, "scbs": []any{}}
}

func strList(m chain.M, k string) []string {
	var out []string
	if l, ok := m[k].([]any); ok {
		for _, x := range l {
			if s, ok := x.(string); ok {
				out = append(out, s)
			}
		}
	}
	if l, ok := m[k].([]string); ok {
		out = append(out, l...)
	}
	return out
}

// norm brings an abstract event read from JSON into the fixed record shape.
func norm(ev chain.M) chain.M {
	o := svcEvent(chain.Str(ev, "name"), chain.Str(ev, "who"))
	for _, k := range []string{"svc", "prov", "ctx", "req", "to"} {
		o[k] = chain.Str(ev, k)
	}
	if d := chain.Str(ev, "pdenom"); d != "" {
		o["pdenom"] = d
	}
	if d := chain.Str(ev, "ddenom"); d != "" {
		o["ddenom"] = d
	}
	o["idv"] = chain.Str(ev, "idv")
	for _, k := range []string{"amt", "price", "tStart", "tEnd", "vVol", "qos", "timeout", "freq", "total", "thr", "rank"} {
		o[k] = chain.Num(ev, k)
	}
	for _, k := range []string{"tDisc", "vDisc", "dt", "rn", "rd"} {
		if _, ok := ev[k]; ok {
			o[k] = chain.Num(ev, k)
		}
	}
	for _, k := range []string{"setp", "repeated", "paused0"} {
		o[k] = chain.Bool(ev, k)
	}
	if _, ok := ev["okres"]; ok {
		o["okres"] = chain.Bool(ev, "okres")
	}
	// the result the author of the behaviour predicted (used only to name
	// contexts created earlier in the same block); dropped before logging
	o["pok"] = true
	if _, ok := ev["ok"]; ok {
		o["pok"] = chain.Bool(ev, "ok")
	}
	ps := []any{}
	for _, p := range strList(ev, "provs") {
		ps = append(ps, p)
	}
	o["provs"] = ps
	return o
}

func discStr(n int64) string {
	switch n {
	case 1:
		return "0.25"
	case 2:
		return "0.5"
	case 3:
		return "0.75"
	}
	return fmt.Sprintf("0.%d", n) // outside the exact range; still a legal discount for n in 5..9
}

func (e *env) pricing(ev chain.M) string {
	s := fmt.Sprintf(`{"price":"%d%s"`, chain.Num(ev, "price"), chain.Str(ev, "pdenom"))
	if d := chain.Num(ev, "tDisc"); d != 4 {
		st := e.t0.Add(time.Duration(chain.Num(ev, "tStart")) * tick).UTC().Format(time.RFC3339)
		en := e.t0.Add(time.Duration(chain.Num(ev, "tEnd")) * tick).UTC().Format(time.RFC3339)
		s += fmt.Sprintf(`,"promotions_by_time":[{"start_time":"%s","end_time":"%s","discount":"%s"}]`, st, en, discStr(d))
	}
	if d := chain.Num(ev, "vDisc"); d != 4 {
		s += fmt.Sprintf(`,"promotions_by_volume":[{"volume":%d,"discount":"%s"}]`, chain.Num(ev, "vVol"), discStr(d))
	}
	return s + "}"
}

// coinsOfEv: the deposit / fee cap an event carries: amt of the event's "ddenom" — the base
// denom, another denom ("btc", or one nobody holds), or "both" = two coins (stake and btc).
func coinsOfEv(ev chain.M) sdk.Coins {
	n := chain.Num(ev, "amt")
	if n <= 0 {
		return sdk.Coins{}
	}
	switch d := chain.Str(ev, "ddenom"); d {
	case "", denom:
		return sdk.NewCoins(sdk.NewInt64Coin(denom, n))
	case "both":
		return sdk.NewCoins(sdk.NewInt64Coin(denom, n), sdk.NewInt64Coin(denom2, n))
	default:
		if sdk.ValidateDenom(d) != nil {
			d = "weird"
		}
		return sdk.NewCoins(sdk.NewInt64Coin(d, n))
	}
}

// spell applies the id spelling of an event ("idv") to a hex id: "lc" = lower case (the same
// id), "pfx" = one byte short, "pad" = one byte long (both refused by ValidateBasic).
func spell(ev chain.M, id string) string {
	switch chain.Str(ev, "idv") {
	case "lc":
		return strings.ToLower(id)
	case "pfx":
		return id[:len(id)-2]
	case "pad":
		return id + "00"
	}
	return id
}

func (e *env) realCtx(name string) string {
	if r, ok := e.ctxReal[name]; ok {
		return r
	}
	if r, ok := e.predicted[name]; ok {
		return r
	}
	return strings.Repeat("0", servicetypes.ContextIDLen)
}

func (e *env) realReq(name string) string {
	if r, ok := e.reqReal[name]; ok {
		return r
	}
	return strings.Repeat("0", servicetypes.RequestIDLen)
}

func (e *env) addrs(names []string) []string {
	var out []string
	for _, n := range names {
		out = append(out, e.addrOf(n).String())
	}
	return out
}

var modEvents = map[string]bool{"ModCall": true, "ModPause": true, "ModStart": true, "ModKill": true, "ModUpdate": true,
	"ModWithdrawAll": true, "SetRate": true}

// msgOf maps an abstract event to a real message; nil for module / block events.
func (e *env) msgOf(ev chain.M) sdk.Msg {
	who := e.addrOf(chain.Str(ev, "who")).String()
	svc := chain.Str(ev, "svc")
	prov := e.addrOf(chain.Str(ev, "prov")).String()
	switch chain.Str(ev, "name") {
	case "Define":
		return &servicetypes.MsgDefineService{Name: svc, Description: "d", Author: who, AuthorDescription: "a", Schemas: schemas}
	case "Bind":
		return &servicetypes.MsgBindService{ServiceName: svc, Provider: prov, Deposit: coinsOfEv(ev),
			Pricing: e.pricing(ev), QoS: uint64(chain.Num(ev, "qos")), Options: "{}", Owner: who}
	case "UpdateBinding":
		m := &servicetypes.MsgUpdateServiceBinding{ServiceName: svc, Provider: prov, Deposit: coinsOfEv(ev),
			QoS: uint64(chain.Num(ev, "qos")), Owner: who}
		if chain.Bool(ev, "setp") {
			m.Pricing = e.pricing(ev)
		}
		return m
	case "SetWithdraw":
		return &servicetypes.MsgSetWithdrawAddress{Owner: who, WithdrawAddress: e.addrOf(chain.Str(ev, "to")).String()}
	case "Disable":
		return &servicetypes.MsgDisableServiceBinding{ServiceName: svc, Provider: prov, Owner: who}
	case "Enable":
		return &servicetypes.MsgEnableServiceBinding{ServiceName: svc, Provider: prov, Deposit: coinsOfEv(ev), Owner: who}
	case "RefundDeposit":
		return &servicetypes.MsgRefundServiceDeposit{ServiceName: svc, Provider: prov, Owner: who}
	case "Call":
		in := input
		if svc == servicetypes.OraclePriceServiceName {
			in = `{"header":{},"body":{"pair":"btc-stake"}}`
		}
		return &servicetypes.MsgCallService{ServiceName: svc, Providers: e.addrs(strList(ev, "provs")), Consumer: who, Input: in,
			ServiceFeeCap: coinsOfEv(ev), Timeout: chain.Num(ev, "timeout"), Repeated: chain.Bool(ev, "repeated"),
			RepeatedFrequency: uint64(chain.Num(ev, "freq")), RepeatedTotal: chain.Num(ev, "total")}
	case "Respond":
		m := &servicetypes.MsgRespondService{RequestId: spell(ev, e.realReq(chain.Str(ev, "req"))), Provider: who, Result: resultOK, Output: output}
		if !chain.Bool(ev, "okres") {
			m.Result, m.Output = resultBad, ""
		}
		return m
	case "Pause":
		return &servicetypes.MsgPauseRequestContext{RequestContextId: spell(ev, e.realCtx(chain.Str(ev, "ctx"))), Consumer: who}
	case "Start":
		return &servicetypes.MsgStartRequestContext{RequestContextId: spell(ev, e.realCtx(chain.Str(ev, "ctx"))), Consumer: who}
	case "Kill":
		return &servicetypes.MsgKillRequestContext{RequestContextId: spell(ev, e.realCtx(chain.Str(ev, "ctx"))), Consumer: who}
	case "Update":
		return &servicetypes.MsgUpdateRequestContext{RequestContextId: spell(ev, e.realCtx(chain.Str(ev, "ctx"))), Providers: e.addrs(strList(ev, "provs")),
			Consumer: who, ServiceFeeCap: coinsOfEv(ev), Timeout: chain.Num(ev, "timeout"),
			RepeatedFrequency: uint64(chain.Num(ev, "freq")), RepeatedTotal: chain.Num(ev, "total")}
	case "Withdraw":
		m := &servicetypes.MsgWithdrawEarnedFees{Owner: who}
		if p := chain.Str(ev, "prov"); p != "" {
			m.Provider = prov
		}
		return m
	}
	return nil
}

// runMod performs the keeper call of a module event on (a branch of) ctx.
func (e *env) runMod(ctx sdk.Context, a *modAction) {
	ev := a.ev
	k := e.c.K.Service
	cctx, write := ctx.CacheContext()
	defer func() {
		if r := recover(); r != nil {
			a.ok, a.panic, a.log = false, true, fmt.Sprint(r)
		}
	}()
	who := e.addrOf(chain.Str(ev, "who"))
	var provs []sdk.AccAddress
	for _, p := range strList(ev, "provs") {
		provs = append(provs, e.addrOf(p))
	}
	id, _ := hex.DecodeString(e.realCtx(chain.Str(ev, "ctx")))
	var err error
	switch chain.Str(ev, "name") {
	case "ModCall":
		st := servicetypes.RUNNING
		if chain.Bool(ev, "paused0") {
			st = servicetypes.PAUSED
		}
		_, err = k.CreateRequestContext(cctx, chain.Str(ev, "svc"), provs, who, input, coinsOfEv(ev),
			chain.Num(ev, "timeout"), chain.Bool(ev, "repeated"), uint64(chain.Num(ev, "freq")), chain.Num(ev, "total"),
			st, uint32(chain.Num(ev, "thr")), modName)
	case "ModPause":
		err = k.PauseRequestContext(cctx, id, who)
	case "ModStart":
		err = k.StartRequestContext(cctx, id, who)
	case "ModKill":
		err = k.KillRequestContext(cctx, id, who)
	case "ModUpdate":
		err = k.UpdateRequestContext(cctx, id, provs, uint32(chain.Num(ev, "thr")), coinsOfEv(ev),
			chain.Num(ev, "timeout"), uint64(chain.Num(ev, "freq")), chain.Num(ev, "total"), who)
	case "ModWithdrawAll":
		// the keeper's "everything of this owner" branch (no message reaches it)
		err = k.WithdrawEarnedFees(cctx, who, nil)
	case "SetRate":
		// environment: what the exchange-rate module service answers from now on
		n, d := chain.Num(ev, "rn"), chain.Num(ev, "rd")
		if n < 0 || (d != 1 && d != 2 && d != 4) {
			err = fmt.Errorf("bad rate")
		} else {
			e.rateN, e.rateD = n, d
		}
	default:
		err = fmt.Errorf("unknown module event")
	}
	if err != nil {
		a.ok, a.log = false, err.Error()
		return
	}
	a.ok = true
	write()
}

func (e *env) emit(ev chain.M, st any) {
	delete(ev, "pok")
	e.lines = append(e.lines, line{ev, st})
	if m, ok := st.(chain.M); ok {
		e.last = m
	}
}

// firingsOf extracts (and removes) the callback firings recorded under key.
func (e *env) firingsOf(key string) (cbs []any, scbs []any) {
	cbs, scbs = []any{}, []any{}
	var rest []firing
	for _, f := range e.fired {
		if f.key != key {
			rest = append(rest, f)
			continue
		}
		if f.state {
			scbs = append(scbs, e.ctxNameOf(f.ctx))
		} else {
			cbs = append(cbs, chain.M{"ctx": e.ctxNameOf(f.ctx), "batch": f.batch, "outs": f.outs, "err": f.err})
		}
	}
	e.fired = rest
	return
}

// runBlock executes the pending events as one block (dt ticks after the last
// one) and records one line per event plus the EndBlock line; nextDt is the
// distance of the following block (logged on the EndBlock event).
func (e *env) runBlock(pending []chain.M, nextDt int64) bool {
	var txs []chain.Tx
	e.mods = nil
	e.fired = nil
	// Contexts created earlier in this very block: their ids are tx hash ++
	// per-block creation index, both known before execution (the hash from the
	// deterministic signing, the index from the predicted results of the earlier
	// creations), so later events of the block can name them.
	e.predicted = map[string]string{}
	seqs := map[string]uint64{}
	created := 0
	// the message of an ordinary event (built with the ids known or predicted so far)
	build := func(ev chain.M) (string, sdk.Msg) {
		who := chain.Str(ev, "who")
		msg := e.msgOf(ev)
		if _, ok := e.c.Accts[who]; !ok {
			// the sender is not an account of the universe (e.g. the module service's
			// provider address): nobody can sign for it.  Reported as rejected without
			// delivery (a message that fails ValidateBasic), so that no signer's
			// sequence number is disturbed.
			who = e.users[0]
			msg = &servicetypes.MsgPauseRequestContext{RequestContextId: "unsignable", Consumer: e.addrOf(who).String()}
		}
		return who, msg
	}
	// pass 1: the block's skeleton (signers and message types decide how the chain groups the
	// transactions into real ones).  An event that names a context created earlier in this
	// very block stays a transaction of its own: its message carries the id, which contains
	// the hash of the creating transaction.
	for _, ev := range pending {
		if modEvents[chain.Str(ev, "name")] {
			e.mods = append(e.mods, &modAction{ev: ev})
			a := e.c.Accts[modSigner].Addr
			txs = append(txs, chain.Tx{Signer: modSigner, NoBundle: true, Msgs: []sdk.Msg{
				banktypes.NewMsgSend(a, a, sdk.NewCoins(sdk.NewInt64Coin(modDenom, int64(len(e.mods)))))}})
			continue
		}
		who, msg := build(ev)
		tx := chain.Tx{Signer: who, Msgs: []sdk.Msg{msg}}
		if c := chain.Str(ev, "ctx"); c != "" {
			if _, known := e.ctxReal[c]; !known {
				tx.NoBundle = true
			}
		}
		txs = append(txs, tx)
	}
	// pass 2: real transaction by real transaction, in order: rebuild the members' messages
	// with the ids predicted so far, sign, and predict the ids of the contexts it creates
	_, groups := e.c.PlanBlock(txs)
	for _, g := range groups {
		for _, m := range g {
			if !modEvents[chain.Str(pending[m], "name")] {
				who, msg := build(pending[m])
				txs[m].Signer, txs[m].Msgs = who, []sdk.Msg{msg}
			}
		}
		e.predictGroup(pending, txs, g, seqs, &created)
	}
	dt := e.nextDt
	e.nextDt = nextDt
	res := e.c.RunBlock(time.Duration(dt)*tick, txs)
	if res.Halt {
		ev := svcEvent("EndBlock", "")
		ev["halt"], ev["ok"] = true, false
		e.emit(ev, e.last)
		return false
	}
	mi := 0
	for i, ev := range pending {
		r := res.Txs[i]
		if r.Aborted {
			// member of a multi-message transaction that failed as a whole (chain.BundlePct):
			// whatever it did was rolled back; the specification knows no such event and
			// treats it as a rejection without effect
			ev["_orig"], ev["name"] = ev["name"], "TxFailed"
		}
		ok, pan := r.OK, r.Panic
		if modEvents[chain.Str(ev, "name")] {
			a := e.mods[mi]
			mi++
			if !r.OK {
				panic("carrier transaction failed: " + r.Log)
			}
			ok, pan = a.ok, a.panic
		}
		ev["ok"], ev["panic"] = ok, pan
		if !ok && os.Getenv("VERIF_DEBUG") != "" {
			ev["log"] = r.Log
			if modEvents[chain.Str(ev, "name")] {
				ev["log"] = e.mods[mi-1].log
			}
		}
		fkey := r.TxHash
		if r.Bundle > 1 {
			fkey += fmt.Sprintf("#%d", r.BundlePos) // one message per event
		}
		cbs, scbs := e.firingsOf(fkey)
		if ok {
			ev["cbs"], ev["scbs"] = cbs, scbs
		}
		st := r.State
		if st == nil {
			st = res.BeginState
		}
		e.emit(ev, st)
	}
	end := svcEvent("EndBlock", "")
	end["dt"] = nextDt
	end["cbs"], end["scbs"] = e.firingsOf("block")
	e.emit(end, res.EndState)
	return true
}

// predictGroup mirrors chain.RunBlock's signing of one real transaction (the members g of the
// block's transactions; same sequences, same bytes) and, for every creation predicted to
// succeed, records the id the new context will get: hash of the REAL transaction that carries
// the message, followed by the per-block creation index.
func (e *env) predictGroup(pending []chain.M, txs []chain.Tx, g []int, seqs map[string]uint64, created *int) {
	bz, err := e.c.BuildTx(chain.MergeTx(txs, g), seqs)
	if err != nil {
		return
	}
	for _, m := range g {
		ev := pending[m]
		n := chain.Str(ev, "name")
		if pok, has := ev["pok"]; (n == "Call" || n == "ModCall") && (!has || pok.(bool)) {
			idx := make([]byte, 8)
			binary.BigEndian.PutUint64(idx, uint64(*created))
			real := strings.ToUpper(hexSha(bz) + hex.EncodeToString(idx))
			e.predicted[fmt.Sprintf("c%d", len(e.ctxName)+1+*created)] = real
			if os.Getenv("VERIF_DEBUG") != "" {
				fmt.Fprintln(os.Stderr, "predict", fmt.Sprintf("c%d", len(e.ctxName)+1+*created), real)
			}
			*created++
		}
	}
}

// flush assigns ranks and writes the buffered lines.
func (e *env) flush(w *chain.TraceWriter) {
	ids := make([]string, 0, len(e.ctxName))
	for id := range e.ctxName {
		ids = append(ids, id)
	}
	sort.Strings(ids)
	rank := map[string]int64{}
	for i, id := range ids {
		rank[id] = int64(i + 1)
	}
	for _, cm := range e.ctxMaps {
		cm.m["rank"] = rank[cm.id]
	}
	created := int64(0)
	for _, l := range e.lines {
		n := chain.Str(l.ev, "name")
		if (n == "Call" || n == "ModCall") && chain.Bool(l.ev, "ok") {
			created++
			l.ev["rank"] = rank[e.ctxReal[fmt.Sprintf("c%d", created)]]
		}
		w.Write(l.ev, l.st)
	}
	e.lines = nil
}

// run executes one abstract behaviour on a fresh chain.
func serviceRun(fl *drv.Flags, beh []chain.M, w *chain.TraceWriter, epilogue bool) {
	e := newEnv(fl)
	defer e.flush(w)
	e.emit(svcEvent("Init", ""), e.project(e.c.Ctx()))
	var pending []chain.M
	for _, raw := range beh {
		ev := norm(raw)
		if chain.Str(ev, "name") == "EndBlock" {
			dt := chain.Num(ev, "dt")
			if dt < 1 {
				dt = 1
			}
			if !e.runBlock(pending, dt) {
				return
			}
			pending = nil
			continue
		}
		if e.msgOf(ev) == nil && !modEvents[chain.Str(ev, "name")] {
			continue
		}
		pending = append(pending, ev)
	}
	if len(pending) > 0 {
		if !e.runBlock(pending, 1) {
			return
		}
	}
	if epilogue {
		e.epilogue()
	}
}

// epilogue: the closing operations, computed from the REAL state the chain is in (e.last is the
// projection of the last committed state), never from what a behaviour's author expected:
//  1. two plain blocks, so that whatever the last operations started (also operations the
//     code should have refused) unfolds;
//  2. every repeated context that is not completed is killed by its consumer; blocks until
//     both queues are empty (every batch in flight expires: slash + refund);
//  3. every owner withdraws the earned fees of each of its providers;
//  4. every available binding is disabled by its owner, blocks until the deposits are
//     refundable, every binding with a deposit is refunded.
//
// Afterwards both escrows must be down to what the records say (C07_DepositEscrow,
// C07_RequestEscrow), judged like every other step.  epilogue=2 in the driver cfg skips
// phases 1 and 4 (the short form used before round 7).
func (e *env) epilogue() {
	full := e.fl.CfgInt("epilogue", 1) != 2
	get := func(k string) chain.M { m, _ := e.last[k].(chain.M); return m }
	list := func(k string) []any { l, _ := e.last[k].([]any); return l }
	if full {
		for i := 0; i < 2; i++ {
			if !e.runBlock(nil, 1) {
				return
			}
		}
	}
	var pending []chain.M
	ctxs := get("ctx")
	for _, id := range chain.SortedKeys(ctxs) {
		cm, _ := ctxs[id].(chain.M)
		if rep, _ := cm["repeated"].(bool); rep && chain.Str(cm, "state") != "completed" {
			name := "Kill"
			if chain.Str(cm, "module") != "" {
				name = "ModKill"
			}
			ev := svcEvent(name, chain.Str(cm, "consumer"))
			ev["ctx"] = id
			pending = append(pending, ev)
		}
	}
	for i := 0; i < 40; i++ {
		if !e.runBlock(pending, 1) {
			return
		}
		pending = nil
		if len(list("newQ")) == 0 && len(list("expQ")) == 0 {
			break
		}
	}
	earned := get("earned")
	owner := get("owner")
	for _, p := range chain.SortedKeys(earned) {
		ev := svcEvent("Withdraw", chain.Str(owner, p))
		ev["prov"] = p
		pending = append(pending, ev)
	}
	if len(pending) > 0 {
		if !e.runBlock(pending, 1) {
			return
		}
		pending = nil
	}
	if !full {
		return
	}
	eachBinding := func(f func(svc, prov string, rec chain.M)) {
		bind := get("bind")
		for _, svc := range chain.SortedKeys(bind) {
			row, _ := bind[svc].(chain.M)
			for _, p := range chain.SortedKeys(row) {
				if rec, ok := row[p].(chain.M); ok {
					f(svc, p, rec)
				}
			}
		}
	}
	eachBinding(func(svc, prov string, rec chain.M) {
		if av, _ := rec["available"].(bool); av {
			ev := svcEvent("Disable", chain.Str(rec, "owner"))
			ev["svc"], ev["prov"] = svc, prov
			pending = append(pending, ev)
		}
	})
	// the block of the Disable messages; the next one is far enough ahead for every deposit
	if !e.runBlock(pending, e.cfg.wait+1) {
		return
	}
	pending = nil
	eachBinding(func(svc, prov string, rec chain.M) {
		if chain.Num(rec, "deposit") > 0 {
			ev := svcEvent("RefundDeposit", chain.Str(rec, "owner"))
			ev["svc"], ev["prov"] = svc, prov
			pending = append(pending, ev)
		}
	})
	if len(pending) > 0 {
		e.runBlock(pending, 1)
	}
}

func serviceDriver(mode string, fl *drv.Flags) error {
	w := chain.NewTraceWriter(fl.Out)
	defer w.Close()
	switch mode {
	case "replay":
		for _, beh := range chain.ReadBehaviours(fl.In) {
			serviceRun(fl, beh, w, fl.CfgInt("epilogue", 1) != 0)
		}
	case "random":
		serviceRandomAll(fl, w)
	default:
		return fmt.Errorf("unknown mode %q", mode)
	}
	return nil
}
