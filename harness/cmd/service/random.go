package main

import (
	"crypto/sha256"
	"encoding/hex"
	"math/rand"
	"sort"

	"verif/harness/chain"
	"verif/harness/drv"
)

func hexSha(bz []byte) string {
	s := sha256.Sum256(bz)
	return hex.EncodeToString(s[:])
}

func serviceRandomAll(fl *drv.Flags, w *chain.TraceWriter) {
	rng := rand.New(rand.NewSource(fl.Seed))
	for i := 0; i < fl.N; i++ {
		serviceRandom(fl, rng, w)
	}
}

// serviceRandom runs one random history: events are generated block by block
// from the last observed state, so most are enabled, some deliberately not.
func serviceRandom(fl *drv.Flags, rng *rand.Rand, w *chain.TraceWriter) {
	e := newEnv(fl)
	defer e.flush(w)
	e.emit(svcEvent("Init", ""), e.project(e.c.Ctx()))
	pick := func(xs []string) string { return xs[rng.Intn(len(xs))] }
	svcs := []string{"s1", "s2"}
	nu := len(e.users)
	// roles: the first half of the users tend to be providers/owners, the rest consumers
	provs := e.users[:(nu+1)/2]
	maxCtx := int(fl.CfgInt("maxctx", 4))
	varDt := fl.CfgInt("vardt", 1) == 1
	mods := fl.CfgInt("mods", 1) == 1 // module-owned contexts (keeper calls inside carrier transactions)
	// btc=1: prices in a second denom with an exchange rate served by the harness'
	// module service, calls of that module service, owner-wide withdrawals
	btc := fl.CfgInt("btc", 0) == 1 && mods
	if btc {
		svcs = append(svcs, "oracle-price")
	}
	// f36=1: module-service calls also while owner tallies exist (they then credit the
	// empty owner with the sum of all owner tallies: finding F36)
	f36 := fl.CfgInt("f36", 0) == 1
	setPricing := func(ev chain.M, now int64) {
		ev["price"] = int64(rng.Intn(9))
		if rng.Intn(14) == 0 || (btc && rng.Intn(3) == 0) {
			// a price in a denom that needs the exchange rate of the module service
			ev["pdenom"] = "btc"
			if rng.Intn(2) == 0 {
				ev["price"] = int64(0)
			}
		} else if rng.Intn(40) == 0 {
			ev["pdenom"] = "nosupply"
		}
		if rng.Intn(5) == 0 {
			ev["price"] = int64(4 * (1 + rng.Intn(3)))
		}
		if rng.Intn(3) == 0 {
			ev["tDisc"] = int64(1 + rng.Intn(3))
			st := now + int64(rng.Intn(6)) - 2
			if st < 0 {
				st = 0
			}
			ev["tStart"] = st
			ev["tEnd"] = st + int64(rng.Intn(8))
		}
		if rng.Intn(3) == 0 {
			ev["vDisc"] = int64(1 + rng.Intn(3))
			ev["vVol"] = int64(rng.Intn(4))
		}
	}
	// negative probing (probe=<pct>, default 35): in that share of the blocks 1-3 operations aimed at
	// objects in every life-cycle state that ever existed, by every role, with ids spelt differently /
	// of the wrong length and coins of the wrong denom; most of them must be refused
	probePct := int(fl.CfgInt("probe", 35))
	mem := newMemory()
	// how eagerly providers answer: usually about half of what is asked of them per block; one
	// history in three has lazy providers (most requests expire: slashing, refunds, bindings
	// slashed out of service), one in six eager ones
	respondPct := []int{50, 50, 50, 15, 15, 85, 0}[rng.Intn(7)]
	// one history in four contains "bursts": several contexts of one consumer created
	// in one block (all due in its end-block) with funds for only some of them
	bursty := rng.Intn(4) == 0
	for b := 0; b < fl.Len; b++ {
		st := e.last
		now := st["now"].(int64)
		defs := chain.SortedKeys(st["defs"].(chain.M))
		bind := st["bind"].(chain.M)
		ctxs := st["ctx"].(chain.M)
		// the contexts that count against maxctx: those still alive (a killed context without a
		// batch in flight and the module service's contexts stay in the store for ever)
		var ctxIDs []string
		for _, id := range chain.SortedKeys(ctxs) {
			if cm, ok := ctxs[id].(chain.M); ok && chain.Str(cm, "state") != "completed" {
				ctxIDs = append(ctxIDs, id)
			}
		}
		active := st["active"].([]any)
		reqs := st["req"].(chain.M)
		var pending []chain.M
		mem.note(st)
		if btc && b > 0 {
			// the exchange rate goes away / changes / comes back while a request priced in the
			// second denom is in flight (its expiry then slashes a binding whose minimum deposit
			// cannot be computed), in the block of a call, at and around expiry heights
			if ev := e.rateMove(rng, st); ev != nil {
				pending = append(pending, ev)
			}
		}
		if btc && (b == 0 || rng.Intn(12) == 0) {
			ev := svcEvent("SetRate", "")
			ev["rn"], ev["rd"] = int64(rng.Intn(4)), []int64{1, 2, 4}[rng.Intn(3)]
			if b == 0 && rng.Intn(4) > 0 {
				ev["rn"] = int64(1 + rng.Intn(3))
			}
			pending = append(pending, ev)
		}
		n := rng.Intn(5)
		if b < 2 {
			n = 3 + rng.Intn(3)
		}
		if bursty && b >= 2 && b%6 == 2 {
			pending = append(pending, e.burst(rng, st)...)
		}
		// providers answer about half of what is asked of them
		// while requests are in flight: commands of the right role on exactly the context / binding
		// a request in flight belongs to (disable, refund, re-price, top up, pause, start, kill,
		// update between issue and expiry)
		if len(active) > 0 && rng.Intn(3) == 0 {
			if ev := e.inflightOp(rng, st, now); ev != nil {
				pending = append(pending, ev)
			}
		}
		// owners look after their bindings: one that is out of service (disabled, slashed below its
		// minimum deposit) comes back with the deposit it needs
		if ev := e.reEnable(rng, st); ev != nil && rng.Intn(3) == 0 {
			pending = append(pending, ev)
		}
		for _, a := range active {
			if rng.Intn(100) < respondPct {
				rid, _ := a.(string)
				// an active-index entry without a request record (possible only in a broken
				// tree) is answered by an arbitrary user: the driver must survive it so that
				// the trace reaches the clauses
				who := pick(e.users)
				if rec, ok := reqs[rid].(chain.M); ok {
					who = chain.Str(rec, "provider")
				}
				if _, signs := e.c.Accts[who]; !signs {
					continue // a module address as provider: nobody can answer for it
				}
				ev := svcEvent("Respond", who)
				ev["req"] = rid
				ev["okres"] = rng.Intn(4) > 0
				pending = append(pending, ev)
			}
		}
		if rng.Intn(100) < probePct {
			for k := 1 + rng.Intn(3); k > 0; k-- {
				if ev := e.probe(rng, st, mem, provs, mods, btc); ev != nil {
					pending = append(pending, ev)
				}
			}
		}
		for j := 0; j < n; j++ {
			u := pick(e.users)
			x := rng.Intn(100)
			switch {
			case len(defs) == 0 || x < 3:
				ev := svcEvent("Define", u)
				ev["svc"] = pick(svcs)
				if rng.Intn(12) == 0 {
					ev["svc"] = "9bad"
				}
				pending = append(pending, ev)
				if len(defs) == 0 {
					defs = append(defs, ev["svc"].(string))
				}
			case x < 14:
				ev := svcEvent("Bind", pick(provs))
				ev["svc"] = pick(defs)
				for try := 0; try < 4; try++ {
					// mostly a (service, provider) pair that is not bound yet
					row, _ := bind[chain.Str(ev, "svc")].(chain.M)
					if _, bound := row[chain.Str(ev, "who")]; !bound || rng.Intn(4) == 0 {
						break
					}
					ev["who"], ev["svc"] = pick(provs), pick(defs)
				}
				ev["prov"] = ev["who"]
				if rng.Intn(5) == 0 {
					ev["prov"] = pick(provs)
				}
				setPricing(ev, now)
				if btc && rng.Intn(2) == 0 {
					// the second denom with a real price: requests whose fee and whose binding's
					// minimum deposit depend on the exchange rate
					ev["pdenom"], ev["price"] = "btc", int64(1+rng.Intn(6))
				}
				need, _ := basePriceOf(st, ev)
				need *= e.cfg.minMult
				if need > 0 && need < e.cfg.minDep {
					need = e.cfg.minDep
				}
				ev["amt"] = need + int64(rng.Intn(6))
				if rng.Intn(4) == 0 {
					ev["amt"] = need + int64(rng.Intn(3)) - 1
				}
				ev["qos"] = int64(1)
				if rng.Intn(4) == 0 {
					ev["qos"] = int64(rng.Intn(int(e.cfg.maxTimeout) + 2))
				}
				pending = append(pending, ev)
			case x < 20:
				svc := pick(defs)
				row, _ := bind[svc].(chain.M)
				if len(row) == 0 {
					continue
				}
				p := pick(chain.SortedKeys(row))
				rec := row[p].(chain.M)
				who := rec["owner"].(string)
				if rng.Intn(8) == 0 {
					who = u
				}
				var ev chain.M
				switch rng.Intn(5) {
				case 0:
					ev = svcEvent("Disable", who)
				case 1:
					ev = svcEvent("Enable", who)
					ev["amt"] = int64(rng.Intn(6))
				case 2:
					ev = svcEvent("RefundDeposit", who)
				default:
					ev = svcEvent("UpdateBinding", who)
					if rng.Intn(2) == 0 {
						ev["amt"] = int64(rng.Intn(6))
					}
					if rng.Intn(2) == 0 {
						ev["setp"] = true
						setPricing(ev, now)
					}
					if rng.Intn(3) == 0 {
						ev["qos"] = int64(rng.Intn(int(e.cfg.maxTimeout) + 2))
					}
				}
				ev["svc"], ev["prov"] = svc, p
				pending = append(pending, ev)
			case x < 23:
				ev := svcEvent("SetWithdraw", pick(provs))
				ev["to"] = pick(e.users)
				if rng.Intn(8) == 0 {
					ev["to"] = "blocked"
				}
				pending = append(pending, ev)
			case x < 38 && len(ctxIDs) < maxCtx:
				name := "Call"
				if mods && rng.Intn(4) == 0 {
					name = "ModCall"
				}
				ev := svcEvent(name, u)
				ev["svc"] = pick(defs)
				if bs := chain.SortedKeys(bind); len(bs) > 0 && rng.Intn(6) > 0 {
					ev["svc"] = pick(bs)
				}
				if rng.Intn(15) == 0 {
					ev["svc"] = "nosuch"
				}
				if name == "Call" && ev["svc"] == "oracle-price" && !f36 && len(st["ownerEarned"].(chain.M)) > 0 {
					ev["svc"] = defs[0]
				}
				cand := provs
				if row, ok := bind[ev["svc"].(string)].(chain.M); ok && len(row) > 0 && rng.Intn(5) > 0 {
					cand = chain.SortedKeys(row)
				}
				k := 1 + rng.Intn(len(cand))
				perm := rng.Perm(len(cand))[:k]
				ps := []any{}
				for _, i := range perm {
					ps = append(ps, cand[i])
				}
				if rng.Intn(20) == 0 {
					ps = append(ps, ps[0])
				}
				ev["provs"] = ps
				ev["amt"] = int64(4 + rng.Intn(9))
				if rng.Intn(4) == 0 {
					ev["amt"] = int64(rng.Intn(5))
				}
				ev["timeout"] = int64(1 + rng.Intn(3))
				if capNeed, qosNeed := e.askFor(st, chain.Str(ev, "svc"), ps); capNeed > 0 && rng.Intn(3) > 0 {
					// a call that its providers can serve: fee cap at or just above the dearest
					// provider's (exchanged) price, timeout not below the slowest one's QoS
					ev["amt"] = capNeed + int64(rng.Intn(3))
					if t := ev["timeout"].(int64); t < qosNeed && qosNeed <= e.cfg.maxTimeout {
						ev["timeout"] = qosNeed
					}
				}
				if rng.Intn(15) == 0 {
					ev["timeout"] = e.cfg.maxTimeout + int64(rng.Intn(2))
				}
				if rng.Intn(2) == 0 {
					ev["repeated"] = true
					ev["freq"] = ev["timeout"].(int64) + int64(rng.Intn(3)) - 1
					if rng.Intn(4) == 0 {
						ev["freq"] = int64(0)
					}
					ev["total"] = int64(rng.Intn(5)) - 1
				}
				if name == "ModCall" {
					ev["thr"] = int64(rng.Intn(len(ps) + 2))
					if rng.Intn(2) == 0 {
						ev["thr"] = int64(1)
					}
					ev["paused0"] = rng.Intn(4) == 0
				}
				pending = append(pending, ev)
				ctxIDs = append(ctxIDs, "pending")
				if name == "Call" && rng.Intn(5) == 0 && len(ctxIDs) < maxCtx {
					// a second call of the same consumer right behind the first: with bundling on
					// (bundle=<pct>) the two creations share ONE transaction, hence one tx hash
					ev2 := svcEvent("Call", u)
					for _, k := range []string{"svc", "provs", "amt", "timeout", "repeated", "freq", "total"} {
						ev2[k] = ev[k]
					}
					if rng.Intn(2) == 0 {
						ev2["amt"] = int64(1 + rng.Intn(9))
					}
					pending = append(pending, ev2)
					ctxIDs = append(ctxIDs, "pending")
				}
			case x < 78 && len(active) > 0:
				rid := active[rng.Intn(len(active))].(string)
				who := pick(e.users) // see above: an index entry without a record
				if rec, ok := reqs[rid].(chain.M); ok {
					who = chain.Str(rec, "provider")
				}
				if _, signs := e.c.Accts[who]; !signs {
					if rng.Intn(10) > 0 {
						continue // a module address as provider: nobody can answer for it
					}
					who = u
				}
				ev := svcEvent("Respond", who)
				if rng.Intn(10) == 0 {
					ev["who"] = u
				}
				ev["req"] = rid
				ev["okres"] = rng.Intn(4) > 0
				pending = append(pending, ev)
			case x < 81 && len(reqs) > 0:
				// a request that may be answered / expired already
				rid := pick(chain.SortedKeys(reqs))
				rec, _ := reqs[rid].(chain.M)
				who := chain.Str(rec, "provider")
				if _, signs := e.c.Accts[who]; !signs {
					// the module service's own requests stay in the store for ever: rarely
					if rng.Intn(10) > 0 {
						continue
					}
					who = u
				}
				ev := svcEvent("Respond", who)
				ev["req"] = rid
				pending = append(pending, ev)
			case x < 94 && len(ctxs) > 0:
				id := pick(chain.SortedKeys(ctxs))
				if len(ctxIDs) > 0 && ctxIDs[0] != "pending" && rng.Intn(5) > 0 {
					// mostly a context that is still alive (completed ones pile up in the store)
					if live := pick(ctxIDs); live != "pending" {
						id = live
					}
				}
				cm, _ := ctxs[id].(chain.M)
				who := chain.Str(cm, "consumer")
				if rng.Intn(8) == 0 {
					who = u
				}
				mod := chain.Str(cm, "module") != ""
				if rng.Intn(10) == 0 {
					mod = !mod
				}
				names := []string{"Pause", "Start", "Kill", "Update", "Pause", "Start"}
				name := pick(names)
				if mod && mods {
					name = "Mod" + name
				}
				ev := svcEvent(name, who)
				ev["ctx"] = id
				if name == "Update" || name == "ModUpdate" {
					if rng.Intn(3) == 0 {
						ev["amt"] = int64(1 + rng.Intn(9))
					}
					if rng.Intn(3) == 0 {
						ev["timeout"] = int64(rng.Intn(4))
					}
					if rng.Intn(3) == 0 {
						ev["freq"] = int64(rng.Intn(5))
					}
					if rng.Intn(3) == 0 {
						ev["total"] = int64(rng.Intn(6)) - 1
					}
					if rng.Intn(4) == 0 {
						k := 1 + rng.Intn(len(provs))
						ps := []any{}
						for _, i := range rng.Perm(len(provs))[:k] {
							ps = append(ps, provs[i])
						}
						ev["provs"] = ps
					}
					if name == "ModUpdate" && rng.Intn(3) == 0 {
						ev["thr"] = int64(rng.Intn(3))
					}
				}
				pending = append(pending, ev)
			case x < 94:
				continue
			default:
				earned := chain.SortedKeys(st["earned"].(chain.M))
				owner := st["owner"].(chain.M)
				if btc && rng.Intn(4) == 0 {
					// the keeper's owner-wide withdrawal, only while the owner's tally is what its
					// providers earned (a wrong tally — finding F35 — would pay out other people's money)
					o := pick(provs)
					if tallyConsistent(st, o) {
						pending = append(pending, svcEvent("ModWithdrawAll", o))
						continue
					}
				}
				ev := svcEvent("Withdraw", pick(provs))
				if len(earned) > 0 && rng.Intn(4) > 0 {
					p := pick(earned)
					ev["prov"] = p
					if o, ok := owner[p].(string); ok {
						ev["who"] = o
					}
				} else if rng.Intn(2) == 0 {
					ev["prov"] = pick(provs)
				}
				pending = append(pending, ev)
			}
		}
		dt := int64(1)
		if varDt && rng.Intn(4) == 0 {
			dt = int64(1 + rng.Intn(3))
		}
		if varDt && rng.Intn(2) == 0 && e.disabledInflight(st) {
			// a binding was disabled under a request in flight: the next block is far enough
			// ahead for its deposit to be refunded before the request expires
			dt = e.cfg.wait
		}
		if !e.runBlock(pending, dt) {
			return
		}
	}
	e.epilogue()
}

// burst: the poorest user calls the most expensive available binding k times in
// one block, k chosen so that its balance pays for some of the batches only.
func (e *env) burst(rng *rand.Rand, st chain.M) []chain.M {
	bal := st["bal"].(chain.M)
	who, low := "", int64(1<<40)
	for _, u := range e.users {
		if v := bal[u].(chain.M)[denom].(int64); v < low {
			who, low = u, v
		}
	}
	svc, prov, price := "", "", int64(0)
	bind := st["bind"].(chain.M)
	for _, s := range chain.SortedKeys(bind) {
		row := bind[s].(chain.M)
		for _, p := range chain.SortedKeys(row) {
			r := row[p].(chain.M)
			if r["available"].(bool) && r["pdenom"].(string) == denom && r["qos"].(int64) == 1 && r["price"].(int64) > price {
				svc, prov, price = s, p, r["price"].(int64)
			}
		}
	}
	if price == 0 {
		return nil
	}
	k := low/price + 2 + int64(rng.Intn(2))
	if k < 3 {
		k = 3
	}
	if k > 8 {
		return nil // too rich for a shortage within a reasonable number of contexts
	}
	var out []chain.M
	for i := int64(0); i < k; i++ {
		ev := svcEvent("Call", who)
		ev["svc"], ev["provs"], ev["amt"], ev["timeout"] = svc, []any{prov}, price+int64(rng.Intn(3)), int64(1)
		if rng.Intn(3) == 0 {
			ev["repeated"], ev["total"] = true, int64(2)
		}
		out = append(out, ev)
	}
	return out
}

// tallyConsistent: the owner-side tally of o equals the sum of its providers' tallies.
func tallyConsistent(st chain.M, o string) bool {
	sum := map[string]int64{}
	owner := st["owner"].(chain.M)
	for p, row := range st["earned"].(chain.M) {
		if ow, _ := owner[p].(string); ow == o {
			for d, v := range row.(chain.M) {
				sum[d] += v.(int64)
			}
		}
	}
	own, _ := st["ownerEarned"].(chain.M)[o].(chain.M)
	if len(own) != len(sum) {
		return false
	}
	for d, v := range own {
		if sum[d] != v.(int64) {
			return false
		}
	}
	return true
}

// --- negative probing ---------------------------------------------------------

// memory: every context and request the driver has ever seen, with the roles around it; objects
// that have been removed since (expired one-shots, finished / killed repeated contexts, cleaned
// batches) stay in here and keep being addressed.
type memory struct {
	ctx map[string]ctxInfo
	req map[string]string // request -> provider
}

type ctxInfo struct {
	consumer string
	module   bool
}

func newMemory() *memory { return &memory{ctx: map[string]ctxInfo{}, req: map[string]string{}} }

func (m *memory) note(st chain.M) {
	ctxs, _ := st["ctx"].(chain.M)
	for id, v := range ctxs {
		if cm, ok := v.(chain.M); ok {
			m.ctx[id] = ctxInfo{chain.Str(cm, "consumer"), chain.Str(cm, "module") != ""}
		}
	}
	reqs, _ := st["req"].(chain.M)
	for id, v := range reqs {
		if rm, ok := v.(chain.M); ok {
			m.req[id] = chain.Str(rm, "provider")
		}
	}
}

func sortedKeysOf[T any](m map[string]T) []string {
	out := make([]string, 0, len(m))
	for k := range m {
		out = append(out, k)
	}
	sort.Strings(out)
	return out
}

// gone: the members of all that are not keys of live (in all's order)
func gone(all []string, live chain.M) []string {
	var out []string
	for _, k := range all {
		if _, ok := live[k]; !ok {
			out = append(out, k)
		}
	}
	return out
}

var moduleAddrs = []string{"deposit", "request", "feepool"}

func wrongDenom(rng *rand.Rand) string {
	return []string{"btc", "btc", "both", "nosupply"}[rng.Intn(4)]
}

func idVariant(rng *rand.Rand) string {
	return []string{"", "", "", "lc", "lc", "pfx", "pad"}[rng.Intn(7)]
}

// rateMove: a SetRate event chosen by what is in flight, or nil.
func (e *env) rateMove(rng *rand.Rand, st chain.M) chain.M {
	inflight := false
	reqs, _ := st["req"].(chain.M)
	for _, a := range anyList(st["active"]) {
		rid, _ := a.(string)
		if rec, ok := reqs[rid].(chain.M); ok && chain.Str(rec, "fdenom") == denom2 {
			inflight = true
		}
	}
	rate, _ := st["rate"].(chain.M)
	has := chain.Num(rate, "n") > 0
	ev := svcEvent("SetRate", "")
	switch {
	case inflight && has && rng.Intn(2) == 0:
		ev["rn"], ev["rd"] = int64(0), int64(1)
		if rng.Intn(3) == 0 {
			// not away, but different from the rate the request was priced at
			ev["rn"], ev["rd"] = int64(1+rng.Intn(3)), []int64{1, 2, 4}[rng.Intn(3)]
		}
	case !has && rng.Intn(4) == 0:
		ev["rn"], ev["rd"] = int64(1+rng.Intn(3)), []int64{1, 2, 4}[rng.Intn(3)]
	default:
		return nil
	}
	return ev
}

func anyList(v any) []any {
	l, _ := v.([]any)
	return l
}

// probe: one operation aimed at an object in whatever life-cycle state it is in (also: no longer
// there), by an arbitrary role, possibly with an id spelt differently or a coin of the wrong denom.
func (e *env) probe(rng *rand.Rand, st chain.M, mem *memory, provs []string, mods, btc bool) chain.M {
	pick := func(xs []string) string { return xs[rng.Intn(len(xs))] }
	ctxs, _ := st["ctx"].(chain.M)
	reqs, _ := st["req"].(chain.M)
	bind, _ := st["bind"].(chain.M)
	type bnd struct {
		svc, prov string
		rec       chain.M
	}
	var binds []bnd
	for _, svc := range chain.SortedKeys(bind) {
		row, _ := bind[svc].(chain.M)
		for _, p := range chain.SortedKeys(row) {
			if rec, ok := row[p].(chain.M); ok {
				binds = append(binds, bnd{svc, p, rec})
			}
		}
	}
	switch rng.Intn(6) {
	case 0: // a consumer command on any context that ever existed
		all := sortedKeysOf(mem.ctx)
		if len(all) == 0 {
			return nil
		}
		id := pick(all)
		if g := gone(all, ctxs); len(g) > 0 && rng.Intn(2) == 0 {
			id = pick(g)
		}
		info := mem.ctx[id]
		who := info.consumer
		switch rng.Intn(4) {
		case 0:
			who = pick(e.users)
		case 1:
			who = pick(provs)
		}
		if _, signs := e.c.Accts[who]; !signs {
			who = pick(e.users)
		}
		name := pick([]string{"Pause", "Start", "Kill", "Update"})
		viaKeeper := mods && info.module && who == info.consumer && rng.Intn(4) > 0
		if viaKeeper {
			name = "Mod" + name
		}
		ev := svcEvent(name, who)
		ev["ctx"] = id
		if !viaKeeper {
			ev["idv"] = idVariant(rng)
		}
		if name == "Update" || name == "ModUpdate" {
			switch rng.Intn(4) {
			case 0:
				ev["amt"], ev["ddenom"] = int64(1+rng.Intn(9)), wrongDenom(rng)
			case 1:
				ev["amt"] = int64(1 + rng.Intn(9))
			case 2:
				ev["total"] = int64(rng.Intn(4))
			}
		}
		return ev
	case 1: // an answer to any request that ever existed
		all := sortedKeysOf(mem.req)
		if len(all) == 0 {
			return nil
		}
		rid := pick(all)
		if g := gone(all, reqs); len(g) > 0 && rng.Intn(2) == 0 {
			rid = pick(g)
		}
		who := mem.req[rid]
		if _, signs := e.c.Accts[who]; !signs {
			if rng.Intn(10) > 0 {
				return nil
			}
			who = pick(e.users)
		} else if rng.Intn(4) == 0 {
			who = pick(e.users)
		}
		ev := svcEvent("Respond", who)
		ev["req"], ev["idv"] = rid, idVariant(rng)
		ev["okres"] = rng.Intn(3) > 0
		return ev
	case 2: // a provider command on any binding, in whatever state, by any role
		if len(binds) == 0 {
			return nil
		}
		b := binds[rng.Intn(len(binds))]
		who := chain.Str(b.rec, "owner")
		switch rng.Intn(4) {
		case 0:
			who = pick(e.users)
		case 1:
			who = b.prov
		}
		if _, signs := e.c.Accts[who]; !signs {
			who = pick(e.users)
		}
		name := pick([]string{"Disable", "Enable", "RefundDeposit", "UpdateBinding"})
		ev := svcEvent(name, who)
		ev["svc"], ev["prov"] = b.svc, b.prov
		if name == "Enable" || name == "UpdateBinding" {
			if rng.Intn(3) > 0 {
				ev["amt"] = int64(1 + rng.Intn(6))
				if rng.Intn(2) == 0 {
					ev["ddenom"] = wrongDenom(rng)
				}
			}
		}
		if name == "UpdateBinding" && rng.Intn(3) == 0 {
			ev["qos"] = int64(rng.Intn(int(e.cfg.maxTimeout) + 2))
		}
		return ev
	case 3: // a binding that exists already, a provider somebody else owns, a module address as provider, a wrong-denom deposit
		defs := chain.SortedKeys(chain.M(mOf(st["defs"])))
		if len(defs) == 0 {
			return nil
		}
		ev := svcEvent("Bind", pick(e.users))
		ev["svc"], ev["prov"] = pick(defs), pick(e.users)
		ev["price"], ev["qos"], ev["amt"] = int64(rng.Intn(4)), int64(1), int64(4*e.cfg.minMult+e.cfg.minDep+int64(rng.Intn(4)))
		switch rng.Intn(4) {
		case 0:
			if len(binds) > 0 {
				b := binds[rng.Intn(len(binds))]
				ev["svc"], ev["prov"] = b.svc, b.prov
				if rng.Intn(2) == 0 {
					ev["who"] = chain.Str(b.rec, "owner")
				}
			}
		case 1:
			if rng.Intn(3) == 0 {
				ev["prov"] = pick(moduleAddrs)
			}
		case 2:
			ev["ddenom"] = wrongDenom(rng)
		}
		return ev
	case 4: // a call with a fee cap of the wrong denom / for an unknown service / of the module service by name
		defs := chain.SortedKeys(chain.M(mOf(st["defs"])))
		if len(defs) == 0 || len(ctxs) >= 8 {
			return nil
		}
		name := "Call"
		if mods && rng.Intn(4) == 0 {
			name = "ModCall"
		}
		ev := svcEvent(name, pick(e.users))
		ev["svc"], ev["provs"], ev["amt"], ev["timeout"] = pick(defs), []any{pick(provs)}, int64(1+rng.Intn(9)), int64(1)
		ev["thr"] = int64(1)
		switch rng.Intn(3) {
		case 0:
			ev["svc"] = "nosuch"
		default:
			ev["ddenom"] = wrongDenom(rng)
		}
		return ev
	default: // withdrawals by the wrong owner / of nothing; withdraw addresses that are module accounts
		if rng.Intn(2) == 0 {
			ev := svcEvent("SetWithdraw", pick(e.users))
			ev["to"] = pick(append([]string{"blocked"}, moduleAddrs...))
			return ev
		}
		ev := svcEvent("Withdraw", pick(e.users))
		ev["prov"] = pick(e.users)
		if len(binds) > 0 && rng.Intn(2) == 0 {
			ev["prov"] = binds[rng.Intn(len(binds))].prov
		}
		return ev
	}
}

func mOf(v any) map[string]any {
	m, _ := v.(chain.M)
	return m
}

// inflightOp: a command by the right role on the context or the binding of a request in flight.
func (e *env) inflightOp(rng *rand.Rand, st chain.M, now int64) chain.M {
	active := anyList(st["active"])
	reqs, _ := st["req"].(chain.M)
	ctxs, _ := st["ctx"].(chain.M)
	bind, _ := st["bind"].(chain.M)
	rid, _ := active[rng.Intn(len(active))].(string)
	rec, ok := reqs[rid].(chain.M)
	if !ok {
		return nil
	}
	cid := chain.Str(rec, "ctx")
	cm, ok := ctxs[cid].(chain.M)
	if !ok {
		return nil
	}
	if rng.Intn(2) == 0 {
		name := []string{"Pause", "Start", "Kill", "Update", "Pause", "Start"}[rng.Intn(6)]
		isMod := chain.Str(cm, "module") != ""
		if isMod {
			name = "Mod" + name
		}
		ev := svcEvent(name, chain.Str(cm, "consumer"))
		ev["ctx"] = cid
		if !isMod && rng.Intn(3) == 0 {
			ev["idv"] = "lc"
		}
		if name == "Update" || name == "ModUpdate" {
			ev["amt"] = int64(1 + rng.Intn(9))
		}
		return ev
	}
	svc, prov := chain.Str(cm, "svc"), chain.Str(rec, "provider")
	row, _ := bind[svc].(chain.M)
	b, ok := row[prov].(chain.M)
	if !ok {
		return nil
	}
	// what moves the binding on through its life cycle while the request is still in flight:
	// available -> disabled -> (waiting time over) refunded -> enabled again
	var names []string
	switch {
	case chain.Bool(b, "available"):
		names = []string{"Disable", "Disable", "Disable", "UpdateBinding", "UpdateBinding"}
	case chain.Num(b, "deposit") > 0:
		names = []string{"RefundDeposit", "RefundDeposit", "RefundDeposit", "RefundDeposit", "Enable", "UpdateBinding"}
	default:
		names = []string{"RefundDeposit", "RefundDeposit", "Enable", "Enable", "UpdateBinding"}
	}
	name := names[rng.Intn(len(names))]
	ev := svcEvent(name, chain.Str(b, "owner"))
	ev["svc"], ev["prov"] = svc, prov
	switch name {
	case "Enable":
		ev["amt"] = int64(rng.Intn(6))
	case "UpdateBinding":
		if rng.Intn(2) == 0 {
			ev["amt"] = int64(1 + rng.Intn(6))
		} else {
			ev["setp"], ev["price"], ev["pdenom"] = true, int64(rng.Intn(9)), chain.Str(b, "pdenom")
			if rng.Intn(3) == 0 {
				ev["pdenom"] = []string{denom, denom2}[rng.Intn(2)]
			}
		}
	}
	return ev
}

// basePriceOf: the list price of a binding in the base denom as GetMinDeposit / GetExchangedPrice
// see it now (0, false: it needs a rate and there is none).
func basePriceOf(st, b chain.M) (int64, bool) {
	price := chain.Num(b, "price")
	if chain.Str(b, "pdenom") == denom || price == 0 {
		return price, true
	}
	rate, _ := st["rate"].(chain.M)
	n, d := chain.Num(rate, "n"), chain.Num(rate, "d")
	if n == 0 || d == 0 {
		return 0, false
	}
	v := price * n / d
	if v == 0 {
		v = 1
	}
	return v, true
}

// askFor: the fee cap and timeout that make every bound, available provider of ps eligible.
func (e *env) askFor(st chain.M, svc string, ps []any) (capNeed, qosNeed int64) {
	bind, _ := st["bind"].(chain.M)
	row, _ := bind[svc].(chain.M)
	for _, p := range ps {
		name, _ := p.(string)
		b, ok := row[name].(chain.M)
		if !ok || !chain.Bool(b, "available") {
			continue
		}
		if v, ok := basePriceOf(st, b); ok {
			if v > capNeed {
				capNeed = v
			}
			if q := chain.Num(b, "qos"); q > qosNeed {
				qosNeed = q
			}
		}
	}
	return
}

// reEnable: the owner of some unavailable binding enables it again with the deposit it lacks.
func (e *env) reEnable(rng *rand.Rand, st chain.M) chain.M {
	bind, _ := st["bind"].(chain.M)
	var cands []chain.M
	for _, svc := range chain.SortedKeys(bind) {
		row, _ := bind[svc].(chain.M)
		for _, p := range chain.SortedKeys(row) {
			b, ok := row[p].(chain.M)
			if !ok || chain.Bool(b, "available") {
				continue
			}
			base, ok := basePriceOf(st, b)
			if !ok {
				continue
			}
			need := base * e.cfg.minMult
			if need > 0 && need < e.cfg.minDep {
				need = e.cfg.minDep
			}
			ev := svcEvent("Enable", chain.Str(b, "owner"))
			ev["svc"], ev["prov"] = svc, p
			if lack := need - chain.Num(b, "deposit"); lack > 0 {
				ev["amt"] = lack + int64(rng.Intn(3))
			} else if rng.Intn(3) == 0 {
				ev["amt"] = int64(1 + rng.Intn(3))
			}
			cands = append(cands, ev)
		}
	}
	if len(cands) == 0 {
		return nil
	}
	return cands[rng.Intn(len(cands))]
}

// disabledInflight: some request in flight is addressed to a binding that is out of service.
func (e *env) disabledInflight(st chain.M) bool {
	reqs, _ := st["req"].(chain.M)
	ctxs, _ := st["ctx"].(chain.M)
	bind, _ := st["bind"].(chain.M)
	for _, a := range anyList(st["active"]) {
		rid, _ := a.(string)
		rec, ok := reqs[rid].(chain.M)
		if !ok {
			continue
		}
		cm, ok := ctxs[chain.Str(rec, "ctx")].(chain.M)
		if !ok {
			continue
		}
		row, _ := bind[chain.Str(cm, "svc")].(chain.M)
		if b, ok := row[chain.Str(rec, "provider")].(chain.M); ok && !chain.Bool(b, "available") {
			return true
		}
	}
	return false
}
