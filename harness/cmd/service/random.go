package main

import (
	"crypto/sha256"
	"encoding/hex"
	"math/rand"

	"verif/harness/chain"
	"verif/harness/drv"
)

func hexSha(bz []byte) string {
	s := sha256.Sum256(bz)
	return hex.EncodeToString(s[:])
}

func serviceRandomAll(fl *drv.Flags, w *chain.TraceWriter) {
	rng := rand.New(rand.NewSource(fl.Seed))
	for i := 0; i < fl.N; i++ {
		serviceRandom(fl, rng, w)
	}
}

// serviceRandom runs one random history: events are generated block by block
// from the last observed state, so most are enabled, some deliberately not.
func serviceRandom(fl *drv.Flags, rng *rand.Rand, w *chain.TraceWriter) {
	e := newEnv(fl)
	defer e.flush(w)
	e.emit(svcEvent("Init", ""), e.project(e.c.Ctx()))
	pick := func(xs []string) string { return xs[rng.Intn(len(xs))] }
	svcs := []string{"s1", "s2"}
	nu := len(e.users)
	// roles: the first half of the users tend to be providers/owners, the rest consumers
	provs := e.users[:(nu+1)/2]
	maxCtx := int(fl.CfgInt("maxctx", 4))
	varDt := fl.CfgInt("vardt", 1) == 1
	mods := fl.CfgInt("mods", 1) == 1 // module-owned contexts (keeper calls inside carrier transactions)
	// btc=1: prices in a second denom with an exchange rate served by the harness'
	// module service, calls of that module service, owner-wide withdrawals
	btc := fl.CfgInt("btc", 0) == 1 && mods
	if btc {
		svcs = append(svcs, "oracle-price")
	}
	// f36=1: module-service calls also while owner tallies exist (they then credit the
	// empty owner with the sum of all owner tallies: finding F36)
	f36 := fl.CfgInt("f36", 0) == 1
	setPricing := func(ev chain.M, now int64) {
		ev["price"] = int64(rng.Intn(9))
		if rng.Intn(14) == 0 || (btc && rng.Intn(3) == 0) {
			// a price in a denom that needs the exchange rate of the module service
			ev["pdenom"] = "btc"
			if rng.Intn(2) == 0 {
				ev["price"] = int64(0)
			}
		} else if rng.Intn(40) == 0 {
			ev["pdenom"] = "nosupply"
		}
		if rng.Intn(5) == 0 {
			ev["price"] = int64(4 * (1 + rng.Intn(3)))
		}
		if rng.Intn(3) == 0 {
			ev["tDisc"] = int64(1 + rng.Intn(3))
			st := now + int64(rng.Intn(6)) - 2
			if st < 0 {
				st = 0
			}
			ev["tStart"] = st
			ev["tEnd"] = st + int64(rng.Intn(8))
		}
		if rng.Intn(3) == 0 {
			ev["vDisc"] = int64(1 + rng.Intn(3))
			ev["vVol"] = int64(rng.Intn(4))
		}
	}
	// one history in four contains "bursts": several contexts of one consumer created
	// in one block (all due in its end-block) with funds for only some of them
	bursty := rng.Intn(4) == 0
	for b := 0; b < fl.Len; b++ {
		st := e.last
		now := st["now"].(int64)
		defs := chain.SortedKeys(st["defs"].(chain.M))
		bind := st["bind"].(chain.M)
		ctxs := st["ctx"].(chain.M)
		ctxIDs := chain.SortedKeys(ctxs)
		active := st["active"].([]any)
		reqs := st["req"].(chain.M)
		var pending []chain.M
		if btc && (b == 0 || rng.Intn(12) == 0) {
			ev := svcEvent("SetRate", "")
			ev["rn"], ev["rd"] = int64(rng.Intn(4)), []int64{1, 2, 4}[rng.Intn(3)]
			if b == 0 && rng.Intn(4) > 0 {
				ev["rn"] = int64(1 + rng.Intn(3))
			}
			pending = append(pending, ev)
		}
		n := rng.Intn(5)
		if b < 2 {
			n = 3 + rng.Intn(3)
		}
		if bursty && b >= 2 && b%6 == 2 {
			pending = append(pending, e.burst(rng, st)...)
		}
		// providers answer about half of what is asked of them
		for _, a := range active {
			if rng.Intn(2) == 0 {
				rid := a.(string)
				// an active-index entry without a request record (possible only in a broken
				// tree) is answered by an arbitrary user: the driver must survive it so that
				// the trace reaches the clauses
				who := pick(e.users)
				if rec, ok := reqs[rid].(chain.M); ok {
					who = rec["provider"].(string)
				}
				ev := svcEvent("Respond", who)
				ev["req"] = rid
				ev["okres"] = rng.Intn(4) > 0
				pending = append(pending, ev)
			}
		}
		for j := 0; j < n; j++ {
			u := pick(e.users)
			x := rng.Intn(100)
			switch {
			case len(defs) == 0 || x < 3:
				ev := svcEvent("Define", u)
				ev["svc"] = pick(svcs)
				if rng.Intn(12) == 0 {
					ev["svc"] = "9bad"
				}
				pending = append(pending, ev)
				if len(defs) == 0 {
					defs = append(defs, ev["svc"].(string))
				}
			case x < 14:
				ev := svcEvent("Bind", pick(provs))
				ev["svc"] = pick(defs)
				ev["prov"] = ev["who"]
				if rng.Intn(5) == 0 {
					ev["prov"] = pick(provs)
				}
				setPricing(ev, now)
				need := ev["price"].(int64) * e.cfg.minMult
				if need > 0 && need < e.cfg.minDep {
					need = e.cfg.minDep
				}
				ev["amt"] = need + int64(rng.Intn(6))
				if rng.Intn(4) == 0 {
					ev["amt"] = need + int64(rng.Intn(3)) - 1
				}
				ev["qos"] = int64(1)
				if rng.Intn(4) == 0 {
					ev["qos"] = int64(rng.Intn(int(e.cfg.maxTimeout) + 2))
				}
				pending = append(pending, ev)
			case x < 20:
				svc := pick(defs)
				row, _ := bind[svc].(chain.M)
				if len(row) == 0 {
					continue
				}
				p := pick(chain.SortedKeys(row))
				rec := row[p].(chain.M)
				who := rec["owner"].(string)
				if rng.Intn(8) == 0 {
					who = u
				}
				var ev chain.M
				switch rng.Intn(5) {
				case 0:
					ev = svcEvent("Disable", who)
				case 1:
					ev = svcEvent("Enable", who)
					ev["amt"] = int64(rng.Intn(6))
				case 2:
					ev = svcEvent("RefundDeposit", who)
				default:
					ev = svcEvent("UpdateBinding", who)
					if rng.Intn(2) == 0 {
						ev["amt"] = int64(rng.Intn(6))
					}
					if rng.Intn(2) == 0 {
						ev["setp"] = true
						setPricing(ev, now)
					}
					if rng.Intn(3) == 0 {
						ev["qos"] = int64(rng.Intn(int(e.cfg.maxTimeout) + 2))
					}
				}
				ev["svc"], ev["prov"] = svc, p
				pending = append(pending, ev)
			case x < 23:
				ev := svcEvent("SetWithdraw", pick(provs))
				ev["to"] = pick(e.users)
				if rng.Intn(8) == 0 {
					ev["to"] = "blocked"
				}
				pending = append(pending, ev)
			case x < 38 && len(ctxIDs) < maxCtx:
				name := "Call"
				if mods && rng.Intn(4) == 0 {
					name = "ModCall"
				}
				ev := svcEvent(name, u)
				ev["svc"] = pick(defs)
				if bs := chain.SortedKeys(bind); len(bs) > 0 && rng.Intn(6) > 0 {
					ev["svc"] = pick(bs)
				}
				if rng.Intn(15) == 0 {
					ev["svc"] = "nosuch"
				}
				if name == "Call" && ev["svc"] == "oracle-price" && !f36 && len(st["ownerEarned"].(chain.M)) > 0 {
					ev["svc"] = defs[0]
				}
				cand := provs
				if row, ok := bind[ev["svc"].(string)].(chain.M); ok && len(row) > 0 && rng.Intn(5) > 0 {
					cand = chain.SortedKeys(row)
				}
				k := 1 + rng.Intn(len(cand))
				perm := rng.Perm(len(cand))[:k]
				ps := []any{}
				for _, i := range perm {
					ps = append(ps, cand[i])
				}
				if rng.Intn(20) == 0 {
					ps = append(ps, ps[0])
				}
				ev["provs"] = ps
				ev["amt"] = int64(4 + rng.Intn(9))
				if rng.Intn(4) == 0 {
					ev["amt"] = int64(rng.Intn(5))
				}
				ev["timeout"] = int64(1 + rng.Intn(3))
				if rng.Intn(15) == 0 {
					ev["timeout"] = e.cfg.maxTimeout + int64(rng.Intn(2))
				}
				if rng.Intn(2) == 0 {
					ev["repeated"] = true
					ev["freq"] = ev["timeout"].(int64) + int64(rng.Intn(3)) - 1
					if rng.Intn(4) == 0 {
						ev["freq"] = int64(0)
					}
					ev["total"] = int64(rng.Intn(5)) - 1
				}
				if name == "ModCall" {
					ev["thr"] = int64(rng.Intn(len(ps) + 2))
					if rng.Intn(2) == 0 {
						ev["thr"] = int64(1)
					}
					ev["paused0"] = rng.Intn(4) == 0
				}
				pending = append(pending, ev)
				ctxIDs = append(ctxIDs, "pending")
			case x < 78 && len(active) > 0:
				rid := active[rng.Intn(len(active))].(string)
				who := pick(e.users) // see above: an index entry without a record
				if rec, ok := reqs[rid].(chain.M); ok {
					who = rec["provider"].(string)
				}
				ev := svcEvent("Respond", who)
				if rng.Intn(10) == 0 {
					ev["who"] = u
				}
				ev["req"] = rid
				ev["okres"] = rng.Intn(4) > 0
				pending = append(pending, ev)
			case x < 81 && len(reqs) > 0:
				// a request that may be answered / expired already
				rid := pick(chain.SortedKeys(reqs))
				rec := reqs[rid].(chain.M)
				ev := svcEvent("Respond", rec["provider"].(string))
				ev["req"] = rid
				pending = append(pending, ev)
			case x < 94 && len(ctxs) > 0:
				id := pick(chain.SortedKeys(ctxs))
				cm := ctxs[id].(chain.M)
				who := cm["consumer"].(string)
				if rng.Intn(8) == 0 {
					who = u
				}
				mod := cm["module"].(string) != ""
				if rng.Intn(10) == 0 {
					mod = !mod
				}
				names := []string{"Pause", "Start", "Kill", "Update", "Pause", "Start"}
				name := pick(names)
				if mod && mods {
					name = "Mod" + name
				}
				ev := svcEvent(name, who)
				ev["ctx"] = id
				if name == "Update" || name == "ModUpdate" {
					if rng.Intn(3) == 0 {
						ev["amt"] = int64(1 + rng.Intn(9))
					}
					if rng.Intn(3) == 0 {
						ev["timeout"] = int64(rng.Intn(4))
					}
					if rng.Intn(3) == 0 {
						ev["freq"] = int64(rng.Intn(5))
					}
					if rng.Intn(3) == 0 {
						ev["total"] = int64(rng.Intn(6)) - 1
					}
					if rng.Intn(4) == 0 {
						k := 1 + rng.Intn(len(provs))
						ps := []any{}
						for _, i := range rng.Perm(len(provs))[:k] {
							ps = append(ps, provs[i])
						}
						ev["provs"] = ps
					}
					if name == "ModUpdate" && rng.Intn(3) == 0 {
						ev["thr"] = int64(rng.Intn(3))
					}
				}
				pending = append(pending, ev)
			case x < 94:
				continue
			default:
				earned := chain.SortedKeys(st["earned"].(chain.M))
				owner := st["owner"].(chain.M)
				if btc && rng.Intn(4) == 0 {
					// the keeper's owner-wide withdrawal, only while the owner's tally is what its
					// providers earned (a wrong tally — finding F35 — would pay out other people's money)
					o := pick(provs)
					if tallyConsistent(st, o) {
						pending = append(pending, svcEvent("ModWithdrawAll", o))
						continue
					}
				}
				ev := svcEvent("Withdraw", pick(provs))
				if len(earned) > 0 && rng.Intn(4) > 0 {
					p := pick(earned)
					ev["prov"] = p
					if o, ok := owner[p].(string); ok {
						ev["who"] = o
					}
				} else if rng.Intn(2) == 0 {
					ev["prov"] = pick(provs)
				}
				pending = append(pending, ev)
			}
		}
		dt := int64(1)
		if varDt && rng.Intn(4) == 0 {
			dt = int64(1 + rng.Intn(3))
		}
		if !e.runBlock(pending, dt) {
			return
		}
	}
	e.epilogue()
}

// burst: the poorest user calls the most expensive available binding k times in
// one block, k chosen so that its balance pays for some of the batches only.
func (e *env) burst(rng *rand.Rand, st chain.M) []chain.M {
	bal := st["bal"].(chain.M)
	who, low := "", int64(1<<40)
	for _, u := range e.users {
		if v := bal[u].(chain.M)[denom].(int64); v < low {
			who, low = u, v
		}
	}
	svc, prov, price := "", "", int64(0)
	bind := st["bind"].(chain.M)
	for _, s := range chain.SortedKeys(bind) {
		row := bind[s].(chain.M)
		for _, p := range chain.SortedKeys(row) {
			r := row[p].(chain.M)
			if r["available"].(bool) && r["pdenom"].(string) == denom && r["qos"].(int64) == 1 && r["price"].(int64) > price {
				svc, prov, price = s, p, r["price"].(int64)
			}
		}
	}
	if price == 0 {
		return nil
	}
	k := low/price + 2 + int64(rng.Intn(2))
	if k < 3 {
		k = 3
	}
	if k > 8 {
		return nil // too rich for a shortage within a reasonable number of contexts
	}
	var out []chain.M
	for i := int64(0); i < k; i++ {
		ev := svcEvent("Call", who)
		ev["svc"], ev["provs"], ev["amt"], ev["timeout"] = svc, []any{prov}, price+int64(rng.Intn(3)), int64(1)
		if rng.Intn(3) == 0 {
			ev["repeated"], ev["total"] = true, int64(2)
		}
		out = append(out, ev)
	}
	return out
}

// tallyConsistent: the owner-side tally of o equals the sum of its providers' tallies.
func tallyConsistent(st chain.M, o string) bool {
	sum := map[string]int64{}
	owner := st["owner"].(chain.M)
	for p, row := range st["earned"].(chain.M) {
		if ow, _ := owner[p].(string); ow == o {
			for d, v := range row.(chain.M) {
				sum[d] += v.(int64)
			}
		}
	}
	own, _ := st["ownerEarned"].(chain.M)[o].(chain.M)
	if len(own) != len(sum) {
		return false
	}
	for d, v := range own {
		if sum[d] != v.(int64) {
			return false
		}
	}
	return true
}
