package main

import (
	"bytes"
	"fmt"
	"math/big"
	"math/rand"
	"strings"
	"time"

	abci "github.com/cometbft/cometbft/abci/types"
	sdk "github.com/cosmos/cosmos-sdk/types"
	"github.com/cosmos/cosmos-sdk/types/query"
	authtypes "github.com/cosmos/cosmos-sdk/x/auth/types"
	gogotypes "github.com/cosmos/gogoproto/types"

	"verif/harness/chain"
	"verif/harness/drv"

	mtkeeper "mods.irisnet.org/modules/mt/keeper"
	mttypes "mods.irisnet.org/modules/mt/types"
)

func main() { drv.Main("mt", mtDriver) }

// Model <-> chain mapping for MT.tla:
//
//	accounts  "u1".."uN" (the signers); "mod": the fee collector's module address - tracked like a
//	          user, can be named as recipient, cannot sign (a message naming it as sender is put
//	          into a transaction signed by the spare account "sx"; the ante handler refuses it)
//	forms     ev.form says how the message writes the ids it names (writeIDs): as they are, re-split
//	          at the "/" the store keys are joined with, in upper case, cut short, between blanks
//	ids       class / token ids are sha256 hashes; they are named d1, d2, ... / m1, m2, ...
//	          in order of first appearance (opaque ids; MT.tla generates the same names
//	          from the two sequences).  Unknown names are sent as they are (no such object).
//	amounts   per-history base B = 2^base (driver cfg base=31|32|53|62|63, default 63):
//	          real uint64  a*B + v  (|v| < H/2)  <->  model  a'*H + v, with q = 2^64/B,
//	          M = min(q, 2048), H = 2^29/M, and maxU = M*H - 1 = 2^29 - 1 the image of 2^64-1.
//	            q <= 2048 (base 53, 62, 63): a' = a — the map is the ring homomorphism of
//	              {a*B+v} in Z/2^64 onto Z/(M*H): exact for +, -, comparisons, wrap-around.
//	            q >  2048 (base 31, 32): only two zones of a are representable: the low zone
//	              a < 1024 (a' = a) and the high zone a > q-1024 (a' = M-(q-a), values within
//	              1024*B of 2^64); exact as long as no value falls into the gap between them
//	              (the drivers keep total supplies below 1024*B or within 1024*B of 2^64).
//	          Anything else is "inexact" (counted in the state; the trace is then not a
//	          faithful image).  ev.amtReal carries the real amount as a decimal string.
//	data      abstract string <-> bytes; "keep" <-> "[do-not-modify]"
const (
	keep    = "keep"
	modAcct = "mod"
	spare   = "sx"
)

// writeIDs: how a message writes the class id and the token id under ev.form (MT.tla).
func writeIDs(c, id, form string) (string, string) {
	if c == "" {
		return c, id
	}
	switch form {
	case "split":
		h := len(id) / 2
		return c + "/" + id[:h], id[h:]
	case "idupper":
		return c, strings.ToUpper(id)
	case "idprefix":
		if len(id) > 1 {
			id = id[:len(id)-1]
		}
		return c, id
	case "idspace":
		return c, " " + id + " "
	case "clsupper":
		return strings.ToUpper(c), id
	case "clsprefix":
		return c[:len(c)-1], id
	case "clsspace":
		return " " + c, id
	}
	return c, id
}

// scale is the amount map of one history.
type scale struct {
	base  int      // log2 of B
	b     *big.Int // B
	q     *big.Int // 2^64 / B
	h, m  int64    // model unit H, model modulus M (in units of H)
	gap   int64    // 0: a' = a; else size of each representable zone of a
	vLim  int64
	maxUM int64
}

func newScale(base int) *scale {
	if base < 31 || base > 63 {
		panic(fmt.Sprintf("mt: base=%d not in 31..63", base))
	}
	sc := &scale{base: base, b: new(big.Int).Lsh(big.NewInt(1), uint(base)), q: new(big.Int).Lsh(big.NewInt(1), uint(64-base))}
	sc.m = 2048
	if sc.q.IsInt64() && sc.q.Int64() <= 2048 {
		sc.m = sc.q.Int64()
	} else {
		sc.gap = 1024
	}
	sc.h = (int64(1) << 29) / sc.m
	sc.vLim = sc.h / 2
	sc.maxUM = sc.m*sc.h - 1
	return sc
}

// toModel maps a real amount to its model image.
func (sc *scale) toModel(x uint64) (int64, bool) {
	bx := new(big.Int).SetUint64(x)
	a := new(big.Int).Add(bx, new(big.Int).Rsh(sc.b, 1))
	a.Div(a, sc.b) // a in 0..q
	v := new(big.Int).Sub(bx, new(big.Int).Mul(a, sc.b))
	ok := v.IsInt64() && v.Int64() < sc.vLim && v.Int64() > -sc.vLim
	var am int64
	switch {
	case sc.gap == 0:
		am = a.Int64()
	case a.IsInt64() && a.Int64() < sc.gap:
		am = a.Int64()
	default:
		d := new(big.Int).Sub(sc.q, a) // distance from the top, in units of B
		if d.IsInt64() && d.Int64() < sc.gap {
			am = sc.m - d.Int64()
		} else {
			am, ok = sc.gap, false // in the gap: not representable
		}
	}
	if !ok {
		return am * sc.h, false
	}
	return am*sc.h + v.Int64(), true
}

// toReal maps a model amount to the real one; ok=false if it has no uint64 image.
func (sc *scale) toReal(m int64) (uint64, bool) {
	if m < 0 {
		return 0, false
	}
	am := (m + sc.vLim) / sc.h
	v := m - am*sc.h
	a := big.NewInt(am)
	if sc.gap != 0 && am >= sc.gap {
		if am == sc.gap {
			return 0, false
		}
		a = new(big.Int).Sub(sc.q, big.NewInt(sc.m-am))
	}
	r := new(big.Int).Add(new(big.Int).Mul(a, sc.b), big.NewInt(v))
	if r.Sign() < 0 || !r.IsUint64() {
		return 0, false
	}
	return r.Uint64(), true
}

type mtEnv struct {
	c       *chain.Chain
	sc      *scale
	users   []string          // signers
	tracked []string          // users + "mod"
	addrs   map[string]string // account name -> bech32 (accounts that cannot sign)
	names   map[string]string // bech32 -> account name
	abs     map[string]string // real id -> abstract name
	realID  map[string]string // abstract name -> real id
	nd, nm  int
	inexact int
	last    chain.M
}

// usersIn: the largest N with an account name uN in the behaviour.
func usersIn(beh []chain.M, fields ...string) int {
	max := 0
	for _, ev := range beh {
		for _, f := range fields {
			var n int
			if _, err := fmt.Sscanf(chain.Str(ev, f), "u%d", &n); err == nil && n > max && n < 50 {
				max = n
			}
		}
	}
	return max
}

func newMtEnv(fl *drv.Flags, minUsers int) *mtEnv {
	e := &mtEnv{names: map[string]string{}, addrs: map[string]string{}, abs: map[string]string{}, realID: map[string]string{}}
	e.sc = newScale(int(fl.CfgInt("base", 63)))
	n := int(fl.CfgInt("users", 3))
	if minUsers > n {
		n = minUsers
	}
	accts := map[string]string{spare: "1000stake"}
	for i := 1; i <= n; i++ {
		u := fmt.Sprintf("u%d", i)
		e.users = append(e.users, u)
		accts[u] = "1000stake"
	}
	e.tracked = append(append([]string{}, e.users...), modAcct)
	e.addrs[modAcct] = chain.ModuleAddr(authtypes.FeeCollectorName).String()
	e.c = chain.New(chain.Options{Accounts: accts})
	for _, u := range e.users {
		e.names[e.c.Accts[u].Addr.String()] = u
	}
	e.names[e.addrs[modAcct]] = modAcct
	e.c.Project = func(ctx sdk.Context) any { return e.project(ctx) }
	return e
}

func (e *mtEnv) canSign(name string) bool {
	for _, u := range e.users {
		if u == name {
			return true
		}
	}
	return false
}

func (e *mtEnv) accAddr(name string) sdk.AccAddress {
	a, err := sdk.AccAddressFromBech32(e.addr(name))
	if err != nil {
		panic(err)
	}
	return a
}

func (e *mtEnv) nameOf(bech string) string {
	if n, ok := e.names[bech]; ok {
		return n
	}
	return bech
}

func (e *mtEnv) addr(name string) string {
	if a, ok := e.addrs[name]; ok {
		return a
	}
	if a, ok := e.c.Accts[name]; ok && name != spare {
		return a.Addr.String()
	}
	return name
}

func (e *mtEnv) denomName(id string) string {
	if n, ok := e.abs["d:"+id]; ok {
		return n
	}
	e.nd++
	n := fmt.Sprintf("d%d", e.nd)
	e.abs["d:"+id], e.realID[n] = n, id
	return n
}

func (e *mtEnv) mtName(id string) string {
	if n, ok := e.abs["m:"+id]; ok {
		return n
	}
	e.nm++
	n := fmt.Sprintf("m%d", e.nm)
	e.abs["m:"+id], e.realID[n] = n, id
	return n
}

func (e *mtEnv) real(name string) string {
	if id, ok := e.realID[name]; ok {
		return id
	}
	return name
}

func (e *mtEnv) amt(x uint64, inexact *int) int64 {
	v, ok := e.sc.toModel(x)
	if !ok {
		*inexact++
	}
	return v
}

func decData(b []byte) string {
	if string(b) == mttypes.DoNotModify {
		return keep
	}
	return string(b)
}

func encData(s string) []byte {
	if s == keep {
		return []byte(mttypes.DoNotModify)
	}
	if s == "" {
		return nil
	}
	return []byte(s)
}

// project reads the abstract state of MT.tla through the module's queries
// (Denoms, MTs, MT, Balances) and getters (sequences, class counter, balances).
func (e *mtEnv) project(ctx sdk.Context) any {
	k := e.c.K.MT
	inexact := 0
	cls, mts, supC := chain.M{}, chain.M{}, chain.M{}
	type dn struct{ id, name string }
	var denoms []dn
	var key []byte
	for {
		r, err := k.Denoms(ctx, &mttypes.QueryDenomsRequest{Pagination: &query.PageRequest{Key: key}})
		if err != nil {
			panic(err)
		}
		for _, d := range r.Denoms {
			n := e.denomName(d.Id)
			denoms = append(denoms, dn{d.Id, n})
			cls[n] = chain.M{"owner": e.nameOf(d.Owner), "name": d.Name, "data": decData(d.Data)}
		}
		if r.Pagination == nil || len(r.Pagination.NextKey) == 0 {
			break
		}
		key = r.Pagination.NextKey
	}
	mtOf := map[string][]dn{}
	for _, d := range denoms {
		tm := chain.M{}
		var key []byte
		for {
			r, err := k.MTs(ctx, &mttypes.QueryMTsRequest{DenomId: d.id, Pagination: &query.PageRequest{Key: key}})
			if err != nil {
				panic(err)
			}
			for _, m := range r.Mts {
				n := e.mtName(m.Id)
				mtOf[d.id] = append(mtOf[d.id], dn{m.Id, n})
				// the single-token query is the reference for supply and data
				// (a query that fails - possible on a broken tree - marks the observation
				// instead of ending the run)
				one, err := k.MT(ctx, &mttypes.QueryMTRequest{DenomId: d.id, MtId: m.Id})
				if err != nil || one.Mt == nil {
					tm[n] = chain.M{"data": "?error", "supply": e.sc.maxUM}
					continue
				}
				tm[n] = chain.M{"data": decData(one.Mt.Data), "supply": e.amt(one.Mt.Supply, &inexact)}
			}
			if r.Pagination == nil || len(r.Pagination.NextKey) == 0 {
				break
			}
			key = r.Pagination.NextKey
		}
		mts[d.name] = tm
		supC[d.name] = int64(k.GetDenomSupply(ctx, d.id))
	}
	const maxPages = 300 // a pagination that never ends is cut off
	bal, qbal, qsup := chain.M{}, chain.M{}, chain.M{}
	for _, d := range denoms {
		sm := chain.M{}
		for _, m := range mtOf[d.id] {
			if r, err := k.MTSupply(ctx, &mttypes.QueryMTSupplyRequest{DenomId: d.id, MtId: m.id}); err == nil {
				sm[m.name] = e.amt(r.Amount, &inexact)
			}
		}
		qsup[d.name] = sm
	}
	for _, u := range e.tracked {
		row, qrow := chain.M{}, chain.M{}
		for _, d := range denoms {
			bm, qm := chain.M{}, chain.M{}
			for _, m := range mtOf[d.id] {
				bm[m.name] = e.amt(k.GetBalance(ctx, d.id, m.id, e.accAddr(u)), &inexact)
			}
			// the Balances query, page by page (two entries a page); holdings it lists under
			// ids without a token record are part of the state as well
			var key []byte
			for page := 0; ; page++ {
				r, err := k.Balances(ctx, &mttypes.QueryBalancesRequest{Owner: e.addr(u), DenomId: d.id, Pagination: &query.PageRequest{Key: key, Limit: 2}})
				if err != nil {
					for _, m := range mtOf[d.id] {
						qm[m.name] = e.sc.maxUM
					}
					break
				}
				for _, b := range r.Balance {
					n := e.mtName(b.MtId)
					qm[n] = e.amt(b.Amount, &inexact)
					if _, known := bm[n]; !known && b.Amount != 0 {
						bm[n] = e.amt(b.Amount, &inexact)
					}
				}
				if r.Pagination == nil || len(r.Pagination.NextKey) == 0 || page > maxPages {
					break
				}
				key = r.Pagination.NextKey
			}
			row[d.name], qrow[d.name] = bm, qm
		}
		bal[u], qbal[u] = row, qrow
	}
	raw := e.scan(ctx, &inexact)
	broken := false
	func() {
		defer func() {
			if r := recover(); r != nil {
				broken = true
			}
		}()
		_, broken = mtkeeper.SupplyInvariant(k)(ctx)
	}()
	return chain.M{"maxU": e.sc.maxUM, "base": int64(e.sc.base), "hunit": e.sc.h, "seqD": int64(k.GetDenomSequence(ctx)), "seqM": int64(k.GetMTSequence(ctx)),
		"cls": cls, "mts": mts, "supC": supC, "bal": bal, "inexact": int64(inexact), "invBroken": broken,
		"raw": raw, "q": chain.M{"sup": qsup, "bal": qbal}}
}

// scan reads the mt store key by key (types/keys.go): class records 0x01/<class>, token records
// 0x02/<class>/<token>, balances 0x03/<address>/<class>/<token>, supplies 0x04/<class>/<token>
// (0x04/<class>/ is the class's token counter).  Ids are named like everywhere else; addresses of
// tracked accounts by their names, any other address as it is.
func (e *mtEnv) scan(ctx sdk.Context, inexact *int) chain.M {
	cls := []any{}
	mts, sup, bal := chain.M{}, chain.M{}, chain.M{}
	sub := func(m chain.M, k string) chain.M {
		if v, ok := m[k].(chain.M); ok {
			return v
		}
		v := chain.M{}
		m[k] = v
		return v
	}
	num := func(bz []byte) uint64 {
		var v gogotypes.UInt64Value
		if err := v.Unmarshal(bz); err != nil {
			*inexact++
			return 0
		}
		return v.Value
	}
	it := ctx.KVStore(e.c.App.UnsafeFindStoreKey(mttypes.StoreKey)).Iterator(nil, nil)
	defer it.Close()
	for ; it.Valid(); it.Next() {
		k, v := it.Key(), it.Value()
		if len(k) < 2 || k[1] != '/' {
			continue // the two sequences
		}
		parts := bytes.Split(k[2:], []byte("/"))
		switch k[0] {
		case 0x01:
			cls = append(cls, e.denomName(string(k[2:])))
		case 0x02:
			if len(parts) >= 2 {
				c := e.denomName(string(parts[0]))
				l, _ := mts[c].([]any)
				mts[c] = append(l, e.mtName(string(bytes.Join(parts[1:], []byte("/")))))
			}
		case 0x03:
			if len(parts) >= 3 {
				a := e.nameOf(string(parts[0]))
				row := sub(sub(bal, a), e.denomName(string(parts[1])))
				row[e.mtName(string(bytes.Join(parts[2:], []byte("/"))))] = e.amt(num(v), inexact)
			}
		case 0x04:
			if len(parts) >= 2 && len(parts[1]) > 0 {
				row := sub(sup, e.denomName(string(parts[0])))
				row[e.mtName(string(bytes.Join(parts[1:], []byte("/"))))] = e.amt(num(v), inexact)
			}
		}
	}
	return chain.M{"cls": cls, "mts": mts, "sup": sup, "bal": bal}
}

func mtEvent(name, who, cls, id, to string, amt int64) chain.M {
	return chain.M{"name": name, "who": who, "cls": cls, "id": id, "to": to, "amt": amt, "data": "", "cname": "",
		"ok": true, "panic": false, "gen": "", "amtReal": "", "form": ""}
}

func (e *mtEnv) norm(ev chain.M) chain.M {
	o := mtEvent(chain.Str(ev, "name"), chain.Str(ev, "who"), chain.Str(ev, "cls"), chain.Str(ev, "id"),
		chain.Str(ev, "to"), chain.Num(ev, "amt"))
	o["data"], o["cname"], o["form"] = chain.Str(ev, "data"), chain.Str(ev, "cname"), chain.Str(ev, "form")
	return o
}

// msgOf maps an abstract event to a real message; nil when it has no image
// (non-message events, amounts outside uint64).
func (e *mtEnv) msgOf(ev chain.M) sdk.Msg {
	who := e.addr(chain.Str(ev, "who"))
	to := chain.Str(ev, "to")
	if to != "" {
		to = e.addr(to)
	}
	c, id := writeIDs(e.real(chain.Str(ev, "cls")), e.real(chain.Str(ev, "id")), chain.Str(ev, "form"))
	amt, ok := e.sc.toReal(chain.Num(ev, "amt"))
	if !ok {
		return nil
	}
	switch chain.Str(ev, "name") {
	case "IssueDenom":
		return &mttypes.MsgIssueDenom{Name: chain.Str(ev, "cname"), Data: encData(chain.Str(ev, "data")), Sender: who}
	case "MintMT":
		return &mttypes.MsgMintMT{Id: id, DenomId: c, Amount: amt, Data: encData(chain.Str(ev, "data")), Sender: who, Recipient: to}
	case "EditMT":
		return &mttypes.MsgEditMT{Id: id, DenomId: c, Data: encData(chain.Str(ev, "data")), Sender: who}
	case "TransferMT":
		return &mttypes.MsgTransferMT{Id: id, DenomId: c, Amount: amt, Sender: who, Recipient: to}
	case "BurnMT":
		return &mttypes.MsgBurnMT{Id: id, DenomId: c, Amount: amt, Sender: who}
	case "TransferDenom":
		return &mttypes.MsgTransferDenom{Id: c, Sender: who, Recipient: to}
	}
	return nil
}

func attr(evs []abci.Event, typ, key string) string {
	for _, e := range evs {
		if e.Type != typ {
			continue
		}
		for _, a := range e.Attributes {
			if a.Key == key {
				return a.Value
			}
		}
	}
	return ""
}

func (e *mtEnv) runBlock(pending []chain.M, w *chain.TraceWriter) {
	var txs []chain.Tx
	for _, ev := range pending {
		who := chain.Str(ev, "who")
		tx := chain.Tx{Signer: who, Msgs: []sdk.Msg{e.msgOf(ev)}}
		if !e.canSign(who) {
			// nobody holds a key of this sender: the transaction is signed by the spare account
			// and the ante handler refuses it (kept out of bundles: it must fail alone)
			tx.Signer, tx.NoBundle = spare, true
		}
		txs = append(txs, tx)
	}
	res := e.c.RunBlock(5*time.Second, txs)
	if res.Halt {
		panic("mt: block halted: " + res.HaltMsg)
	}
	for i, ev := range pending {
		r := res.Txs[i]
		if r.Aborted {
			// member of a multi-message transaction that failed as a whole (chain.BundlePct):
			// whatever it did was rolled back; the specification knows no such event and
			// treats it as a rejection without effect
			ev["_orig"], ev["name"] = ev["name"], "TxFailed"
		}
		ev["ok"], ev["panic"] = r.OK, r.Panic
		// the real uint64 amount, as a decimal string (for readers and a big-number tier)
		if ra, ok := e.sc.toReal(chain.Num(ev, "amt")); ok {
			ev["amtReal"] = fmt.Sprintf("%d", ra)
		}
		if r.OK {
			switch chain.Str(ev, "name") {
			case "IssueDenom":
				if id := attr(r.Events, mttypes.EventTypeIssueDenom, mttypes.AttributeKeyDenomID); id != "" {
					ev["gen"] = e.denomName(id)
				}
			case "MintMT":
				if chain.Str(ev, "id") == "" {
					if id := attr(r.Events, mttypes.EventTypeMintMT, mttypes.AttributeKeyMTID); id != "" {
						ev["gen"] = e.mtName(id)
					}
				}
			}
		}
		st := r.State
		if st == nil {
			st = res.BeginState
		}
		w.Write(ev, st)
		if m, ok := st.(chain.M); ok {
			e.last = m
		}
	}
	w.Write(mtEvent("EndBlock", "", "", "", "", 0), res.EndState)
	if m, ok := res.EndState.(chain.M); ok {
		e.last = m
	}
}

func (e *mtEnv) start(w *chain.TraceWriter) {
	e.last = e.project(e.c.Ctx()).(chain.M)
	w.Write(mtEvent("Init", "", "", "", "", 0), e.last)
}

func mtRun(fl *drv.Flags, beh []chain.M, w *chain.TraceWriter) {
	hasEnd := false
	for _, ev := range beh {
		hasEnd = hasEnd || chain.Str(ev, "name") == "EndBlock"
	}
	e := newMtEnv(fl, usersIn(beh, "who", "to"))
	e.start(w)
	per := int(fl.CfgInt("perblock", 3))
	var pending []chain.M
	for _, raw := range beh {
		ev := e.norm(raw)
		if chain.Str(ev, "name") == "EndBlock" {
			e.runBlock(pending, w)
			pending = nil
			continue
		}
		// ids are resolved when the block is built: an event may name an object
		// created earlier in the same block only if the block is cut before it
		if e.needsFlush(ev) && len(pending) > 0 && !hasEnd {
			e.runBlock(pending, w)
			pending = nil
		}
		if e.msgOf(ev) == nil {
			continue
		}
		pending = append(pending, ev)
		if !hasEnd && len(pending) >= per {
			e.runBlock(pending, w)
			pending = nil
		}
	}
	if len(pending) > 0 {
		e.runBlock(pending, w)
	}
	e.epilogue(fl, w)
}

// lenient readers of the projected state (a broken tree may produce anything)
func subM(m chain.M, k string) chain.M {
	if v, ok := m[k].(chain.M); ok {
		return v
	}
	return chain.M{}
}

func numOf(m chain.M, k string) int64 {
	switch v := m[k].(type) {
	case int64:
		return v
	case int:
		return int64(v)
	case float64:
		return int64(v)
	}
	return 0
}

// epilogue closes a history from what the REAL store holds (not from what the specification
// expected): every balance entry of a signing account - up to a bound - is first moved as a whole
// to the next user (who may hold the token already), then every holder burns everything it has
// ("withdraw everything"); every class is handed over by its recorded owner.  Whatever the code
// wrongly accepted before is thereby followed up and judged by the clauses: the supplies must
// come down to exactly what the accounts that cannot sign still hold.
func (e *mtEnv) epilogue(fl *drv.Flags, w *chain.TraceWriter) {
	if fl.CfgInt("epilogue", 1) == 0 {
		return
	}
	next := func(u string) string {
		for i, x := range e.users {
			if x == u {
				return e.users[(i+1)%len(e.users)]
			}
		}
		return e.users[0]
	}
	type hold struct {
		a, c, m string
		v       int64
	}
	holdings := func() []hold {
		var out []hold
		rb := subM(subM(e.last, "raw"), "bal")
		for _, a := range chain.SortedKeys(rb) {
			if !e.canSign(a) {
				continue
			}
			for _, c := range chain.SortedKeys(subM(rb, a)) {
				row := subM(subM(rb, a), c)
				for _, m := range chain.SortedKeys(row) {
					if v := numOf(row, m); v > 0 && v <= e.sc.maxUM {
						out = append(out, hold{a, c, m, v})
					}
				}
			}
		}
		return out
	}
	var blk []chain.M
	for i, h := range holdings() {
		if i < 4 {
			blk = append(blk, mtEvent("TransferMT", h.a, h.c, h.m, next(h.a), h.v))
		}
	}
	if len(blk) > 0 {
		e.runBlock(blk, w)
	}
	blk = nil
	for i, h := range holdings() {
		if i < 10 {
			blk = append(blk, mtEvent("BurnMT", h.a, h.c, h.m, "", h.v))
		}
	}
	cls := subM(e.last, "cls")
	for i, c := range chain.SortedKeys(cls) {
		if o, _ := subM(cls, c)["owner"].(string); i < 3 && e.canSign(o) {
			blk = append(blk, mtEvent("TransferDenom", o, c, "", next(o), 0))
		}
	}
	var ok []chain.M
	for _, ev := range blk {
		if e.msgOf(ev) != nil {
			ok = append(ok, ev)
		}
	}
	if len(ok) > 0 {
		e.runBlock(ok, w)
	}
}

// needsFlush: the event names a class / token the harness has not seen yet
// (it may be created by a pending event of the current block).
func (e *mtEnv) needsFlush(ev chain.M) bool {
	for _, f := range []string{"cls", "id"} {
		n := chain.Str(ev, f)
		if n == "" {
			continue
		}
		if _, ok := e.realID[n]; !ok {
			return true
		}
	}
	return false
}

func mtDriver(mode string, fl *drv.Flags) error {
	w := chain.NewTraceWriter(fl.Out)
	defer w.Close()
	switch mode {
	case "replay":
		for _, beh := range chain.ReadBehaviours(fl.In) {
			mtRun(fl, beh, w)
		}
	case "random":
		rng := rand.New(rand.NewSource(fl.Seed))
		for i := 0; i < fl.N; i++ {
			mtRandom(fl, rng, w)
		}
	default:
		return fmt.Errorf("unknown mode %q", mode)
	}
	return nil
}

