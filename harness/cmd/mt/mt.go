package main

import (
	"fmt"
	"math/big"
	"math/rand"
	"time"

	abci "github.com/cometbft/cometbft/abci/types"
	sdk "github.com/cosmos/cosmos-sdk/types"
	"github.com/cosmos/cosmos-sdk/types/query"

	"verif/harness/chain"
	"verif/harness/drv"

	mtkeeper "mods.irisnet.org/modules/mt/keeper"
	mttypes "mods.irisnet.org/modules/mt/types"
)

func main() { drv.Main("mt", mtDriver) }

// Model <-> chain mapping for MT.tla:
//
//	accounts  "u1".."uN"
//	ids       class / token ids are sha256 hashes; they are named d1, d2, ... / m1, m2, ...
//	          in order of first appearance (opaque ids; MT.tla generates the same names
//	          from the two sequences).  Unknown names are sent as they are (no such object).
//	amounts   per-history base B = 2^base (driver cfg base=31|32|53|62|63, default 63):
//	          real uint64  a*B + v  (|v| < H/2)  <->  model  a'*H + v, with q = 2^64/B,
//	          M = min(q, 2048), H = 2^29/M, and maxU = M*H - 1 = 2^29 - 1 the image of 2^64-1.
//	            q <= 2048 (base 53, 62, 63): a' = a — the map is the ring homomorphism of
//	              {a*B+v} in Z/2^64 onto Z/(M*H): exact for +, -, comparisons, wrap-around.
//	            q >  2048 (base 31, 32): only two zones of a are representable: the low zone
//	              a < 1024 (a' = a) and the high zone a > q-1024 (a' = M-(q-a), values within
//	              1024*B of 2^64); exact as long as no value falls into the gap between them
//	              (the drivers keep total supplies below 1024*B or within 1024*B of 2^64).
//	          Anything else is "inexact" (counted in the state; the trace is then not a
//	          faithful image).  ev.amtReal carries the real amount as a decimal string.
//	data      abstract string <-> bytes; "keep" <-> "[do-not-modify]"
const keep = "keep"

// scale is the amount map of one history.
type scale struct {
	base  int      // log2 of B
	b     *big.Int // B
	q     *big.Int // 2^64 / B
	h, m  int64    // model unit H, model modulus M (in units of H)
	gap   int64    // 0: a' = a; else size of each representable zone of a
	vLim  int64
	maxUM int64
}

func newScale(base int) *scale {
	if base < 31 || base > 63 {
		panic(fmt.Sprintf("mt: base=%d not in 31..63", base))
	}
	sc := &scale{base: base, b: new(big.Int).Lsh(big.NewInt(1), uint(base)), q: new(big.Int).Lsh(big.NewInt(1), uint(64-base))}
	sc.m = 2048
	if sc.q.IsInt64() && sc.q.Int64() <= 2048 {
		sc.m = sc.q.Int64()
	} else {
		sc.gap = 1024
	}
	sc.h = (int64(1) << 29) / sc.m
	sc.vLim = sc.h / 2
	sc.maxUM = sc.m*sc.h - 1
	return sc
}

// toModel maps a real amount to its model image.
func (sc *scale) toModel(x uint64) (int64, bool) {
	bx := new(big.Int).SetUint64(x)
	a := new(big.Int).Add(bx, new(big.Int).Rsh(sc.b, 1))
	a.Div(a, sc.b) // a in 0..q
	v := new(big.Int).Sub(bx, new(big.Int).Mul(a, sc.b))
	ok := v.IsInt64() && v.Int64() < sc.vLim && v.Int64() > -sc.vLim
	var am int64
	switch {
	case sc.gap == 0:
		am = a.Int64()
	case a.IsInt64() && a.Int64() < sc.gap:
		am = a.Int64()
	default:
		d := new(big.Int).Sub(sc.q, a) // distance from the top, in units of B
		if d.IsInt64() && d.Int64() < sc.gap {
			am = sc.m - d.Int64()
		} else {
			am, ok = sc.gap, false // in the gap: not representable
		}
	}
	if !ok {
		return am * sc.h, false
	}
	return am*sc.h + v.Int64(), true
}

// toReal maps a model amount to the real one; ok=false if it has no uint64 image.
func (sc *scale) toReal(m int64) (uint64, bool) {
	if m < 0 {
		return 0, false
	}
	am := (m + sc.vLim) / sc.h
	v := m - am*sc.h
	a := big.NewInt(am)
	if sc.gap != 0 && am >= sc.gap {
		if am == sc.gap {
			return 0, false
		}
		a = new(big.Int).Sub(sc.q, big.NewInt(sc.m-am))
	}
	r := new(big.Int).Add(new(big.Int).Mul(a, sc.b), big.NewInt(v))
	if r.Sign() < 0 || !r.IsUint64() {
		return 0, false
	}
	return r.Uint64(), true
}

type mtEnv struct {
	c       *chain.Chain
	sc      *scale
	users   []string
	names   map[string]string // bech32 -> account name
	abs     map[string]string // real id -> abstract name
	realID  map[string]string // abstract name -> real id
	nd, nm  int
	inexact int
	last    chain.M
}

// usersIn: the largest N with an account name uN in the behaviour.
func usersIn(beh []chain.M, fields ...string) int {
	max := 0
	for _, ev := range beh {
		for _, f := range fields {
			var n int
			if _, err := fmt.Sscanf(chain.Str(ev, f), "u%d", &n); err == nil && n > max && n < 50 {
				max = n
			}
		}
	}
	return max
}

func newMtEnv(fl *drv.Flags, minUsers int) *mtEnv {
	e := &mtEnv{names: map[string]string{}, abs: map[string]string{}, realID: map[string]string{}}
	e.sc = newScale(int(fl.CfgInt("base", 63)))
	n := int(fl.CfgInt("users", 3))
	if minUsers > n {
		n = minUsers
	}
	accts := map[string]string{}
	for i := 1; i <= n; i++ {
		u := fmt.Sprintf("u%d", i)
		e.users = append(e.users, u)
		accts[u] = "1000stake"
	}
	e.c = chain.New(chain.Options{Accounts: accts})
	for _, u := range e.users {
		e.names[e.c.Accts[u].Addr.String()] = u
	}
	e.c.Project = func(ctx sdk.Context) any { return e.project(ctx) }
	return e
}

func (e *mtEnv) nameOf(bech string) string {
	if n, ok := e.names[bech]; ok {
		return n
	}
	return bech
}

func (e *mtEnv) addr(name string) string {
	if a, ok := e.c.Accts[name]; ok {
		return a.Addr.String()
	}
	return name
}

func (e *mtEnv) denomName(id string) string {
	if n, ok := e.abs["d:"+id]; ok {
		return n
	}
	e.nd++
	n := fmt.Sprintf("d%d", e.nd)
	e.abs["d:"+id], e.realID[n] = n, id
	return n
}

func (e *mtEnv) mtName(id string) string {
	if n, ok := e.abs["m:"+id]; ok {
		return n
	}
	e.nm++
	n := fmt.Sprintf("m%d", e.nm)
	e.abs["m:"+id], e.realID[n] = n, id
	return n
}

func (e *mtEnv) real(name string) string {
	if id, ok := e.realID[name]; ok {
		return id
	}
	return name
}

func (e *mtEnv) amt(x uint64, inexact *int) int64 {
	v, ok := e.sc.toModel(x)
	if !ok {
		*inexact++
	}
	return v
}

func decData(b []byte) string {
	if string(b) == mttypes.DoNotModify {
		return keep
	}
	return string(b)
}

func encData(s string) []byte {
	if s == keep {
		return []byte(mttypes.DoNotModify)
	}
	if s == "" {
		return nil
	}
	return []byte(s)
}

// project reads the abstract state of MT.tla through the module's queries
// (Denoms, MTs, MT, Balances) and getters (sequences, class counter, balances).
func (e *mtEnv) project(ctx sdk.Context) any {
	k := e.c.K.MT
	inexact := 0
	cls, mts, supC := chain.M{}, chain.M{}, chain.M{}
	type dn struct{ id, name string }
	var denoms []dn
	var key []byte
	for {
		r, err := k.Denoms(ctx, &mttypes.QueryDenomsRequest{Pagination: &query.PageRequest{Key: key}})
		if err != nil {
			panic(err)
		}
		for _, d := range r.Denoms {
			n := e.denomName(d.Id)
			denoms = append(denoms, dn{d.Id, n})
			cls[n] = chain.M{"owner": e.nameOf(d.Owner), "name": d.Name, "data": decData(d.Data)}
		}
		if r.Pagination == nil || len(r.Pagination.NextKey) == 0 {
			break
		}
		key = r.Pagination.NextKey
	}
	mtOf := map[string][]dn{}
	for _, d := range denoms {
		tm := chain.M{}
		var key []byte
		for {
			r, err := k.MTs(ctx, &mttypes.QueryMTsRequest{DenomId: d.id, Pagination: &query.PageRequest{Key: key}})
			if err != nil {
				panic(err)
			}
			for _, m := range r.Mts {
				n := e.mtName(m.Id)
				mtOf[d.id] = append(mtOf[d.id], dn{m.Id, n})
				// the single-token query is the reference for supply and data
				one, err := k.MT(ctx, &mttypes.QueryMTRequest{DenomId: d.id, MtId: m.Id})
				if err != nil {
					panic(err)
				}
				tm[n] = chain.M{"data": decData(one.Mt.Data), "supply": e.amt(one.Mt.Supply, &inexact)}
			}
			if r.Pagination == nil || len(r.Pagination.NextKey) == 0 {
				break
			}
			key = r.Pagination.NextKey
		}
		mts[d.name] = tm
		supC[d.name] = int64(k.GetDenomSupply(ctx, d.id))
	}
	bal := chain.M{}
	for _, u := range e.users {
		row := chain.M{}
		for _, d := range denoms {
			bm := chain.M{}
			for _, m := range mtOf[d.id] {
				bm[m.name] = e.amt(k.GetBalance(ctx, d.id, m.id, e.c.Accts[u].Addr), &inexact)
			}
			// holdings the Balances query lists under ids without a token record
			var key []byte
			for {
				r, err := k.Balances(ctx, &mttypes.QueryBalancesRequest{Owner: e.addr(u), DenomId: d.id, Pagination: &query.PageRequest{Key: key}})
				if err != nil {
					panic(err)
				}
				for _, b := range r.Balance {
					n := e.mtName(b.MtId)
					if _, known := bm[n]; !known && b.Amount != 0 {
						bm[n] = e.amt(b.Amount, &inexact)
					}
				}
				if r.Pagination == nil || len(r.Pagination.NextKey) == 0 {
					break
				}
				key = r.Pagination.NextKey
			}
			row[d.name] = bm
		}
		bal[u] = row
	}
	broken := false
	func() {
		defer func() {
			if r := recover(); r != nil {
				broken = true
			}
		}()
		_, broken = mtkeeper.SupplyInvariant(k)(ctx)
	}()
	return chain.M{"maxU": e.sc.maxUM, "base": int64(e.sc.base), "hunit": e.sc.h, "seqD": int64(k.GetDenomSequence(ctx)), "seqM": int64(k.GetMTSequence(ctx)),
		"cls": cls, "mts": mts, "supC": supC, "bal": bal, "inexact": int64(inexact), "invBroken": broken}
}

func mtEvent(name, who, cls, id, to string, amt int64) chain.M {
	return chain.M{"name": name, "who": who, "cls": cls, "id": id, "to": to, "amt": amt, "data": "", "cname": "",
		"ok": true, "panic": false, "gen": "", "amtReal": ""}
}

func (e *mtEnv) norm(ev chain.M) chain.M {
	o := mtEvent(chain.Str(ev, "name"), chain.Str(ev, "who"), chain.Str(ev, "cls"), chain.Str(ev, "id"),
		chain.Str(ev, "to"), chain.Num(ev, "amt"))
	o["data"], o["cname"] = chain.Str(ev, "data"), chain.Str(ev, "cname")
	return o
}

// msgOf maps an abstract event to a real message; nil when it has no image
// (non-message events, amounts outside uint64).
func (e *mtEnv) msgOf(ev chain.M) sdk.Msg {
	who := e.addr(chain.Str(ev, "who"))
	to := chain.Str(ev, "to")
	if to != "" {
		to = e.addr(to)
	}
	c, id := e.real(chain.Str(ev, "cls")), e.real(chain.Str(ev, "id"))
	amt, ok := e.sc.toReal(chain.Num(ev, "amt"))
	if !ok {
		return nil
	}
	switch chain.Str(ev, "name") {
	case "IssueDenom":
		return &mttypes.MsgIssueDenom{Name: chain.Str(ev, "cname"), Data: encData(chain.Str(ev, "data")), Sender: who}
	case "MintMT":
		return &mttypes.MsgMintMT{Id: id, DenomId: c, Amount: amt, Data: encData(chain.Str(ev, "data")), Sender: who, Recipient: to}
	case "EditMT":
		return &mttypes.MsgEditMT{Id: id, DenomId: c, Data: encData(chain.Str(ev, "data")), Sender: who}
	case "TransferMT":
		return &mttypes.MsgTransferMT{Id: id, DenomId: c, Amount: amt, Sender: who, Recipient: to}
	case "BurnMT":
		return &mttypes.MsgBurnMT{Id: id, DenomId: c, Amount: amt, Sender: who}
	case "TransferDenom":
		return &mttypes.MsgTransferDenom{Id: c, Sender: who, Recipient: to}
	}
	return nil
}

func attr(evs []abci.Event, typ, key string) string {
	for _, e := range evs {
		if e.Type != typ {
			continue
		}
		for _, a := range e.Attributes {
			if a.Key == key {
				return a.Value
			}
		}
	}
	return ""
}

func (e *mtEnv) runBlock(pending []chain.M, w *chain.TraceWriter) {
	var txs []chain.Tx
	for _, ev := range pending {
		who := chain.Str(ev, "who")
		if _, ok := e.c.Accts[who]; !ok {
			who = e.users[0]
		}
		txs = append(txs, chain.Tx{Signer: who, Msgs: []sdk.Msg{e.msgOf(ev)}})
	}
	res := e.c.RunBlock(5*time.Second, txs)
	if res.Halt {
		panic("mt: block halted: " + res.HaltMsg)
	}
	for i, ev := range pending {
		r := res.Txs[i]
		if r.Aborted {
			// member of a multi-message transaction that failed as a whole (chain.BundlePct):
			// whatever it did was rolled back; the specification knows no such event and
			// treats it as a rejection without effect
			ev["name"] = "TxFailed"
		}
		ev["ok"], ev["panic"] = r.OK, r.Panic
		// the real uint64 amount, as a decimal string (for readers and a big-number tier)
		if ra, ok := e.sc.toReal(chain.Num(ev, "amt")); ok {
			ev["amtReal"] = fmt.Sprintf("%d", ra)
		}
		if r.OK {
			switch chain.Str(ev, "name") {
			case "IssueDenom":
				if id := attr(r.Events, mttypes.EventTypeIssueDenom, mttypes.AttributeKeyDenomID); id != "" {
					ev["gen"] = e.denomName(id)
				}
			case "MintMT":
				if chain.Str(ev, "id") == "" {
					if id := attr(r.Events, mttypes.EventTypeMintMT, mttypes.AttributeKeyMTID); id != "" {
						ev["gen"] = e.mtName(id)
					}
				}
			}
		}
		st := r.State
		if st == nil {
			st = res.BeginState
		}
		w.Write(ev, st)
		e.last = st.(chain.M)
	}
	w.Write(mtEvent("EndBlock", "", "", "", "", 0), res.EndState)
	e.last = res.EndState.(chain.M)
}

func (e *mtEnv) start(w *chain.TraceWriter) {
	e.last = e.project(e.c.Ctx()).(chain.M)
	w.Write(mtEvent("Init", "", "", "", "", 0), e.last)
}

func mtRun(fl *drv.Flags, beh []chain.M, w *chain.TraceWriter) {
	hasEnd := false
	for _, ev := range beh {
		hasEnd = hasEnd || chain.Str(ev, "name") == "EndBlock"
	}
	e := newMtEnv(fl, usersIn(beh, "who", "to"))
	e.start(w)
	per := int(fl.CfgInt("perblock", 3))
	var pending []chain.M
	for _, raw := range beh {
		ev := e.norm(raw)
		if chain.Str(ev, "name") == "EndBlock" {
			e.runBlock(pending, w)
			pending = nil
			continue
		}
		// ids are resolved when the block is built: an event may name an object
		// created earlier in the same block only if the block is cut before it
		if e.needsFlush(ev) && len(pending) > 0 && !hasEnd {
			e.runBlock(pending, w)
			pending = nil
		}
		if e.msgOf(ev) == nil {
			continue
		}
		pending = append(pending, ev)
		if !hasEnd && len(pending) >= per {
			e.runBlock(pending, w)
			pending = nil
		}
	}
	if len(pending) > 0 {
		e.runBlock(pending, w)
	}
}

// needsFlush: the event names a class / token the harness has not seen yet
// (it may be created by a pending event of the current block).
func (e *mtEnv) needsFlush(ev chain.M) bool {
	for _, f := range []string{"cls", "id"} {
		n := chain.Str(ev, f)
		if n == "" {
			continue
		}
		if _, ok := e.realID[n]; !ok {
			return true
		}
	}
	return false
}

func mtDriver(mode string, fl *drv.Flags) error {
	w := chain.NewTraceWriter(fl.Out)
	defer w.Close()
	switch mode {
	case "replay":
		for _, beh := range chain.ReadBehaviours(fl.In) {
			mtRun(fl, beh, w)
		}
	case "random":
		rng := rand.New(rand.NewSource(fl.Seed))
		for i := 0; i < fl.N; i++ {
			mtRandom(fl, rng, w)
		}
	default:
		return fmt.Errorf("unknown mode %q", mode)
	}
	return nil
}

// mtRandom: one random history.  Amounts: small values, the 2^63 / 2^64-1
// boundaries, "exactly what fits" and "one more than fits" (from the observed
// supply), balance, balance-1, balance+1 for transfers and burns; owners and
// strangers; transfer to self; handover then mint by old and new owner.
func mtRandom(fl *drv.Flags, rng *rand.Rand, w *chain.TraceWriter) {
	e := newMtEnv(fl, 0)
	e.start(w)
	pick := func(l []string) string { return l[rng.Intn(len(l))] }
	hModel, maxUM := e.sc.h, e.sc.maxUM
	// boundary amounts: one unit of the base and its neighbours, a few units with low
	// bits, the top of the range (low bits non-zero throughout)
	bigs := []int64{hModel, hModel - 1, hModel + 1, maxUM, maxUM - 1, maxUM - 5, hModel + 7}
	if e.sc.m > 2 {
		bigs = append(bigs, 2*hModel-3, 3*hModel+5, maxUM-hModel-2)
	}
	for b := 0; b < fl.Len; b++ {
		var pending []chain.M
		cls := e.last["cls"].(chain.M)
		mts := e.last["mts"].(chain.M)
		bal := e.last["bal"].(chain.M)
		have := chain.SortedKeys(cls)
		type tk struct {
			c, m string
			sup  int64
		}
		var toks []tk
		for _, c := range have {
			tm := mts[c].(chain.M)
			for _, m := range chain.SortedKeys(tm) {
				toks = append(toks, tk{c, m, tm[m].(chain.M)["supply"].(int64)})
			}
		}
		balOf := func(u, c, m string) int64 {
			if row, ok := bal[u].(chain.M)[c].(chain.M); ok {
				if v, ok := row[m].(int64); ok {
					return v
				}
			}
			return 0
		}
		ownerOf := func(c string) string { return cls[c].(chain.M)["owner"].(string) }
		n := 1 + rng.Intn(4)
		for j := 0; j < n; j++ {
			u := pick(e.users)
			x := rng.Intn(100)
			switch {
			case (x < 6 && len(have) < 4) || len(have) == 0:
				ev := mtEvent("IssueDenom", u, "", "", "", 0)
				ev["cname"], ev["data"] = pick([]string{"n", "x y", " "}), pick([]string{"a", "b", ""})
				if rng.Intn(8) > 0 {
					ev["cname"] = "n"
				}
				pending = append(pending, ev)
			case x < 20 || len(toks) == 0:
				c := pick(have)
				who := ownerOf(c)
				if rng.Intn(4) == 0 {
					who = u
				}
				amt := int64(1 + rng.Intn(9))
				if rng.Intn(3) == 0 {
					amt = bigs[rng.Intn(len(bigs))]
				}
				ev := mtEvent("MintMT", who, c, "", pick(append([]string{""}, e.users...)), amt)
				ev["data"] = pick([]string{"a", "b", ""})
				pending = append(pending, ev)
			case x < 40:
				t := toks[rng.Intn(len(toks))]
				who := ownerOf(t.c)
				if rng.Intn(4) == 0 {
					who = u
				}
				var amt int64
				switch rng.Intn(6) {
				case 0:
					amt = bigs[rng.Intn(len(bigs))]
				case 1:
					amt = maxUM - t.sup // exactly what fits
				case 2:
					amt = maxUM - t.sup + 1 // one too many
				default:
					amt = int64(rng.Intn(10)) // includes 0 (invalid)
				}
				ev := mtEvent("MintMT", who, t.c, t.m, pick(append([]string{""}, e.users...)), amt)
				if rng.Intn(15) == 0 {
					ev["data"] = "a" // metadata is refused when minting an existing token
				}
				pending = append(pending, ev)
			case x < 50:
				t := toks[rng.Intn(len(toks))]
				who := ownerOf(t.c)
				if rng.Intn(3) == 0 {
					who = u
				}
				ev := mtEvent("EditMT", who, t.c, t.m, "", 0)
				ev["data"] = pick([]string{"a", "b", "c", keep, keep})
				pending = append(pending, ev)
			case x < 75:
				t := toks[rng.Intn(len(toks))]
				who := u
				bw := balOf(who, t.c, t.m)
				var amt int64
				switch rng.Intn(6) {
				case 0:
					amt = bw + 1
				case 1:
					amt = bw
				case 2:
					amt = bw - 1
				case 3:
					amt = bigs[rng.Intn(len(bigs))]
				default:
					amt = int64(1 + rng.Intn(5))
				}
				to := pick(e.users)
				if rng.Intn(6) == 0 {
					to = who
				}
				pending = append(pending, mtEvent("TransferMT", who, t.c, t.m, to, amt))
			case x < 90:
				t := toks[rng.Intn(len(toks))]
				who := u
				bw := balOf(who, t.c, t.m)
				var amt int64
				switch rng.Intn(5) {
				case 0:
					amt = bw + 1
				case 1:
					amt = bw
				case 2:
					amt = bigs[rng.Intn(len(bigs))]
				default:
					amt = int64(1 + rng.Intn(5))
				}
				pending = append(pending, mtEvent("BurnMT", who, t.c, t.m, "", amt))
			default:
				c := pick(have)
				who := ownerOf(c)
				if rng.Intn(3) == 0 {
					who = u
				}
				pending = append(pending, mtEvent("TransferDenom", who, c, "", pick(e.users), 0))
			}
		}
		if rng.Intn(8) == 0 {
			// something that does not exist / a token under the wrong class
			c, m := "nodenom", "nomt"
			if len(toks) > 1 {
				c, m = toks[0].c, toks[len(toks)-1].m
			}
			pending = append(pending, mtEvent(pick([]string{"BurnMT", "TransferMT", "EditMT", "MintMT"}), pick(e.users), c, m, pick(e.users), 1))
		}
		var ok []chain.M
		for _, ev := range pending {
			if a := chain.Num(ev, "amt"); a < 0 || a > e.sc.maxUM {
				continue
			}
			if e.msgOf(ev) != nil {
				ok = append(ok, ev)
			}
		}
		e.runBlock(ok, w)
	}
}
