package main

import (
	"math/rand"

	"verif/harness/chain"
	"verif/harness/drv"
)

// mtRandom: one random history.  Two kinds of events are mixed (probe=<pct>, default 30):
//
//	sensible  amounts: small values, the 2^63 / 2^64-1 boundaries, "exactly what fits" and "one
//	          more than fits" (from the observed supply), balance, balance-1, balance+1 for
//	          transfers and burns; owners and strangers; transfer to self; handover then mint by
//	          old and new owner;
//	probes    EVERY message type on tokens in EVERY state (never issued / held by several / with
//	          holders at zero / burned out completely / minted to the top / existing under another
//	          class only), by EVERY role (class owner, previous owner, holder, previous holder,
//	          stranger, the module account that cannot sign), with ids written in every wrong way
//	          (ev.form: upper case, cut short, between blanks, re-split at "/"; a token id of
//	          another class; ids nobody issued), recipient = sender / module account, amount 0,
//	          the balance, one above the balance.
func mtRandom(fl *drv.Flags, rng *rand.Rand, w *chain.TraceWriter) {
	e := newMtEnv(fl, 0)
	e.start(w)
	pick := func(l []string) string { return l[rng.Intn(len(l))] }
	hModel, maxUM := e.sc.h, e.sc.maxUM
	// boundary amounts: one unit of the base and its neighbours, a few units with low
	// bits, the top of the range (low bits non-zero throughout)
	bigs := []int64{hModel, hModel - 1, hModel + 1, maxUM, maxUM - 1, maxUM - 5, hModel + 7}
	if e.sc.m > 2 {
		bigs = append(bigs, 2*hModel-3, 3*hModel+5, maxUM-hModel-2)
	}
	forms := []string{"split", "idupper", "idprefix", "idspace", "clsupper", "clsprefix", "clsspace"}
	recipient := func() string {
		if rng.Intn(12) == 0 {
			return modAcct
		}
		return pick(e.users)
	}
	// history of the observed chain: who owned a class before, who held a token before
	exOwner := map[string][]string{}
	lastOwner := map[string]string{}
	exHolder := map[string][]string{} // class|token -> accounts that held it
	seenHolder := map[string]bool{}
	probePct := int(fl.CfgInt("probe", 30))
	for b := 0; b < fl.Len; b++ {
		var pending []chain.M
		cls := subM(e.last, "cls")
		mts := subM(e.last, "mts")
		bal := subM(e.last, "bal")
		have := chain.SortedKeys(cls)
		type tk struct {
			c, m string
			sup  int64
		}
		var toks []tk
		for _, c := range have {
			tm := subM(mts, c)
			for _, m := range chain.SortedKeys(tm) {
				toks = append(toks, tk{c, m, numOf(subM(tm, m), "supply")})
			}
		}
		balOf := func(u, c, m string) int64 { return numOf(subM(subM(bal, u), c), m) }
		ownerOf := func(c string) string { o, _ := subM(cls, c)["owner"].(string); return o }
		for _, c := range have {
			if p, ok := lastOwner[c]; ok && p != ownerOf(c) {
				exOwner[c] = append(exOwner[c], p)
			}
			lastOwner[c] = ownerOf(c)
		}
		for _, t := range toks {
			for _, u := range e.tracked {
				if k := u + "|" + t.c + "|" + t.m; balOf(u, t.c, t.m) > 0 && !seenHolder[k] {
					seenHolder[k] = true
					exHolder[t.c+"|"+t.m] = append(exHolder[t.c+"|"+t.m], u)
				}
			}
		}
		probe := func() {
			name := pick([]string{"MintMT", "MintMT", "EditMT", "TransferMT", "TransferMT", "BurnMT", "BurnMT", "TransferDenom"})
			// the object: an existing token, a token id under another class, ids nobody issued
			c, m := "d9", "m99"
			if len(have) > 0 {
				c = pick(have)
			}
			var here, elsewhere []tk
			for _, t := range toks {
				if t.c == c {
					here = append(here, t)
				} else {
					elsewhere = append(elsewhere, t)
				}
			}
			switch x := rng.Intn(100); {
			case x < 60 && len(here) > 0:
				m = here[rng.Intn(len(here))].m
			case x < 85 && len(elsewhere) > 0:
				m = elsewhere[rng.Intn(len(elsewhere))].m
			case x < 92:
				c = "d9"
			}
			if name == "MintMT" && rng.Intn(3) == 0 {
				m = "" // a new token type
			}
			// the role
			var roles []string
			switch x := rng.Intn(100); {
			case x < 25:
				roles = append(roles, ownerOf(c))
			case x < 40:
				roles = append(roles, exOwner[c]...)
			case x < 70:
				roles = append(roles, exHolder[c+"|"+m]...) // present and previous holders
			case x < 78:
				roles = append(roles, modAcct)
			}
			var cand []string
			for _, r := range roles {
				if r != "" {
					cand = append(cand, r)
				}
			}
			if len(cand) == 0 {
				cand = e.users
			}
			who := pick(cand)
			to := recipient()
			if rng.Intn(6) == 0 {
				to = who
			}
			// the amount: nothing, the balance, one above / below it, all there is, a unit
			bw := balOf(who, c, m)
			amt := []int64{0, bw, bw + 1, bw - 1, 1, 1, numOf(subM(subM(mts, c), m), "supply")}[rng.Intn(7)]
			if name == "MintMT" && rng.Intn(2) == 0 {
				amt = int64(1 + rng.Intn(5))
			}
			ev := mtEvent(name, who, c, m, to, amt)
			switch name {
			case "MintMT":
				if m == "" {
					ev["data"] = pick([]string{"a", "b", ""})
				} else if rng.Intn(8) == 0 {
					ev["data"] = "a"
				}
				if rng.Intn(4) == 0 {
					ev["to"] = ""
				}
			case "EditMT":
				ev["to"], ev["amt"] = "", int64(0)
				ev["data"] = pick([]string{"a", "b", "c", keep})
			case "BurnMT":
				ev["to"] = ""
			case "TransferDenom":
				ev["id"], ev["amt"] = "", int64(0)
			}
			// how the ids are written
			if rng.Intn(100) < 35 {
				ev["form"] = pick(forms)
			}
			pending = append(pending, ev)
		}
		n := 1 + rng.Intn(4)
		for j := 0; j < n; j++ {
			if rng.Intn(100) < probePct && len(have) > 0 {
				probe()
				continue
			}
			u := pick(e.users)
			x := rng.Intn(100)
			switch {
			case (x < 6 && len(have) < 4) || len(have) == 0:
				ev := mtEvent("IssueDenom", u, "", "", "", 0)
				ev["cname"], ev["data"] = pick([]string{"n", "x y", " "}), pick([]string{"a", "b", ""})
				if rng.Intn(8) > 0 {
					ev["cname"] = "n"
				}
				pending = append(pending, ev)
			case x < 20 || len(toks) == 0:
				c := pick(have)
				who := ownerOf(c)
				if rng.Intn(4) == 0 {
					who = u
				}
				amt := int64(1 + rng.Intn(9))
				if rng.Intn(3) == 0 {
					amt = bigs[rng.Intn(len(bigs))]
				}
				ev := mtEvent("MintMT", who, c, "", pick(append([]string{""}, e.users...)), amt)
				ev["data"] = pick([]string{"a", "b", ""})
				pending = append(pending, ev)
			case x < 40:
				t := toks[rng.Intn(len(toks))]
				who := ownerOf(t.c)
				if rng.Intn(4) == 0 {
					who = u
				}
				var amt int64
				switch rng.Intn(6) {
				case 0:
					amt = bigs[rng.Intn(len(bigs))]
				case 1:
					amt = maxUM - t.sup // exactly what fits
				case 2:
					amt = maxUM - t.sup + 1 // one too many
				default:
					amt = int64(rng.Intn(10)) // includes 0 (invalid)
				}
				ev := mtEvent("MintMT", who, t.c, t.m, pick(append([]string{""}, e.users...)), amt)
				if rng.Intn(15) == 0 {
					ev["data"] = "a" // metadata is refused when minting an existing token
				}
				pending = append(pending, ev)
			case x < 50:
				t := toks[rng.Intn(len(toks))]
				who := ownerOf(t.c)
				if rng.Intn(3) == 0 {
					who = u
				}
				ev := mtEvent("EditMT", who, t.c, t.m, "", 0)
				ev["data"] = pick([]string{"a", "b", "c", keep, keep})
				pending = append(pending, ev)
			case x < 75:
				t := toks[rng.Intn(len(toks))]
				who := u
				bw := balOf(who, t.c, t.m)
				var amt int64
				switch rng.Intn(6) {
				case 0:
					amt = bw + 1
				case 1:
					amt = bw
				case 2:
					amt = bw - 1
				case 3:
					amt = bigs[rng.Intn(len(bigs))]
				default:
					amt = int64(1 + rng.Intn(5))
				}
				to := recipient()
				if rng.Intn(6) == 0 {
					to = who
				}
				pending = append(pending, mtEvent("TransferMT", who, t.c, t.m, to, amt))
			case x < 90:
				t := toks[rng.Intn(len(toks))]
				who := u
				bw := balOf(who, t.c, t.m)
				var amt int64
				switch rng.Intn(5) {
				case 0:
					amt = bw + 1
				case 1:
					amt = bw
				case 2:
					amt = bigs[rng.Intn(len(bigs))]
				default:
					amt = int64(1 + rng.Intn(5))
				}
				pending = append(pending, mtEvent("BurnMT", who, t.c, t.m, "", amt))
			default:
				c := pick(have)
				who := ownerOf(c)
				if rng.Intn(3) == 0 {
					who = u
				}
				pending = append(pending, mtEvent("TransferDenom", who, c, "", recipient(), 0))
			}
		}
		if rng.Intn(8) == 0 {
			// something that does not exist / a token under the wrong class
			c, m := "nodenom", "nomt"
			if len(toks) > 1 {
				c, m = toks[0].c, toks[len(toks)-1].m
			}
			pending = append(pending, mtEvent(pick([]string{"BurnMT", "TransferMT", "EditMT", "MintMT"}), pick(e.users), c, m, pick(e.users), 1))
		}
		var ok []chain.M
		for _, ev := range pending {
			if a := chain.Num(ev, "amt"); a < 0 || a > e.sc.maxUM {
				continue
			}
			if e.msgOf(ev) != nil {
				ok = append(ok, ev)
			}
		}
		e.runBlock(ok, w)
	}
	e.epilogue(fl, w)
}
