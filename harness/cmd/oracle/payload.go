package main

import (
	"bytes"
	"encoding/json"
	"fmt"
	"math"
	"math/big"
	"strconv"
	"strings"
)

// Unusual inputs of the oracle driver (round 7, negative probing).
//
// Every Respond event carries a payload class `pay` that says HOW the provider
// writes its answer down; `kind` / `x` keep saying WHAT it answers.  The
// specification (Oracle.tla, AnsX / RejectPays) states what today's code makes
// of each class:
//
//	""  num      {"last": -1.25000000}                      the number
//	exp          {"last": -125000000e-8}                    the number (exponent notation)
//	zeros        {"last": -1.25000000000}                   the number (more digits)
//	str          {"last": "-1.25000000"}                    the number (gjson parses strings)
//	dupfirst     {"last": X, "last": X+1}                   X (gjson reads the first key)
//	dupbody      two "body" members, the first holds X      X
//	extra        other members and white space around       X
//	ridlower     request id in lower case                   X (ids are hex strings)
//	negzero      {"last": -0.0}                             0
//	missing / null / false / obj / arr / strbad / nobody    0 (gjson: no number there)
//	true         {"last": true}                             1
//	nan          {"last": "NaN"}                            a valid response that holds no number: max / min
//	                                                        skip it (sent to max / min feeds only, once another
//	                                                        provider has answered the batch with a number)
//	emptyout / errout / badresult / nohdr / ridshort        refused by ValidateBasic
//	strinf / strnan / huge   (cfg inf=1 only)               +Inf / NaN / 1e999: findings/oraclerandom.md
//
// The value path of a feed is "last", or — CreateFeed.pay = "nested" / "index" —
// "data.last" / "vals.1"; the answers are wrapped accordingly.
var zeroPays = map[string]bool{"missing": true, "null": true, "false": true, "obj": true, "arr": true,
	"strbad": true, "nobody": true, "negzero": true}
var rejectPays = map[string]bool{"emptyout": true, "errout": true, "badresult": true, "nohdr": true, "ridshort": true}

// the classes the random driver draws from (valuePays keep the answer, the others replace it)
var valuePays = []string{"exp", "zeros", "str", "dupfirst", "dupbody", "extra", "ridlower"}
var oddPays = []string{"negzero", "missing", "null", "false", "obj", "arr", "strbad", "nobody", "true"}
var refusedPays = []string{"emptyout", "errout", "badresult", "nohdr", "ridshort"}

func pathOf(createPay string) string {
	switch createPay {
	case "nested":
		return "data.last"
	case "index":
		return "vals.1"
	}
	return valuePath
}

// wrap nests a JSON value under the (dotted) value path of the feed; dup != ""
// adds a second member with the same last key after it.
func wrap(path, val, dup string) string {
	segs := strings.Split(path, ".")
	out := val
	for i := len(segs) - 1; i >= 0; i-- {
		s := segs[i]
		if n, err := strconv.Atoi(s); err == nil {
			items := make([]string, n+1)
			for j := range items {
				items[j] = "7"
			}
			items[n] = out
			out = "[" + strings.Join(items, ",") + "]"
			continue
		}
		if i == len(segs)-1 && dup != "" {
			out = fmt.Sprintf(`{"%s":%s,"%s":%s}`, s, out, s, dup)
		} else {
			out = fmt.Sprintf(`{"%s":%s}`, s, out)
		}
	}
	return out
}

// renderAnswer: result and output of a MsgRespondService for an answer of
// class pay with value x (units of 10^-8) under the feed's value path.
func renderAnswer(kind, pay, path string, x int64) (result, output string) {
	ok := `{"code":200,"message":""}`
	if kind != "val" {
		if pay == "errout" {
			return `{"code":500,"message":"no data"}`, `{"header":{},"body":{}}`
		}
		if pay == "err400" {
			return `{"code":400,"message":"bad request"}`, ""
		}
		return `{"code":500,"message":"no data"}`, ""
	}
	body := func(b string) string { return `{"header":{},"body":` + b + `}` }
	num := decOf(x)
	switch pay {
	case "exp":
		return ok, body(wrap(path, fmt.Sprintf("%de-8", x), ""))
	case "zeros":
		return ok, body(wrap(path, num+"000", ""))
	case "str":
		return ok, body(wrap(path, `"`+num+`"`, ""))
	case "dupfirst":
		return ok, body(wrap(path, num, decOf(x+1)))
	case "dupbody":
		return ok, `{"header":{},"body":` + wrap(path, num, "") + `,"body":` + wrap(path, decOf(x+1), "") + `}`
	case "extra":
		b := wrap(path, num, "")
		return ok, "{ \"header\" : {\"t\":1},\n \"body\" : {\"first\":{\"last\":9},\"x\":[1,2]," + b[1:] + " , \"z\":null}"
	case "negzero":
		return ok, body(wrap(path, "-0.0", ""))
	case "missing":
		return ok, body(`{"other":1.5}`)
	case "null":
		return ok, body(wrap(path, "null", ""))
	case "false":
		return ok, body(wrap(path, "false", ""))
	case "true":
		return ok, body(wrap(path, "true", ""))
	case "obj":
		return ok, body(wrap(path, `{"last":2.5}`, ""))
	case "arr":
		return ok, body(wrap(path, `[2.5,3.5]`, ""))
	case "strbad":
		return ok, body(wrap(path, `"abc"`, ""))
	case "nobody":
		return ok, `{"header":{}}`
	case "emptyout":
		return ok, ""
	case "badresult":
		return `{"code":201,"message":""}`, body(wrap(path, num, ""))
	case "nohdr":
		return ok, `{"body":` + wrap(path, num, "") + `}`
	case "nan":
		return ok, body(wrap(path, `"NaN"`, ""))
	case "strinf":
		return ok, body(wrap(path, `"Inf"`, ""))
	case "strnan":
		return ok, body(wrap(path, `"NaN"`, ""))
	case "huge":
		return ok, body(wrap(path, "1e999", ""))
	}
	return ok, body(wrap(path, num, ""))
}

// firstMember returns the raw value of the FIRST member `key` of a JSON object
// (encoding/json's maps keep the last one), or element `key` of an array.
func firstMember(raw json.RawMessage, key string) (json.RawMessage, bool) {
	raw = bytes.TrimSpace(raw)
	if len(raw) == 0 {
		return nil, false
	}
	if raw[0] == '[' {
		var items []json.RawMessage
		n, err := strconv.Atoi(key)
		if err != nil || json.Unmarshal(raw, &items) != nil || n < 0 || n >= len(items) {
			return nil, false
		}
		return items[n], true
	}
	if raw[0] != '{' {
		return nil, false
	}
	dec := json.NewDecoder(bytes.NewReader(raw))
	if _, err := dec.Token(); err != nil {
		return nil, false
	}
	for dec.More() {
		t, err := dec.Token()
		if err != nil {
			return nil, false
		}
		var v json.RawMessage
		if err := dec.Decode(&v); err != nil {
			return nil, false
		}
		if k, ok := t.(string); ok && k == key {
			return v, true
		}
	}
	return nil, false
}

// answerOf evaluates a stored response output the way the oracle module
// documents it (the number at body.<path>; strings that hold a number count;
// true is 1; anything else is 0) — written here independently of the module,
// on the raw text.  ok = false: not expressible in units of 10^-8 within TLC's
// range (or not a finite number).
func answerOf(output, path string) (x int64, ok bool) {
	cur, found := firstMember(json.RawMessage(output), "body")
	for _, seg := range strings.Split(path, ".") {
		if !found {
			break
		}
		cur, found = firstMember(cur, seg)
	}
	if !found {
		return 0, true
	}
	cur = bytes.TrimSpace(cur)
	lit := string(cur)
	switch {
	case lit == "true":
		return 100_000_000, true
	case len(lit) > 0 && lit[0] == '"':
		var s string
		if json.Unmarshal(cur, &s) != nil {
			return 0, true
		}
		f, err := strconv.ParseFloat(s, 64)
		if err != nil && !math.IsInf(f, 0) {
			return 0, true
		}
		if math.IsInf(f, 0) || math.IsNaN(f) {
			return 0, false
		}
		lit = s
	case len(lit) > 0 && (lit[0] == '-' || (lit[0] >= '0' && lit[0] <= '9')):
	default:
		return 0, true
	}
	r, good := new(big.Rat).SetString(lit)
	if !good {
		return 0, false
	}
	r.Mul(r, new(big.Rat).SetInt(unit))
	if !r.IsInt() || !r.Num().IsInt64() {
		return 0, false
	}
	v := r.Num().Int64()
	if v > 1<<30 || v < -(1<<30) {
		return 0, false
	}
	return v, true
}
