package main

import (
	"encoding/json"
	"fmt"
	"math/big"
	"math/rand"
	"regexp"
	"sort"
	"strconv"
	"strings"
	"time"

	storetypes "cosmossdk.io/store/types"
	tmbytes "github.com/cometbft/cometbft/libs/bytes"
	sdk "github.com/cosmos/cosmos-sdk/types"
	banktypes "github.com/cosmos/cosmos-sdk/x/bank/types"

	"verif/harness/chain"
	"verif/harness/cmd/internal/svcslice"
	"verif/harness/drv"

	oracletypes "mods.irisnet.org/modules/oracle/types"
	servicetypes "mods.irisnet.org/modules/service/types"
	"mods.irisnet.org/simapp"
)

func main() { drv.Main("oracle", oracleDriver) }

// Model <-> chain mapping for Oracle.tla:
//
//	accounts   creators "u1".., providers "p1".., "svcreq"/"svcdep"/"svctax"; denom "stake"
//	values     decimals with 8 fractional digits <-> integers in units of 10^-8
//	contexts   service request context ids <-> "c1", "c2", ... (creation order)
//	time       block time in seconds since the first line of the trace
//	service    "price" (permissive schemas), answers {"header":{},"body":{"last":<decimal>}}
const (
	svcName   = "price"
	svcName2  = "price2"
	pairFeed  = "btc-stake"
	valuePath = "last"
	feedInput = `{"header":{},"body":{}}`
)

type oraEnv struct {
	c        *chain.Chain
	svc      *svcslice.Env
	users    []string
	provs    []string
	price    int64
	maxTO    int64
	taxNum   int64
	taxDen   int64
	t0       int64
	nof15    bool
	inf      bool // cfg inf=1: answers "Inf" / "NaN" / 1e999 are sent as such (findings/oraclerandom.md; off in every registered check)
	last     chain.M
	maxFeeds int
	rawv     chain.M
}

var unit = big.NewInt(100_000_000)

// decOf renders x (units of 10^-8) as a decimal with 8 fractional digits.
func decOf(x int64) string {
	sign := ""
	if x < 0 {
		sign = "-"
		x = -x
	}
	return fmt.Sprintf("%s%d.%08d", sign, x/100_000_000, x%100_000_000)
}

// unitsOf parses a decimal exactly into units of 10^-8.
func unitsOf(s string) (int64, bool) {
	r, ok := new(big.Rat).SetString(s)
	if !ok {
		return 0, false
	}
	r.Mul(r, new(big.Rat).SetInt(unit))
	if !r.IsInt() || !r.Num().IsInt64() {
		return 0, false
	}
	v := r.Num().Int64()
	if v > 1<<30 || v < -(1<<30) {
		return 0, false
	}
	return v, true
}

var valueFmt = regexp.MustCompile(`^-?[0-9]+\.[0-9]{8}$`)

func newOraEnv(fl *drv.Flags) *oraEnv {
	e := &oraEnv{
		users:    []string{"u1", "u2", "u3"}[:fl.CfgInt("users", 2)],
		provs:    []string{"p1", "p2", "p3", "p4"}[:fl.CfgInt("provs", 2)],
		price:    fl.CfgInt("price", 10),
		maxTO:    fl.CfgInt("maxtimeout", 3),
		taxNum:   fl.CfgInt("taxnum", 1),
		taxDen:   fl.CfgInt("taxden", 10),
		nof15:    fl.CfgInt("nof15", 0) == 1,
		inf:      fl.CfgInt("inf", 0) == 1,
		maxFeeds: int(fl.CfgInt("maxfeeds", 2)),
	}
	accts := map[string]string{}
	for _, u := range e.users {
		accts[u] = fmt.Sprintf("%d%s", fl.CfgInt("funds", 60), svcslice.Denom)
	}
	for _, p := range e.provs {
		accts[p] = fmt.Sprintf("%d%s", 40, svcslice.Denom)
	}
	clock := fl.CfgInt("clock", 0) == 1
	accts[e.users[0]] += ",100btc" // a price denom must have supply
	if fl.CfgInt("denoms", 0) == 1 {
		// a consumer is charged the list price in the price's own denom
		accts[e.users[0]] += ",100eth,100atom"
		for _, u := range e.users[1:] {
			accts[u] += ",100btc,100eth,100atom"
		}
	}
	opts := chain.Options{
		Accounts: accts,
		MutateGenesis: func(c *chain.Chain, gs simapp.GenesisState) {
			so := svcslice.Options{MaxTimeout: e.maxTO, TaxNum: e.taxNum, TaxDen: e.taxDen,
				Definitions: []servicetypes.ServiceDefinition{{
					Name: svcName, Description: "price feed", Author: c.Accts[e.provs[0]].Addr.String(),
					AuthorDescription: "verif", Schemas: `{"input":{"type":"object"},"output":{"type":"object"}}`,
				}}}
			// the oracle's own module service (exchange rates), as the e2e suites set it
			// up, and a second service that providers bind at a price in btc
			so.Definitions = append(so.Definitions, servicetypes.GenOraclePriceSvcDefinition(),
				servicetypes.ServiceDefinition{Name: svcName2, Description: "priced in btc",
					Author: c.Accts[e.provs[0]].Addr.String(), AuthorDescription: "verif",
					Schemas: `{"input":{"type":"object"},"output":{"type":"object"}}`})
			so.Bindings = append(so.Bindings, servicetypes.GenOraclePriceSvcBinding(svcslice.Denom))
			svcslice.MutateGenesis(c, gs, so)
		},
	}
	step := 5 * time.Second
	if clock {
		// the first value of the run is a few seconds short of five minutes old
		// by the host clock while the run lasts (DESIGN F7, property C11)
		opts.GenesisTime = time.Now().Add(-5*time.Minute + 12*time.Second).UTC().Truncate(time.Second)
		step = time.Second
	}
	e.c = chain.New(opts)
	c := e.c
	e.svc = svcslice.NewEnv(c, svcName, e.provs)
	e.svc.Names[servicetypes.OraclePriceServiceProvider.String()] = "oraclep"
	e.svc.Names[chain.ModuleAddr(servicetypes.RequestAccName).String()] = "svcreq"
	e.svc.RenderOutput = func(output string) (string, int64) {
		var o struct {
			Body map[string]json.RawMessage `json:"body"`
		}
		if err := json.Unmarshal([]byte(output), &o); err != nil {
			return "nan", 0
		}
		if r, ok := o.Body[servicetypes.OraclePriceValueJSONPath]; ok {
			// an answer of the oracle-price module service
			if v, ok := unitsOf(strings.Trim(string(r), `"`)); ok {
				return "val", v
			}
			return "nan", 0
		}
		// an answer to a feed: every non-empty output is a valid response; its number is
		// evaluated on the raw text (payload.go), under the value path its shape belongs to
		path := valuePath
		if _, ok := o.Body["data"]; ok {
			path = pathOf("nested")
		} else if _, ok := o.Body["vals"]; ok {
			path = pathOf("index")
		}
		if v, ok := answerOf(output, path); ok {
			return "val", v
		}
		return "nan", 0
	}
	// block 2: the providers bind the service (p_i at price + 2i)
	var txs []chain.Tx
	for i, p := range e.provs {
		txs = append(txs, chain.Tx{Signer: p, Msgs: []sdk.Msg{svcslice.BindMsg(c, svcName, p, e.price+int64(i)*2, 20, 1)}})
	}
	r := c.RunBlock(step, txs)
	for i, t := range r.Txs {
		if !t.OK {
			panic(fmt.Sprintf("oracle setup tx %d failed: %s", i, t.Log))
		}
	}
	e.t0 = c.Time.Unix()
	c.Project = func(ctx sdk.Context) any { return e.project(ctx) }
	return e
}

func (e *oraEnv) accounts() []string { return append(append([]string{}, e.users...), e.provs...) }

// project reads the abstract state of Oracle.tla from the real stores.
func (e *oraEnv) project(ctx sdk.Context) any {
	c := e.c
	k := c.K.Oracle
	cdc := c.App.AppCodec()
	ctxs, bind, earned, qBad := e.svc.Project(ctx)
	store := ctx.KVStore(c.App.UnsafeFindStoreKey(oracletypes.StoreKey))

	feeds, values, vb, idx := chain.M{}, chain.M{}, chain.M{}, chain.M{}
	var gvBad, fmtBad int64
	var list []oracletypes.Feed
	k.IteratorFeeds(ctx, func(f oracletypes.Feed) { list = append(list, f) })
	for _, f := range list {
		cname := e.svc.CtxNames[strings.ToLower(f.RequestContextID)]
		if cname == "" {
			cname = "?" + f.RequestContextID
		}
		feeds[f.FeedName] = chain.M{"agg": f.AggregateFunc, "lh": int64(f.LatestHistory), "ctx": cname,
			"creator": e.svc.NameOf(f.Creator)}
		// what users read: the keeper's getter (newest first)
		vs := []any{}
		var got []string
		for _, fv := range k.GetFeedValues(ctx, f.FeedName) {
			if !valueFmt.MatchString(fv.Data) {
				fmtBad++
			}
			v, ok := unitsOf(fv.Data)
			if !ok {
				fmtBad++
			}
			vs = append(vs, chain.M{"v": v, "t": fv.Timestamp.Unix() - e.t0})
			got = append(got, fmt.Sprintf("%s@%d", fv.Data, fv.Timestamp.Unix()))
		}
		values[f.FeedName] = vs
		// what the store holds: 0x03 | name | 0x00 | batch counter, newest (highest) first
		bs := []any{}
		var raw []string
		pfx := oracletypes.GetFeedValuePrefixKey(f.FeedName)
		it := storetypes.KVStoreReversePrefixIterator(store, pfx)
		for ; it.Valid(); it.Next() {
			bs = append(bs, int64(sdk.BigEndianToUint64(it.Key()[len(pfx):])))
			var fv oracletypes.FeedValue
			cdc.MustUnmarshal(it.Value(), &fv)
			raw = append(raw, fmt.Sprintf("%s@%d", fv.Data, fv.Timestamp.Unix()))
		}
		it.Close()
		vb[f.FeedName] = bs
		sort.Strings(got)
		sort.Strings(raw)
		if strings.Join(got, "|") != strings.Join(raw, "|") {
			gvBad++
		}
		idx[f.FeedName] = chain.M{"run": false, "pause": false}
	}
	// the state index as the keeper reports it (IteratorFeedsByState); the raw
	// prefix scan (0x04 running / 0x05 paused | 0x00 | name) only cross-checks it
	for _, q := range []struct {
		state servicetypes.RequestContextState
		pfx   []byte
		field string
	}{{servicetypes.RUNNING, oracletypes.PrefixFeedRunningStateKey, "run"},
		{servicetypes.PAUSED, oracletypes.PrefixFeedPauseStateKey, "pause"}} {
		n := 0
		k.IteratorFeedsByState(ctx, q.state, func(f oracletypes.Feed) {
			n++
			if m, ok := idx[f.FeedName].(chain.M); ok {
				m[q.field] = true
			}
		})
		raw := 0
		it := storetypes.KVStorePrefixIterator(store, q.pfx)
		for ; it.Valid(); it.Next() {
			raw++
		}
		it.Close()
		if raw != n {
			gvBad++
		}
	}
	// bindings of the btc-priced service
	xbind := chain.M{}
	for _, p := range e.provs {
		if b, found := c.K.Service.GetServiceBinding(ctx, svcName2, c.Accts[p].Addr); found {
			pr := c.K.Service.GetPricing(ctx, svcName2, c.Accts[p].Addr)
			price, _ := chain.Small(pr.Price.AmountOf("btc"))
			dep, _ := chain.Small(b.Deposit.AmountOf(svcslice.Denom))
			xbind[p] = chain.M{"price": price, "deposit": dep}
		}
	}
	h := ctx.BlockHeight()
	inb := true
	if !ctx.IsZero() && ctx.BlockHeight() == c.Height {
		h = c.Height + 1
		inb = false
	}
	if e.inf {
		// (cfg inf=1 only; not read by the trace specification) the stored strings themselves
		rawv := chain.M{}
		for _, f := range list {
			var ds []any
			for _, fv := range k.GetFeedValues(ctx, f.FeedName) {
				d := fv.Data
				if len(d) > 40 {
					d = fmt.Sprintf("%s...(%d characters)", d[:24], len(d))
				}
				ds = append(ds, d)
			}
			rawv[f.FeedName] = ds
		}
		defer func() { e.rawv = rawv }()
	}
	return chain.M{
		"h": h, "inb": inb, "now": ctx.BlockTime().Unix() - e.t0,
		"feeds": feeds, "values": values, "vb": vb, "idx": idx,
		"ctx": ctxs, "bind": bind, "earned": earned, "nctx": e.svc.NCtx,
		"bal":    e.svc.Balances(ctx, e.accounts()),
		"params": chain.M{"timeout": e.maxTO, "taxNum": e.taxNum, "taxDen": e.taxDen},
		"xbind":  xbind, "qBad": qBad, "gvBad": gvBad, "fmtBad": fmtBad,
	}
}

func oraEvent(name, who, feed string) chain.M {
	return chain.M{"name": name, "who": who, "feed": feed, "agg": "", "lh": int64(0), "provs": []any{}, "thr": int64(0),
		"cap": int64(0), "timeout": int64(0), "freq": int64(0), "kind": "", "pay": "", "x": int64(0), "dt": int64(0),
		"rank": int64(0), "aggs": chain.M{}, "code": int64(0), "ok": true, "panic": false, "halt": false}
}

func strList(m chain.M, k string) []any {
	out := []any{}
	if l, ok := m[k].([]any); ok {
		for _, x := range l {
			if s, ok := x.(string); ok {
				out = append(out, s)
			}
		}
	}
	return out
}

func (e *oraEnv) norm(ev chain.M) chain.M {
	o := oraEvent(chain.Str(ev, "name"), chain.Str(ev, "who"), chain.Str(ev, "feed"))
	o["agg"] = chain.Str(ev, "agg")
	for _, k := range []string{"lh", "thr", "cap", "timeout", "freq", "x", "dt"} {
		o[k] = chain.Num(ev, k)
	}
	o["provs"] = strList(ev, "provs")
	o["kind"] = chain.Str(ev, "kind")
	o["pay"] = chain.Str(ev, "pay")
	return o
}

// addrs: provider account names -> bech32 strings.  Names starting with "?" are
// strings of the wrong kind (Oracle.tla ProvOf / BadProvs say what the code makes of them):
// "?garbage" not an address, "?valoper" p1's address under the validator-operator
// prefix, "?upper" p1's address in upper case (bech32 allows it), "?module" the
// address of the service module's request escrow.
func (e *oraEnv) addrs(ps []any) []string {
	var out []string
	for _, p := range ps {
		name, _ := p.(string)
		switch name {
		case "?garbage":
			out = append(out, "garbage")
		case "?valoper":
			out = append(out, sdk.ValAddress(e.c.Accts[e.provs[0]].Addr).String())
		case "?upper":
			out = append(out, strings.ToUpper(e.c.Accts[e.provs[0]].Addr.String()))
		case "?module":
			out = append(out, chain.ModuleAddr(servicetypes.RequestAccName).String())
		default:
			if a, ok := e.c.Accts[name]; ok {
				out = append(out, a.Addr.String())
			}
		}
	}
	return out
}

func capCoins(v int64) sdk.Coins {
	if v <= 0 {
		return nil
	}
	return sdk.NewCoins(sdk.NewInt64Coin(svcslice.Denom, v))
}

// svcOf: the service a CreateFeed names; pay "nosvc" a service nobody defined, "svccase" the
// feeds' service in another case.
func svcOf(pay string) string {
	switch pay {
	case "nosvc":
		return "nosvc"
	case "svccase":
		return "Price"
	}
	return svcName
}

// capOf: the service fee cap of a CreateFeed / EditFeed event; pay "btccap" names
// it in another denomination, "twocap" in two.
func capOf(ev chain.M) sdk.Coins {
	v := chain.Num(ev, "cap")
	if v > 0 {
		switch chain.Str(ev, "pay") {
		case "btccap":
			return sdk.NewCoins(sdk.NewInt64Coin("btc", v))
		case "twocap":
			return sdk.NewCoins(sdk.NewInt64Coin("btc", 1), sdk.NewInt64Coin(svcslice.Denom, v))
		}
	}
	return capCoins(v)
}

func (e *oraEnv) msgOf(ev chain.M) sdk.Msg {
	c := e.c
	who := chain.Str(ev, "who")
	a, ok := c.Accts[who]
	if !ok {
		return nil
	}
	feed := chain.Str(ev, "feed")
	switch chain.Str(ev, "name") {
	case "CreateFeed":
		return &oracletypes.MsgCreateFeed{FeedName: feed, LatestHistory: uint64(chain.Num(ev, "lh")), Description: "d",
			Creator: a.Addr.String(), ServiceName: svcOf(chain.Str(ev, "pay")), Providers: e.addrs(ev["provs"].([]any)), Input: feedInput,
			Timeout: chain.Num(ev, "timeout"), ServiceFeeCap: capOf(ev),
			RepeatedFrequency: uint64(chain.Num(ev, "freq")), AggregateFunc: chain.Str(ev, "agg"), ValueJsonPath: pathOf(chain.Str(ev, "pay")),
			ResponseThreshold: uint32(chain.Num(ev, "thr"))}
	case "StartFeed":
		return &oracletypes.MsgStartFeed{FeedName: feed, Creator: a.Addr.String()}
	case "PauseFeed":
		return &oracletypes.MsgPauseFeed{FeedName: feed, Creator: a.Addr.String()}
	case "EditFeed":
		return &oracletypes.MsgEditFeed{FeedName: feed, Description: oracletypes.DoNotModify,
			LatestHistory: uint64(chain.Num(ev, "lh")), Providers: e.addrs(ev["provs"].([]any)),
			Timeout: chain.Num(ev, "timeout"), ServiceFeeCap: capOf(ev),
			RepeatedFrequency: uint64(chain.Num(ev, "freq")), ResponseThreshold: uint32(chain.Num(ev, "thr")),
			Creator: a.Addr.String()}
	case "CallPrice":
		return &servicetypes.MsgCallService{
			ServiceName: servicetypes.OraclePriceServiceName, Providers: []string{servicetypes.OraclePriceServiceProvider.String()},
			Consumer: a.Addr.String(), Input: fmt.Sprintf(`{"header":{},"body":{"pair":"%s"}}`, feed),
			ServiceFeeCap: capCoins(chain.Num(ev, "cap")), Timeout: 1}
	case "BindX":
		return &servicetypes.MsgBindService{ServiceName: svcName2, Provider: a.Addr.String(), Owner: a.Addr.String(),
			Deposit: capCoins(chain.Num(ev, "cap")), Pricing: fmt.Sprintf(`{"price":"%dbtc"}`, chain.Num(ev, "x")),
			QoS: 1, Options: "{}"}
	case "Send":
		to, ok := c.Accts[feed]
		if !ok {
			return nil
		}
		return banktypes.NewMsgSend(a.Addr, to.Addr, sdk.NewCoins(sdk.NewInt64Coin(svcslice.Denom, chain.Num(ev, "x"))))
	case "SvcDirect":
		// the sender addresses the feed's request context in the service module directly
		cid := strings.Repeat("00", 40)
		if f, ok := e.last["feeds"].(chain.M)[feed].(chain.M); ok {
			if id, ok := e.svc.CtxIDs[f["ctx"].(string)]; ok {
				cid = strings.ToUpper(fmt.Sprintf("%x", id))
			}
		}
		switch chain.Str(ev, "kind") {
		case "pause":
			return &servicetypes.MsgPauseRequestContext{RequestContextId: cid, Consumer: a.Addr.String()}
		case "start":
			return &servicetypes.MsgStartRequestContext{RequestContextId: cid, Consumer: a.Addr.String()}
		default:
			return &servicetypes.MsgKillRequestContext{RequestContextId: cid, Consumer: a.Addr.String()}
		}
	case "Respond":
		cname := ""
		if f, ok := e.last["feeds"].(chain.M)[feed].(chain.M); ok {
			cname = f["ctx"].(string)
		}
		rid := e.svc.RequestID(c.Ctx(), cname, who)
		msg := &servicetypes.MsgRespondService{RequestId: strings.ToUpper(rid), Provider: a.Addr.String()}
		pay := chain.Str(ev, "pay")
		switch pay {
		case "ridlower":
			msg.RequestId = strings.ToLower(rid)
		case "ridshort":
			msg.RequestId = msg.RequestId[:len(msg.RequestId)-2]
		}
		// the feed's value path as the real feed record has it
		path := valuePath
		if f, found := c.K.Oracle.GetFeed(c.Ctx(), feed); found {
			path = f.ValueJsonPath
		}
		x := chain.Num(ev, "x")
		if !e.inf && (pay == "strinf" || pay == "strnan" || pay == "huge") {
			pay = ""
		}
		msg.Result, msg.Output = renderAnswer(chain.Str(ev, "kind"), pay, path, x)
		return msg
	}
	return nil
}

// aggsOf: the values that appeared at the head of a feed's history in this step
// (the float rounding of an average is observed, not predicted).
func aggsOf(pre, post chain.M) chain.M {
	out := chain.M{}
	pv := pre["vb"].(chain.M)
	for f, b := range post["vb"].(chain.M) {
		nb := b.([]any)
		if len(nb) == 0 {
			continue
		}
		if ob, ok := pv[f].([]any); ok && len(ob) > 0 && ob[0] == nb[0] {
			continue
		}
		if vs := post["values"].(chain.M)[f].([]any); len(vs) > 0 {
			// the newest stored value by time
			best := vs[0].(chain.M)
			for _, x := range vs {
				if x.(chain.M)["t"].(int64) > best["t"].(int64) {
					best = x.(chain.M)
				}
			}
			out[f] = best["v"]
		}
	}
	return out
}

func (e *oraEnv) runBlock(begin chain.M, pending []chain.M, w *chain.TraceWriter) bool {
	var txs []chain.Tx
	for _, ev := range pending {
		if e.nof15 && chain.Str(ev, "name") == "Respond" && chain.Num(ev, "x") < 0 {
			// testing aid: keep known finding F15 (max of negative answers) out of the run
			if fd, ok := e.last["feeds"].(chain.M)[chain.Str(ev, "feed")].(chain.M); ok && fd["agg"] == "max" {
				ev["x"] = -chain.Num(ev, "x")
			}
		}
		txs = append(txs, chain.Tx{Signer: chain.Str(ev, "who"), Msgs: []sdk.Msg{e.msgOf(ev)}})
	}
	dt := chain.Num(begin, "dt")
	if dt <= 0 {
		dt = 5
		begin["dt"] = dt
	}
	res := e.c.RunBlock(time.Duration(dt)*time.Second, txs)
	if res.Halt {
		begin["halt"], begin["ok"] = true, false
		w.Write(begin, e.last)
		return false
	}
	bs := res.BeginState.(chain.M)
	w.Write(begin, bs)
	e.last = bs
	for i, ev := range pending {
		r := res.Txs[i]
		if r.Aborted {
			// member of a multi-message transaction that failed as a whole (chain.BundlePct):
			// whatever it did was rolled back; the specification knows no such event and
			// treats it as a rejection without effect
			ev["_orig"], ev["name"] = ev["name"], "TxFailed"
		}
		ev["ok"], ev["panic"] = r.OK, r.Panic
		st := r.State.(chain.M)
		switch chain.Str(ev, "name") {
		case "CreateFeed":
			if r.OK {
				if f, ok := st["feeds"].(chain.M)[chain.Str(ev, "feed")].(chain.M); ok {
					if cx, ok := st["ctx"].(chain.M)[f["ctx"].(string)].(chain.M); ok {
						ev["rank"] = cx["rank"]
					}
				}
			}
		case "CallPrice":
			if r.OK {
				name := fmt.Sprintf("c%d", st["nctx"].(int64))
				if cx, ok := st["ctx"].(chain.M)[name].(chain.M); ok {
					ev["rank"] = cx["rank"]
				}
				ev["code"] = e.resultCode(name)
			}
		case "Respond":
			ev["aggs"] = aggsOf(e.last, st)
		}
		w.Write(ev, st)
		e.last = st
	}
	end := oraEvent("EndBlock", "", "")
	es := res.EndState.(chain.M)
	end["aggs"] = aggsOf(e.last, es)
	w.Write(end, es)
	e.last = es
	return true
}

// resultCode: the result code the module service stored for the (only) request
// of a CallPrice context (read from the committed state; nothing cleans it up).
func (e *oraEnv) resultCode(cname string) int64 {
	ctx := e.c.Ctx()
	// the module-service request is stored under batch counter 1 (the context itself says 0)
	for _, rq := range e.svc.RequestsAt(ctx, cname, 1) {
		if resp, found := e.c.K.Service.GetResponse(ctx, rq.ID); found {
			var res struct {
				Code json.RawMessage `json:"code"`
			}
			if json.Unmarshal([]byte(resp.Result), &res) == nil {
				n, _ := strconv.ParseInt(strings.Trim(string(res.Code), `"`), 10, 64)
				return n
			}
		}
	}
	return -1
}

func (e *oraEnv) start(w *chain.TraceWriter) {
	e.last = e.project(e.c.Ctx()).(chain.M)
	w.Write(oraEvent("Init", "", ""), e.last)
}

func oraRun(fl *drv.Flags, beh []chain.M, w *chain.TraceWriter) {
	e := newOraEnv(fl)
	e.start(w)
	var begin chain.M
	var pending []chain.M
	flush := func() bool {
		if begin == nil {
			begin = oraEvent("BeginBlock", "", "")
		}
		ok := e.runBlock(begin, pending, w)
		begin, pending = nil, nil
		return ok
	}
	for _, raw := range beh {
		ev := e.norm(raw)
		switch chain.Str(ev, "name") {
		case "BeginBlock":
			if begin != nil || len(pending) > 0 {
				if !flush() {
					return
				}
			}
			begin = ev
		case "EndBlock":
			if !flush() {
				return
			}
		default:
			if _, ok := e.c.Accts[chain.Str(ev, "who")]; !ok {
				continue
			}
			pending = append(pending, ev)
		}
	}
	if begin != nil || len(pending) > 0 {
		if !flush() {
			return
		}
	}
	if fl.CfgInt("epilogue", 1) == 1 {
		e.epilogue(w)
	}
	if e.inf {
		bz, _ := json.Marshal(e.rawv)
		fmt.Printf("oracle: stored feed values at the end of the run: %s\n", bz)
	}
}

// epilogue, computed from the REAL chain state (never from what the model expected):
// every feed the chain has that is not running is restarted by its recorded creator,
// every request the chain holds is answered by the provider it was put to, then every
// running feed is paused and the open batches run out (fees of unanswered requests
// go back).  Whatever the code accepted before — rightly or wrongly — is followed up
// here and judged by the clauses.
func (e *oraEnv) epilogue(w *chain.TraceWriter) {
	feedCtx := func(f string) (fd, cx chain.M, ok bool) {
		fd, ok = e.last["feeds"].(chain.M)[f].(chain.M)
		if !ok {
			return nil, nil, false
		}
		cname, _ := fd["ctx"].(string)
		cx, ok = e.last["ctx"].(chain.M)[cname].(chain.M)
		return fd, cx, ok
	}
	names := func() []string { return chain.SortedKeys(e.last["feeds"].(chain.M)) }
	creator := func(fd chain.M) (string, bool) {
		who, _ := fd["creator"].(string)
		_, ok := e.c.Accts[who]
		return who, ok
	}
	var pending []chain.M
	for _, f := range names() {
		if fd, cx, ok := feedCtx(f); ok && cx["state"] != "running" {
			if who, ok := creator(fd); ok {
				pending = append(pending, oraEvent("StartFeed", who, f))
			}
		}
	}
	if !e.runBlock(oraEvent("BeginBlock", "", ""), pending, w) {
		return
	}
	pending = nil
	for i, f := range names() {
		if _, cx, ok := feedCtx(f); ok {
			reqs, _ := cx["reqs"].(chain.M)
			for j, p := range chain.SortedKeys(reqs) {
				if rq, ok := reqs[p].(chain.M); ok && rq["act"] == true {
					if _, ok := e.c.Accts[p]; ok {
						ev := oraEvent("Respond", p, f)
						ev["kind"], ev["x"] = "val", int64(1+i+2*j)
						pending = append(pending, ev)
					}
				}
			}
		}
	}
	if !e.runBlock(oraEvent("BeginBlock", "", ""), pending, w) {
		return
	}
	pending = nil
	for _, f := range names() {
		if fd, cx, ok := feedCtx(f); ok && cx["state"] == "running" {
			if who, ok := creator(fd); ok {
				pending = append(pending, oraEvent("PauseFeed", who, f))
			}
		}
	}
	if !e.runBlock(oraEvent("BeginBlock", "", ""), pending, w) {
		return
	}
	for i := 0; i < int(e.maxTO)+1; i++ {
		if !e.runBlock(oraEvent("BeginBlock", "", ""), nil, w) {
			return
		}
	}
}

func oracleDriver(mode string, fl *drv.Flags) error {
	if mode == "rows" {
		return oraRows(fl) // magnitude tier of C17 (big.go)
	}
	w := chain.NewTraceWriter(fl.Out)
	defer w.Close()
	switch mode {
	case "replay":
		for _, beh := range chain.ReadBehaviours(fl.In) {
			oraRun(fl, beh, w)
		}
	case "random":
		rng := rand.New(rand.NewSource(fl.Seed))
		for i := 0; i < fl.N; i++ {
			oraRandom(fl, rng, w)
		}
	case "clock":
		return oraClock(fl, w)
	case "denoms":
		return oraDenoms(fl, w)
	default:
		return fmt.Errorf("unknown mode %q", mode)
	}
	return nil
}

func pick(rng *rand.Rand, xs []string) string { return xs[rng.Intn(len(xs))] }

// oraDenoms (property C11): a short scripted history in which ONE service call names
// providers whose prices are in four different denoms (stake and three denoms with an
// exchange-rate feed each).  Everything the service end-blocker derives from the provider
// list — request ids, fees, charges — must be the same on every replica and in every run;
// code that groups or visits the providers through a Go map (per price denom, say) is not.
// Nothing here is validated by TLC; the run is recorded (VERIF_RECORD_DIR) and replayed on
// replicas.
func oraDenoms(fl *drv.Flags, w *chain.TraceWriter) error {
	fl.Cfg["denoms"] = "1"
	fl.Cfg["users"] = "3"
	fl.Cfg["provs"] = "3"
	fl.Cfg["maxtimeout"] = "3"
	fl.Cfg["funds"] = "500"
	e := newOraEnv(fl)
	e.start(w)
	c := e.c
	block := func(evs ...chain.M) []chain.TxResult {
		var txs []chain.Tx
		for _, ev := range evs {
			msg, _ := ev["msg"].(sdk.Msg)
			delete(ev, "msg")
			if msg == nil {
				msg = e.msgOf(ev)
			}
			txs = append(txs, chain.Tx{Signer: chain.Str(ev, "who"), Msgs: []sdk.Msg{msg}})
		}
		res := c.RunBlock(5*time.Second, txs)
		if res.Halt {
			panic("denoms run halted: " + res.HaltMsg)
		}
		w.Write(oraEvent("BeginBlock", "", ""), res.BeginState)
		for i, ev := range evs {
			ev["ok"], ev["panic"] = res.Txs[i].OK, res.Txs[i].Panic
			w.Write(ev, res.Txs[i].State)
			e.last = res.Txs[i].State.(chain.M)
		}
		w.Write(oraEvent("EndBlock", "", ""), res.EndState)
		e.last = res.EndState.(chain.M)
		return res.Txs
	}
	denoms := []string{"btc", "eth", "atom"}
	var evs []chain.M
	for _, d := range denoms {
		feed := d + "-" + svcslice.Denom
		create := oraEvent("CreateFeed", "u1", feed)
		create["agg"], create["lh"], create["provs"], create["thr"] = "avg", int64(2), []any{"p1"}, int64(1)
		create["cap"], create["timeout"], create["freq"] = int64(12), int64(1), int64(3)
		evs = append(evs, create, oraEvent("StartFeed", "u1", feed))
	}
	for _, r := range block(evs...) {
		if !r.OK {
			return fmt.Errorf("denoms: feed setup failed: %s", r.Log)
		}
	}
	evs = nil
	for i, d := range denoms {
		answer := oraEvent("Respond", "p1", d+"-"+svcslice.Denom)
		answer["kind"], answer["x"] = "val", int64(100_000_000*(i+1)) // 1, 2, 3 stake per unit
		evs = append(evs, answer)
	}
	for _, r := range block(evs...) {
		if !r.OK {
			return fmt.Errorf("denoms: feed answer failed: %s", r.Log)
		}
	}
	// the three users bind the feed service at prices in the three denoms (p1..p3 are bound at
	// a price in stake since genesis)
	evs = nil
	for i, who := range []string{"u1", "u2", "u3"} {
		ev := oraEvent("BindService", who, "")
		addr := c.Accts[who].Addr.String()
		ev["msg"] = &servicetypes.MsgBindService{ServiceName: svcName, Provider: addr, Owner: addr,
			Deposit: sdk.NewCoins(sdk.NewInt64Coin(svcslice.Denom, 40)), Pricing: fmt.Sprintf(`{"price":"1%s"}`, denoms[i]), QoS: 1, Options: "{}"}
		evs = append(evs, ev)
	}
	for _, r := range block(evs...) {
		if !r.OK {
			return fmt.Errorf("denoms: binding failed: %s", r.Log)
		}
	}
	// one call naming providers of all four price denoms, twice (two consumers), then blocks
	// in which the requests are issued, left unanswered and expire
	addrs := func(names ...string) (out []string) {
		for _, who := range names {
			out = append(out, c.Accts[who].Addr.String())
		}
		return
	}
	call := func(who string, ps []string) chain.M {
		ev := oraEvent("CallService", who, "")
		ev["msg"] = &servicetypes.MsgCallService{ServiceName: svcName, Providers: ps,
			Consumer: c.Accts[who].Addr.String(), Input: `{"header":{},"body":{}}`,
			ServiceFeeCap: sdk.NewCoins(sdk.NewInt64Coin(svcslice.Denom, 40)), Timeout: 2}
		return ev
	}
	rs := block(call("u1", addrs("u3", "p2", "u2", "p3")), call("u3", addrs("u1", "p3", "u2", "p2")))
	for _, r := range rs {
		if !r.OK {
			return fmt.Errorf("denoms: CallService failed: %s", r.Log)
		}
	}
	n := 0
	perCtx := map[string]int{}
	c.K.Service.IterateRequests(c.Ctx(), func(id tmbytes.HexBytes, r servicetypes.CompactRequest) bool {
		n++
		perCtx[r.RequestContextId]++
		return false
	})

	fmt.Printf("denoms: %d requests active after the call block\n", n)
	if n < 8 {
		return fmt.Errorf("denoms: expected the eight requests of both calls to exist, got %d", n)
	}
	for i := 0; i < 4; i++ {
		block()
	}
	return nil
}

// randomValue: small integers of units, residue-rich 8-decimal numbers of either
// sign, up to +-3.4 (the range in which every clause stays below 2^31 in TLC).
func randomValue(rng *rand.Rand, neg bool) int64 {
	var v int64
	switch rng.Intn(4) {
	case 0:
		v = int64(rng.Intn(7)) - 3
	case 1:
		v = int64(rng.Intn(2001)) - 1000
	default:
		v = rng.Int63n(680_000_001) - 340_000_000
	}
	if neg && v > 0 {
		v = -v
	}
	return v
}

func (e *oraEnv) randProvs(rng *rand.Rand) []any {
	n := 1 + rng.Intn(len(e.provs))
	perm := rng.Perm(len(e.provs))[:n]
	out := []any{}
	for _, i := range perm {
		out = append(out, e.provs[i])
	}
	return out
}

// oddName: a name of the wrong kind shaped like the feed name f (another case, a
// prefix, a longer name, a request-context name, a name ValidateFeedName refuses).
func oddName(rng *rand.Rand, f string) string {
	switch rng.Intn(6) {
	case 0:
		if u := strings.ToUpper(f); u != f {
			return u
		}
		return strings.ToLower(f)
	case 1:
		return f[:1]
	case 2:
		return f + "/1"
	case 3:
		return "c1"
	case 4:
		return "1fa"
	}
	return strings.ToUpper(f[:1]) + f[1:]
}

// provider lists with strings of the wrong kind ("?garbage" / "?valoper" are no account addresses:
// refused since fix 8afa321, findings/oraclerandom.md R7-3; were one accepted again, the EMPTY address
// it is stored as shows up as drift here and as refused genesis imports in C12).
var oddProvLists = [][]any{{"?upper"}, {"?module", "p2"}, {"p2", "u2"}, {"p1", "?upper"}, {"p1", "p1"},
	{"p1", "?garbage"}, {"?garbage", "?valoper"}, {"?valoper"}}

// oraRandom: one seeded history.  Besides sensible operations it attempts, with
// moderate probability, every feed command on feeds in every state (never started,
// paused, paused for lack of funds, running with no / an open / a fully answered
// batch) by the creator, by another user and by a provider; answers by users, by
// providers that were not asked, twice, late, in the block their request expires,
// written down in every payload class of payload.go; names, provider strings and
// fee caps of the wrong kind; invalid settings at and beyond the validation limits.
func oraRandom(fl *drv.Flags, rng *rand.Rand, w *chain.TraceWriter) {
	e := newOraEnv(fl)
	e.start(w)
	names := []string{pairFeed, "fb", "FB", "fc"}
	aggs := []string{"max", "min", "avg"}
	everybody := e.accounts()
	oddLists := oddProvLists
	for b := 0; b < fl.Len; b++ {
		begin := oraEvent("BeginBlock", "", "")
		begin["dt"] = int64(1 + rng.Intn(9))
		if rng.Intn(7) == 0 {
			begin["dt"] = int64(120 + rng.Intn(250)) // values age towards / past the five-minute limit
		}
		var pending []chain.M
		feeds := e.last["feeds"].(chain.M)
		fnames := chain.SortedKeys(feeds)
		ctxs := e.last["ctx"].(chain.M)
		h, _ := e.last["h"].(int64)
		// the providers answer (or not)
		for _, f := range fnames {
			fd := feeds[f].(chain.M)
			cx, ok := ctxs[fd["ctx"].(string)].(chain.M)
			if !ok {
				continue
			}
			allNeg := rng.Intn(4) == 0
			if e.nof15 && fd["agg"] == "max" {
				allNeg = false
			}
			reqs, _ := cx["reqs"].(chain.M)
			if len(reqs) == 0 && rng.Intn(10) == 0 {
				// a late answer: the batch has expired and was cleaned up (or there never was one)
				ev := oraEvent("Respond", pick(rng, e.provs), f)
				ev["kind"], ev["x"] = "val", int64(5)
				pending = append(pending, ev)
			}
			for _, p := range chain.SortedKeys(reqs) {
				rq, _ := reqs[p].(chain.M)
				lastChance := rq["exp"] == h // answers are still accepted in the block the batch expires in
				if rq["act"] != true {
					if rng.Intn(8) == 0 { // a second answer
						ev := oraEvent("Respond", p, f)
						ev["kind"], ev["x"] = "val", int64(7)
						pending = append(pending, ev)
					}
					continue
				}
				if (!lastChance && rng.Intn(3) == 0) || (lastChance && rng.Intn(8) == 0) {
					continue
				}
				who := p
				switch x := rng.Intn(20); {
				case x < 2:
					who = pick(rng, e.provs) // possibly a provider that was not asked
				case x == 2:
					who = pick(rng, e.users) // a stranger
				}
				ev := oraEvent("Respond", who, f)
				if rng.Intn(5) == 0 {
					ev["kind"] = "err"
					ev["pay"] = pick(rng, []string{"", "", "", "err400", "errout", "ridshort"})
				} else {
					ev["kind"] = "val"
					x := randomValue(rng, allNeg)
					if e.nof15 && fd["agg"] == "max" && x < 0 {
						x = -x // keeps known finding F15 out of a run (testing aid)
					}
					ev["x"] = x
					// an answer that holds "NaN": only where today's code skips it cleanly - a max / min
					// feed, and another provider's number is already in (state of the chain)
					numbered := false
					for _, q := range chain.SortedKeys(reqs) {
						if oq, ok := reqs[q].(chain.M); ok && q != who && oq["kind"] == "val" {
							numbered = true
						}
					}
					switch y := rng.Intn(20); {
					case numbered && who == p && (fd["agg"] == "max" || fd["agg"] == "min") && y >= 12:
						ev["pay"] = "nan"
					case y < 4:
						ev["pay"] = pick(rng, valuePays)
					case y < 7:
						ev["pay"] = pick(rng, oddPays)
					case y < 9:
						ev["pay"] = pick(rng, refusedPays)
					}
				}
				pending = append(pending, ev)
			}
		}
		// the exchange-rate module service, btc-priced bindings, plain sends
		for j := rng.Intn(3); j > 0; j-- {
			switch rng.Intn(6) {
			case 0, 1, 2:
				ev := oraEvent("CallPrice", pick(rng, e.users), pick(rng, []string{pairFeed, pairFeed, "fb", "nofeed", "Btc-stake"}))
				ev["cap"] = int64(rng.Intn(3))
				pending = append(pending, ev)
			case 3, 4:
				ev := oraEvent("BindX", pick(rng, e.provs), "")
				ev["x"] = int64(1 + rng.Intn(5))
				ev["cap"] = int64(1 + rng.Intn(12))
				pending = append(pending, ev)
			default:
				from := pick(rng, e.users)
				ev := oraEvent("Send", from, pick(rng, e.users))
				ev["x"] = int64(5 + rng.Intn(30))
				if chain.Str(ev, "feed") != from {
					pending = append(pending, ev)
				}
			}
		}
		// feed management
		for j := rng.Intn(4); j > 0; j-- {
			u := pick(rng, e.users)
			switch x := rng.Intn(20); {
			case x < 5 && len(fnames) < e.maxFeeds:
				ev := oraEvent("CreateFeed", u, names[len(fnames)%len(names)])
				ev["agg"] = pick(rng, aggs)
				ev["lh"] = int64(1 + rng.Intn(4))
				ps := e.randProvs(rng)
				ev["provs"] = ps
				ev["thr"] = int64(1 + rng.Intn(len(ps)))
				ev["cap"] = e.price + int64(rng.Intn(7)) - 1
				to := int64(1 + rng.Intn(int(e.maxTO)))
				ev["timeout"] = to
				ev["freq"] = to + int64(rng.Intn(3))
				ev["pay"] = pick(rng, []string{"", "", "", "nested", "index"})
				if rng.Intn(12) == 0 {
					ev["who"] = pick(rng, e.provs) // anybody may create a feed
				}
				valid := true
				switch y := rng.Intn(40); y {
				case 0:
					ev["lh"], valid = int64(101*rng.Intn(2)), false
				case 1:
					ev["thr"], valid = int64((len(ps)+1)*rng.Intn(2)), false
				case 2:
					ev["cap"], valid = int64(0), false
				case 3:
					ev["timeout"], valid = int64(0), false
				case 4:
					ev["timeout"], ev["freq"], valid = e.maxTO+1, e.maxTO+1, false
				case 5:
					ev["timeout"], ev["freq"], valid = int64(2), int64(1), false
				case 6:
					ev["agg"], valid = "sum", false
				case 7:
					ev["feed"], valid = pick(rng, []string{"", "1fa", "fa b", "fa.x", "-fa", "_fa"}), false
				case 8:
					ev["pay"], valid = pick(rng, []string{"btccap", "twocap", "nosvc", "svccase"}), false
				case 14:
					ev["agg"], valid = "MAX", false
				case 9, 10, 11, 12:
					ps = oddLists[rng.Intn(len(oddLists))]
					ev["provs"], ev["thr"] = ps, int64(1+rng.Intn(len(ps)))
					valid = y < 11 // (a guess: the list may be refused; the name stays free then)
				case 13:
					if len(fnames) > 0 {
						ev["feed"], valid = pick(rng, fnames), false
					}
				}
				pending = append(pending, ev)
				if valid {
					fnames = append(fnames, chain.Str(ev, "feed"))
				}
			case len(fnames) == 0:
				continue
			default:
				f := pick(rng, fnames)
				who := u
				fd, known := feeds[f].(chain.M)
				switch y := rng.Intn(20); {
				case y < 11 && known:
					who, _ = fd["creator"].(string)
				case y < 15:
					who = pick(rng, e.provs)
				case y < 16:
					who = pick(rng, everybody)
				}
				if rng.Intn(16) == 0 {
					f = oddName(rng, f)
				}
				switch {
				case x == 5:
					ev := oraEvent("SvcDirect", who, f)
					ev["kind"] = pick(rng, []string{"pause", "start", "kill"})
					pending = append(pending, ev)
				case x < 10:
					pending = append(pending, oraEvent("StartFeed", who, f))
				case x < 13:
					pending = append(pending, oraEvent("PauseFeed", who, f))
				default:
					ev := oraEvent("EditFeed", who, f)
					switch rng.Intn(8) {
					case 0, 1:
						ev["lh"] = int64(1 + rng.Intn(4))
						if rng.Intn(10) == 0 {
							ev["lh"] = int64(101)
						}
					case 2:
						ev["thr"] = int64(1 + rng.Intn(len(e.provs)+1))
					case 3:
						ps := e.randProvs(rng)
						if rng.Intn(4) == 0 {
							ps = oddLists[rng.Intn(len(oddLists))]
						}
						ev["provs"] = ps
						if rng.Intn(2) == 0 {
							ev["thr"] = int64(1 + rng.Intn(len(ps)))
						}
					case 4:
						to := int64(1 + rng.Intn(int(e.maxTO)+1)) // now and then beyond the maximum
						ev["timeout"] = to
						ev["freq"] = to + int64(rng.Intn(3)) - int64(rng.Intn(8)/7)
					case 5:
						ev[pick(rng, []string{"timeout", "freq"})] = int64(1 + rng.Intn(int(e.maxTO)+1))
					case 6:
						ev["cap"] = e.price + int64(rng.Intn(7)) - 1
						if rng.Intn(5) == 0 {
							ev["pay"] = pick(rng, []string{"btccap", "twocap"})
						}
					default:
						to := int64(1 + rng.Intn(int(e.maxTO)))
						ev["timeout"] = to
						ev["freq"] = to + int64(rng.Intn(3))
						ev["cap"] = e.price + int64(rng.Intn(7)) - 1
						ev["lh"] = int64(1 + rng.Intn(4))
					}
					pending = append(pending, ev)
				}
			}
		}
		if rng.Intn(2) == 0 {
			// commands between the answers: an edit or a pause in the very block a batch completes
			rng.Shuffle(len(pending), func(i, j int) { pending[i], pending[j] = pending[j], pending[i] })
		}
		if !e.runBlock(begin, pending, w) {
			return
		}
	}
	e.epilogue(w)
}

// oraClock (property C11, finding F7): a short live run in which outcomes of the
// oracle's exchange-rate module service straddle the five-minute limit that the
// code measures against the HOST clock (keeper.go ModuleServiceRequest:
// time.Since(valueTime)).  The chain starts 5 min - 12 s in the past; a feed
// "btc-stake" gets its first value within the first blocks; while that value is
// still younger than five minutes by the host clock, a consumer calls the
// "oracle-price" service and providers bind a service priced in btc (the
// exchange-rate path of GetMinDeposit).  Nothing here is validated by TLC; the
// run is recorded (VERIF_RECORD_DIR) and replayed later on replicas.
func oraClock(fl *drv.Flags, w *chain.TraceWriter) error {
	fl.Cfg["clock"] = "1"
	fl.Cfg["users"] = "2"
	fl.Cfg["provs"] = "3"
	fl.Cfg["maxtimeout"] = "2"
	e := newOraEnv(fl)
	e.start(w)
	c := e.c
	const feed = "btc-stake"
	block := func(evs ...chain.M) []chain.TxResult {
		var txs []chain.Tx
		for _, ev := range evs {
			msg, _ := ev["msg"].(sdk.Msg)
			delete(ev, "msg")
			if msg == nil {
				msg = e.msgOf(ev)
			}
			txs = append(txs, chain.Tx{Signer: chain.Str(ev, "who"), Msgs: []sdk.Msg{msg}})
		}
		res := c.RunBlock(time.Second, txs)
		if res.Halt {
			panic("clock run halted: " + res.HaltMsg)
		}
		w.Write(oraEvent("BeginBlock", "", ""), res.BeginState)
		for i, ev := range evs {
			if res.Txs[i].Aborted {
				ev["_orig"], ev["name"] = ev["name"], "TxFailed"
			}
			ev["ok"], ev["panic"] = res.Txs[i].OK, res.Txs[i].Panic
			w.Write(ev, res.Txs[i].State)
			e.last = res.Txs[i].State.(chain.M)
		}
		w.Write(oraEvent("EndBlock", "", ""), res.EndState)
		e.last = res.EndState.(chain.M)
		return res.Txs
	}
	create := oraEvent("CreateFeed", "u1", feed)
	create["agg"], create["lh"], create["provs"], create["thr"] = "avg", int64(2), []any{"p1"}, int64(1)
	create["cap"], create["timeout"], create["freq"] = int64(12), int64(1), int64(2)
	block(create, oraEvent("StartFeed", "u1", feed))
	answer := oraEvent("Respond", "p1", feed)
	answer["kind"], answer["x"] = "val", int64(200_000_000) // 2.00000000 stake per btc
	block(answer)
	if vs := e.last["values"].(chain.M)[feed].([]any); len(vs) == 0 {
		return fmt.Errorf("clock: no value stored for %s", feed)
	}
	call := func(who string) chain.M {
		ev := oraEvent("CallService", who, feed)
		ev["msg"] = &servicetypes.MsgCallService{
			ServiceName: servicetypes.OraclePriceServiceName, Providers: []string{servicetypes.OraclePriceServiceProvider.String()},
			Consumer: c.Accts[who].Addr.String(), Input: fmt.Sprintf(`{"header":{},"body":{"pair":"%s"}}`, feed),
			ServiceFeeCap: sdk.NewCoins(sdk.NewInt64Coin(svcslice.Denom, 1)), Timeout: 1,
		}
		return ev
	}
	bind := func(who string) chain.M {
		ev := oraEvent("BindService", who, "")
		addr := c.Accts[who].Addr.String()
		ev["msg"] = &servicetypes.MsgBindService{ServiceName: svcName, Provider: addr, Owner: addr,
			Deposit: sdk.NewCoins(sdk.NewInt64Coin(svcslice.Denom, 20)), Pricing: `{"price":"1btc"}`, QoS: 1, Options: "{}"}
		return ev
	}
	for i, who := range []string{"u2", "u1"} {
		rs := block(call(who), bind(who))
		age := time.Since(c.Time.Add(-time.Duration(i+1) * time.Second))
		fmt.Printf("clock: block %d CallService ok=%v code=%d log=%q | BindService(btc price) ok=%v code=%d log=%q | value age by host clock ~%s\n",
			c.Height, rs[0].OK, rs[0].Code, rs[0].Log, rs[1].OK, rs[1].Code, rs[1].Log, age.Round(time.Second))
		if !rs[0].OK {
			return fmt.Errorf("clock: live CallService failed: %s", rs[0].Log)
		}
	}
	// what the module service answered in the live run
	c.K.Service.IterateResponses(c.Ctx(), func(id tmbytes.HexBytes, r servicetypes.Response) bool {
		fmt.Printf("clock: stored response result=%s output=%s\n", r.Result, r.Output)
		return false
	})
	return nil
}
