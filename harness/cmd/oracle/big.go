package main

import (
	"encoding/hex"
	"encoding/json"
	"fmt"
	"math"
	"math/big"
	"math/rand"
	"os"
	"regexp"
	"strings"
	"time"

	sdk "github.com/cosmos/cosmos-sdk/types"

	"verif/harness/chain"
	"verif/harness/cmd/internal/svcslice"
	"verif/harness/drv"

	oracletypes "mods.irisnet.org/modules/oracle/types"
	servicetypes "mods.irisnet.org/modules/service/types"
)

// Magnitude tier of C17 (mode "rows"): the real chain is driven through the
// ABCI path with feeds of every aggregate function, 1..4 providers and every
// threshold, and the providers (played by the harness through real
// MsgRespondService transactions) answer with numbers from every magnitude
// stratum: whole numbers and decimals, both signs, signs that cancel, and sets
// whose members fit a machine word while their sum crosses 2^53 / 2^63 / 2^64 /
// 2^128.  Every answer is an exactly representable float64 with at most 8
// fractional decimal digits, so that no input rounding enters the comparison.
// One row per stored feed value: aggregate, the valid answers and the stored
// decimal, all as integers in units of 10^-8.  Nothing is judged here: the rows
// go to Apalache with the operators of spec/OracleClauses.tla.

type bigRow struct {
	Kind    string   `json:"kind"`
	N       int      `json:"n"`
	V1      string   `json:"v1"`
	V2      string   `json:"v2"`
	V3      string   `json:"v3"`
	V4      string   `json:"v4"`
	Stored  string   `json:"stored"`
	Fmt     bool     `json:"fmt"`
	Stratum string   `json:"stratum"`
	Feed    string   `json:"feed"`
	Hist    int      `json:"hist"`
	Step    int      `json:"step"`
	Answers []string `json:"answers"` // as sent (decimal literals)
	Raw     string   `json:"raw"`     // the stored string
	Thr     int      `json:"thr"`
	Asked   int      `json:"asked"`
}

var pow2 = func(k uint) *big.Int { return new(big.Int).Lsh(big.NewInt(1), k) }

// exactDec renders a float64 exactly (every float64 is a finite decimal).
func exactDec(f float64) string {
	return new(big.Float).SetPrec(2000).SetFloat64(f).Text('f', -1)
}

// scaled returns f * 10^8 as an integer string (f has at most 8 binary
// fractional digits by construction); ok=false otherwise.
func scaled(f float64) (string, bool) {
	r, _ := new(big.Rat).SetString(exactDec(f))
	r.Mul(r, new(big.Rat).SetInt(unit))
	return r.Num().String(), r.IsInt()
}

// wholeIn draws a whole number in [lo, hi) that float64 holds exactly, with a
// full 53-bit mantissa (low bits non-zero).
func wholeIn(rng *rand.Rand, lo, hi *big.Int) float64 {
	span := new(big.Int).Sub(hi, lo)
	x := new(big.Int).Add(lo, new(big.Int).Rand(rng, span))
	x.SetBit(x, 0, 1)
	f, _ := new(big.Float).SetInt(x).Float64() // nearest float64: an exact whole number
	if bf := new(big.Float).SetFloat64(f); bf.Cmp(new(big.Float).SetInt(hi)) >= 0 {
		f = math.Nextafter(f, 0)
	}
	return f
}

// fracIn draws a number in [lo, hi) with up to 8 binary fractional digits
// (hi <= 2^44, so that it is an exact float64 and an exact 8-decimal number).
func fracIn(rng *rand.Rand, lo, hi *big.Int) float64 {
	w := wholeIn(rng, new(big.Int).Lsh(lo, 8), new(big.Int).Lsh(hi, 8))
	return w / 256
}

type stratum struct {
	name string
	gen  func(rng *rand.Rand, n int) []float64
}

func sameRange(name string, lo, hi uint, frac bool) stratum {
	return stratum{name, func(rng *rand.Rand, n int) []float64 {
		out := make([]float64, n)
		for i := range out {
			l := pow2(lo)
			if lo == 0 {
				l = big.NewInt(0)
			}
			if frac && hi <= 44 && rng.Intn(2) == 0 {
				out[i] = fracIn(rng, l, pow2(hi))
			} else {
				out[i] = wholeIn(rng, l, pow2(hi))
			}
		}
		return out
	}}
}

// crossing: n whole numbers, each below 2^k, whose sum is at least 2^k.
func crossing(k uint) stratum {
	return stratum{fmt.Sprintf("each<2^%d,sum>=2^%d", k, k), func(rng *rand.Rand, n int) []float64 {
		if n < 2 {
			n = 2
		}
		out := make([]float64, n)
		for i := range out {
			// each in [2^k/n rounded up .. 2^k): the sum of n of them reaches 2^k
			lo := new(big.Int).Div(pow2(k), big.NewInt(int64(n)))
			lo.Add(lo, pow2(k-8))
			out[i] = wholeIn(rng, lo, pow2(k))
		}
		return out
	}}
}

var strata = []stratum{
	sameRange("<2^31", 0, 31, true),
	sameRange("[2^31,2^32)", 31, 32, true),
	sameRange("[2^32,2^53)", 32, 53, true),
	sameRange("[2^53,2^63)", 53, 63, false),
	sameRange("[2^63,2^64)", 63, 64, false),
	sameRange("[2^64,2^65)", 64, 65, false),
	sameRange("~2^96", 95, 97, false),
	sameRange("[2^127,2^129)", 127, 129, false),
	crossing(53), crossing(63), crossing(64), crossing(128),
	// whole numbers quoted in 18-decimals base units (the everyday form of a sum beyond 2^63)
	{"wei:k*10^18", func(rng *rand.Rand, n int) []float64 {
		out := make([]float64, n)
		for i := range out {
			out[i] = float64(1+rng.Intn(9)) * 1e18
		}
		return out
	}},
}

// signs: all positive, all negative, or mixed; cancel: the last answer is the
// negated first one plus something small (the sum is tiny next to the answers).
func applySigns(rng *rand.Rand, xs []float64) ([]float64, string) {
	switch rng.Intn(5) {
	case 0:
		return xs, "+"
	case 1:
		for i := range xs {
			xs[i] = -xs[i]
		}
		return xs, "-"
	case 2, 3:
		for i := range xs {
			if rng.Intn(2) == 0 {
				xs[i] = -xs[i]
			}
		}
		return xs, "+-"
	default:
		if len(xs) >= 2 {
			xs[len(xs)-1] = -xs[0] + float64(rng.Intn(7)-3)
			if _, ok := scaled(xs[len(xs)-1]); !ok || xs[len(xs)-1] == -xs[0] && rng.Intn(2) == 0 {
				xs[len(xs)-1] = -xs[0]
			}
			return xs, "cancel"
		}
		return xs, "+"
	}
}

var storedFmt = regexp.MustCompile(`^-?[0-9]+\.[0-9]{8}$`)

type bigFeed struct {
	name  string
	agg   string
	provs []string
	thr   int
	ctxID []byte
}

func oraRows(fl *drv.Flags) error {
	rng := rand.New(rand.NewSource(fl.Seed))
	var rows []bigRow
	for h := 0; h < fl.N; h++ {
		rs, err := oraRowsHistory(fl, rng, h)
		if err != nil {
			return err
		}
		rows = append(rows, rs...)
	}
	bz, err := json.MarshalIndent(rows, "", " ")
	if err != nil {
		return err
	}
	return os.WriteFile(fl.Out, bz, 0o644)
}

func oraRowsHistory(fl *drv.Flags, rng *rand.Rand, hist int) ([]bigRow, error) {
	fl.Cfg["users"], fl.Cfg["provs"], fl.Cfg["funds"], fl.Cfg["maxtimeout"] = "1", "4", "1000000000", "2"
	e := newOraEnv(fl)
	c := e.c
	c.Project = nil // no trace, no probe transaction: rows only
	creator := e.users[0]
	addrOf := func(n string) string { return c.Accts[n].Addr.String() }
	mustOK := func(res chain.BlockResult, what string) error {
		if res.Halt {
			return fmt.Errorf("%s: chain halted: %s", what, res.HaltMsg)
		}
		for _, t := range res.Txs {
			if !t.OK {
				return fmt.Errorf("%s: %s", what, t.Log)
			}
		}
		return nil
	}
	// feeds: every aggregate x provider sets of 1..4 x every threshold, in turn
	var feeds []*bigFeed
	var txs []chain.Tx
	k := 0
	for _, agg := range []string{"avg", "max", "min"} {
		for np := 1; np <= 4; np++ {
			thr := 1 + (k+hist)%np
			perm := rng.Perm(4)[:np]
			var ps, pa []string
			for _, i := range perm {
				ps = append(ps, e.provs[i])
				pa = append(pa, addrOf(e.provs[i]))
			}
			f := &bigFeed{name: fmt.Sprintf("%s%d", agg, np), agg: agg, provs: ps, thr: thr}
			feeds = append(feeds, f)
			txs = append(txs, chain.Tx{Signer: creator, Msgs: []sdk.Msg{
				&oracletypes.MsgCreateFeed{FeedName: f.name, LatestHistory: 2, Description: "d", Creator: addrOf(creator),
					ServiceName: svcName, Providers: pa, Input: feedInput, Timeout: 1, ServiceFeeCap: capCoins(100),
					RepeatedFrequency: 1, AggregateFunc: agg, ValueJsonPath: valuePath, ResponseThreshold: uint32(thr)},
				&oracletypes.MsgStartFeed{FeedName: f.name, Creator: addrOf(creator)}}})
			k++
		}
	}
	if err := mustOK(c.RunBlock(time.Second, txs), "create feeds"); err != nil {
		return nil, err
	}
	for _, f := range feeds {
		fd, _ := c.K.Oracle.GetFeed(c.Ctx(), f.name)
		f.ctxID, _ = hex.DecodeString(fd.RequestContextID)
	}
	var rows []bigRow
	for step := 0; step < fl.Len; step++ {
		ctx := c.Ctx()
		type sent struct {
			f    *bigFeed
			vals []float64
			lits []string
			st   string
		}
		var batch []sent
		txs = nil
		for _, f := range feeds {
			rc, found := c.K.Service.GetRequestContext(ctx, f.ctxID)
			if !found {
				continue
			}
			// the open requests of this feed's batch, by provider
			reqOf := map[string]string{}
			it := c.K.Service.RequestsIteratorByReqCtx(ctx, f.ctxID, rc.BatchCounter)
			for ; it.Valid(); it.Next() {
				rid := it.Key()[1:]
				var cr servicetypes.CompactRequest
				c.App.AppCodec().MustUnmarshal(it.Value(), &cr)
				if c.K.Service.IsRequestActive(ctx, rid) {
					reqOf[e.svc.NameOf(cr.Provider)] = strings.ToUpper(hex.EncodeToString(rid))
				}
			}
			it.Close()
			if len(reqOf) == 0 {
				continue
			}
			st := strata[(step+len(batch)+hist)%len(strata)]
			if rng.Intn(3) == 0 {
				st = strata[rng.Intn(len(strata))]
			}
			// who answers with a number: usually everybody, sometimes fewer
			var who []string
			for _, p := range f.provs {
				if _, ok := reqOf[p]; ok && (rng.Intn(6) > 0 || len(who) == 0) {
					who = append(who, p)
				}
			}
			vals := st.gen(rng, len(who))
			if len(vals) > len(who) {
				vals = vals[:len(who)]
			}
			vals, sg := applySigns(rng, vals)
			s := sent{f: f, st: st.name + " " + sg}
			for i, p := range who {
				lit := exactDec(vals[i])
				s.vals = append(s.vals, vals[i])
				s.lits = append(s.lits, lit)
				txs = append(txs, chain.Tx{Signer: p, Msgs: []sdk.Msg{&servicetypes.MsgRespondService{
					RequestId: reqOf[p], Provider: addrOf(p), Result: `{"code":200,"message":""}`,
					Output: fmt.Sprintf(`{"header":{},"body":{"%s":%s}}`, valuePath, lit)}}})
			}
			for _, p := range f.provs { // the others: an error result, or silence
				if _, ok := reqOf[p]; ok && !contains(who, p) && rng.Intn(2) == 0 {
					txs = append(txs, chain.Tx{Signer: p, Msgs: []sdk.Msg{&servicetypes.MsgRespondService{
						RequestId: reqOf[p], Provider: addrOf(p), Result: `{"code":500,"message":"no data"}`}}})
				}
			}
			batch = append(batch, s)
		}
		res := c.RunBlock(time.Second, txs)
		if err := mustOK(res, fmt.Sprintf("history %d step %d", hist, step)); err != nil {
			return nil, err
		}
		// a batch completes within this block (every request answered, or expiry at
		// its end): a value stamped with this block's time is the aggregate of `vals`
		for _, s := range batch {
			vs := c.K.Oracle.GetFeedValues(c.Ctx(), s.f.name)
			if len(vs) == 0 || !vs[0].Timestamp.Equal(res.Time) {
				continue
			}
			row := bigRow{Kind: s.f.agg, N: len(s.vals), V1: "0", V2: "0", V3: "0", V4: "0", Stratum: s.st, Feed: s.f.name,
				Hist: hist, Step: step, Answers: s.lits, Raw: vs[0].Data, Fmt: storedFmt.MatchString(vs[0].Data),
				Thr: s.f.thr, Asked: len(s.f.provs)}
			for i, v := range s.vals {
				sv, ok := scaled(v)
				if !ok {
					return nil, fmt.Errorf("answer %v is not an 8-decimal number", v)
				}
				switch i {
				case 0:
					row.V1 = sv
				case 1:
					row.V2 = sv
				case 2:
					row.V3 = sv
				case 3:
					row.V4 = sv
				}
			}
			row.Stored = "0"
			if row.Fmt {
				row.Stored = strings.Replace(vs[0].Data, ".", "", 1)
				if n, ok := new(big.Int).SetString(row.Stored, 10); ok {
					row.Stored = n.String()
				} else {
					row.Fmt = false
					row.Stored = "0"
				}
			}
			rows = append(rows, row)
		}
	}
	_ = svcslice.Denom
	return rows, nil
}

func contains(xs []string, x string) bool {
	for _, y := range xs {
		if y == x {
			return true
		}
	}
	return false
}
