package main

import (
	"encoding/json"
	"math"
	"math/rand"
	"time"

	sdkmath "cosmossdk.io/math"
	"github.com/cosmos/cosmos-sdk/codec"
	sdk "github.com/cosmos/cosmos-sdk/types"

	"verif/harness/chain"

	cstypes "mods.irisnet.org/modules/coinswap/types"
	farmtypes "mods.irisnet.org/modules/farm/types"
	"mods.irisnet.org/simapp"
)

// farm: Params{PoolCreationFee, MaxRewardCategories, TaxRate}
//
//	abstract record: fee (coin), tax (decimal), maxcat (uint32: zero one max dflt)
type farmDrv struct{}

func (farmDrv) Name() string { return "farm" }
func (farmDrv) Accounts() map[string]string {
	return map[string]string{"u1": "100000000stake,100000000btc,1000000rwa,1000000rwb"}
}
func (farmDrv) BaseGenesis(c *chain.Chain, gs simapp.GenesisState) {}
func (farmDrv) Base() chain.M                                      { return chain.M{"fee": "pos", "tax": "dflt", "maxcat": "dflt"} }

// Setup: the staking token lpt-1 comes from a coinswap pool (default coinswap parameters).
func (farmDrv) Setup(e *env) {
	r := e.tx("u1", &cstypes.MsgAddLiquidity{MaxToken: sdk.NewInt64Coin("btc", 1_000_000), ExactStandardAmt: sdkmath.NewInt(1_000_000),
		MinLiquidity: sdkmath.NewInt(1), Deadline: e.c.Time.Add(time.Hour).Unix(), Sender: e.addr("u1")})
	if !r.ok {
		panic("farm setup: " + r.log)
	}
}

func (farmDrv) Ops() []string {
	return []string{"fm_create", "fm_stake", "fm_create2", "fm_stake2", "fm_harvest", "fm_adjust", "fm_unstake", "fm_destroy2", "fm_expire"}
}
func (farmDrv) Mid() int { return 2 }

func (farmDrv) concrete(p chain.M) farmtypes.Params {
	d := farmtypes.DefaultParams()
	return farmtypes.Params{
		PoolCreationFee:     coinOf(chain.Str(p, "fee"), d.PoolCreationFee),
		TaxRate:             decOf(chain.Str(p, "tax"), d.TaxRate),
		MaxRewardCategories: uint32(u64Of(chain.Str(p, "maxcat"), uint64(d.MaxRewardCategories), math.MaxUint32)),
	}
}

func (m farmDrv) UpdateMsg(authority string, p chain.M) sdk.Msg {
	return &farmtypes.MsgUpdateParams{Authority: authority, Params: m.concrete(p)}
}
func (m farmDrv) Validate(p chain.M) error { return m.concrete(p).Validate() }

func (farmDrv) Stored(c *chain.Chain, ctx sdk.Context) (chain.M, []byte, bool) {
	ps := c.K.Farm.GetParams(ctx)
	d := farmtypes.DefaultParams()
	a := chain.M{"fee": coinAbs(ps.PoolCreationFee, d.PoolCreationFee), "tax": decAbs(ps.TaxRate, d.TaxRate),
		"maxcat": u64Abs(uint64(ps.MaxRewardCategories), uint64(d.MaxRewardCategories), math.MaxUint32)}
	bz, _ := ps.Marshal()
	valid := false
	guard(func() { valid = ps.Validate() == nil })
	return a, bz, valid
}

func (m farmDrv) SetGenesisParams(cdc codec.Codec, raw json.RawMessage, p chain.M, bare bool) json.RawMessage {
	var g farmtypes.GenesisState
	cdc.MustUnmarshalJSON(raw, &g)
	g.Params = m.concrete(p)
	var drop [][]string
	drop = append(drop, unsetIf(chain.Str(p, "tax"), "params", "tax_rate")...)
	drop = append(drop, unsetCoin(chain.Str(p, "fee"), "params", "pool_creation_fee")...)
	return dropJSON(cdc.MustMarshalJSON(&g), drop)
}

func (farmDrv) Random(rng *rand.Rand) chain.M {
	return chain.M{"fee": pick(rng, "pos", coinNames...), "tax": pick(rng, "dflt", decNames...),
		"maxcat": pick(rng, "dflt", "zero", "one", "max")}
}

// pool ids are farm-<sequence>; the first pool created in this chain is pool
// A, the second pool B.
func (farmDrv) pools(e *env) (a, b string) {
	a, b = "farm-998", "farm-999" // not created (yet): no such pool
	if first, ok := e.x["poolA"]; ok {
		a = first
	}
	if second, ok := e.x["poolB"]; ok {
		b = second
	}
	return a, b
}

func (m farmDrv) create(e *env, key string, two bool) opRes {
	before := map[string]bool{}
	e.c.K.Farm.IteratorAllPools(e.c.Ctx(), func(p farmtypes.FarmPool) { before[p.Id] = true })
	rpb := sdk.NewCoins(sdk.NewInt64Coin("rwa", 10))
	tot := sdk.NewCoins(sdk.NewInt64Coin("rwa", 120))
	if two {
		rpb = rpb.Add(sdk.NewInt64Coin("rwb", 5))
		tot = tot.Add(sdk.NewInt64Coin("rwb", 60))
	}
	r := e.tx("u1", &farmtypes.MsgCreatePool{Description: "p", LptDenom: "lpt-1", StartHeight: e.c.Height + 2,
		RewardPerBlock: rpb, TotalReward: tot, Editable: true, Creator: e.addr("u1")})
	if r.ok {
		e.c.K.Farm.IteratorAllPools(e.c.Ctx(), func(p farmtypes.FarmPool) {
			if !before[p.Id] {
				e.x[key] = p.Id
			}
		})
	}
	return r
}

func (m farmDrv) RunOp(e *env, op string) opRes {
	u := e.addr("u1")
	a, b := m.pools(e)
	lp := func(n int64) sdk.Coin { return sdk.NewInt64Coin("lpt-1", n) }
	switch op {
	case "fm_create": // one reward category
		return m.create(e, "poolA", false)
	case "fm_create2": // two reward categories
		return m.create(e, "poolB", true)
	case "fm_stake":
		return e.tx("u1", &farmtypes.MsgStake{PoolId: a, Amount: lp(1000), Sender: u})
	case "fm_stake2":
		return e.tx("u1", &farmtypes.MsgStake{PoolId: a, Amount: lp(500), Sender: u})
	case "fm_harvest":
		return e.tx("u1", &farmtypes.MsgHarvest{PoolId: a, Sender: u})
	case "fm_adjust":
		return e.tx("u1", &farmtypes.MsgAdjustPool{PoolId: a, AdditionalReward: sdk.NewCoins(sdk.NewInt64Coin("rwa", 50)),
			RewardPerBlock: sdk.NewCoins(sdk.NewInt64Coin("rwa", 20)), Creator: u})
	case "fm_unstake":
		return e.tx("u1", &farmtypes.MsgUnstake{PoolId: a, Amount: lp(300), Sender: u})
	case "fm_destroy2":
		return e.tx("u1", &farmtypes.MsgDestroyPool{PoolId: b, Creator: u})
	case "fm_expire": // run past the end of every pool: the end blocker refunds
		return e.blocks(22)
	}
	return opRes{log: "unknown op " + op}
}
