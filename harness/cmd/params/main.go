// harness-params: C16 — parameters change only by authority, stay valid, never
// break handlers (coinswap, farm, htlc, service, token).
//
//	harness-params replay -in behaviours.ndjson -out trace.ndjson [-cfg shards=N]
//	harness-params random -seed S -n N -out trace.ndjson [-cfg modules=a+b,shards=N]
//
// A behaviour is a list of abstract events of Params.tla:
//
//	UpdateParams  module, sender (authority|stranger|forger), p (abstract record)
//	GenesisParams module, via (module|initchain), p
//	Op            module, op (one step of the module's fixed operation suite)
//
// Every event is executed on a real chain (real ABCI path for transactions and
// blocks, the message router for the authority) and logged with what the code
// did; the projected state is the abstract parameter record of all five
// modules as read back through the keepers, with the module's own Validate()
// evaluated on it.
package main

import (
	"encoding/json"
	"fmt"
	"math/rand"
	"os"
	"os/exec"
	"sort"
	"strings"
	"time"

	abci "github.com/cometbft/cometbft/abci/types"
	cmtproto "github.com/cometbft/cometbft/proto/tendermint/types"
	"github.com/cosmos/cosmos-sdk/codec"
	sdk "github.com/cosmos/cosmos-sdk/types"

	storetypes "cosmossdk.io/store/types"

	"verif/harness/chain"
	"verif/harness/drv"

	"mods.irisnet.org/simapp"
)

func main() { drv.Main("params", paramsDriver) }

const tick = 5 * time.Second

// modDrv is what the harness needs to know about one module.
type modDrv interface {
	Name() string
	// Accounts funded in genesis for the operation suite.
	Accounts() map[string]string
	// BaseGenesis edits the genesis of the baseline chain (nil for defaults).
	BaseGenesis(c *chain.Chain, gs simapp.GenesisState)
	// Setup creates cross-module prerequisites that are not part of the suite.
	Setup(e *env)
	// Ops is the fixed operation suite; Mid the index at which a mid-life
	// parameter update is placed.
	Ops() []string
	Mid() int
	RunOp(e *env, op string) opRes
	// Base is the abstract record of the baseline parameters.
	Base() chain.M
	// UpdateMsg builds MsgUpdateParams for an abstract record.
	UpdateMsg(authority string, p chain.M) sdk.Msg
	// Validate calls the module's own Params.Validate on the concrete record.
	Validate(p chain.M) error
	// Stored reads the stored parameters: abstract record, raw bytes, own Validate.
	Stored(c *chain.Chain, ctx sdk.Context) (chain.M, []byte, bool)
	// SetGenesisParams replaces the parameters in the module's genesis JSON.
	SetGenesisParams(cdc codec.Codec, raw json.RawMessage, p chain.M, bare bool) json.RawMessage
	// Random draws an abstract record.
	Random(rng *rand.Rand) chain.M
}

var allMods = []modDrv{&coinswapDrv{}, &farmDrv{}, &htlcDrv{}, &serviceDrv{}, &tokenDrv{}}

func modByName(n string) modDrv {
	for _, m := range allMods {
		if m.Name() == n {
			return m
		}
	}
	panic("unknown module " + n)
}

type opRes struct {
	ok, panicked, halt bool
	log                string
}

func (r opRes) class() string {
	switch {
	case r.halt:
		return "halt"
	case r.panicked:
		return "panic"
	case r.ok:
		return "ok"
	}
	return "rej"
}

// env is one running chain with one module under test.
type env struct {
	c     *chain.Chain
	m     modDrv
	dirty bool // parameters changed or operations executed: not reusable
	dead  bool // chain halted or genesis refused
	x     map[string]string
	ran   map[string]bool // operations executed on this chain
	// an update was accepted and no operation has run under it yet
	untested bool
}

func newEnv(m modDrv, mutate func(c *chain.Chain, gs simapp.GenesisState)) *env {
	accts := map[string]string{"stranger": "1000000stake"}
	for k, v := range m.Accounts() {
		accts[k] = v
	}
	e := &env{m: m, x: map[string]string{}, ran: map[string]bool{}}
	e.c = chain.New(chain.Options{Accounts: accts, MutateGenesis: func(c *chain.Chain, gs simapp.GenesisState) {
		m.BaseGenesis(c, gs)
		if mutate != nil {
			mutate(c, gs)
		}
	}})
	return e
}

// tx runs one block with one transaction.
func (e *env) tx(signer string, msgs ...sdk.Msg) opRes {
	if e.dead {
		return opRes{halt: true, log: "chain halted"}
	}
	var r opRes
	// ValidateBasic of well-formed suite messages does not panic, but keep the
	// harness alive if it ever does.
	p, msg := guard(func() {
		res := e.c.RunBlock(tick, []chain.Tx{{Signer: signer, Msgs: msgs}})
		if res.Halt {
			r = opRes{halt: true, log: res.HaltMsg}
			e.dead = true
			return
		}
		t := res.Txs[0]
		r = opRes{ok: t.OK, panicked: t.Panic, log: t.Log}
	})
	if p {
		return opRes{panicked: true, log: "validate_basic panic: " + msg}
	}
	return r
}

// authority executes a governance message of the suite between blocks.
func (e *env) authority(msg sdk.Msg) opRes {
	if e.dead {
		return opRes{halt: true, log: "chain halted"}
	}
	var r opRes
	if p, m := guard(func() {
		ok, pan, log := e.c.Authority(msg)
		r = opRes{ok: ok, panicked: pan, log: log}
	}); p {
		return opRes{panicked: true, log: "panic: " + m}
	}
	return r
}

// blocks runs n empty blocks.
func (e *env) blocks(n int) opRes {
	for i := 0; i < n; i++ {
		if e.dead {
			return opRes{halt: true, log: "chain halted"}
		}
		res := e.c.RunBlock(tick, nil)
		if res.Halt {
			e.dead = true
			return opRes{halt: true, log: res.HaltMsg}
		}
	}
	return opRes{ok: true}
}

func (e *env) addr(name string) string { return e.c.Accts[name].Addr.String() }

// state projects the abstract parameter records of all five modules.
func stateOf(c *chain.Chain, ctx sdk.Context, mod string) chain.M {
	params, valid := chain.M{}, chain.M{}
	for _, m := range allMods {
		a, _, v := m.Stored(c, ctx)
		params[m.Name()] = a
		valid[m.Name()] = v
	}
	return chain.M{"mod": mod, "params": params, "valid": valid}
}

func (e *env) state() chain.M { return stateOf(e.c, e.c.Ctx(), e.m.Name()) }

func newEvent(name, module string) chain.M {
	return chain.M{"name": name, "module": module, "sender": "", "via": "", "op": "", "p": chain.M{},
		"ok": false, "panic": false, "halt": false, "base": "", "valid": false, "vpanic": false,
		"stored_changed": false, "stored_valid": true, "stored": chain.M{}, "note": ""}
}

func absOf(ev chain.M) chain.M {
	if p, ok := ev["p"].(map[string]any); ok {
		return p
	}
	return chain.M{}
}

// ---------------------------------------------------------------------------
// baseline: the suite under the baseline parameters, per module

var baselines = map[string]map[string]string{}

func baseline(m modDrv) map[string]string {
	if b, ok := baselines[m.Name()]; ok {
		return b
	}
	e := newEnv(m, nil)
	m.Setup(e)
	b := map[string]string{}
	for _, op := range m.Ops() {
		b[op] = m.RunOp(e, op).class()
	}
	baselines[m.Name()] = b
	return b
}

// the abstract state of a default chain (Init line of initchain behaviours)
var defaultState chain.M

func baseState(mod string) chain.M {
	if defaultState == nil {
		e := newEnv(modByName("coinswap"), nil)
		defaultState = e.state()
	}
	s := chain.CopyM(defaultState)
	s["mod"] = mod
	return s
}

// ---------------------------------------------------------------------------
// executor

type runner struct {
	w   *chain.TraceWriter
	cur *env
}

func (r *runner) fresh(m modDrv) *env {
	e := newEnv(m, nil)
	m.Setup(e)
	init := newEvent("Init", m.Name())
	r.w.Write(init, e.state())
	r.cur = e
	return e
}

func (r *runner) run(beh []chain.M) {
	if len(beh) == 0 {
		return
	}
	first := beh[0]
	mod := chain.Str(first, "module")
	m := modByName(mod)
	start := 0
	if chain.Str(first, "name") == "GenesisParams" && chain.Str(first, "via") == "initchain" {
		r.genesisInitChain(m, first)
		start = 1
	} else if r.cur == nil || r.cur.dirty || r.cur.dead || r.cur.m.Name() != mod {
		r.fresh(m)
	}
	for _, ev := range beh[start:] {
		e := r.cur
		if e.dead {
			return
		}
		if chain.Str(ev, "module") != e.m.Name() {
			// a behaviour concerns one module; anything else starts a new chain
			e = r.fresh(modByName(chain.Str(ev, "module")))
		}
		switch chain.Str(ev, "name") {
		case "UpdateParams":
			r.update(e, ev)
		case "GenesisParams":
			if chain.Str(ev, "via") == "initchain" {
				r.genesisInitChain(e.m, ev)
			} else {
				r.genesisModule(e, ev)
			}
		case "Op":
			r.op(e, ev)
		}
	}
	// The behaviour ended right after an accepted update (the specification
	// expected a refusal, or the script simply stops there): the operations
	// of the suite that have not run yet are executed under the new
	// parameters anyway, so that "accepted but breaks a handler" is seen even
	// when the acceptance itself was not predicted.
	if e := r.cur; e != nil && !e.dead && e.untested && e.c != nil {
		for _, op := range e.m.Ops() {
			if !e.ran[op] && !e.dead {
				in := newEvent("Op", e.m.Name())
				in["op"] = op
				r.op(e, in)
			}
		}
	}
}

func (r *runner) update(e *env, in chain.M) {
	m := e.m
	p := absOf(in)
	sender := chain.Str(in, "sender")
	ev := newEvent("UpdateParams", m.Name())
	ev["sender"], ev["p"] = sender, p
	// the module's own verdict on the submitted record
	var verr error
	vp, vmsg := guard(func() { verr = m.Validate(p) })
	ev["valid"], ev["vpanic"] = !vp && verr == nil, vp
	_, before, _ := m.Stored(e.c, e.c.Ctx())
	note := ""
	switch sender {
	case "authority":
		var ok, pan bool
		var log string
		gp, gmsg := guard(func() { ok, pan, log = e.c.Authority(m.UpdateMsg(chain.GovAuthority(), p)) })
		if gp {
			// ValidateBasic panicked (baseapp would recover it as code 111222)
			ok, pan, log = false, true, "panic: "+gmsg
		}
		ev["ok"], ev["panic"] = ok, pan
		note = log
	default:
		auth := e.addr("stranger")
		if sender == "forger" {
			auth = chain.GovAuthority() // claims to be the authority, signs with its own key
		}
		var msg sdk.Msg
		var vbErr error
		gp, gmsg := guard(func() {
			msg = m.UpdateMsg(auth, p)
			if vb, is := msg.(sdk.HasValidateBasic); is {
				vbErr = vb.ValidateBasic()
			}
		})
		switch {
		case gp:
			ev["ok"], ev["panic"] = false, true
			note = "validate_basic panic: " + gmsg
		case vbErr != nil:
			ev["ok"] = false
			note = "validate_basic: " + vbErr.Error()
		default:
			res := e.tx("stranger", msg)
			ev["ok"], ev["panic"], ev["halt"] = res.ok, res.panicked, res.halt
			note = res.log
		}
	}
	_ = vmsg
	_, after, sv := m.Stored(e.c, e.c.Ctx())
	ev["stored_changed"] = string(before) != string(after)
	ev["stored_valid"] = sv
	ev["note"] = short(note)
	if string(before) != string(after) {
		e.dirty = true
		e.untested = true
	}
	r.w.Write(ev, e.state())
}

func (r *runner) op(e *env, in chain.M) {
	m := e.m
	op := chain.Str(in, "op")
	ev := newEvent("Op", m.Name())
	ev["op"] = op
	ev["base"] = baseline(m)[op]
	res := m.RunOp(e, op)
	e.dirty = true
	e.ran[op] = true
	e.untested = false
	ev["ok"], ev["panic"], ev["halt"] = res.ok, res.panicked, res.halt
	ev["note"] = short(res.log)
	var st chain.M
	if res.halt {
		st = r.lastState(e)
	} else {
		st = e.state()
	}
	r.w.Write(ev, st)
}

// after a halt the committed state is still readable
func (r *runner) lastState(e *env) chain.M {
	var st chain.M
	if p, _ := guard(func() { st = e.state() }); p {
		return baseState(e.m.Name())
	}
	return st
}

// blank application: stores exist but InitChain never ran.  A module's
// InitGenesis is executed on a branch of the empty state and discarded.
var blank *chain.Chain

func blankCtx() sdk.Context {
	if blank == nil {
		blank = chain.New(chain.Options{SkipInit: true})
	}
	ctx := blank.App.NewUncachedContext(false, cmtproto.Header{ChainID: chain.ChainID, Height: 1, Time: time.Unix(1_700_000_000, 0).UTC()}).
		WithGasMeter(storetypes.NewInfiniteGasMeter())
	cc, _ := ctx.CacheContext()
	return cc
}

func initGenesisOf(c *chain.Chain, ctx sdk.Context, name string, raw json.RawMessage) {
	mod := c.App.ModuleManager.Modules[name]
	switch g := mod.(type) {
	case interface {
		InitGenesis(sdk.Context, codec.JSONCodec, json.RawMessage)
	}:
		g.InitGenesis(ctx, c.App.AppCodec(), raw)
	case interface {
		InitGenesis(sdk.Context, codec.JSONCodec, json.RawMessage) []abci.ValidatorUpdate
	}:
		g.InitGenesis(ctx, c.App.AppCodec(), raw)
	default:
		panic("module " + name + " has no InitGenesis")
	}
}

// genesisModule: the module's own InitGenesis (ValidateGenesis + SetParams +
// the rest) on an empty store, with the module's default genesis whose
// parameters are replaced by p.  Nothing is written to the running chain.
func (r *runner) genesisModule(e *env, in chain.M) {
	m := e.m
	p := absOf(in)
	ev := newEvent("GenesisParams", m.Name())
	ev["via"], ev["p"] = "module", p
	var verr error
	vp, _ := guard(func() { verr = m.Validate(p) })
	ev["valid"], ev["vpanic"] = !vp && verr == nil, vp
	ctx := blankCtx()
	accepted := false
	var stored chain.M
	sv := true
	pan, msg := guard(func() {
		raw := blank.App.DefaultGenesis()[m.Name()]
		raw = m.SetGenesisParams(blank.App.AppCodec(), raw, p, true)
		initGenesisOf(blank, ctx, m.Name(), raw)
		accepted = true
		stored, _, sv = m.Stored(blank, ctx)
	})
	_ = stored
	ev["ok"] = accepted
	ev["stored_changed"] = accepted
	ev["stored_valid"] = sv
	if pan {
		ev["note"] = short(msg)
	}
	// what the import stored, as an abstract record (for strict mode)
	if accepted {
		ev["stored"] = stored
	} else {
		ev["stored"] = chain.M{}
	}
	r.w.Write(ev, e.state())
}

// genesisInitChain: a whole new chain whose genesis carries p for module m.
func (r *runner) genesisInitChain(m modDrv, in chain.M) {
	p := absOf(in)
	r.w.Write(newEvent("Init", m.Name()), baseState(m.Name()))
	ev := newEvent("GenesisParams", m.Name())
	ev["via"], ev["p"] = "initchain", p
	var verr error
	vp, _ := guard(func() { verr = m.Validate(p) })
	ev["valid"], ev["vpanic"] = !vp && verr == nil, vp
	var e *env
	pan, msg := guard(func() {
		e = newEnv(m, func(c *chain.Chain, gs simapp.GenesisState) {
			gs[m.Name()] = m.SetGenesisParams(c.App.AppCodec(), gs[m.Name()], p, false)
		})
	})
	if pan || e == nil {
		ev["ok"] = false
		ev["note"] = short(msg)
		ev["stored"] = chain.M{}
		r.w.Write(ev, baseState(m.Name()))
		r.cur = &env{m: m, dead: true}
		return
	}
	ev["ok"] = true
	ev["stored_changed"] = true
	a, _, sv := m.Stored(e.c, e.c.Ctx())
	ev["stored_valid"] = sv
	ev["stored"] = a
	e.dirty = true
	m.Setup(e)
	r.cur = e
	r.w.Write(ev, e.state())
}

// ---------------------------------------------------------------------------

func paramsDriver(mode string, fl *drv.Flags) error {
	// the cfg recorded in Init lines (used to replay a violating trace) must
	// not carry the sharding of this process
	var keep []string
	for k, v := range fl.Cfg {
		if k != "shards" && k != "shard" && k != "of" {
			keep = append(keep, k+"="+v)
		}
	}
	sort.Strings(keep)
	chain.DriverCfg = strings.Join(keep, ",")
	if n := fl.CfgInt("shards", 1); n > 1 {
		return fanOut(mode, fl, int(n))
	}
	shard, of := int(fl.CfgInt("shard", 0)), int(fl.CfgInt("of", 1))
	w := chain.NewTraceWriter(fl.Out)
	defer w.Close()
	r := &runner{w: w}
	switch mode {
	case "replay":
		for i, beh := range chain.ReadBehaviours(fl.In) {
			if i%of != shard {
				continue
			}
			r.run(beh)
		}
	case "random":
		mods := strings.Split(fl.CfgStr("modules", "coinswap+farm+htlc+service+token"), "+")
		for i := 0; i < fl.N; i++ {
			if i%of != shard {
				continue
			}
			rng := rand.New(rand.NewSource(fl.Seed*1_000_003 + int64(i)))
			r.run(randomBehaviour(rng, modByName(mods[i%len(mods)])))
		}
	case "baseline":
		// diagnostic: print the baseline outcomes of every suite
		for _, m := range allMods {
			b := baseline(m)
			ks := make([]string, 0, len(b))
			for _, op := range m.Ops() {
				ks = append(ks, op+"="+b[op])
			}
			fmt.Println(m.Name(), strings.Join(ks, " "))
		}
	default:
		return fmt.Errorf("unknown mode %q", mode)
	}
	return nil
}

// fanOut runs the same command in n processes (round-robin shards) and
// concatenates their traces in shard order.
func fanOut(mode string, fl *drv.Flags, n int) error {
	var cmds []*exec.Cmd
	var outs []string
	for i := 0; i < n; i++ {
		out := fmt.Sprintf("%s.shard%d", fl.Out, i)
		outs = append(outs, out)
		var kv []string
		for k, v := range fl.Cfg {
			if k != "shards" {
				kv = append(kv, k+"="+v)
			}
		}
		sort.Strings(kv)
		kv = append(kv, fmt.Sprintf("shard=%d", i), fmt.Sprintf("of=%d", n))
		args := []string{mode, "-out", out, "-seed", fmt.Sprint(fl.Seed), "-n", fmt.Sprint(fl.N), "-len", fmt.Sprint(fl.Len),
			"-cfg", strings.Join(kv, ",")}
		if fl.In != "" {
			args = append(args, "-in", fl.In)
		}
		c := exec.Command(os.Args[0], args...)
		c.Stderr = os.Stderr
		if err := c.Start(); err != nil {
			return err
		}
		cmds = append(cmds, c)
	}
	var firstErr error
	for _, c := range cmds {
		if err := c.Wait(); err != nil && firstErr == nil {
			firstErr = err
		}
	}
	if firstErr != nil {
		return firstErr
	}
	f, err := os.Create(fl.Out)
	if err != nil {
		return err
	}
	defer f.Close()
	for _, o := range outs {
		bz, err := os.ReadFile(o)
		if err != nil {
			return err
		}
		f.Write(bz)
		os.Remove(o)
	}
	return nil
}

// randomBehaviour: one abstract record (every field keeps its baseline value
// with probability 0.55), tried by the stranger, as a genesis and by the
// authority (before the suite or mid-life), followed by the suite.
func randomBehaviour(rng *rand.Rand, m modDrv) []chain.M {
	p := m.Random(rng)
	mk := func(name string) chain.M {
		e := newEvent(name, m.Name())
		e["p"] = p
		return e
	}
	ops := m.Ops()
	opEv := func(op string) chain.M { e := newEvent("Op", m.Name()); e["op"] = op; return e }
	var beh []chain.M
	if rng.Intn(8) == 0 {
		g := mk("GenesisParams")
		g["via"] = "initchain"
		beh = append(beh, g)
		for _, op := range ops {
			beh = append(beh, opEv(op))
		}
		return beh
	}
	pos := 0
	if rng.Intn(2) == 0 {
		pos = m.Mid()
	}
	for _, op := range ops[:pos] {
		beh = append(beh, opEv(op))
	}
	s := mk("UpdateParams")
	s["sender"] = []string{"stranger", "forger"}[rng.Intn(2)]
	g := mk("GenesisParams")
	g["via"] = "module"
	a := mk("UpdateParams")
	a["sender"] = "authority"
	beh = append(beh, s, g, a)
	for _, op := range ops[pos:] {
		beh = append(beh, opEv(op))
	}
	return beh
}

// pick returns base with probability 0.55, else a uniform element of dom.
func pick(rng *rand.Rand, base string, dom ...string) string {
	if rng.Intn(100) < 55 {
		return base
	}
	return dom[rng.Intn(len(dom))]
}
