package main

import (
	"crypto/sha256"
	"encoding/hex"
	"encoding/json"
	"fmt"
	"math/rand"
	"time"

	tmbytes "github.com/cometbft/cometbft/libs/bytes"
	"github.com/cosmos/cosmos-sdk/codec"
	sdk "github.com/cosmos/cosmos-sdk/types"

	"verif/harness/chain"

	htlctypes "mods.irisnet.org/modules/htlc/types"
	"mods.irisnet.org/simapp"
)

// htlc: Params{AssetParams []AssetParam}
//
//	abstract record: assets = sequence of
//	  [denom   ok ok2 noprefix upper short bad
//	   limit   unset neg zero pos max           (pos = 1000)
//	   tlimit  unset neg zero pos big           (pos = 500, big = 10^9 > limit)
//	   timed, active  (bool)
//	   deputy  ok bad
//	   fee     unset neg zero pos big max       (pos = 1, big = 10^6)
//	   minswap unset neg zero pos big max       (pos = 2, big = 10^6)
//	   maxswap unset neg zero pos big max       (pos = 100, big = 10^6)
//	   minlock, maxlock   low min mid top high  (49 50 60 34560 34561)]
//
// The baseline of the htlc chain carries one supported asset ("ok" everywhere)
// so that cross-chain transfers are possible under the baseline.
type htlcDrv struct{}

var htlcDenoms = map[string]string{"ok": "htltbnb", "ok2": "htltbtc", "noprefix": "bnbcoin", "upper": "htltBNB", "short": "htlt", "bad": "1bad"}
var htlcLocks = map[string]uint64{"low": 49, "min": 50, "mid": 60, "top": 34560, "high": 34561}

func (htlcDrv) Name() string { return "htlc" }
func (htlcDrv) Accounts() map[string]string {
	return map[string]string{"u1": "1000000stake", "u2": "1000000stake", "deputy": "1000000stake"}
}

func okAsset() chain.M {
	return chain.M{"denom": "ok", "limit": "pos", "tlimit": "zero", "timed": false, "active": true, "deputy": "ok",
		"fee": "pos", "minswap": "pos", "maxswap": "pos", "minlock": "min", "maxlock": "mid"}
}

func (htlcDrv) Base() chain.M { return chain.M{"assets": []any{okAsset()}} }

func (m htlcDrv) BaseGenesis(c *chain.Chain, gs simapp.GenesisState) {
	gs["htlc"] = m.SetGenesisParams(c.App.AppCodec(), gs["htlc"], m.Base(), false)
}
func (htlcDrv) Setup(e *env) {}

func (htlcDrv) Ops() []string {
	return []string{"ht_create", "ht_in", "ht_claimin",
		"ht_claim", "ht_in2", "ht_claimin2", "ht_out", "ht_claimout", "ht_out2", "ht_create2", "ht_in3", "ht_expire"}
}
func (htlcDrv) Mid() int { return 3 }

func assetOf(a chain.M) htlctypes.AssetParam {
	dep := "notanaddress"
	if chain.Str(a, "deputy") == "ok" {
		dep = chain.AddrOf("deputy").String()
	}
	p := htlctypes.AssetParam{
		Denom: htlcDenoms[chain.Str(a, "denom")],
		SupplyLimit: htlctypes.SupplyLimit{
			Limit:          intOf(chain.Str(a, "limit"), 1000, 1_000_000_000),
			TimeLimited:    chain.Bool(a, "timed"),
			TimeBasedLimit: intOf(chain.Str(a, "tlimit"), 500, 1_000_000_000),
		},
		Active:        chain.Bool(a, "active"),
		DeputyAddress: dep,
		FixedFee:      intOf(chain.Str(a, "fee"), 1, 1_000_000),
		MinSwapAmount: intOf(chain.Str(a, "minswap"), 2, 1_000_000),
		MaxSwapAmount: intOf(chain.Str(a, "maxswap"), 100, 1_000_000),
		MinBlockLock:  htlcLocks[chain.Str(a, "minlock")],
		MaxBlockLock:  htlcLocks[chain.Str(a, "maxlock")],
	}
	if p.SupplyLimit.TimeLimited {
		p.SupplyLimit.TimePeriod = time.Hour
	}
	return p
}

func revLookup[V comparable](m map[string]V, v V, f string) string {
	for k, x := range m {
		if x == v {
			return k
		}
	}
	return f
}

func assetAbs(p htlctypes.AssetParam) chain.M {
	dep := "bad"
	if p.DeputyAddress == chain.AddrOf("deputy").String() {
		dep = "ok"
	}
	return chain.M{
		"denom": revLookup(htlcDenoms, p.Denom, "="+p.Denom),
		"limit": intAbs(p.SupplyLimit.Limit, 1000, 1_000_000_000), "tlimit": intAbs(p.SupplyLimit.TimeBasedLimit, 500, 1_000_000_000),
		"timed": p.SupplyLimit.TimeLimited, "active": p.Active, "deputy": dep,
		"fee": intAbs(p.FixedFee, 1, 1_000_000), "minswap": intAbs(p.MinSwapAmount, 2, 1_000_000), "maxswap": intAbs(p.MaxSwapAmount, 100, 1_000_000),
		"minlock": revLookup(htlcLocks, p.MinBlockLock, fmt.Sprintf("=%d", p.MinBlockLock)),
		"maxlock": revLookup(htlcLocks, p.MaxBlockLock, fmt.Sprintf("=%d", p.MaxBlockLock)),
	}
}

func assetsOf(p chain.M) []chain.M {
	var out []chain.M
	if l, ok := p["assets"].([]any); ok {
		for _, x := range l {
			if a, ok := x.(map[string]any); ok {
				out = append(out, a)
			}
		}
	}
	return out
}

func (htlcDrv) concrete(p chain.M) htlctypes.Params {
	ps := htlctypes.Params{AssetParams: []htlctypes.AssetParam{}}
	for _, a := range assetsOf(p) {
		ps.AssetParams = append(ps.AssetParams, assetOf(a))
	}
	return ps
}

func (m htlcDrv) UpdateMsg(authority string, p chain.M) sdk.Msg {
	return &htlctypes.MsgUpdateParams{Authority: authority, Params: m.concrete(p)}
}
func (m htlcDrv) Validate(p chain.M) error { return m.concrete(p).Validate() }

func (htlcDrv) Stored(c *chain.Chain, ctx sdk.Context) (chain.M, []byte, bool) {
	ps := c.K.HTLC.GetParams(ctx)
	as := []any{}
	for _, a := range ps.AssetParams {
		as = append(as, assetAbs(a))
	}
	bz, _ := ps.Marshal()
	valid := false
	guard(func() { valid = ps.Validate() == nil })
	return chain.M{"assets": as}, bz, valid
}

func (m htlcDrv) SetGenesisParams(cdc codec.Codec, raw json.RawMessage, p chain.M, bare bool) json.RawMessage {
	var g htlctypes.GenesisState
	cdc.MustUnmarshalJSON(raw, &g)
	g.Params = m.concrete(p)
	var drop [][]string
	for i, a := range assetsOf(p) {
		base := []string{"params", "asset_params", fmt.Sprint(i)}
		at := func(k ...string) []string { return append(append([]string{}, base...), k...) }
		drop = append(drop, unsetIf(chain.Str(a, "limit"), at("supply_limit", "limit")...)...)
		drop = append(drop, unsetIf(chain.Str(a, "tlimit"), at("supply_limit", "time_based_limit")...)...)
		drop = append(drop, unsetIf(chain.Str(a, "fee"), at("fixed_fee")...)...)
		drop = append(drop, unsetIf(chain.Str(a, "minswap"), at("min_swap_amount")...)...)
		drop = append(drop, unsetIf(chain.Str(a, "maxswap"), at("max_swap_amount")...)...)
	}
	return dropJSON(cdc.MustMarshalJSON(&g), drop)
}

func (htlcDrv) Random(rng *rand.Rand) chain.M {
	ints := []string{"unset", "neg", "zero", "pos", "big", "max"}
	locks := []string{"low", "min", "mid", "top", "high"}
	one := func(denom string) chain.M {
		return chain.M{
			"denom": pick(rng, denom, "ok", "ok2", "noprefix", "upper", "short", "bad"),
			"limit": pick(rng, "pos", "unset", "neg", "zero", "pos", "max"), "tlimit": pick(rng, "zero", "unset", "neg", "zero", "pos", "big"),
			"timed": rng.Intn(3) == 0, "active": rng.Intn(5) != 0, "deputy": pick(rng, "ok", "ok", "bad"),
			"fee": pick(rng, "pos", ints...), "minswap": pick(rng, "pos", ints...), "maxswap": pick(rng, "pos", ints...),
			"minlock": pick(rng, "min", locks...), "maxlock": pick(rng, "mid", locks...),
		}
	}
	var as []any
	switch rng.Intn(6) {
	case 0:
	case 1:
		as = append(as, one("ok"), one("ok2"))
	case 2:
		as = append(as, one("ok"), one("ok"))
	default:
		as = append(as, one("ok"))
	}
	if as == nil {
		as = []any{}
	}
	return chain.M{"assets": as}
}

func htlcSecret(op string) (secret tmbytes.HexBytes) {
	s := sha256.Sum256([]byte("verif-htlc-secret-" + op))
	return s[:]
}

func (m htlcDrv) create(e *env, op, from, to string, amount sdk.Coins, transfer bool, lock uint64) opRes {
	ts := uint64(0)
	if transfer {
		ts = uint64(e.c.Time.Unix())
	}
	hl := tmbytes.HexBytes(htlctypes.GetHashLock(htlcSecret(op), ts))
	id := htlctypes.GetID(e.c.Accts[from].Addr, e.c.Accts[to].Addr, amount, hl)
	e.x["id:"+op] = id.String()
	return e.tx(from, &htlctypes.MsgCreateHTLC{Sender: e.addr(from), To: e.addr(to), ReceiverOnOtherChain: "r", SenderOnOtherChain: "s",
		Amount: amount, HashLock: hl.String(), Timestamp: ts, TimeLock: lock, Transfer: transfer})
}

func (m htlcDrv) claim(e *env, who, createOp string) opRes {
	id, ok := e.x["id:"+createOp]
	if !ok {
		id = hex.EncodeToString(make([]byte, 32))
	}
	return e.tx(who, &htlctypes.MsgClaimHTLC{Sender: e.addr(who), Id: id, Secret: htlcSecret(createOp).String()})
}

func (m htlcDrv) RunOp(e *env, op string) opRes {
	bnb := func(n int64) sdk.Coins { return sdk.NewCoins(sdk.NewInt64Coin("htltbnb", n)) }
	stake := func(n int64) sdk.Coins { return sdk.NewCoins(sdk.NewInt64Coin("stake", n)) }
	switch op {
	case "ht_create":
		return m.create(e, op, "u1", "u2", stake(10), false, 50)
	case "ht_create2":
		return m.create(e, op, "u1", "u2", stake(11), false, 50)
	case "ht_claim":
		return m.claim(e, "u2", "ht_create")
	case "ht_in": // incoming cross-chain transfer: the deputy locks, the user claims (mint)
		return m.create(e, op, "deputy", "u1", bnb(50), true, 50)
	case "ht_in2":
		return m.create(e, op, "deputy", "u1", bnb(30), true, 50)
	case "ht_in3":
		return m.create(e, op, "deputy", "u1", bnb(10), true, 50)
	case "ht_claimin":
		return m.claim(e, "u1", "ht_in")
	case "ht_claimin2":
		return m.claim(e, "u1", "ht_in2")
	case "ht_out": // outgoing: the user locks, the deputy claims (burn)
		return m.create(e, op, "u1", "deputy", bnb(20), true, 55)
	case "ht_out2":
		return m.create(e, op, "u1", "deputy", bnb(10), true, 55)
	case "ht_claimout":
		return m.claim(e, "deputy", "ht_out")
	case "ht_expire": // every open contract expires: the begin blocker refunds
		return e.blocks(60)
	}
	return opRes{log: "unknown op " + op}
}
