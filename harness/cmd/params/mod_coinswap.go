package main

import (
	"encoding/json"
	"math/rand"
	"time"

	sdkmath "cosmossdk.io/math"
	"github.com/cosmos/cosmos-sdk/codec"
	sdk "github.com/cosmos/cosmos-sdk/types"

	"verif/harness/chain"

	cstypes "mods.irisnet.org/modules/coinswap/types"
	"mods.irisnet.org/simapp"
)

// coinswap: Params{Fee, PoolCreationFee, TaxRate, UnilateralLiquidityFee}
//
//	abstract record: fee, tax, uni (decimals), pcf (coin)
type coinswapDrv struct{}

func (coinswapDrv) Name() string { return "coinswap" }
func (coinswapDrv) Accounts() map[string]string {
	return map[string]string{"u1": "100000000stake,100000000btc,100000000eth"}
}
func (coinswapDrv) BaseGenesis(c *chain.Chain, gs simapp.GenesisState) {}
func (coinswapDrv) Setup(e *env)                                       {}
func (coinswapDrv) Base() chain.M {
	return chain.M{"fee": "dflt", "tax": "dflt", "uni": "dflt", "pcf": "pos"}
}

func (coinswapDrv) Ops() []string {
	return []string{"cs_create", "cs_sell", "cs_create2", "cs_add", "cs_sell2", "cs_buy", "cs_addu", "cs_remu", "cs_rem"}
}
func (coinswapDrv) Mid() int { return 2 }

func (coinswapDrv) concrete(p chain.M) cstypes.Params {
	d := cstypes.DefaultParams()
	return cstypes.Params{
		Fee:                    decOf(chain.Str(p, "fee"), d.Fee),
		TaxRate:                decOf(chain.Str(p, "tax"), d.TaxRate),
		UnilateralLiquidityFee: decOf(chain.Str(p, "uni"), d.UnilateralLiquidityFee),
		PoolCreationFee:        coinOf(chain.Str(p, "pcf"), d.PoolCreationFee),
	}
}

func (m coinswapDrv) UpdateMsg(authority string, p chain.M) sdk.Msg {
	return &cstypes.MsgUpdateParams{Authority: authority, Params: m.concrete(p)}
}

func (m coinswapDrv) Validate(p chain.M) error { return m.concrete(p).Validate() }

func (coinswapDrv) Stored(c *chain.Chain, ctx sdk.Context) (chain.M, []byte, bool) {
	ps := c.K.Coinswap.GetParams(ctx)
	d := cstypes.DefaultParams()
	a := chain.M{"fee": decAbs(ps.Fee, d.Fee), "tax": decAbs(ps.TaxRate, d.TaxRate),
		"uni": decAbs(ps.UnilateralLiquidityFee, d.UnilateralLiquidityFee), "pcf": coinAbs(ps.PoolCreationFee, d.PoolCreationFee)}
	bz, _ := ps.Marshal()
	valid := false
	guard(func() { valid = ps.Validate() == nil })
	return a, bz, valid
}

func (m coinswapDrv) SetGenesisParams(cdc codec.Codec, raw json.RawMessage, p chain.M, bare bool) json.RawMessage {
	var g cstypes.GenesisState
	cdc.MustUnmarshalJSON(raw, &g)
	g.Params = m.concrete(p)
	var drop [][]string
	drop = append(drop, unsetIf(chain.Str(p, "fee"), "params", "fee")...)
	drop = append(drop, unsetIf(chain.Str(p, "tax"), "params", "tax_rate")...)
	drop = append(drop, unsetIf(chain.Str(p, "uni"), "params", "unilateral_liquidity_fee")...)
	drop = append(drop, unsetCoin(chain.Str(p, "pcf"), "params", "pool_creation_fee")...)
	return dropJSON(cdc.MustMarshalJSON(&g), drop)
}

func (coinswapDrv) Random(rng *rand.Rand) chain.M {
	return chain.M{
		"fee": pick(rng, "dflt", decNames...), "tax": pick(rng, "dflt", decNames...), "uni": pick(rng, "dflt", decNames...),
		"pcf": pick(rng, "pos", coinNames...),
	}
}

func (coinswapDrv) RunOp(e *env, op string) opRes {
	u := e.addr("u1")
	dl := e.c.Time.Add(time.Hour).Unix()
	I := sdkmath.NewInt
	switch op {
	case "cs_create": // first liquidity of btc: creates the pool lpt-1 and charges the creation fee
		return e.tx("u1", &cstypes.MsgAddLiquidity{MaxToken: sdk.NewInt64Coin("btc", 1_000_000), ExactStandardAmt: I(1_000_000),
			MinLiquidity: I(1), Deadline: dl, Sender: u})
	case "cs_create2":
		return e.tx("u1", &cstypes.MsgAddLiquidity{MaxToken: sdk.NewInt64Coin("eth", 1_000_000), ExactStandardAmt: I(1_000_000),
			MinLiquidity: I(1), Deadline: dl, Sender: u})
	case "cs_add":
		return e.tx("u1", &cstypes.MsgAddLiquidity{MaxToken: sdk.NewInt64Coin("btc", 2_000_000), ExactStandardAmt: I(10_000),
			MinLiquidity: I(1), Deadline: dl, Sender: u})
	case "cs_sell", "cs_sell2": // exact input
		return e.tx("u1", &cstypes.MsgSwapOrder{
			Input:    cstypes.Input{Address: u, Coin: sdk.NewInt64Coin("btc", 10_000)},
			Output:   cstypes.Output{Address: u, Coin: sdk.NewInt64Coin("stake", 1)},
			Deadline: dl, IsBuyOrder: false})
	case "cs_buy": // exact output
		return e.tx("u1", &cstypes.MsgSwapOrder{
			Input:    cstypes.Input{Address: u, Coin: sdk.NewInt64Coin("btc", 100_000)},
			Output:   cstypes.Output{Address: u, Coin: sdk.NewInt64Coin("stake", 5_000)},
			Deadline: dl, IsBuyOrder: true})
	case "cs_addu":
		return e.tx("u1", &cstypes.MsgAddUnilateralLiquidity{CounterpartyDenom: "btc", ExactToken: sdk.NewInt64Coin("btc", 50_000),
			MinLiquidity: I(1), Deadline: dl, Sender: u})
	case "cs_remu":
		return e.tx("u1", &cstypes.MsgRemoveUnilateralLiquidity{CounterpartyDenom: "btc", MinToken: sdk.NewInt64Coin("btc", 1),
			ExactLiquidity: I(10_000), Deadline: dl, Sender: u})
	case "cs_rem":
		return e.tx("u1", &cstypes.MsgRemoveLiquidity{WithdrawLiquidity: sdk.NewInt64Coin("lpt-1", 10_000), MinToken: I(1),
			MinStandardAmt: I(1), Deadline: dl, Sender: u})
	}
	return opRes{log: "unknown op " + op}
}
