package main

// Abstract parameter values of Params.tla and their concretisation.
//
//	decimals:  unset  neg    zero tiny     half almost1               one gt1 dflt
//	           Dec{}  -0.5   0    10^-18   0.5  0.999999999999999999  1   2   module default
//	coins:     unset (Coin{}), nilamt (denom, nil amount), neg (-1), zero, pos (= the
//	           module's default coin), max (2^256-1), baddenom ("1bad"), nodenom ("")
//	integers:  neg zero one max dflt           (max = MaxInt64 / MaxUint32 / MaxUint64)
//
// A stored value is mapped back to its abstract name by exact comparison with
// the table; any other value is rendered as "=<value>" so that two different
// concrete values never share an abstract name.

import (
	"bytes"
	"encoding/json"
	"fmt"
	"math"
	"math/big"
	"strconv"
	"time"

	sdkmath "cosmossdk.io/math"
	sdk "github.com/cosmos/cosmos-sdk/types"
)

var decNames = []string{"unset", "neg", "zero", "tiny", "half", "almost1", "one", "gt1"}

func decOf(name string, dflt sdkmath.LegacyDec) sdkmath.LegacyDec {
	switch name {
	case "unset":
		return sdkmath.LegacyDec{}
	case "neg":
		return sdkmath.LegacyNewDecWithPrec(-5, 1)
	case "zero":
		return sdkmath.LegacyZeroDec()
	case "tiny":
		return sdkmath.LegacySmallestDec()
	case "half":
		return sdkmath.LegacyNewDecWithPrec(5, 1)
	case "almost1":
		return sdkmath.LegacyOneDec().Sub(sdkmath.LegacySmallestDec())
	case "one":
		return sdkmath.LegacyOneDec()
	case "gt1":
		return sdkmath.LegacyNewDec(2)
	case "dflt":
		return dflt
	}
	panic("unknown abstract decimal " + name)
}

func decAbs(d, dflt sdkmath.LegacyDec) string {
	if d.IsNil() {
		return "unset"
	}
	for _, n := range decNames[1:] {
		if d.Equal(decOf(n, dflt)) {
			return n
		}
	}
	if d.Equal(dflt) {
		return "dflt"
	}
	return "=" + d.String()
}

var maxInt256 = sdkmath.NewIntFromBigInt(new(big.Int).Sub(new(big.Int).Lsh(big.NewInt(1), 256), big.NewInt(1)))

var coinNames = []string{"unset", "nilamt", "neg", "zero", "pos", "max", "baddenom", "nodenom", "other"}

// coinOf builds a coin WITHOUT validation (sdk.NewCoin would refuse most of these).
func coinOf(name string, dflt sdk.Coin) sdk.Coin {
	switch name {
	case "unset":
		return sdk.Coin{}
	case "nilamt":
		return sdk.Coin{Denom: dflt.Denom}
	case "neg":
		return sdk.Coin{Denom: dflt.Denom, Amount: sdkmath.NewInt(-1)}
	case "zero":
		return sdk.Coin{Denom: dflt.Denom, Amount: sdkmath.ZeroInt()}
	case "pos", "dflt":
		return dflt
	case "max":
		return sdk.Coin{Denom: dflt.Denom, Amount: maxInt256}
	case "baddenom":
		return sdk.Coin{Denom: "1bad", Amount: dflt.Amount}
	case "nodenom":
		return sdk.Coin{Denom: "", Amount: dflt.Amount}
	case "other":
		// a perfectly valid positive coin, only of a denom other than the default's
		return sdk.Coin{Denom: "btc", Amount: dflt.Amount}
	}
	panic("unknown abstract coin " + name)
}

func coinAbs(c, dflt sdk.Coin) string {
	if c.Amount.IsNil() {
		if c.Denom == "" {
			return "unset"
		}
		if c.Denom == dflt.Denom {
			return "nilamt"
		}
		return "=nil" + c.Denom
	}
	for _, n := range coinNames[2:] {
		x := coinOf(n, dflt)
		if x.Denom == c.Denom && x.Amount.Equal(c.Amount) {
			return n
		}
	}
	return "=" + c.Amount.String() + c.Denom
}

// math.Int fields (htlc): unset neg zero pos big max; pos and big are given per field.
func intOf(name string, pos, big int64) sdkmath.Int {
	switch name {
	case "unset":
		return sdkmath.Int{}
	case "neg":
		return sdkmath.NewInt(-1)
	case "zero":
		return sdkmath.ZeroInt()
	case "pos", "dflt":
		return sdkmath.NewInt(pos)
	case "big":
		return sdkmath.NewInt(big)
	case "max":
		return maxInt256
	}
	panic("unknown abstract Int " + name)
}

func intAbs(i sdkmath.Int, pos, big int64) string {
	if i.IsNil() {
		return "unset"
	}
	for _, n := range []string{"neg", "zero", "pos", "big", "max"} {
		if i.Equal(intOf(n, pos, big)) {
			return n
		}
	}
	return "=" + i.String()
}

func i64Of(name string, dflt int64) int64 {
	switch name {
	case "neg":
		return -1
	case "zero":
		return 0
	case "one":
		return 1
	case "max":
		return math.MaxInt64
	case "dflt":
		return dflt
	}
	panic("unknown abstract int64 " + name)
}

func i64Abs(v, dflt int64) string {
	switch v {
	case -1:
		return "neg"
	case 0:
		return "zero"
	case 1:
		return "one"
	case math.MaxInt64:
		return "max"
	case dflt:
		return "dflt"
	}
	return fmt.Sprintf("=%d", v)
}

func u64Of(name string, dflt, max uint64) uint64 {
	switch name {
	case "zero":
		return 0
	case "one":
		return 1
	case "max":
		return max
	case "dflt":
		return dflt
	}
	panic("unknown abstract uint " + name)
}

func u64Abs(v, dflt, max uint64) string {
	switch v {
	case 0:
		return "zero"
	case 1:
		return "one"
	case max:
		return "max"
	case dflt:
		return "dflt"
	}
	return fmt.Sprintf("=%d", v)
}

func durOf(name string, dflt time.Duration) time.Duration {
	return time.Duration(i64Of(name, int64(dflt)))
}
func durAbs(v, dflt time.Duration) string { return i64Abs(int64(v), int64(dflt)) }

// guard runs f and reports whether it panicked.
func guard(f func()) (panicked bool, msg string) {
	defer func() {
		if r := recover(); r != nil {
			panicked, msg = true, fmt.Sprint(r)
		}
	}()
	f()
	return false, ""
}

func short(s string) string {
	if len(s) > 100 {
		s = s[:100]
	}
	out := make([]rune, 0, len(s))
	for _, r := range s {
		if r < 32 || r == '"' || r == '\\' || r > 126 {
			r = ' '
		}
		out = append(out, r)
	}
	return string(out)
}

// dropJSON removes the given paths (object keys / array indices) from a JSON
// document: an "unset" value on the genesis path is a field that is absent
// from the genesis file (it decodes to the Go zero value: nil Dec, nil Int).
func dropJSON(raw json.RawMessage, paths [][]string) json.RawMessage {
	if len(paths) == 0 {
		return raw
	}
	dec := json.NewDecoder(bytes.NewReader(raw))
	dec.UseNumber()
	var doc any
	if err := dec.Decode(&doc); err != nil {
		panic(err)
	}
	for _, p := range paths {
		cur := doc
		for i, k := range p {
			last := i == len(p)-1
			switch x := cur.(type) {
			case map[string]any:
				if last {
					delete(x, k)
				} else {
					cur = x[k]
				}
			case []any:
				n, err := strconv.Atoi(k)
				if err != nil || n >= len(x) {
					cur = nil
				} else {
					cur = x[n]
				}
			default:
				cur = nil
			}
		}
	}
	out, err := json.Marshal(doc)
	if err != nil {
		panic(err)
	}
	return out
}

// unsetCoin returns the JSON paths to delete for an abstract coin at path.
func unsetCoin(name string, path ...string) [][]string {
	switch name {
	case "unset":
		return [][]string{path}
	case "nilamt":
		return [][]string{append(append([]string{}, path...), "amount")}
	}
	return nil
}

func unsetIf(name string, path ...string) [][]string {
	if name == "unset" {
		return [][]string{path}
	}
	return nil
}
