package main

import (
	"encoding/json"
	"math"
	"math/rand"
	"strings"

	tmbytes "github.com/cometbft/cometbft/libs/bytes"
	"github.com/cosmos/cosmos-sdk/codec"
	sdk "github.com/cosmos/cosmos-sdk/types"
	gogotypes "github.com/cosmos/gogoproto/types"

	"verif/harness/chain"

	servicetypes "mods.irisnet.org/modules/service/types"
	"mods.irisnet.org/simapp"
)

// service: Params{MaxRequestTimeout, MinDepositMultiple, MinDeposit, ServiceFeeTax,
// SlashFraction, ComplaintRetrospect, ArbitrationTimeLimit, TxSizeLimit, BaseDenom,
// RestrictedServiceFeeDenom}
//
//	abstract record: maxreq, mult (int64), mindep (coins), tax, slash (decimals),
//	complaint, arbitration (durations), txsize (uint64), denom (stake other bad empty),
//	restricted (bool)
type serviceDrv struct{}

const (
	svcSchemas = `{"input":{"type":"object"},"output":{"type":"object"}}`
	svcInput   = `{"header":{},"body":{}}`
	svcOutput  = `{"header":{},"body":{}}`
	svcResult  = `{"code":200,"message":""}`
)

var mindepNames = []string{"empty", "zero", "pos", "neg", "max", "baddenom", "nilamt", "other"}
var denomNames = []string{"stake", "other", "bad", "empty"}

func (serviceDrv) Name() string { return "service" }
func (serviceDrv) Accounts() map[string]string {
	return map[string]string{"u1": "1000000stake", "p1": "10000000stake,1000000btc", "c1": "1000000stake"}
}
func (serviceDrv) BaseGenesis(c *chain.Chain, gs simapp.GenesisState) {}
func (serviceDrv) Setup(e *env)                                       {}
func (serviceDrv) Base() chain.M {
	return chain.M{"maxreq": "dflt", "mult": "dflt", "mindep": "pos", "tax": "dflt", "slash": "dflt",
		"complaint": "dflt", "arbitration": "dflt", "txsize": "dflt", "denom": "stake", "restricted": false}
}

func (serviceDrv) Ops() []string {
	return []string{"sv_define", "sv_bind", "sv_call", "sv_respond",
		"sv_define2", "sv_bind2", "sv_update", "sv_call2", "sv_respond2", "sv_withdraw", "sv_call3", "sv_expire", "sv_disable", "sv_refund"}
}
func (serviceDrv) Mid() int { return 4 }

func mindepOf(name string) sdk.Coins {
	d := servicetypes.DefaultParams().MinDeposit[0]
	switch name {
	case "empty":
		return sdk.Coins{}
	case "other":
		return sdk.Coins{sdk.Coin{Denom: "btc", Amount: d.Amount}}
	}
	return sdk.Coins{coinOf(name, d)}
}

func mindepAbs(cs sdk.Coins) string {
	d := servicetypes.DefaultParams().MinDeposit[0]
	switch {
	case len(cs) == 0:
		return "empty"
	case len(cs) > 1:
		return "=" + cs.String()
	case cs[0].Denom == "btc" && !cs[0].Amount.IsNil() && cs[0].Amount.Equal(d.Amount):
		return "other"
	}
	return coinAbs(cs[0], d)
}

func denomOf(name string) string {
	switch name {
	case "stake":
		return "stake"
	case "other":
		return "btc"
	case "bad":
		return "1bad"
	}
	return ""
}

func denomAbs(s string) string {
	switch s {
	case "stake":
		return "stake"
	case "btc":
		return "other"
	case "1bad":
		return "bad"
	case "":
		return "empty"
	}
	return "=" + s
}

func (serviceDrv) concrete(p chain.M) servicetypes.Params {
	d := servicetypes.DefaultParams()
	return servicetypes.Params{
		MaxRequestTimeout:         i64Of(chain.Str(p, "maxreq"), d.MaxRequestTimeout),
		MinDepositMultiple:        i64Of(chain.Str(p, "mult"), d.MinDepositMultiple),
		MinDeposit:                mindepOf(chain.Str(p, "mindep")),
		ServiceFeeTax:             decOf(chain.Str(p, "tax"), d.ServiceFeeTax),
		SlashFraction:             decOf(chain.Str(p, "slash"), d.SlashFraction),
		ComplaintRetrospect:       durOf(chain.Str(p, "complaint"), d.ComplaintRetrospect),
		ArbitrationTimeLimit:      durOf(chain.Str(p, "arbitration"), d.ArbitrationTimeLimit),
		TxSizeLimit:               u64Of(chain.Str(p, "txsize"), d.TxSizeLimit, math.MaxUint64),
		BaseDenom:                 denomOf(chain.Str(p, "denom")),
		RestrictedServiceFeeDenom: chain.Bool(p, "restricted"),
	}
}

func (m serviceDrv) UpdateMsg(authority string, p chain.M) sdk.Msg {
	return &servicetypes.MsgUpdateParams{Authority: authority, Params: m.concrete(p)}
}
func (m serviceDrv) Validate(p chain.M) error { return m.concrete(p).Validate() }

func (serviceDrv) Stored(c *chain.Chain, ctx sdk.Context) (chain.M, []byte, bool) {
	ps := c.K.Service.GetParams(ctx)
	d := servicetypes.DefaultParams()
	a := chain.M{
		"maxreq": i64Abs(ps.MaxRequestTimeout, d.MaxRequestTimeout), "mult": i64Abs(ps.MinDepositMultiple, d.MinDepositMultiple),
		"mindep": mindepAbs(ps.MinDeposit), "tax": decAbs(ps.ServiceFeeTax, d.ServiceFeeTax), "slash": decAbs(ps.SlashFraction, d.SlashFraction),
		"complaint": durAbs(ps.ComplaintRetrospect, d.ComplaintRetrospect), "arbitration": durAbs(ps.ArbitrationTimeLimit, d.ArbitrationTimeLimit),
		"txsize": u64Abs(ps.TxSizeLimit, d.TxSizeLimit, math.MaxUint64), "denom": denomAbs(ps.BaseDenom), "restricted": ps.RestrictedServiceFeeDenom,
	}
	bz, _ := ps.Marshal()
	valid := false
	guard(func() { valid = ps.Validate() == nil })
	return a, bz, valid
}

func (m serviceDrv) SetGenesisParams(cdc codec.Codec, raw json.RawMessage, p chain.M, bare bool) json.RawMessage {
	var g servicetypes.GenesisState
	cdc.MustUnmarshalJSON(raw, &g)
	g.Params = m.concrete(p)
	var drop [][]string
	drop = append(drop, unsetIf(chain.Str(p, "tax"), "params", "service_fee_tax")...)
	drop = append(drop, unsetIf(chain.Str(p, "slash"), "params", "slash_fraction")...)
	drop = append(drop, unsetCoin(chain.Str(p, "mindep"), "params", "min_deposit", "0")...)
	return dropJSON(cdc.MustMarshalJSON(&g), drop)
}

func (serviceDrv) Random(rng *rand.Rand) chain.M {
	ints := []string{"neg", "zero", "one", "max"}
	return chain.M{
		"maxreq": pick(rng, "dflt", ints...), "mult": pick(rng, "dflt", ints...), "mindep": pick(rng, "pos", mindepNames...),
		"tax": pick(rng, "dflt", decNames...), "slash": pick(rng, "dflt", decNames...),
		"complaint": pick(rng, "dflt", ints...), "arbitration": pick(rng, "dflt", ints...),
		"txsize": pick(rng, "dflt", "zero", "one", "max"), "denom": pick(rng, "stake", denomNames...), "restricted": rng.Intn(4) == 0,
	}
}

// the first active request of provider p1 for the service
func (serviceDrv) activeRequest(e *env, svc string) string {
	ctx := e.c.Ctx()
	it := e.c.K.Service.ActiveRequestsIterator(ctx, svc, e.c.Accts["p1"].Addr)
	defer it.Close()
	for ; it.Valid(); it.Next() {
		var id gogotypes.BytesValue
		e.c.App.AppCodec().MustUnmarshal(it.Value(), &id)
		return tmbytes.HexBytes(id.Value).String()
	}
	return strings.Repeat("0", servicetypes.RequestIDLen)
}

func (m serviceDrv) RunOp(e *env, op string) opRes {
	u1, p1, c1 := e.addr("u1"), e.addr("p1"), e.addr("c1")
	stake := func(n int64) sdk.Coins { return sdk.NewCoins(sdk.NewInt64Coin("stake", n)) }
	define := func(name string) opRes {
		return e.tx("u1", &servicetypes.MsgDefineService{Name: name, Description: "d", Author: u1, AuthorDescription: "a", Schemas: svcSchemas})
	}
	bind := func(name string) opRes {
		return e.tx("p1", &servicetypes.MsgBindService{ServiceName: name, Provider: p1, Owner: p1, Deposit: stake(50_000),
			Pricing: `{"price":"10stake"}`, QoS: 1, Options: "{}"})
	}
	call := func() opRes {
		return e.tx("c1", &servicetypes.MsgCallService{ServiceName: "svc1", Providers: []string{p1}, Consumer: c1, Input: svcInput,
			ServiceFeeCap: stake(100), Timeout: 1})
	}
	respond := func() opRes {
		return e.tx("p1", &servicetypes.MsgRespondService{RequestId: m.activeRequest(e, "svc1"), Provider: p1, Result: svcResult, Output: svcOutput})
	}
	switch op {
	case "sv_define":
		return define("svc1")
	case "sv_define2":
		return define("svc2")
	case "sv_bind":
		return bind("svc1")
	case "sv_bind2":
		return bind("svc2")
	case "sv_update":
		return e.tx("p1", &servicetypes.MsgUpdateServiceBinding{ServiceName: "svc1", Provider: p1, Owner: p1, Deposit: stake(10),
			Pricing: `{"price":"20stake"}`, QoS: 1})
	case "sv_call", "sv_call2", "sv_call3":
		return call()
	case "sv_respond", "sv_respond2":
		return respond()
	case "sv_withdraw":
		return e.tx("p1", &servicetypes.MsgWithdrawEarnedFees{Owner: p1, Provider: p1})
	case "sv_expire": // the request of sv_call3 is never answered: the end blocker slashes and refunds
		return e.blocks(3)
	case "sv_disable":
		return e.tx("p1", &servicetypes.MsgDisableServiceBinding{ServiceName: "svc1", Provider: p1, Owner: p1})
	case "sv_refund":
		return e.tx("p1", &servicetypes.MsgRefundServiceDeposit{ServiceName: "svc1", Provider: p1, Owner: p1})
	}
	return opRes{log: "unknown op " + op}
}
