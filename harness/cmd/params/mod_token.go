package main

import (
	"encoding/json"
	"math/rand"

	"github.com/cosmos/cosmos-sdk/codec"
	sdk "github.com/cosmos/cosmos-sdk/types"

	"verif/harness/chain"

	tokentypes "mods.irisnet.org/modules/token/types"
	v1 "mods.irisnet.org/modules/token/types/v1"
	"mods.irisnet.org/simapp"
)

// token: Params{TokenTaxRate, IssueTokenBaseFee, MintTokenFeeRatio, EnableErc20, Beacon}
//
//	abstract record: tax, ratio (decimals), fee (coin), erc20 (bool), beacon (empty hex bad)
type tokenDrv struct{}

const (
	beaconHex = "0x0000000000000000000000000000000000000b0b"
	beaconBad = "not-hex"
)

func (tokenDrv) Name() string { return "token" }
func (tokenDrv) Accounts() map[string]string {
	return map[string]string{"u1": "100000000stake", "u2": "1000stake"}
}
func (tokenDrv) BaseGenesis(c *chain.Chain, gs simapp.GenesisState) {}
func (tokenDrv) Setup(e *env)                                       {}
func (tokenDrv) Base() chain.M {
	return chain.M{"tax": "dflt", "ratio": "dflt", "fee": "pos", "erc20": true, "beacon": "empty"}
}

func (tokenDrv) Ops() []string {
	return []string{"tk_issue", "tk_mint", "tk_issue2", "tk_mint2", "tk_edit", "tk_burn", "tk_deploy", "tk_toerc20", "tk_transfer", "tk_issue3"}
}
func (tokenDrv) Mid() int { return 2 }

func (tokenDrv) concrete(p chain.M) v1.Params {
	d := v1.DefaultParams()
	b := ""
	switch chain.Str(p, "beacon") {
	case "hex":
		b = beaconHex
	case "bad":
		b = beaconBad
	}
	return v1.Params{
		TokenTaxRate:      decOf(chain.Str(p, "tax"), d.TokenTaxRate),
		MintTokenFeeRatio: decOf(chain.Str(p, "ratio"), d.MintTokenFeeRatio),
		IssueTokenBaseFee: coinOf(chain.Str(p, "fee"), d.IssueTokenBaseFee),
		EnableErc20:       chain.Bool(p, "erc20"),
		Beacon:            b,
	}
}

func (m tokenDrv) UpdateMsg(authority string, p chain.M) sdk.Msg {
	return &v1.MsgUpdateParams{Authority: authority, Params: m.concrete(p)}
}
func (m tokenDrv) Validate(p chain.M) error { return m.concrete(p).Validate() }

func (tokenDrv) Stored(c *chain.Chain, ctx sdk.Context) (chain.M, []byte, bool) {
	ps := c.K.Token.GetParams(ctx)
	d := v1.DefaultParams()
	b := "=" + ps.Beacon
	switch ps.Beacon {
	case "":
		b = "empty"
	case beaconHex:
		b = "hex"
	case beaconBad:
		b = "bad"
	}
	a := chain.M{"tax": decAbs(ps.TokenTaxRate, d.TokenTaxRate), "ratio": decAbs(ps.MintTokenFeeRatio, d.MintTokenFeeRatio),
		"fee": coinAbs(ps.IssueTokenBaseFee, d.IssueTokenBaseFee), "erc20": ps.EnableErc20, "beacon": b}
	bz, _ := ps.Marshal()
	valid := false
	guard(func() { valid = ps.Validate() == nil })
	return a, bz, valid
}

func (m tokenDrv) SetGenesisParams(cdc codec.Codec, raw json.RawMessage, p chain.M, bare bool) json.RawMessage {
	var g v1.GenesisState
	cdc.MustUnmarshalJSON(raw, &g)
	g.Params = m.concrete(p)
	var drop [][]string
	drop = append(drop, unsetIf(chain.Str(p, "tax"), "params", "token_tax_rate")...)
	drop = append(drop, unsetIf(chain.Str(p, "ratio"), "params", "mint_token_fee_ratio")...)
	drop = append(drop, unsetCoin(chain.Str(p, "fee"), "params", "issue_token_base_fee")...)
	return dropJSON(cdc.MustMarshalJSON(&g), drop)
}

func (tokenDrv) Random(rng *rand.Rand) chain.M {
	return chain.M{"tax": pick(rng, "dflt", decNames...), "ratio": pick(rng, "dflt", decNames...),
		"fee": pick(rng, "pos", coinNames...), "erc20": rng.Intn(4) != 0, "beacon": pick(rng, "empty", "empty", "hex", "bad")}
}

func (tokenDrv) RunOp(e *env, op string) opRes {
	u1, u2 := e.addr("u1"), e.addr("u2")
	switch op {
	case "tk_issue":
		return e.tx("u1", &v1.MsgIssueToken{Symbol: "kitty", Name: "Kitty", Scale: 0, MinUnit: "kitty",
			InitialSupply: 1000, MaxSupply: 1_000_000, Mintable: true, Owner: u1})
	case "tk_issue2":
		return e.tx("u1", &v1.MsgIssueToken{Symbol: "doggy", Name: "Doggy", Scale: 6, MinUnit: "udoggy",
			InitialSupply: 1000, MaxSupply: 1_000_000, Mintable: true, Owner: u1})
	case "tk_issue3": // three-letter symbol: the fee factor is 1, the whole base fee is charged
		return e.tx("u1", &v1.MsgIssueToken{Symbol: "cat", Name: "Cat", Scale: 0, MinUnit: "cat",
			InitialSupply: 1000, MaxSupply: 1_000_000, Mintable: true, Owner: u1})
	case "tk_mint", "tk_mint2":
		return e.tx("u1", &v1.MsgMintToken{Coin: sdk.NewInt64Coin("kitty", 100), Receiver: u1, Owner: u1})
	case "tk_edit":
		return e.tx("u1", &v1.MsgEditToken{Symbol: "kitty", Name: "Kitty Cat", MaxSupply: 2_000_000, Mintable: tokentypes.True, Owner: u1})
	case "tk_burn":
		return e.tx("u1", &v1.MsgBurnToken{Coin: sdk.NewInt64Coin("kitty", 10), Sender: u1})
	case "tk_deploy": // authority message: deploys the ERC20 twin through the beacon parameter
		return e.authority(&v1.MsgDeployERC20{Symbol: "kitty", Name: "Kitty", Scale: 0, MinUnit: "kitty", Authority: chain.GovAuthority()})
	case "tk_toerc20":
		return e.tx("u1", &v1.MsgSwapToERC20{Amount: sdk.NewInt64Coin("kitty", 5), Sender: u1,
			Receiver: "0x00000000000000000000000000000000000000aa"})
	case "tk_transfer":
		return e.tx("u1", &v1.MsgTransferTokenOwner{SrcOwner: u1, DstOwner: u2, Symbol: "kitty"})
	}
	return opRes{log: "unknown op " + op}
}
