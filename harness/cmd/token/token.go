package main

import (
	"fmt"
	"math/big"
	"math/rand"
	"os"
	"reflect"
	"sort"
	"strings"
	"time"
	"unsafe"

	sdkmath "cosmossdk.io/math"
	storetypes "cosmossdk.io/store/types"
	sdk "github.com/cosmos/cosmos-sdk/types"
	authtypes "github.com/cosmos/cosmos-sdk/x/auth/types"
	gogotypes "github.com/cosmos/gogoproto/types"
	"github.com/ethereum/go-ethereum/common"
	ethtypes "github.com/ethereum/go-ethereum/core/types"
	"github.com/ethereum/go-ethereum/crypto"

	"verif/harness/chain"
	"verif/harness/drv"
	"verif/harness/evmledger"

	tokenkeeper "mods.irisnet.org/modules/token/keeper"
	tokentypes "mods.irisnet.org/modules/token/types"
	v1 "mods.irisnet.org/modules/token/types/v1"
	"mods.irisnet.org/simapp"
)

func main() { drv.Main("token", tokenDriver) }

// Model <-> chain mapping for Token.tla:
//
//	accounts   "u1".. users (+ the EVM quirk accounts evrevert, evshort, evnokey when
//	           quirks=1), "token" = token module account, "feepool" = fee collector +
//	           distribution account (a blocked address)
//	denoms     "stake" (fee denom = native token, scale 0) + the min-unit universe
//	ERC20      contracts are named "c<n>", n = nonce of the module account at creation
//	           + 1; holders are the users (their 20 address bytes) and "x1"
//	amounts    1:1 (all TLC-fed drivers use small numbers)
const (
	stake   = "stake"
	extName = "x1"
	beacon  = "0x00000000000000000000000000000000000000BE"
)

var extAddr = common.HexToAddress("0x00000000000000000000000000000000000A1100")

type tokEnv struct {
	c        *chain.Chain
	led      *evmledger.Ledger
	users    []string
	minUnits []string
	names    map[string]string // bech32 -> account name
	off      map[string]sdkmath.Int
	taxDen   int64
	mintDen  int64
	reg      chain.M
	modEth   common.Address
	last     chain.M
	perBlock int
	record   bool
	cfg      chain.M // effective driver configuration (recorded in the Init line)
	nsSwap   bool    // random issues may use the swap target's min unit as a symbol
	// owners every symbol has had, as OBSERVED on the chain (roles for negative probing)
	past map[string]map[string]bool
	// percentage of random events drawn by probeEvent (probe.go)
	probePct int
	// EXACT SCALING (magnitude tier, technique a): every quantity of the IBC denoms
	// — genesis balances, bank supply, the bound contract's ERC20 balances, the
	// amounts of SwapToERC20 / SwapFromERC20 / hook events — is K times the model's
	// and logged divided by K, so the unchanged Token.tla and every C10 clause judge
	// the real conversions at magnitude K.  A value that K does not divide is logged
	// floored and counted in `inexact` (clause C10_ScaleExact).
	k sdkmath.Int
}

// scaling factors: single amounts (1..20 model units), their sums and the supplies
// straddle 2^31, 2^32, 2^53, 2^63, 2^64 and 2^128; odd ones keep the low bits busy
var kScales = []string{
	"1", "1073741827" /* 2^30+3 */, "4503599627370497" /* 2^52+1 */, "2305843009213693953", /* 2^61+1 */
	"4611686018427387904" /* 2^62 */, "3074457345618258603" /* (2^63-1)/3 */, "6148914691236517205", /* 2^64/3 */
	"1000000000000000007" /* 10^18+7 */, "9223372036854775807" /* 2^63-1 */, "18446744073709551629", /* 2^64+13 */
	"79228162514264337593543950343" /* 2^96+7 */, "85070591730234615865843651857942052869" /* 2^126+5 */}

var kCounter int

func pickK(spec string) sdkmath.Int {
	if spec == "" {
		return sdkmath.OneInt()
	}
	if spec == "auto" {
		spec = kScales[kCounter%len(kScales)]
		kCounter++
	}
	k, ok := sdkmath.NewIntFromString(spec)
	if !ok || !k.IsPositive() {
		panic("bad kscale " + spec)
	}
	return k
}

func isIbc(d string) bool { return strings.HasPrefix(d, "ibc/") }

// plain coins that are no token's and can never be one (Token.tla OddFunded): when the
// driver cfg lists them among the tracked denoms every user gets `ibc` units of each
// (unscaled) — the upper-case twin of a min unit, a coin shaped like a liquidity share, a
// coin of the HTLC module's cross-chain kind
func isOddCoin(d string) bool { return d == "MAA" || d == "lpt-1" || d == "htltmaa" }

// real amount of `amt` model units of denom d
func (e *tokEnv) realAmt(d string, amt int64) sdkmath.Int {
	if isIbc(d) {
		return e.k.MulRaw(amt)
	}
	return sdkmath.NewInt(amt)
}

func newTokEnv(fl *drv.Flags) *tokEnv {
	e := &tokEnv{
		names:    map[string]string{},
		off:      map[string]sdkmath.Int{},
		past:     map[string]map[string]bool{},
		taxDen:   fl.CfgInt("taxden", 5),
		mintDen:  fl.CfgInt("mintden", 2),
		perBlock: int(fl.CfgInt("perblock", 2)),
		record:   os.Getenv("VERIF_RECORD_DIR") != "",
		nsSwap:   fl.CfgInt("nsswap", 1) == 1,
		probePct: int(fl.CfgInt("probe", 0)),
	}
	for i := int64(1); i <= fl.CfgInt("users", 3); i++ {
		e.users = append(e.users, fmt.Sprintf("u%d", i))
	}
	if fl.CfgInt("quirks", 0) == 1 {
		e.users = append(e.users, evmledger.QuirkRevert, evmledger.QuirkShort, evmledger.QuirkNoKey)
	}
	e.minUnits = strings.Split(fl.CfgStr("minunits", "maa:mbb"), ":")
	e.k = pickK(fl.CfgStr("kscale", ""))
	initStake := fl.CfgInt("stake", 9)
	baseFee := fl.CfgInt("basefee", 5)
	taxNum := fl.CfgInt("taxnum", 2)
	mintNum := fl.CfgInt("mintnum", 1)
	e.cfg = chain.M{"users": fmt.Sprint(fl.CfgInt("users", 3)), "quirks": fmt.Sprint(fl.CfgInt("quirks", 0)),
		"minunits": fl.CfgStr("minunits", "maa:mbb"), "stake": fmt.Sprint(initStake), "basefee": fmt.Sprint(baseFee),
		"taxnum": fmt.Sprint(taxNum), "taxden": fmt.Sprint(e.taxDen), "mintnum": fmt.Sprint(mintNum),
		"mintden": fmt.Sprint(e.mintDen), "regin": fl.CfgStr("regin", ""), "regout": fl.CfgStr("regout", ""),
		"regrn": fmt.Sprint(fl.CfgInt("regrn", 1)), "regrd": fmt.Sprint(fl.CfgInt("regrd", 1)),
		"nsswap": fmt.Sprint(fl.CfgInt("nsswap", 1)), "ibc": fmt.Sprint(fl.CfgInt("ibc", 0)), "kscale": e.k.String()}
	// everything else the driver was given (bundle, epilogue, perblock, ...) is part of the
	// effective configuration too: a history cut out of a trace is replayed under the
	// Init line's cfg, and chain.New reads the bundling percentage from chain.DriverCfg
	for k, v := range fl.Cfg {
		if _, ok := e.cfg[k]; !ok {
			e.cfg[k] = v
		}
	}
	chain.DriverCfg = e.cfgString()
	accts := map[string]string{}
	initIbc := fl.CfgInt("ibc", 0)
	for _, u := range e.users {
		accts[u] = fmt.Sprintf("%d%s", initStake, stake)
		for _, d := range e.minUnits {
			if isIbc(d) && initIbc > 0 {
				accts[u] += fmt.Sprintf(",%s%s", e.k.MulRaw(initIbc), d)
			}
			if isOddCoin(d) && initIbc > 0 {
				accts[u] += fmt.Sprintf(",%d%s", initIbc, d)
			}
		}
	}
	e.led = evmledger.New()
	e.c = chain.New(chain.Options{
		Accounts: accts,
		EVM:      e.led,
		ICS20:    e.led.ICS20(),
		MutateGenesis: func(c *chain.Chain, gs simapp.GenesisState) {
			cdc := c.App.AppCodec()
			var tg v1.GenesisState
			cdc.MustUnmarshalJSON(gs[tokentypes.ModuleName], &tg)
			tg.Params.TokenTaxRate = sdkmath.LegacyNewDec(taxNum).QuoInt64(e.taxDen)
			tg.Params.MintTokenFeeRatio = sdkmath.LegacyNewDec(mintNum).QuoInt64(e.mintDen)
			tg.Params.IssueTokenBaseFee = sdk.NewInt64Coin(stake, baseFee)
			tg.Params.EnableErc20 = true
			tg.Params.Beacon = beacon
			gs[tokentypes.ModuleName] = cdc.MustMarshalJSON(&tg)
		},
	})
	c := e.c
	e.led.BindApp(c.App) // idempotent; chain.New binds too
	for _, n := range e.users {
		e.names[c.Accts[n].Addr.String()] = n
	}
	e.names[chain.ModuleAddr(tokentypes.ModuleName).String()] = "token"
	e.names[chain.ModuleAddr(authtypes.FeeCollectorName).String()] = "feepool"
	e.modEth = common.BytesToAddress(chain.ModuleAddr(tokentypes.ModuleName).Bytes())

	// Swap registry.  The application never configures one (the keeper's registry
	// is an empty map created in NewKeeper); every copy of the keeper — the message
	// server's included — shares that map, so entries written into it here are seen
	// by the SwapFeeToken handler on the real ABCI path.  The field is unexported,
	// hence reflect + unsafe; /repo is not touched.
	e.reg = chain.M{}
	// (not while recording for the replica / genesis checks: the registry is process
	// state that a replica replaying the recorded inputs would not have)
	if in := fl.CfgStr("regin", ""); in != "" && !e.record {
		out := fl.CfgStr("regout", "")
		rn, rd := fl.CfgInt("regrn", 1), fl.CfgInt("regrd", 1)
		injectRegistry(&c.K.Token, in, v1.SwapParams{MinUnit: out, Ratio: sdkmath.LegacyNewDec(rn).QuoInt64(rd)})
		e.reg[in] = chain.M{"to": out, "rn": rn, "rd": rd}
	}
	ctx := c.Ctx()
	for _, d := range e.denoms() {
		sum := sdkmath.ZeroInt()
		for _, a := range e.accounts() {
			sum = sum.Add(e.balOf(ctx, a, d))
		}
		e.off[d] = c.Supply(ctx, d).Sub(sum)
	}
	c.Project = func(ctx sdk.Context) any { return e.project(ctx) }
	return e
}

func injectRegistry(k *tokenkeeper.Keeper, in string, p v1.SwapParams) {
	f := reflect.ValueOf(k).Elem().FieldByName("registry")
	m := *(*v1.SwapRegistry)(unsafe.Pointer(f.UnsafeAddr()))
	m[in] = p
}

func (e *tokEnv) denoms() []string { return append([]string{stake}, e.minUnits...) }
func (e *tokEnv) accounts() []string {
	return append(append([]string{}, e.users...), "token", "feepool")
}

func (e *tokEnv) balOf(ctx sdk.Context, a, d string) sdkmath.Int {
	switch a {
	case "token":
		return e.c.Bal(ctx, chain.ModuleAddr(tokentypes.ModuleName), d)
	case "feepool":
		return e.c.FeePool(ctx, d)
	}
	return e.c.Bal(ctx, e.c.Accts[a].Addr, d)
}

func (e *tokEnv) nameOf(bech string) string {
	if n, ok := e.names[bech]; ok {
		return n
	}
	return bech
}

// addrOf maps an account name of the model to a chain address (nil if unknown).
func (e *tokEnv) addrOf(name string) sdk.AccAddress {
	switch name {
	case "token":
		return chain.ModuleAddr(tokentypes.ModuleName)
	case "feepool":
		return chain.ModuleAddr(authtypes.FeeCollectorName)
	}
	if a, ok := e.c.Accts[name]; ok {
		return a.Addr
	}
	return nil
}

func (e *tokEnv) ethOf(name string) (common.Address, bool) {
	if name == extName {
		return extAddr, true
	}
	if a, ok := e.c.Accts[name]; ok && name != chain.ProbeName {
		return common.BytesToAddress(a.Addr.Bytes()), true
	}
	return common.Address{}, false
}

func (e *tokEnv) contractName(hexAddr string) string {
	if hexAddr == "" {
		return ""
	}
	a := common.HexToAddress(hexAddr)
	for n := uint64(0); n < 64; n++ {
		if crypto.CreateAddress(e.modEth, n) == a {
			return fmt.Sprintf("c%d", n+1)
		}
	}
	return hexAddr
}

// project reads the abstract state of Token.tla from the real stores.
func (e *tokEnv) project(ctx sdk.Context) any {
	c := e.c
	k := c.K.Token
	inexact := 0
	sm := func(i sdkmath.Int) int64 {
		v, ok := chain.Small(i)
		if !ok {
			inexact++
		}
		return v
	}
	smu := func(u uint64) int64 {
		if u > 1<<30 {
			inexact++
			return 1 << 30
		}
		return int64(u)
	}
	// quantities of the IBC denoms are K times the model's (exact scaling)
	smk := func(d string, i sdkmath.Int) int64 {
		if isIbc(d) {
			if !i.Mod(e.k).IsZero() {
				inexact++
			}
			i = i.Quo(e.k)
		}
		return sm(i)
	}
	denomOf := map[string]string{} // contract hex -> min unit
	tok := chain.M{}
	native := ""
	for _, ti := range k.GetTokens(ctx, nil) {
		t := ti.(*v1.Token)
		if t.Contract != "" {
			denomOf[common.HexToAddress(t.Contract).Hex()] = t.MinUnit
		}
		if t.Symbol == stake {
			native = e.contractName(t.Contract)
			continue
		}
		if !e.tracked(t.MinUnit) {
			// a token whose coin is outside the tracked denoms cannot be shown (the balance
			// sheet is a closed universe; the unchanged tree refuses every such issue the
			// drivers attempt): it is left out and counted, so that the step is reported as
			// not representable (Cnn_ScaleExact) and everything else is still judged
			inexact++
			continue
		}
		tok[t.Symbol] = chain.M{
			"minUnit": t.MinUnit, "scale": int64(t.Scale), "max": smu(t.MaxSupply), "mintable": t.Mintable,
			"owner": e.nameOf(t.Owner), "initial": smu(t.InitialSupply), "contract": e.contractName(t.Contract),
		}
	}
	store := ctx.KVStore(c.App.UnsafeFindStoreKey(tokentypes.StoreKey))
	byMin := chain.M{}
	it := storetypes.KVStorePrefixIterator(store, tokentypes.PrefixTokenForMinUint)
	for ; it.Valid(); it.Next() {
		mu := string(it.Key()[len(tokentypes.PrefixTokenForMinUint):])
		var sym gogotypes.StringValue
		c.App.AppCodec().MustUnmarshal(it.Value(), &sym)
		if mu == stake || !e.tracked(mu) {
			continue
		}
		byMin[mu] = sym.Value
	}
	it.Close()
	// the burned tally as the TotalBurn query answers it, cross-checked with the
	// per-denom getter (X09_BurnQuery)
	burned := chain.M{}
	qdiff := 0
	if resp, err := k.TotalBurn(ctx, &v1.QueryTotalBurnRequest{}); err == nil {
		for _, coin := range resp.BurnedCoins {
			burned[coin.Denom] = sm(coin.Amount)
			if one, err := k.GetBurnCoin(ctx, coin.Denom); err != nil || !one.Amount.Equal(coin.Amount) {
				qdiff++
			}
		}
	} else {
		qdiff++
	}
	for _, d := range e.denoms() {
		if one, err := k.GetBurnCoin(ctx, d); err == nil {
			if _, ok := burned[d]; !ok && one.Amount.IsPositive() {
				qdiff++
			}
		}
	}
	bal := chain.M{}
	for _, a := range e.accounts() {
		row := chain.M{}
		for _, d := range e.denoms() {
			row[d] = smk(d, e.balOf(ctx, a, d))
		}
		bal[a] = row
	}
	supply := chain.M{}
	for _, d := range e.denoms() {
		supply[d] = smk(d, c.Supply(ctx, d).Sub(e.off[d]))
	}
	p := k.GetParams(ctx)
	frac := func(d sdkmath.LegacyDec, den int64) int64 {
		x := d.MulInt64(den)
		if !x.IsInteger() {
			inexact++
		}
		return x.TruncateInt64()
	}
	params := chain.M{
		"taxNum": frac(p.TokenTaxRate, e.taxDen), "taxDen": e.taxDen,
		"mintNum": frac(p.MintTokenFeeRatio, e.mintDen), "mintDen": e.mintDen,
		"baseFee": sm(p.IssueTokenBaseFee.Amount), "erc20": p.EnableErc20, "beacon": len(p.Beacon) > 0,
	}
	if p.IssueTokenBaseFee.Denom != stake {
		inexact++
	}
	erc := chain.M{}
	balances := e.led.Balances(ctx)
	for _, ca := range e.led.Contracts(ctx) {
		row := chain.M{}
		known := map[common.Address]bool{}
		for _, n := range append(append([]string{}, e.users...), extName) {
			a, _ := e.ethOf(n)
			known[a] = true
			v := balances[ca][a]
			if v == nil {
				v = new(big.Int)
			}
			row[n] = smk(denomOf[ca.Hex()], sdkmath.NewIntFromBigInt(v))
		}
		for a := range balances[ca] {
			if !known[a] {
				inexact++
			}
		}
		erc[e.contractName(ca.Hex())] = row
	}
	// the chain's own fee quotes for symbol lengths 3..8 (the float formula is
	// tabulated in Token.tla; a change shows as drift)
	feeq := chain.M{}
	for n := 3; n <= 8; n++ {
		if fee, err := k.GetTokenIssueFee(ctx, strings.Repeat("a", n)); err == nil {
			feeq[fmt.Sprint(n)] = sm(fee.Amount)
		} else {
			feeq[fmt.Sprint(n)] = int64(-1)
		}
	}
	impl := ""
	if a, ok := e.led.Implementation(ctx, common.HexToAddress(beacon)); ok {
		impl = a.Hex()
		for _, n := range append(append([]string{}, e.users...), extName) {
			if x, _ := e.ethOf(n); x == a {
				impl = n
			}
		}
	}
	nonce := int64(0)
	if acc := c.App.AccountKeeper.GetAccount(ctx, chain.ModuleAddr(tokentypes.ModuleName)); acc != nil {
		nonce = int64(acc.GetSequence())
	}
	return chain.M{
		"tok": tok, "byMinUnit": byMin, "burned": burned, "bal": bal, "supply": supply, "params": params,
		"erc": erc, "nonce": nonce, "registry": e.reg, "inexact": int64(inexact),
		"native": native, "impl": impl, "feeq": feeq, "qdiff": int64(qdiff),
	}
}

// ---------------------------------------------------------------------------
// events

func tokEvent(name string) chain.M {
	return chain.M{"name": name, "who": "", "sym": "", "mu": "", "scale": int64(0), "initial": int64(0),
		"max": int64(0), "mintable": "", "to": "", "amt": int64(0), "fee": int64(0),
		"rn": int64(0), "rd": int64(0), "sin": int64(0), "sout": int64(0), "p": chain.M{},
		"ok": true, "panic": false, "burn": int64(0), "mint": int64(0)}
}

// norm brings an event read from JSON into the fixed record shape.
func norm(ev chain.M) chain.M {
	o := tokEvent(chain.Str(ev, "name"))
	for _, k := range []string{"who", "sym", "mu", "mintable", "to"} {
		o[k] = chain.Str(ev, k)
	}
	for _, k := range []string{"scale", "initial", "max", "amt", "fee", "rn", "rd", "sin", "sout"} {
		o[k] = chain.Num(ev, k)
	}
	p := chain.M{}
	if m, ok := ev["p"].(map[string]any); ok {
		for k, v := range m {
			switch x := v.(type) {
			case float64:
				p[k] = int64(x)
			default:
				p[k] = x
			}
		}
	}
	o["p"] = p
	return o
}

func (e *tokEnv) coin(denom string, amt int64) sdk.Coin {
	return sdk.Coin{Denom: denom, Amount: e.realAmt(denom, amt)}
}

// msgOf maps an abstract event to a signed-transaction message; nil for events
// that are not user transactions.
func (e *tokEnv) msgOf(ev chain.M) sdk.Msg {
	who := chain.Str(ev, "who")
	var addr string
	if a := e.addrOf(who); a != nil {
		addr = a.String()
	}
	bech := func(name string) string {
		if name == "" {
			return ""
		}
		if a := e.addrOf(name); a != nil {
			return a.String()
		}
		return name
	}
	switch chain.Str(ev, "name") {
	case "Issue":
		return &v1.MsgIssueToken{Symbol: chain.Str(ev, "sym"), Name: "n", Scale: uint32(chain.Num(ev, "scale")),
			MinUnit: chain.Str(ev, "mu"), InitialSupply: uint64(chain.Num(ev, "initial")),
			MaxSupply: uint64(chain.Num(ev, "max")), Mintable: chain.Str(ev, "mintable") == "true", Owner: addr}
	case "Edit":
		return &v1.MsgEditToken{Symbol: chain.Str(ev, "sym"), Name: v1.DoNotModify, MaxSupply: uint64(chain.Num(ev, "max")),
			Mintable: tokentypes.Bool(chain.Str(ev, "mintable")), Owner: addr}
	case "TransferOwner":
		return &v1.MsgTransferTokenOwner{SrcOwner: addr, DstOwner: bech(chain.Str(ev, "to")), Symbol: chain.Str(ev, "sym")}
	case "Mint":
		return &v1.MsgMintToken{Coin: e.coin(chain.Str(ev, "mu"), chain.Num(ev, "amt")), Receiver: bech(chain.Str(ev, "to")), Owner: addr}
	case "Burn":
		return &v1.MsgBurnToken{Coin: e.coin(chain.Str(ev, "mu"), chain.Num(ev, "amt")), Sender: addr}
	case "SwapFee":
		return &v1.MsgSwapFeeToken{FeePaid: e.coin(chain.Str(ev, "mu"), chain.Num(ev, "amt")), Receiver: bech(chain.Str(ev, "to")), Sender: addr}
	case "ToERC20":
		recv := chain.Str(ev, "to")
		if a, ok := e.ethOf(recv); ok {
			recv = a.Hex()
		}
		return &v1.MsgSwapToERC20{Amount: e.coin(chain.Str(ev, "mu"), chain.Num(ev, "amt")), Sender: addr, Receiver: recv}
	case "FromERC20":
		return &v1.MsgSwapFromERC20{WantedAmount: e.coin(chain.Str(ev, "mu"), chain.Num(ev, "amt")), Sender: addr, Receiver: bech(chain.Str(ev, "to"))}
	}
	return nil
}

func isBetweenBlocks(name string) bool {
	return name == "Deploy" || name == "SetParams" || name == "Hook" || name == "LossLess" || name == "Upgrade"
}

// feeQuote asks the chain's own fee functions before the message (the fee
// amount formula uses floats and is not modelled; DESIGN 8 C09).
func (e *tokEnv) feeQuote(ev chain.M, symOf map[string]string) (fee int64) {
	defer func() {
		if r := recover(); r != nil { // (a one-letter name: the fee factor is 0)
			fee = 0
		}
	}()
	ctx := e.c.Ctx()
	k := e.c.K.Token
	switch chain.Str(ev, "name") {
	case "Issue":
		sym := chain.Str(ev, "sym")
		if sym == "" {
			return 0
		}
		fee, err := k.GetTokenIssueFee(ctx, sym)
		if err != nil {
			return 0
		}
		v, _ := chain.Small(fee.Amount)
		return v
	case "Mint":
		sym, ok := symOf[chain.Str(ev, "mu")]
		if !ok {
			return 0
		}
		fee, err := k.GetTokenMintFee(ctx, sym)
		if err != nil {
			return 0
		}
		v, _ := chain.Small(fee.Amount)
		return v
	}
	return 0
}

// symbols known for each min unit: committed tokens, then (first binding wins)
// the issues pending in the current block
func (e *tokEnv) symOf(pending []chain.M) map[string]string {
	out := map[string]string{stake: stake}
	for mu, s := range sub(e.last, "byMinUnit") {
		if sy, ok := s.(string); ok {
			out[mu] = sy
		}
	}
	for _, ev := range pending {
		if chain.Str(ev, "name") == "Issue" {
			if _, ok := out[chain.Str(ev, "mu")]; !ok {
				out[chain.Str(ev, "mu")] = chain.Str(ev, "sym")
			}
		}
	}
	return out
}

// runBlock executes the pending message events as one block, one trace line each.
func (e *tokEnv) runBlock(pending []chain.M, w *chain.TraceWriter) {
	if len(pending) == 0 {
		return
	}
	var txs []chain.Tx
	for i, ev := range pending {
		name := chain.Str(ev, "name")
		if name == "Issue" || name == "Mint" {
			ev["fee"] = e.feeQuote(ev, e.symOf(pending[:i]))
		}
		who := chain.Str(ev, "who")
		if _, ok := e.c.Accts[who]; !ok {
			who = e.users[0]
		}
		txs = append(txs, chain.Tx{Signer: who, Msgs: []sdk.Msg{e.msgOf(ev)}})
	}
	res := e.c.RunBlock(5*time.Second, txs)
	if res.Halt {
		panic("token: block halted: " + res.HaltMsg)
	}
	for i, ev := range pending {
		r := res.Txs[i]
		if r.Aborted {
			// member of a multi-message transaction that failed as a whole (chain.BundlePct):
			// whatever it did was rolled back; the specification knows no such event and
			// treats it as a rejection without effect
			ev["_orig"], ev["name"] = ev["name"], "TxFailed"
		}
		ev["ok"] = r.OK
		ev["panic"] = r.Panic
		if chain.Str(ev, "name") == "SwapFee" && r.OK {
			ev["burn"], ev["mint"] = swapFeeResult(r)
		}
		st := r.State
		if st == nil {
			st = res.BeginState
		}
		if st == nil {
			st = e.last
		}
		w.Write(ev, st)
		e.setLast(st)
	}
	// the committed state must equal the state after the last transaction (the
	// token module has no block handlers; the fee pool is tracked as a sum)
	e.setLast(res.EndState)
}

func swapFeeResult(r chain.TxResult) (burn, mint int64) {
	if len(r.MsgResps) > 0 {
		var resp v1.MsgSwapFeeTokenResponse
		if err := resp.Unmarshal(r.MsgResps[0].Value); err == nil {
			mint, _ = chain.Small(resp.FeeGot.Amount)
		}
	}
	for _, evt := range r.Events {
		if evt.Type != tokentypes.EventTypeSwapFeeToken {
			continue
		}
		for _, a := range evt.Attributes {
			if a.Key == tokentypes.AttributeKeyFeePaid {
				if c, err := sdk.ParseCoinNormalized(a.Value); err == nil {
					burn, _ = chain.Small(c.Amount)
				}
			}
		}
	}
	return
}

// between-block events: authority messages, the EVM hook, the pure function
func (e *tokEnv) runBetween(ev chain.M, w *chain.TraceWriter) {
	c := e.c
	switch chain.Str(ev, "name") {
	case "Deploy":
		// ev.to = evrevert: the contract is NAMED evrevert, whose creation the harness EVM reverts
		ok, pan, _ := c.Authority(&v1.MsgDeployERC20{Symbol: orDefault(chain.Str(ev, "sym"), "zzz"), Name: orDefault(chain.Str(ev, "to"), "n"),
			Scale: uint32(chain.Num(ev, "scale")), MinUnit: chain.Str(ev, "mu"), Authority: chain.GovAuthority()})
		ev["ok"], ev["panic"] = ok, pan
	case "Upgrade":
		impl := chain.Str(ev, "to")
		if a, ok := e.ethOf(impl); ok {
			impl = a.Hex()
		}
		ok, pan, _ := c.Authority(&v1.MsgUpgradeERC20{Implementation: impl, Authority: chain.GovAuthority()})
		ev["ok"], ev["panic"] = ok, pan
	case "SetParams":
		p := sub(ev, "p")
		num := func(k string) int64 { return chain.Num(p, k) }
		if num("taxDen") != e.taxDen || num("mintDen") != e.mintDen {
			// the projection reports the rates over fixed denominators
			e.taxDen, e.mintDen = num("taxDen"), num("mintDen")
		}
		params := v1.Params{
			TokenTaxRate:      sdkmath.LegacyNewDec(num("taxNum")).QuoInt64(num("taxDen")),
			MintTokenFeeRatio: sdkmath.LegacyNewDec(num("mintNum")).QuoInt64(num("mintDen")),
			IssueTokenBaseFee: sdk.NewInt64Coin(stake, num("baseFee")),
			EnableErc20:       chain.Bool(p, "erc20"),
		}
		if chain.Bool(p, "beacon") {
			params.Beacon = beacon
		}
		ok, pan, _ := c.Authority(&v1.MsgUpdateParams{Authority: chain.GovAuthority(), Params: params})
		ev["ok"], ev["panic"] = ok, pan
	case "Hook":
		if e.record {
			return // not a transaction: cannot be part of a recording
		}
		ok, pan := e.hook(ev)
		ev["ok"], ev["panic"] = ok, pan
	case "LossLess":
		burn, mint, ok := lossLess(ev)
		ev["ok"], ev["burn"], ev["mint"] = ok, burn, mint
		w.Write(ev, e.last)
		return
	}
	e.setLast(e.project(c.Ctx()))
	w.Write(ev, e.last)
}

func orDefault(s, d string) string {
	if s == "" {
		return d
	}
	return s
}

// hook: a holder calls swapToNative on the bound contract (harness EVM), the
// EVM module would then call the token keeper's PostTxProcessing hook with the
// receipt; an error reverts the whole Ethereum transaction.
func (e *tokEnv) hook(ev chain.M) (ok, panicked bool) {
	c := e.c
	if v := chain.Str(ev, "sym"); v != "" {
		return e.hookForged(ev, v)
	}
	from, known := e.ethOf(chain.Str(ev, "who"))
	if !known {
		return false, false
	}
	// the token whose MIN UNIT is ev.mu (GetToken would try the name as a symbol first)
	var contract string
	for _, t := range c.K.Token.GetTokens(c.Ctx(), nil) {
		if t.GetMinUnit() == chain.Str(ev, "mu") {
			contract = t.GetContract()
		}
	}
	if contract == "" {
		return false, false
	}
	to := chain.Str(ev, "to") // a name that is no account's goes into the event as it is (no bech32 address)
	if a := e.addrOf(to); a != nil {
		to = a.String()
	}
	ctx, write := c.Ctx().CacheContext()
	defer func() {
		if r := recover(); r != nil {
			ok, panicked = false, true
		}
	}()
	msg, err := evmledger.SwapToNativeCall(from, common.HexToAddress(contract), to, e.realAmt(chain.Str(ev, "mu"), chain.Num(ev, "amt")).BigInt())
	if err != nil {
		return false, false
	}
	res, err := e.led.ApplyMessage(ctx, msg, nil, true)
	if err != nil || res.Failed() {
		return false, false
	}
	receipt := &ethtypes.Receipt{Logs: res.Logs}
	if err := c.K.Token.Hooks().PostTxProcessing(ctx, msg, receipt); err != nil {
		return false, false
	}
	write()
	return true, false
}

var foreignContract = common.HexToAddress("0x00000000000000000000000000000000000F0E16")

// hookForged runs the keeper's hook on a receipt no bound contract's
// swapToNative produced (variants: see Token.tla DoHookForged).
func (e *tokEnv) hookForged(ev chain.M, variant string) (ok, panicked bool) {
	c := e.c
	bound := foreignContract
	for _, t := range c.K.Token.GetTokens(c.Ctx(), nil) {
		if t.GetMinUnit() == chain.Str(ev, "mu") && t.GetContract() != "" {
			bound = common.HexToAddress(t.GetContract())
		}
	}
	from, _ := e.ethOf(extName)
	to := e.c.Accts[e.users[0]].Addr.String()
	addr := bound
	if variant == "unbound" {
		addr = foreignContract
	}
	amount := big.NewInt(1)
	switch variant {
	case "badto":
		to = "notbech32"
	case "emptyto":
		to = ""
	case "zeroamt":
		amount = big.NewInt(0)
	}
	lg, err := evmledger.ForgedLog(addr, from, to, amount)
	if err != nil {
		return false, false
	}
	switch variant {
	case "topics2":
		lg.Topics = append(lg.Topics, common.Hash{1})
	case "otherevent":
		lg.Topics = []common.Hash{{0xAB, 0xCD}}
	case "baddata":
		lg.Data = lg.Data[:40]
	}
	ctx, write := c.Ctx().CacheContext()
	defer func() {
		if r := recover(); r != nil {
			ok, panicked = false, true
		}
	}()
	msg, _ := evmledger.SwapToNativeCall(from, addr, to, big.NewInt(1))
	if err := c.K.Token.Hooks().PostTxProcessing(ctx, msg, &ethtypes.Receipt{Logs: []*ethtypes.Log{lg}}); err != nil {
		return false, false
	}
	write()
	return true, false
}

// lossLess calls the real types.LossLessSwap on one row.
func lossLess(ev chain.M) (burn, mint int64, ok bool) {
	defer func() {
		if r := recover(); r != nil {
			burn, mint, ok = 0, 0, false
		}
	}()
	ratio := sdkmath.LegacyNewDec(chain.Num(ev, "rn")).QuoInt64(chain.Num(ev, "rd"))
	b, m := tokentypes.LossLessSwap(sdkmath.NewInt(chain.Num(ev, "amt")), ratio,
		uint32(chain.Num(ev, "sin")), uint32(chain.Num(ev, "sout")))
	bv, ok1 := chain.Small(b)
	mv, ok2 := chain.Small(m)
	if !ok1 || !ok2 {
		panic(fmt.Sprintf("LossLessSwap result out of range: %s %s", b, m))
	}
	return bv, mv, true
}

// rowFits mirrors TokenMath!RowFits: the row can be evaluated by TLC.
func rowFits(input, rn, rd, sIn, sOut int64) bool {
	kr := int64(99)
	for k, p := int64(0), int64(1); k <= 3; k, p = k+1, p*10 {
		if p%rd == 0 {
			kr = k
			break
		}
	}
	sf := sIn - sOut
	if sf < 0 {
		sf = -sf
	}
	if rn <= 0 || rd <= 0 || input < 0 || kr > 3 || kr+sf > 7 {
		return false
	}
	pow := func(n int64) int64 {
		p := int64(1)
		for ; n > 0; n-- {
			p *= 10
		}
		return p
	}
	up := int64(1)
	if sOut > sIn {
		up = pow(sOut - sIn)
	}
	big := rn
	if rd > big {
		big = rd
	}
	unit := up * pow(kr+sf)
	return unit <= 200000000 && big <= 2000000000/unit && input <= 2000000000/(unit*big)
}

// mathOnly: a behaviour that only calls the pure function needs no chain.
func mathOnly(beh []chain.M) bool {
	for _, ev := range beh {
		if n := chain.Str(ev, "name"); n != "LossLess" && n != "Skip" {
			return false
		}
	}
	return true
}

var emptyState = chain.M{
	"tok": chain.M{}, "byMinUnit": chain.M{}, "burned": chain.M{},
	"bal":    chain.M{"token": chain.M{stake: int64(0)}, "feepool": chain.M{stake: int64(0)}},
	"supply": chain.M{stake: int64(0)},
	"params": chain.M{"taxNum": int64(0), "taxDen": int64(1), "mintNum": int64(0), "mintDen": int64(1),
		"baseFee": int64(0), "erc20": true, "beacon": true},
	"erc": chain.M{}, "nonce": int64(0), "registry": chain.M{}, "inexact": int64(0),
	"native": "", "impl": "", "qdiff": int64(0),
	"feeq": chain.M{"3": int64(1), "4": int64(1), "5": int64(1), "6": int64(1), "7": int64(1), "8": int64(1)},
}

func tokRun(fl *drv.Flags, beh []chain.M, w *chain.TraceWriter) {
	if mathOnly(beh) {
		w.Write(tokEvent("Init"), emptyState)
		for _, raw := range beh {
			ev := norm(raw)
			if chain.Str(ev, "name") != "LossLess" {
				continue
			}
			burn, mint, ok := lossLess(ev)
			ev["ok"], ev["burn"], ev["mint"] = ok, burn, mint
			w.Write(ev, emptyState)
		}
		return
	}
	e := newTokEnv(fl)
	e.start(w)
	e.exec(beh, w)
	if fl.CfgInt("epilogue", 1) == 1 && !e.record {
		e.epilogue(w)
	}
}

// start writes the Init line.  The line records the effective driver
// configuration (chain.DriverCfg), so that a violating prefix cut out of any
// trace — random histories draw their own configuration — is replayed on an
// identically configured chain.
func (e *tokEnv) start(w *chain.TraceWriter) {
	chain.DriverCfg = e.cfgString()
	e.setLast(e.project(e.c.Ctx()))
	w.Write(tokEvent("Init"), e.last)
}

func (e *tokEnv) cfgString() string {
	var kv []string
	for _, k := range chain.SortedKeys(e.cfg) {
		kv = append(kv, fmt.Sprintf("%s=%v", k, e.cfg[k]))
	}
	return strings.Join(kv, ",")
}

// setLast records the last OBSERVED state (everything the random driver and the
// epilogue decide is read from it) and the owners seen so far.
func (e *tokEnv) setLast(st any) {
	m, ok := st.(chain.M)
	if !ok {
		return
	}
	e.last = m
	for sym, t := range sub(m, "tok") {
		if tm, ok := t.(chain.M); ok {
			if e.past[sym] == nil {
				e.past[sym] = map[string]bool{}
			}
			e.past[sym][chain.Str(tm, "owner")] = true
		}
	}
}

// sub reads a nested object of a projected state leniently (a broken tree may
// produce states a driver did not expect; it must not die on them).
func sub(m chain.M, k string) chain.M {
	if v, ok := m[k].(chain.M); ok {
		return v
	}
	return chain.M{}
}

// exec runs events: user messages are grouped perBlock to a block; authority
// messages, hook calls and pure-function rows run between blocks.
func (e *tokEnv) exec(beh []chain.M, w *chain.TraceWriter) {
	var pending []chain.M
	for _, raw := range beh {
		ev := norm(raw)
		name := chain.Str(ev, "name")
		if name == "EndBlock" {
			e.runBlock(pending, w)
			pending = nil
			continue
		}
		if isBetweenBlocks(name) {
			e.runBlock(pending, w)
			pending = nil
			e.runBetween(ev, w)
			continue
		}
		if e.msgOf(ev) == nil {
			continue
		}
		pending = append(pending, ev)
		if len(pending) >= e.perBlock {
			e.runBlock(pending, w)
			pending = nil
		}
	}
	e.runBlock(pending, w)
}

func tokenDriver(mode string, fl *drv.Flags) error {
	w := chain.NewTraceWriter(fl.Out)
	defer w.Close()
	kCounter = int(fl.Seed) // kscale=auto cycles through kScales from a seed-dependent start
	switch mode {
	case "replay":
		for _, beh := range chain.ReadBehaviours(fl.In) {
			tokRun(fl, beh, w)
		}
	case "random":
		rng := rand.New(rand.NewSource(fl.Seed))
		for i := 0; i < fl.N; i++ {
			tokRandom(fl, rng, w)
		}
	default:
		return fmt.Errorf("unknown mode %q", mode)
	}
	return nil
}

// ---------------------------------------------------------------------------
// random histories

var symbolPool = []string{"aaa", "bbb", "ccc", "dddd", "eeeee", "ffffff"}

type ratio struct{ n, d int64 }

var ratioPool = []ratio{{1, 1}, {1, 2}, {3, 2}, {2, 1}, {10, 1}, {3, 10}, {33, 100}, {5, 4}, {7, 10}, {1, 4}, {21, 20}}

func pick[T any](rng *rand.Rand, xs []T) T { return xs[rng.Intn(len(xs))] }

func pow10(n int64) int64 {
	p := int64(1)
	for ; n > 0; n-- {
		p *= 10
	}
	return p
}

// tokRandom runs one random history.  Events are drawn from the last observed
// state so that most are enabled; bounds are probed at the values the code itself
// compares with (cap - supply, floor(supply / 10^scale), balances) +- 1.
func tokRandom(fl *drv.Flags, rng *rand.Rand, w *chain.TraceWriter) {
	// per-history configuration
	r := pick(rng, ratioPool)
	cfg := map[string]string{}
	for k, v := range fl.Cfg {
		cfg[k] = v
	}
	set := func(k, v string) {
		if _, ok := cfg[k]; !ok {
			cfg[k] = v
		}
	}
	set("users", "3")
	set("quirks", "1")
	// (MAA: a plain coin every user holds that is no token's — the upper-case twin of a min
	// unit; name64: a min unit at the length limit)
	set("minunits", "maa:mbb:mcc:ibc/x1:MAA:htltmaa:"+name64)
	set("ibc", "20")
	set("kscale", "auto")
	set("stake", "400")
	set("basefee", pick(rng, []string{"60", "7", "100", "1"}))
	td := pick(rng, []int64{5, 10, 100, 4})
	set("taxden", fmt.Sprint(td))
	set("taxnum", fmt.Sprint(rng.Int63n(td+1)))
	md := pick(rng, []int64{2, 10, 100})
	set("mintden", fmt.Sprint(md))
	set("mintnum", fmt.Sprint(rng.Int63n(md+1)))
	set("regin", "maa")
	set("regout", "mbb")
	set("regrn", fmt.Sprint(r.n))
	set("regrd", fmt.Sprint(r.d))
	set("probe", "25")
	fl2 := &drv.Flags{Cfg: cfg}
	e := newTokEnv(fl2)
	e.start(w)

	normal := []string{"u1", "u2", "u3"}
	for b := 0; b < fl.Len; b++ {
		var evs []chain.M
		n := 1 + rng.Intn(3)
		for j := 0; j < n; j++ {
			if ev := e.randomEvent(rng, normal); ev != nil {
				evs = append(evs, ev)
			}
		}
		e.perBlock = 1 + rng.Intn(3)
		e.exec(evs, w)
	}
	if fl2.CfgInt("epilogue", 1) == 1 && !e.record {
		e.epilogue(w)
	}
}

// crossNames: min-unit names usable as symbols.  The swap registry's target min
// unit is left out unless nsswap=1: a token whose SYMBOL equals it makes
// calcFeeTokenMinted take that token's scale (finding F27, C10).
func (e *tokEnv) crossNames() []string {
	var out []string
	for _, m := range e.minUnits {
		if reg, ok := e.reg["maa"].(chain.M); ok && reg["to"] == m && !e.nsSwap {
			continue
		}
		out = append(out, m)
	}
	return out
}

func (e *tokEnv) randomEvent(rng *rand.Rand, normal []string) chain.M {
	st := e.last
	tok := sub(st, "tok")
	syms := chain.SortedKeys(tok)
	bal := sub(st, "bal")
	supply := sub(st, "supply")
	erc := sub(st, "erc")
	// negative probing: every message type on every token, by every role, with
	// identifiers of the wrong kind, amounts at 0 / 1 / the bounds, odd receivers
	if rng.Intn(100) < e.probePct {
		if ev := e.probeEvent(rng); ev != nil {
			return ev
		}
	}
	anyUser := func() string {
		if rng.Intn(6) == 0 {
			return pick(rng, e.users)
		}
		return pick(rng, normal)
	}
	tokenOf := func() (string, chain.M) {
		if len(syms) == 0 {
			return "", nil
		}
		s := pick(rng, syms)
		return s, sub(tok, s)
	}
	ownerOr := func(t chain.M, pOwner int) string {
		if rng.Intn(100) < pOwner {
			if o := chain.Str(t, "owner"); e.addrOf(o) != nil && o != "token" && o != "feepool" {
				return o
			}
		}
		return anyUser()
	}
	muPool := func() string {
		if rng.Intn(8) == 0 {
			return pick(rng, append([]string{stake, "nope"}, e.minUnits...))
		}
		if _, t := tokenOf(); t != nil {
			return chain.Str(t, "minUnit")
		}
		return pick(rng, e.minUnits)
	}
	near := func(v int64) int64 {
		x := v + int64(rng.Intn(3)) - 1
		if x < 0 {
			x = 0
		}
		return x
	}
	// a name that is the symbol of token A and the min unit of another token B:
	// A's owner acts on the coin (resolved by min unit -> B), B's owner acts on the
	// symbol (resolved by symbol -> A)
	byMin := sub(st, "byMinUnit")
	var shared []string
	for _, sname := range syms {
		if other, ok := byMin[sname].(string); ok && other != sname {
			shared = append(shared, sname)
		}
	}
	if len(shared) > 0 && rng.Intn(6) == 0 {
		name := pick(rng, shared)
		a := sub(tok, name)                   // symbol = name
		b := sub(tok, chain.Str(byMin, name)) // min unit = name
		// signers must be user accounts (a token may be owned by the module account)
		aOwner, bOwner := ownerOr(a, 100), ownerOr(b, 100)
		switch rng.Intn(5) {
		case 0, 1:
			ev := tokEvent("Mint")
			ev["who"], ev["mu"], ev["amt"] = aOwner, name, int64(1+rng.Intn(5))
			if rng.Intn(3) == 0 {
				ev["who"] = bOwner
			}
			return ev
		case 2:
			ev := tokEvent("Burn")
			ev["who"], ev["mu"], ev["amt"] = pick(rng, []string{aOwner, bOwner}), name, int64(1+rng.Intn(3))
			return ev
		case 3:
			ev := tokEvent("Edit")
			ev["who"], ev["sym"] = pick(rng, []string{aOwner, bOwner}), name
			ev["max"] = int64(rng.Intn(12))
			ev["mintable"] = pick(rng, []string{"", "true", "false"})
			return ev
		default:
			ev := tokEvent("TransferOwner")
			ev["who"], ev["sym"] = pick(rng, []string{aOwner, bOwner}), name
			ev["to"] = pick(rng, normal)
			return ev
		}
	}
	x := rng.Intn(100)
	switch {
	case x < 12 || len(syms) == 0:
		if len(syms) >= len(e.minUnits) && rng.Intn(3) > 0 {
			return nil
		}
		ev := tokEvent("Issue")
		ev["who"] = pick(rng, normal)
		ev["sym"] = pick(rng, symbolPool)
		ev["mu"] = pick(rng, e.minUnits)
		// symbols and min units are separate key spaces: every third issue uses a
		// min-unit name as the SYMBOL, so that one name denotes two tokens and every
		// handler's lookup (by symbol / by min unit) is put to the test
		if rng.Intn(3) == 0 {
			if pool := e.crossNames(); len(pool) > 0 {
				ev["sym"] = pick(rng, pool)
			}
		}
		if rng.Intn(10) == 0 {
			ev["mu"] = stake
		}
		sc := int64(rng.Intn(3))
		ev["scale"] = sc
		ini := int64(rng.Intn(13))
		ev["initial"] = ini
		ev["mintable"] = pick(rng, []string{"true", "true", "false"})
		mx := ini + int64(rng.Intn(12))
		if rng.Intn(8) == 0 {
			mx = near(ini)
		}
		if mx == 0 && ev["mintable"] == "true" {
			mx = 1 // max 0 + mintable means MaxUint64: not representable
		}
		ev["max"] = mx
		return ev
	case x < 24:
		s, t := tokenOf()
		ev := tokEvent("Edit")
		ev["who"] = ownerOr(t, 80)
		ev["sym"] = s
		sup := chain.Num(supply, chain.Str(t, "minUnit"))
		p := pow10(chain.Num(t, "scale"))
		switch rng.Intn(5) {
		case 0:
			ev["max"] = int64(0)
		case 1:
			ev["max"] = sup / p // the value the code compares with
		case 2:
			ev["max"] = near(sup / p)
		case 3:
			ev["max"] = (sup + p - 1) / p
		default:
			ev["max"] = sup/p + int64(rng.Intn(10))
		}
		ev["mintable"] = pick(rng, []string{"", "", "true", "false"})
		return ev
	case x < 42:
		_, t := tokenOf()
		ev := tokEvent("Mint")
		ev["who"] = ownerOr(t, 85)
		mu := chain.Str(t, "minUnit")
		ev["mu"] = mu
		room := chain.Num(t, "max")*pow10(chain.Num(t, "scale")) - chain.Num(supply, mu)
		switch rng.Intn(5) {
		case 0:
			ev["amt"] = near(room)
		case 1:
			ev["amt"] = room
		case 2:
			ev["amt"] = room + 1
		default:
			if room > 1 {
				ev["amt"] = 1 + rng.Int63n(room)
			} else {
				ev["amt"] = int64(1 + rng.Intn(5))
			}
		}
		if chain.Num(ev, "amt") > 1<<28 || chain.Num(ev, "amt") <= 0 {
			ev["amt"] = int64(1 + rng.Intn(50))
		}
		ev["to"] = pick(rng, []string{"", "", "u1", "u2", "u3", "feepool", evmledger.QuirkShort})
		return ev
	case x < 56:
		ev := tokEvent("Burn")
		who := anyUser()
		mu := muPool()
		ev["who"], ev["mu"] = who, mu
		have := int64(0)
		if row, ok := bal[who].(chain.M); ok {
			if v, ok := row[mu].(int64); ok {
				have = v
			}
		}
		switch {
		case have > 0 && rng.Intn(4) > 0:
			ev["amt"] = 1 + rng.Int63n(have)
		case rng.Intn(2) == 0:
			ev["amt"] = have + 1
		default:
			ev["amt"] = have
		}
		if mu == stake && chain.Num(ev, "amt") > 20 {
			ev["amt"] = int64(1 + rng.Intn(20))
		}
		return ev
	case x < 62:
		s, t := tokenOf()
		ev := tokEvent("TransferOwner")
		ev["who"] = ownerOr(t, 75)
		ev["sym"] = s
		ev["to"] = pick(rng, []string{"u1", "u2", "u3", "u1", "u2", "u3", "feepool", "token"})
		return ev
	case x < 72:
		ev := tokEvent("SwapFee")
		who := anyUser()
		ev["who"] = who
		ev["mu"] = "maa"
		if rng.Intn(10) == 0 {
			ev["mu"] = muPool()
		}
		have := int64(0)
		if row, ok := bal[who].(chain.M); ok {
			have, _ = row["maa"].(int64)
		}
		amt := int64(1 + rng.Intn(30))
		if have > 0 && rng.Intn(3) > 0 {
			amt = 1 + rng.Int63n(have)
		}
		ev["amt"] = amt
		ev["to"] = pick(rng, []string{"", "", "u1", "u2", "u3", "feepool"})
		return ev
	case x < 76:
		ev := tokEvent("Deploy")
		_, t := tokenOf()
		ev["mu"] = chain.Str(t, "minUnit")
		ev["sym"] = pick(rng, symbolPool)
		ev["scale"] = chain.Num(t, "scale")
		// the native token, an IBC denom (a token is created for it), an unknown name
		switch rng.Intn(10) {
		case 0:
			ev["mu"] = "nope"
		case 1, 2:
			ev["mu"] = stake
		case 3, 4:
			ev["mu"] = pick(rng, e.minUnits)
			ev["sym"] = pick(rng, append([]string{"ibx", "iby"}, symbolPool...))
			ev["scale"] = int64(rng.Intn(3))
		}
		return ev
	case x < 86:
		ev := tokEvent("ToERC20")
		who := anyUser()
		mu := muPool()
		if rng.Intn(5) == 0 {
			mu = pick(rng, append([]string{stake}, e.minUnits...))
		}
		// two times out of three: a coin that IS bound to a contract, sent by somebody
		// who holds it (if nothing is bound yet, a deployment comes first)
		if rng.Intn(3) > 0 {
			bound := e.boundCoins()
			if len(bound) == 0 {
				if _, t := tokenOf(); t != nil {
					dep := tokEvent("Deploy")
					dep["mu"], dep["sym"], dep["scale"] = chain.Str(t, "minUnit"), pick(rng, symbolPool), chain.Num(t, "scale")
					return dep
				}
			} else {
				mu = pick(rng, bound)
				var holders []string
				for _, u := range e.users {
					if chain.Num(sub(bal, u), mu) > 0 {
						holders = append(holders, u)
					}
				}
				if len(holders) > 0 {
					who = pick(rng, holders)
				}
			}
		}
		ev["who"], ev["mu"] = who, mu
		have := int64(0)
		if row, ok := bal[who].(chain.M); ok {
			have, _ = row[mu].(int64)
		}
		amt := int64(1 + rng.Intn(20))
		if have > 0 && rng.Intn(4) > 0 {
			amt = 1 + rng.Int63n(have)
		} else if rng.Intn(2) == 0 {
			amt = have + 1
		}
		ev["amt"] = amt
		ev["to"] = pick(rng, append(append([]string{extName}, normal...), e.users...))
		return ev
	case x < 93:
		name := "FromERC20"
		if rng.Intn(3) == 0 {
			name = "Hook"
		}
		ev := tokEvent(name)
		who := anyUser()
		if name == "Hook" && rng.Intn(3) == 0 {
			who = extName
		}
		mu := muPool()
		if rng.Intn(5) == 0 {
			mu = pick(rng, append([]string{stake}, e.minUnits...))
		}
		// two times out of three: somebody who really holds ERC20 tokens of a bound contract
		if rng.Intn(3) > 0 {
			type holding struct{ mu, who string }
			var hs []holding
			for _, d := range e.boundCoins() {
				row := sub(erc, e.contractOfCoin(d))
				for _, h := range chain.SortedKeys(row) {
					if chain.Num(row, h) > 0 && (h != extName || name == "Hook") {
						hs = append(hs, holding{d, h})
					}
				}
			}
			if len(hs) > 0 {
				h := pick(rng, hs)
				mu, who = h.mu, h.who
			}
		}
		ev["who"], ev["mu"] = who, mu
		if name == "Hook" && rng.Intn(3) == 0 {
			// a log no bound contract's swapToNative produced
			ev["sym"] = pick(rng, []string{"unbound", "topics2", "otherevent", "badto", "baddata", "emptyto", "zeroamt"})
			ev["who"], ev["to"], ev["amt"] = extName, "u1", int64(1)
			return ev
		}
		have := int64(0)
		cname := ""
		if mu == stake {
			cname = chain.Str(st, "native")
		} else if s, ok := byMin[mu].(string); ok {
			cname = chain.Str(sub(tok, s), "contract")
		}
		if cname != "" {
			if row, ok := erc[cname].(chain.M); ok {
				have, _ = row[who].(int64)
			}
		}
		amt := int64(1 + rng.Intn(10))
		if have > 0 && rng.Intn(4) > 0 {
			amt = 1 + rng.Int63n(have)
		} else if rng.Intn(2) == 0 {
			amt = have + 1
		}
		if name == "Hook" && rng.Intn(10) == 0 {
			amt = 0
		}
		ev["amt"] = amt
		ev["to"] = pick(rng, []string{"u1", "u2", "u3", "u1", "u2", "u3", "feepool", "token"})
		return ev
	case x < 94:
		ev := tokEvent("Upgrade")
		ev["to"] = pick(rng, []string{"u1", "u2", extName, evmledger.QuirkRevert})
		return ev
	case x < 97:
		ev := tokEvent("SetParams")
		p := chain.CopyM(sub(st, "params"))
		switch rng.Intn(4) {
		case 0:
			p["erc20"] = !chain.Bool(p, "erc20")
		case 1:
			p["taxNum"] = rng.Int63n(chain.Num(p, "taxDen") + 1)
		case 2:
			p["mintNum"] = rng.Int63n(chain.Num(p, "mintDen") + 1)
		default:
			p["baseFee"] = pick(rng, []int64{1, 7, 60, 100})
		}
		ev["p"] = p
		return ev
	default:
		for try := 0; try < 20; try++ {
			ev := tokEvent("LossLess")
			r := pick(rng, ratioPool)
			ev["rn"], ev["rd"] = r.n, r.d
			ev["sin"], ev["sout"] = int64(rng.Intn(4)), int64(rng.Intn(4))
			ev["amt"] = rng.Int63n(400)
			if rowFits(chain.Num(ev, "amt"), r.n, r.d, chain.Num(ev, "sin"), chain.Num(ev, "sout")) {
				return ev
			}
		}
	}
	return nil
}

var _ = sort.Strings

// boundCoins lists the coins that are bound to an ERC20 contract in the last observed state.
func (e *tokEnv) boundCoins() []string {
	var out []string
	if chain.Str(e.last, "native") != "" {
		out = append(out, stake)
	}
	tok := sub(e.last, "tok")
	for _, y := range chain.SortedKeys(tok) {
		if t := sub(tok, y); chain.Str(t, "contract") != "" {
			out = append(out, chain.Str(t, "minUnit"))
		}
	}
	return out
}

func (e *tokEnv) contractOfCoin(d string) string {
	if d == stake {
		return chain.Str(e.last, "native")
	}
	if y, ok := sub(e.last, "byMinUnit")[d].(string); ok {
		return chain.Str(sub(sub(e.last, "tok"), y), "contract")
	}
	return ""
}
