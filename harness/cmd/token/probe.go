package main

import (
	"math/rand"
	"strings"

	"verif/harness/chain"
	"verif/harness/evmledger"
)

// Negative probing and the closing operations of every history.
//
// Everything here is decided from the last OBSERVED state of the real chain
// (e.last, e.past), never from what a model expected: if the code wrongly accepts
// an operation, the following probes and the epilogue run on the state the code
// really produced, and the clauses judge the consequences.

const noAddr = "notanaddr"

var (
	name64 = "q" + strings.Repeat("a", 63) // longest valid symbol / min unit
	name65 = "q" + strings.Repeat("a", 64)
)

func (e *tokEnv) tracked(d string) bool {
	if d == stake {
		return true
	}
	for _, m := range e.minUnits {
		if m == d {
			return true
		}
	}
	return false
}

// validMinUnit mirrors types.ValidateMinUnit / ValidateSymbol (only used to keep
// the random driver inside the tracked universe: a min unit it issues is either a
// tracked denom or one the code refuses).
func validMinUnit(x string) bool {
	if len(x) < 3 || len(x) > 64 || x[0] < 'a' || x[0] > 'z' {
		return false
	}
	for _, c := range x[1:] {
		if !(c >= 'a' && c <= 'z' || c >= '0' && c <= '9') {
			return false
		}
	}
	for _, kw := range []string{"peg", "ibc", "tibc", "lpt", "htlt"} {
		if strings.HasPrefix(x, kw) {
			return false
		}
	}
	return true
}

// oddName: an identifier of the wrong kind derived from a valid one — spellings
// that differ only in case, prefixes and extensions, reserved prefixes, names at
// and beyond the length limits, the fee denom, an IBC denom, a plain coin that is
// no token's, nothing at all.
func (e *tokEnv) oddName(rng *rand.Rand, base string, others []string) string {
	if base == "" {
		base = "maa"
	}
	switch rng.Intn(16) {
	case 0:
		return strings.ToUpper(base)
	case 1:
		return strings.ToUpper(base[:1]) + base[1:]
	case 2:
		return base[:len(base)-1] + strings.ToUpper(base[len(base)-1:])
	case 3:
		return base[:len(base)-1]
	case 4:
		return base + "a"
	case 5, 6:
		if len(others) > 0 {
			return pick(rng, others) // an identifier that belongs to something else
		}
		return "nope"
	case 7:
		return pick(rng, []string{"ibc", "lpt", "htlt", "peg", "tibc"}) + base
	case 8:
		return stake
	case 9:
		return pick(rng, []string{"nope", "", "aa", "9aa", "a-a", "a_a"})
	case 10:
		return name64
	case 11:
		return name65
	case 12:
		return "ibc/x1"
	case 13:
		return pick(rng, []string{"MAA", "lpt-1", "lpt-2", "htltmaa"})
	case 14:
		return " " + base
	}
	return base
}

func (e *tokEnv) oddReceiver(rng *rand.Rand) string {
	return pick(rng, append([]string{"", "token", "feepool", noAddr, extName, "u1", "u2", "u3"}, e.users...))
}

// role picks who acts on token t: its owner, a former owner, somebody who never
// owned it, an EVM quirk account (the module account itself cannot sign).
func (e *tokEnv) role(rng *rand.Rand, sym string, t chain.M) string {
	owner := chain.Str(t, "owner")
	isUser := func(a string) bool { _, ok := e.c.Accts[a]; return ok && a != chain.ProbeName }
	switch rng.Intn(4) {
	case 0:
		if isUser(owner) {
			return owner
		}
	case 1:
		var former []string
		for _, p := range chain.SortedKeys(e.past[sym]) {
			if p != owner && isUser(p) {
				former = append(former, p)
			}
		}
		if len(former) > 0 {
			return pick(rng, former)
		}
	case 2:
		var strangers []string
		for _, u := range e.users {
			if !e.past[sym][u] {
				strangers = append(strangers, u)
			}
		}
		if len(strangers) > 0 {
			return pick(rng, strangers)
		}
	}
	return pick(rng, e.users)
}

// probeEvent draws one message type uniformly, one token (whatever state it is
// in), a role, and spoils at most a few fields.
func (e *tokEnv) probeEvent(rng *rand.Rand) chain.M {
	st := e.last
	tok := sub(st, "tok")
	syms := chain.SortedKeys(tok)
	byMin := sub(st, "byMinUnit")
	bal := sub(st, "bal")
	supply := sub(st, "supply")
	erc := sub(st, "erc")
	sym, t := "", chain.M{}
	if len(syms) > 0 {
		sym = pick(rng, syms)
		t = sub(tok, sym)
	}
	mu := chain.Str(t, "minUnit")
	// identifiers that belong to something else: every other symbol and min unit
	var others []string
	for _, y := range syms {
		if y != sym {
			others = append(others, y)
		}
		if m := chain.Str(sub(tok, y), "minUnit"); m != mu {
			others = append(others, m)
		}
	}
	spoil := func(p int) bool { return rng.Intn(100) < p }
	symArg := func() string { // where a SYMBOL is expected
		if spoil(50) {
			if spoil(30) && mu != "" {
				return mu // the token's own other identifier
			}
			return e.oddName(rng, sym, others)
		}
		return sym
	}
	muArg := func() string { // where a MIN UNIT (bank denom) is expected
		if spoil(50) {
			if spoil(30) && sym != "" {
				return sym
			}
			return e.oddName(rng, mu, others)
		}
		return mu
	}
	who := e.role(rng, sym, t)
	have := func(a, d string) int64 { return chain.Num(sub(bal, a), d) }
	amtNear := func(v int64) int64 {
		x := pick(rng, []int64{0, 1, v, v, v + 1, v - 1, 1 + rng.Int63n(20), 1 + rng.Int63n(20)})
		if x > 1<<28 || (x <= 0 && rng.Intn(3) > 0) {
			x = 1 + rng.Int63n(5)
		}
		if x < 0 {
			x = 0
		}
		return x
	}
	contractOf := func(d string) string {
		if d == stake {
			return chain.Str(st, "native")
		}
		if y, ok := byMin[d].(string); ok {
			return chain.Str(sub(tok, y), "contract")
		}
		return ""
	}
	switch rng.Intn(12) {
	case 0: // issue: names of every kind in both fields; caps below the initial supply; scale 19
		ev := tokEvent("Issue")
		ev["who"] = pick(rng, e.users)
		ev["sym"] = pick(rng, symbolPool)
		if spoil(60) {
			ev["sym"] = e.oddName(rng, pick(rng, append([]string{"aaa"}, syms...)), others)
		}
		m := pick(rng, e.minUnits)
		if spoil(50) {
			m = e.oddName(rng, m, others)
		}
		if !e.tracked(m) && validMinUnit(m) {
			m = name65 // the balance sheet is a closed universe
		}
		ev["mu"] = m
		ev["scale"] = pick(rng, []int64{0, 1, 2, 2, 19})
		ini := int64(rng.Intn(8))
		ev["initial"] = ini
		ev["mintable"] = pick(rng, []string{"true", "false"})
		mx := pick(rng, []int64{0, ini - 1, ini, ini + 1, ini + 5})
		if mx < 0 || (mx == 0 && ev["mintable"] == "true") {
			mx = 1
		}
		ev["max"] = mx
		return ev
	case 1:
		ev := tokEvent("Edit")
		ev["who"], ev["sym"] = who, symArg()
		p := pow10(chain.Num(t, "scale"))
		sup := chain.Num(supply, mu)
		ev["max"] = pick(rng, []int64{0, 1, sup / p, (sup + p - 1) / p, sup/p + 1, chain.Num(t, "max")})
		ev["mintable"] = pick(rng, []string{"", "true", "false"})
		return ev
	case 2:
		ev := tokEvent("TransferOwner")
		ev["who"], ev["sym"], ev["to"] = who, symArg(), e.oddReceiver(rng)
		return ev
	case 3:
		ev := tokEvent("Mint")
		ev["who"], ev["mu"], ev["to"] = who, muArg(), e.oddReceiver(rng)
		ev["amt"] = amtNear(chain.Num(t, "max")*pow10(chain.Num(t, "scale")) - chain.Num(supply, mu))
		return ev
	case 4:
		ev := tokEvent("Burn")
		w := pick(rng, e.users)
		d := muArg()
		ev["who"], ev["mu"], ev["amt"] = w, d, amtNear(have(w, d))
		if d == stake && chain.Num(ev, "amt") > 20 {
			ev["amt"] = int64(1)
		}
		return ev
	case 5:
		ev := tokEvent("SwapFee")
		w := pick(rng, e.users)
		d := "maa"
		if spoil(50) {
			d = muArg()
		}
		ev["who"], ev["mu"], ev["amt"], ev["to"] = w, d, amtNear(have(w, d)), e.oddReceiver(rng)
		if chain.Num(ev, "amt") > 60 {
			ev["amt"] = int64(1 + rng.Intn(30))
		}
		return ev
	case 6:
		ev := tokEvent("ToERC20")
		w := pick(rng, e.users)
		d := muArg()
		ev["who"], ev["mu"], ev["amt"], ev["to"] = w, d, amtNear(have(w, d)), e.oddReceiver(rng)
		if d == stake && chain.Num(ev, "amt") > 20 {
			ev["amt"] = int64(1)
		}
		return ev
	case 7, 8:
		name := "FromERC20"
		w := pick(rng, e.users)
		if rng.Intn(3) == 0 {
			name = "Hook"
			w = pick(rng, append([]string{extName}, e.users...))
		}
		ev := tokEvent(name)
		d := muArg()
		held := chain.Num(sub(erc, contractOf(d)), w)
		ev["who"], ev["mu"], ev["amt"], ev["to"] = w, d, amtNear(held), e.oddReceiver(rng)
		return ev
	case 9:
		ev := tokEvent("Deploy")
		d := muArg()
		if isIbc(d) && !e.tracked(d) {
			d = "ibcmaa"
		}
		ev["mu"] = d
		ev["sym"] = pick(rng, []string{sym, "ibx", "iBX", "ib/x", symArg(), pick(rng, symbolPool)})
		ev["scale"] = pick(rng, []int64{0, 1, 2, 19})
		if spoil(25) {
			ev["to"] = evmledger.QuirkRevert
		}
		return ev
	case 10:
		ev := tokEvent("Upgrade")
		ev["to"] = pick(rng, []string{"", noAddr, "token", extName, "u1", evmledger.QuirkRevert})
		return ev
	default:
		ev := tokEvent("SetParams")
		p := chain.CopyM(sub(st, "params"))
		switch rng.Intn(5) {
		case 0:
			p["erc20"] = !chain.Bool(p, "erc20")
		case 1:
			p["beacon"] = !chain.Bool(p, "beacon")
		case 2:
			p["taxNum"] = chain.Num(p, "taxDen") + 1 // rate above 1: refused
		case 3:
			p["mintNum"] = chain.Num(p, "mintDen") + 1
		default:
			p["taxNum"] = pick(rng, []int64{0, chain.Num(p, "taxDen")})
		}
		ev["p"] = p
		return ev
	}
}

// epilogue: the closing operations of every history, in three phases, each
// computed from the state the chain is REALLY in after the previous one:
//
//	A  everything held as ERC20 is converted back (ERC20 switched on again first):
//	   the conversions neither create nor lose value to the very end (C10);
//	B  for every token: its owner mints one unit more than the cap allows (must
//	   fail), then exactly up to the cap; somebody who never owned it and every
//	   former owner try to mint, edit and hand it over (must fail) (C09);
//	C  every holder burns everything; the owner asks for a maximum below what
//	   is left, if anything is (must fail).
func (e *tokEnv) epilogue(w *chain.TraceWriter) {
	small := func(v int64) bool { return v > 0 && v < 1<<28 }
	isUser := func(a string) bool { _, ok := e.c.Accts[a]; return ok && a != chain.ProbeName }

	// A
	var evs []chain.M
	st := e.last
	if !chain.Bool(sub(st, "params"), "erc20") {
		ev := tokEvent("SetParams")
		p := chain.CopyM(sub(st, "params"))
		p["erc20"] = true
		ev["p"] = p
		evs = append(evs, ev)
	}
	bound := map[string]string{} // contract -> min unit
	if n := chain.Str(st, "native"); n != "" {
		bound[n] = stake
	}
	for _, y := range chain.SortedKeys(sub(st, "tok")) {
		t := sub(sub(st, "tok"), y)
		if c := chain.Str(t, "contract"); c != "" {
			bound[c] = chain.Str(t, "minUnit")
		}
	}
	erc := sub(st, "erc")
	for _, c := range chain.SortedKeys(erc) {
		mu, ok := bound[c]
		if !ok {
			continue
		}
		row := sub(erc, c)
		for _, h := range chain.SortedKeys(row) {
			amt := chain.Num(row, h)
			if !small(amt) {
				continue
			}
			if h == extName {
				ev := tokEvent("Hook")
				ev["who"], ev["to"], ev["mu"], ev["amt"] = h, e.users[0], mu, amt
				evs = append(evs, ev)
			} else if isUser(h) {
				ev := tokEvent("FromERC20")
				ev["who"], ev["to"], ev["mu"], ev["amt"] = h, h, mu, amt
				evs = append(evs, ev)
			}
		}
	}
	e.exec(evs, w)

	// B
	evs = nil
	st = e.last
	for _, y := range chain.SortedKeys(sub(st, "tok")) {
		t := sub(sub(st, "tok"), y)
		mu, owner := chain.Str(t, "minUnit"), chain.Str(t, "owner")
		if !e.tracked(mu) {
			continue
		}
		room := chain.Num(t, "max")*pow10(chain.Num(t, "scale")) - chain.Num(sub(st, "supply"), mu)
		if isUser(owner) && !isIbc(mu) {
			if small(room + 1) {
				ev := tokEvent("Mint")
				ev["who"], ev["mu"], ev["amt"] = owner, mu, room+1
				evs = append(evs, ev)
			}
			if small(room) {
				ev := tokEvent("Mint")
				ev["who"], ev["mu"], ev["amt"] = owner, mu, room
				evs = append(evs, ev)
			}
		}
		// somebody who never owned it, then every former owner
		var probes []string
		for _, u := range e.users {
			if !e.past[y][u] {
				probes = append(probes, u)
				break
			}
		}
		for _, p := range chain.SortedKeys(e.past[y]) {
			if p != owner && isUser(p) {
				probes = append(probes, p)
			}
		}
		for i, p := range probes {
			if i >= 2 {
				break
			}
			if !isIbc(mu) {
				ev := tokEvent("Mint")
				ev["who"], ev["mu"], ev["amt"] = p, mu, int64(1)
				evs = append(evs, ev)
			}
			ev := tokEvent("Edit")
			ev["who"], ev["sym"], ev["max"], ev["mintable"] = p, y, chain.Num(t, "max")+1, "true"
			evs = append(evs, ev)
			ev = tokEvent("TransferOwner")
			ev["who"], ev["sym"], ev["to"] = p, y, e.users[0]
			if p == e.users[0] {
				ev["to"] = e.users[1%len(e.users)]
			}
			evs = append(evs, ev)
		}
	}
	e.exec(evs, w)

	// C
	evs = nil
	st = e.last
	for _, y := range chain.SortedKeys(sub(st, "tok")) {
		t := sub(sub(st, "tok"), y)
		mu := chain.Str(t, "minUnit")
		if !e.tracked(mu) || isIbc(mu) {
			continue
		}
		for _, u := range e.users {
			if amt := chain.Num(sub(sub(st, "bal"), u), mu); small(amt) {
				ev := tokEvent("Burn")
				ev["who"], ev["mu"], ev["amt"] = u, mu, amt
				evs = append(evs, ev)
			}
		}
	}
	e.exec(evs, w)
	evs = nil
	st = e.last
	for _, y := range chain.SortedKeys(sub(st, "tok")) {
		t := sub(sub(st, "tok"), y)
		mu, owner := chain.Str(t, "minUnit"), chain.Str(t, "owner")
		p := pow10(chain.Num(t, "scale"))
		left := chain.Num(sub(st, "supply"), mu)
		if !isUser(owner) || !e.tracked(mu) || left <= 0 || (left-1)/p < 1 {
			continue
		}
		ev := tokEvent("Edit")
		ev["who"], ev["sym"], ev["max"] = owner, y, (left-1)/p // max*10^scale < left
		evs = append(evs, ev)
	}
	e.exec(evs, w)
}
