// Command harness-coinswapbig (C01, big-number tier): drives the real coinswap
// module through the real ABCI path with reserves, shares and trade sizes from
// 1 to ~2^120 (18-decimals magnitudes and beyond TLC's 32-bit integers) and
// writes, per successful message, the pool's reserves and share supply before
// and after (kind "share") and, per swap, the leg as seen from the pool (kind
// "leg").  bin/check turns the rows into a TLA+ module whose invariant — the
// CoinswapClauses.tla operators TLC checks on the small universes — is evaluated
// by Apalache/Z3 over unbounded integers.
package main

import (
	"encoding/json"
	"fmt"
	"math/big"
	"math/rand"
	"os"
	"time"

	sdkmath "cosmossdk.io/math"
	sdk "github.com/cosmos/cosmos-sdk/types"
	banktypes "github.com/cosmos/cosmos-sdk/x/bank/types"

	"verif/harness/chain"
	"verif/harness/drv"

	cstypes "mods.irisnet.org/modules/coinswap/types"
	"mods.irisnet.org/simapp"
)

func main() { drv.Main("coinswapbig", driver) }

type row struct {
	Kind  string `json:"kind"`
	Op    string `json:"op"`
	S     string `json:"S"`
	T     string `json:"T"`
	L     string `json:"L"`
	S2    string `json:"S2"`
	T2    string `json:"T2"`
	L2    string `json:"L2"`
	Rin   string `json:"rin"`
	Rout  string `json:"rout"`
	Paid  string `json:"paid"`
	Recv  string `json:"recv"`
	Fn    string `json:"fn"`
	Fd    string `json:"fd"`
	IsBuy bool   `json:"isBuy"`
	Hist  int    `json:"hist"`
	Step  int    `json:"step"`
}

const lpt = "lpt-1"

type env struct {
	c   *chain.Chain
	esc sdk.AccAddress
	fn  *big.Int
	fd  *big.Int
}

func (e *env) pool(ctx sdk.Context) (s, t, l sdkmath.Int) {
	return e.c.Bal(ctx, e.esc, "stake"), e.c.Bal(ctx, e.esc, "btc"), e.c.Supply(ctx, lpt)
}

func zero(r *row) {
	for _, p := range []*string{&r.S, &r.T, &r.L, &r.S2, &r.T2, &r.L2, &r.Rin, &r.Rout, &r.Paid, &r.Recv} {
		if *p == "" {
			*p = "0"
		}
	}
}

func bigRand(rng *rand.Rand, max sdkmath.Int) sdkmath.Int {
	if !max.IsPositive() {
		return sdkmath.ZeroInt()
	}
	switch rng.Intn(5) {
	case 0:
		return sdkmath.OneInt()
	case 1:
		return max
	case 2: // about two thirds, a residue-rich share
		return max.MulRaw(2).QuoRaw(3)
	default:
		bits := 1 + rng.Intn(max.BigInt().BitLen())
		v := new(big.Int).Rand(rng, new(big.Int).Lsh(big.NewInt(1), uint(bits)))
		x := sdkmath.NewIntFromBigInt(v)
		if x.GT(max) {
			x = max
		}
		if x.IsZero() {
			x = sdkmath.OneInt()
		}
		return x
	}
}

func driver(mode string, fl *drv.Flags) error {
	if mode != "rows" {
		return fmt.Errorf("unknown mode %q", mode)
	}
	rng := rand.New(rand.NewSource(fl.Seed))
	var rows []row
	fees := []string{"0.003", "0.000000000000000001", "0.999999999999999999", "0.3", "0.010000000000000007"}
	for h := 0; h < fl.N; h++ {
		fee := sdkmath.LegacyMustNewDecFromStr(fees[(h+int(fl.Seed))%len(fees)])
		rows = append(rows, history(rng, h, fl.Len, fee)...)
	}
	f, err := os.Create(fl.Out)
	if err != nil {
		return err
	}
	defer f.Close()
	return json.NewEncoder(f).Encode(rows)
}

func history(rng *rand.Rand, h, steps int, fee sdkmath.LegacyDec) (rows []row) {
	huge := "1000000000000000000000000000000000000000" // 1e39 ~ 2^129
	accts := map[string]string{
		"u1": huge + "stake," + huge + "btc",
		"u2": huge + "stake," + huge + "btc",
	}
	c := chain.New(chain.Options{Accounts: accts, MutateGenesis: func(c *chain.Chain, gs simapp.GenesisState) {
		cdc := c.App.AppCodec()
		var g cstypes.GenesisState
		cdc.MustUnmarshalJSON(gs[cstypes.ModuleName], &g)
		g.Params.Fee = fee
		g.Params.UnilateralLiquidityFee = sdkmath.LegacyMustNewDecFromStr("0.002000000000000003")
		gs[cstypes.ModuleName] = cdc.MustMarshalJSON(&g)
	}})
	e := &env{c: c, esc: cstypes.GetReservePoolAddr(lpt), fn: fee.BigInt(), fd: new(big.Int).Exp(big.NewInt(10), big.NewInt(18), nil)}
	deadline := c.Time.Add(1000 * time.Hour).Unix()
	users := []string{"u1", "u2"}
	// magnitudes of the initial pool: from tiny to ~2^120, very unequal reserves included
	// every third history stays in the machine-word band: both reserves (hence the share supply and,
	// derived from them, the message amounts) lie in [10^10, 10^18] ~ [2^33, 2^60], so that every
	// operand of x*y/z fits 64 bits while the products do not (seed C01-s4: a uint64 fast path whose
	// fits-test looks at the operands only)
	band := h%3 == 1
	mag := func() sdkmath.Int {
		k := rng.Intn(37)
		if band {
			k = 10 + rng.Intn(9)
		}
		v := new(big.Int).Exp(big.NewInt(10), big.NewInt(int64(k)), nil)
		v.Add(v, big.NewInt(int64(rng.Intn(1000))))
		return sdkmath.NewIntFromBigInt(v)
	}
	step := 0
	exec := func(op string, who string, msg sdk.Msg, isSwap, isBuy bool) {
		step++
		ctx := c.Ctx()
		s, t, l := e.pool(ctx)
		res := c.RunBlock(5*time.Second, []chain.Tx{{Signer: who, Msgs: []sdk.Msg{msg}}})
		if res.Halt || !res.Txs[0].OK {
			return
		}
		ctx = c.Ctx()
		s2, t2, l2 := e.pool(ctx)
		r := row{Kind: "share", Op: op, S: s.String(), T: t.String(), L: l.String(), S2: s2.String(), T2: t2.String(), L2: l2.String(),
			Fn: e.fn.String(), Fd: e.fd.String(), Hist: h, Step: step}
		zero(&r)
		rows = append(rows, r)
		if isSwap {
			lr := row{Kind: "leg", Op: op, Fn: e.fn.String(), Fd: e.fd.String(), IsBuy: isBuy, Hist: h, Step: step}
			if s2.GT(s) { // standard coin in, btc out
				lr.Rin, lr.Rout, lr.Paid, lr.Recv = s.String(), t.String(), s2.Sub(s).String(), t.Sub(t2).String()
			} else {
				lr.Rin, lr.Rout, lr.Paid, lr.Recv = t.String(), s.String(), t2.Sub(t).String(), s.Sub(s2).String()
			}
			zero(&lr)
			rows = append(rows, lr)
		}
	}
	addr := func(u string) string { return c.Accts[u].Addr.String() }
	// create the pool
	exec("Create", "u1", &cstypes.MsgAddLiquidity{MaxToken: sdk.NewCoin("btc", mag()), ExactStandardAmt: mag().AddRaw(5000),
		MinLiquidity: sdkmath.OneInt(), Deadline: deadline, Sender: addr("u1")}, false, false)
	for i := 0; i < steps; i++ {
		u := users[rng.Intn(2)]
		ctx := c.Ctx()
		s, t, l := e.pool(ctx)
		if !l.IsPositive() {
			exec("Refund", u, &cstypes.MsgAddLiquidity{MaxToken: sdk.NewCoin("btc", mag()), ExactStandardAmt: mag(),
				MinLiquidity: sdkmath.OneInt(), Deadline: deadline, Sender: addr(u)}, false, false)
			continue
		}
		myL := c.Bal(ctx, c.Accts[u].Addr, lpt)
		switch rng.Intn(9) {
		case 0, 1: // add liquidity: dS up to a few times S, maxToken generous
			ds := bigRand(rng, s.MulRaw(3).AddRaw(10))
			exec("Add", u, &cstypes.MsgAddLiquidity{MaxToken: sdk.NewCoin("btc", t.Mul(ds).Quo(s).MulRaw(2).AddRaw(10)), ExactStandardAmt: ds,
				MinLiquidity: sdkmath.OneInt(), Deadline: deadline, Sender: addr(u)}, false, false)
		case 2: // remove
			if myL.IsPositive() {
				exec("Remove", u, &cstypes.MsgRemoveLiquidity{WithdrawLiquidity: sdk.NewCoin(lpt, bigRand(rng, myL)), MinToken: sdkmath.ZeroInt(),
					MinStandardAmt: sdkmath.ZeroInt(), Deadline: deadline, Sender: addr(u)}, false, false)
			}
		case 3: // sell standard for btc
			in := bigRand(rng, s.MulRaw(2).AddRaw(3))
			exec("SellStd", u, &cstypes.MsgSwapOrder{Input: cstypes.Input{Address: addr(u), Coin: sdk.NewCoin("stake", in)},
				Output: cstypes.Output{Address: addr(u), Coin: sdk.NewCoin("btc", sdkmath.OneInt())}, Deadline: deadline}, true, false)
		case 4: // sell btc for standard
			in := bigRand(rng, t.MulRaw(2).AddRaw(3))
			exec("SellTok", u, &cstypes.MsgSwapOrder{Input: cstypes.Input{Address: addr(u), Coin: sdk.NewCoin("btc", in)},
				Output: cstypes.Output{Address: addr(u), Coin: sdk.NewCoin("stake", sdkmath.OneInt())}, Deadline: deadline}, true, false)
		case 5: // buy exact btc
			if t.GT(sdkmath.OneInt()) {
				out := bigRand(rng, t.SubRaw(1))
				exec("BuyTok", u, &cstypes.MsgSwapOrder{Input: cstypes.Input{Address: addr(u), Coin: sdk.NewCoin("stake", sdkmath.NewIntFromBigInt(new(big.Int).Exp(big.NewInt(10), big.NewInt(38), nil)))},
					Output: cstypes.Output{Address: addr(u), Coin: sdk.NewCoin("btc", out)}, Deadline: deadline, IsBuyOrder: true}, true, true)
			}
		case 6: // buy exact standard
			if s.GT(sdkmath.OneInt()) {
				out := bigRand(rng, s.SubRaw(1))
				exec("BuyStd", u, &cstypes.MsgSwapOrder{Input: cstypes.Input{Address: addr(u), Coin: sdk.NewCoin("btc", sdkmath.NewIntFromBigInt(new(big.Int).Exp(big.NewInt(10), big.NewInt(38), nil)))},
					Output: cstypes.Output{Address: addr(u), Coin: sdk.NewCoin("stake", out)}, Deadline: deadline, IsBuyOrder: true}, true, true)
			}
		case 7: // one-sided add / remove
			if rng.Intn(2) == 0 {
				d := []string{"btc", "stake"}[rng.Intn(2)]
				base := t
				if d == "stake" {
					base = s
				}
				exec("AddUni", u, &cstypes.MsgAddUnilateralLiquidity{CounterpartyDenom: "btc", ExactToken: sdk.NewCoin(d, bigRand(rng, base.MulRaw(2).AddRaw(3))),
					MinLiquidity: sdkmath.ZeroInt(), Deadline: deadline, Sender: addr(u)}, false, false)
			} else if myL.IsPositive() && l.GT(sdkmath.OneInt()) {
				d := []string{"btc", "stake"}[rng.Intn(2)]
				amt := bigRand(rng, myL)
				if amt.GTE(l) {
					amt = l.SubRaw(1)
				}
				if amt.IsPositive() {
					exec("RemoveUni", u, &cstypes.MsgRemoveUnilateralLiquidity{CounterpartyDenom: "btc", MinToken: sdk.NewCoin(d, sdkmath.ZeroInt()),
						ExactLiquidity: amt, Deadline: deadline, Sender: addr(u)}, false, false)
				}
			}
		case 8: // donation straight to the pool escrow
			d := []string{"btc", "stake"}[rng.Intn(2)]
			exec("Donate", u, banktypes.NewMsgSend(c.Accts[u].Addr, e.esc, sdk.NewCoins(sdk.NewCoin(d, bigRand(rng, mag())))), false, false)
		}
	}
	return rows
}
