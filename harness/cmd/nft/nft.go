package main

import (
	"fmt"
	"math/rand"
	"sort"
	"strings"
	"time"

	sdk "github.com/cosmos/cosmos-sdk/types"
	"github.com/cosmos/cosmos-sdk/types/query"

	"verif/harness/chain"
	"verif/harness/drv"

	nftkeeper "mods.irisnet.org/modules/nft/keeper"
	nfttypes "mods.irisnet.org/modules/nft/types"
)

func main() { drv.Main("nft", nftDriver) }

// Model <-> chain mapping for NFT.tla:
//
//	accounts   "u1".."uN" (deterministic keys); owners outside the universe are logged as bech32
//	class ids, token ids: identical strings in model and chain
//	metadata   name / uri / uri hash: the abstract string itself; "keep" <-> "[do-not-modify]"
//	           data: abstract v <-> JSON string literal "v" ("" <-> "")
//	class meta abstract v <-> name "n"+v, schema "s"+v, symbol "y"+v, description "d"+v,
//	           uri "u"+v, uri hash "h"+v, data "\"v\"" (all seven class fields)
//
// The projected state is what the module's own query endpoints report
// (Denom, NFT, NFTsOfOwner, Supply(class), Supply(class, owner), Collection)
// over a closed universe of class ids x token ids x accounts.
type nftEnv struct {
	c       *chain.Chain
	users   []string
	names   map[string]string // bech32 -> account name
	classes []string          // class-id universe
	ids     []string          // token-id universe
	last    chain.M
}

const keep = "keep"

func encField(v string) string {
	if v == keep {
		return nfttypes.DoNotModify
	}
	return v
}

func decField(v string) string {
	if v == nfttypes.DoNotModify {
		return keep
	}
	return v
}

func encData(v string) string {
	if v == keep {
		return nfttypes.DoNotModify
	}
	if v == "" {
		return ""
	}
	return `"` + v + `"`
}

func decData(v string) string {
	if v == nfttypes.DoNotModify {
		return keep
	}
	if len(v) >= 2 && strings.HasPrefix(v, `"`) && strings.HasSuffix(v, `"`) {
		return v[1 : len(v)-1]
	}
	return v
}

// usersIn: the largest N with an account name uN in the behaviour (replays of
// traces recorded with a larger universe than the default one).
func usersIn(beh []chain.M, fields ...string) int {
	max := 0
	for _, ev := range beh {
		for _, f := range fields {
			var n int
			if _, err := fmt.Sscanf(chain.Str(ev, f), "u%d", &n); err == nil && n > max && n < 50 {
				max = n
			}
		}
	}
	return max
}

func newNftEnv(fl *drv.Flags, classes, ids []string, minUsers int) *nftEnv {
	e := &nftEnv{names: map[string]string{}}
	n := int(fl.CfgInt("users", 3))
	if minUsers > n {
		n = minUsers
	}
	accts := map[string]string{}
	for i := 1; i <= n; i++ {
		u := fmt.Sprintf("u%d", i)
		e.users = append(e.users, u)
		accts[u] = "1000stake"
	}
	e.c = chain.New(chain.Options{Accounts: accts})
	for _, u := range e.users {
		e.names[e.c.Accts[u].Addr.String()] = u
	}
	e.classes = uniq(append(strings.Split(fl.CfgStr("classes", "cla+clb"), "+"), classes...))
	e.ids = uniq(append(strings.Split(fl.CfgStr("ids", "tka+tkb"), "+"), ids...))
	e.c.Project = func(ctx sdk.Context) any { return e.project(ctx) }
	return e
}

func uniq(in []string) []string {
	seen := map[string]bool{}
	var out []string
	for _, s := range in {
		if s != "" && !seen[s] {
			seen[s] = true
			out = append(out, s)
		}
	}
	sort.Strings(out)
	return out
}

func (e *nftEnv) nameOf(bech string) string {
	if n, ok := e.names[bech]; ok {
		return n
	}
	return bech
}

func (e *nftEnv) addr(name string) string {
	if a, ok := e.c.Accts[name]; ok {
		return a.Addr.String()
	}
	return name
}

func tokenRec(owner, name, uri, hash, data string) chain.M {
	return chain.M{"owner": owner, "n": decField(name), "u": decField(uri), "h": decField(hash), "d": decData(data)}
}

// project reads the abstract state of NFT.tla through the module's queries.
func (e *nftEnv) project(ctx sdk.Context) any {
	k := e.c.K.NFT
	cls, nfts, sup, coll := chain.M{}, chain.M{}, chain.M{}, chain.M{}
	var existing []string
	for _, c := range e.classes {
		dr, err := k.Denom(ctx, &nfttypes.QueryDenomRequest{DenomId: c})
		if err != nil || dr.Denom == nil {
			continue
		}
		d := dr.Denom
		existing = append(existing, c)
		cls[c] = chain.M{"creator": e.nameOf(d.Creator), "mintR": d.MintRestricted, "updateR": d.UpdateRestricted,
			"meta": decClassMeta(d)}
		toks := chain.M{}
		for _, id := range e.ids {
			nr, err := k.NFT(ctx, &nfttypes.QueryNFTRequest{DenomId: c, TokenId: id})
			if err != nil || nr.NFT == nil {
				continue
			}
			t := nr.NFT
			toks[id] = tokenRec(e.nameOf(t.Owner), t.Name, t.URI, t.UriHash, t.Data)
		}
		nfts[c] = toks
		sr, err := k.Supply(ctx, &nfttypes.QuerySupplyRequest{DenomId: c})
		if err != nil {
			panic(err)
		}
		sup[c] = int64(sr.Amount)
		// Collection query, all pages
		cm := chain.M{}
		var key []byte
		for {
			cr, err := k.Collection(ctx, &nfttypes.QueryCollectionRequest{DenomId: c, Pagination: &query.PageRequest{Key: key}})
			if err != nil {
				panic(err)
			}
			for _, t := range cr.Collection.NFTs {
				cm[t.Id] = tokenRec(e.nameOf(t.Owner), t.Name, t.URI, t.UriHash, t.Data)
			}
			if cr.Pagination == nil || len(cr.Pagination.NextKey) == 0 {
				break
			}
			key = cr.Pagination.NextKey
		}
		coll[c] = cm
	}
	idx, bal := chain.M{}, chain.M{}
	for _, u := range e.users {
		per := map[string][]any{}
		for _, c := range existing {
			per[c] = []any{}
		}
		var key []byte
		for {
			or, err := k.NFTsOfOwner(ctx, &nfttypes.QueryNFTsOfOwnerRequest{Owner: e.addr(u), Pagination: &query.PageRequest{Key: key}})
			if err != nil {
				panic(err)
			}
			for _, ic := range or.Owner.IDCollections {
				for _, id := range ic.TokenIds {
					per[ic.DenomId] = append(per[ic.DenomId], id)
				}
			}
			if or.Pagination == nil || len(or.Pagination.NextKey) == 0 {
				break
			}
			key = or.Pagination.NextKey
		}
		row, brow := chain.M{}, chain.M{}
		for c, l := range per {
			row[c] = l
		}
		for _, c := range existing {
			sr, err := k.Supply(ctx, &nfttypes.QuerySupplyRequest{DenomId: c, Owner: e.addr(u)})
			if err != nil {
				panic(err)
			}
			brow[c] = int64(sr.Amount)
		}
		idx[u], bal[u] = row, brow
	}
	broken := false
	func() {
		defer func() {
			if r := recover(); r != nil {
				broken = true
			}
		}()
		_, broken = nftkeeper.SupplyInvariant(k)(ctx)
	}()
	return chain.M{"cls": cls, "nft": nfts, "sup": sup, "coll": coll, "idx": idx, "bal": bal, "invBroken": broken}
}

func decClassMeta(d *nfttypes.Denom) string {
	if len(d.Name) > 0 {
		v := d.Name[1:]
		if d.Name == "n"+v && d.Schema == "s"+v && d.Symbol == "y"+v && d.Description == "d"+v &&
			d.Uri == "u"+v && d.UriHash == "h"+v && d.Data == `"`+v+`"` {
			return v
		}
	}
	return "?" + strings.Join([]string{d.Name, d.Schema, d.Symbol, d.Description, d.Uri, d.UriHash, d.Data}, "|")
}

func nftEvent(name, who, cls, id, to string) chain.M {
	return chain.M{"name": name, "who": who, "cls": cls, "id": id, "to": to, "mintR": false, "updateR": false,
		"cmeta": "", "n": keep, "u": keep, "h": keep, "d": keep, "ok": true, "panic": false}
}

func (e *nftEnv) norm(ev chain.M) chain.M {
	o := nftEvent(chain.Str(ev, "name"), chain.Str(ev, "who"), chain.Str(ev, "cls"), chain.Str(ev, "id"), chain.Str(ev, "to"))
	o["mintR"], o["updateR"] = chain.Bool(ev, "mintR"), chain.Bool(ev, "updateR")
	o["cmeta"] = chain.Str(ev, "cmeta")
	for _, f := range []string{"n", "u", "h", "d"} {
		if v, ok := ev[f].(string); ok {
			o[f] = v
		}
	}
	return o
}

// msgOf maps an abstract event to a real message; nil for non-message events.
func (e *nftEnv) msgOf(ev chain.M) sdk.Msg {
	who, to := e.addr(chain.Str(ev, "who")), e.addr(chain.Str(ev, "to"))
	c, id := chain.Str(ev, "cls"), chain.Str(ev, "id")
	n, u, h, d := encField(chain.Str(ev, "n")), encField(chain.Str(ev, "u")), encField(chain.Str(ev, "h")), encData(chain.Str(ev, "d"))
	switch chain.Str(ev, "name") {
	case "IssueDenom":
		v := chain.Str(ev, "cmeta")
		return &nfttypes.MsgIssueDenom{Id: c, Name: "n" + v, Schema: "s" + v, Sender: who, Symbol: "y" + v,
			MintRestricted: chain.Bool(ev, "mintR"), UpdateRestricted: chain.Bool(ev, "updateR"),
			Description: "d" + v, Uri: "u" + v, UriHash: "h" + v, Data: `"` + v + `"`}
	case "MintNFT":
		return &nfttypes.MsgMintNFT{Id: id, DenomId: c, Name: n, URI: u, UriHash: h, Data: d, Sender: who, Recipient: to}
	case "EditNFT":
		return &nfttypes.MsgEditNFT{Id: id, DenomId: c, Name: n, URI: u, UriHash: h, Data: d, Sender: who}
	case "TransferNFT":
		return &nfttypes.MsgTransferNFT{Id: id, DenomId: c, Name: n, URI: u, UriHash: h, Data: d, Sender: who, Recipient: to}
	case "BurnNFT":
		return &nfttypes.MsgBurnNFT{Id: id, DenomId: c, Sender: who}
	case "TransferDenom":
		return &nfttypes.MsgTransferDenom{Id: c, Sender: who, Recipient: to}
	}
	return nil
}

// runBlock executes the pending events as one block (one transaction each)
// and writes one trace line per event plus the EndBlock line.
func (e *nftEnv) runBlock(pending []chain.M, w *chain.TraceWriter) bool {
	var txs []chain.Tx
	for _, ev := range pending {
		who := chain.Str(ev, "who")
		if _, ok := e.c.Accts[who]; !ok {
			who = e.users[0]
		}
		txs = append(txs, chain.Tx{Signer: who, Msgs: []sdk.Msg{e.msgOf(ev)}})
	}
	res := e.c.RunBlock(5*time.Second, txs)
	if res.Halt {
		panic("nft: block halted: " + res.HaltMsg)
	}
	for i, ev := range pending {
		r := res.Txs[i]
		if r.Aborted {
			// member of a multi-message transaction that failed as a whole (chain.BundlePct):
			// whatever it did was rolled back; the specification knows no such event and
			// treats it as a rejection without effect
			ev["name"] = "TxFailed"
		}
		ev["ok"], ev["panic"] = r.OK, r.Panic
		st := r.State
		if st == nil {
			st = res.BeginState
		}
		w.Write(ev, st)
		e.last = st.(chain.M)
	}
	w.Write(nftEvent("EndBlock", "", "", "", ""), res.EndState)
	e.last = res.EndState.(chain.M)
	return true
}

func (e *nftEnv) start(w *chain.TraceWriter) {
	e.last = e.project(e.c.Ctx()).(chain.M)
	w.Write(nftEvent("Init", "", "", "", ""), e.last)
}

// nftRun executes one abstract behaviour on a fresh chain.  EndBlock events in
// the input are block boundaries; without any, a block is cut every `perblock`
// events.
func nftRun(fl *drv.Flags, beh []chain.M, w *chain.TraceWriter) {
	var classes, ids []string
	hasEnd := false
	for _, ev := range beh {
		classes = append(classes, chain.Str(ev, "cls"))
		ids = append(ids, chain.Str(ev, "id"))
		hasEnd = hasEnd || chain.Str(ev, "name") == "EndBlock"
	}
	e := newNftEnv(fl, classes, ids, usersIn(beh, "who", "to"))
	e.start(w)
	per := int(fl.CfgInt("perblock", 3))
	var pending []chain.M
	for _, raw := range beh {
		ev := e.norm(raw)
		if chain.Str(ev, "name") == "EndBlock" {
			e.runBlock(pending, w)
			pending = nil
			continue
		}
		if e.msgOf(ev) == nil {
			continue
		}
		pending = append(pending, ev)
		if !hasEnd && len(pending) >= per {
			e.runBlock(pending, w)
			pending = nil
		}
	}
	if len(pending) > 0 {
		e.runBlock(pending, w)
	}
}

func nftDriver(mode string, fl *drv.Flags) error {
	w := chain.NewTraceWriter(fl.Out)
	defer w.Close()
	switch mode {
	case "replay":
		for _, beh := range chain.ReadBehaviours(fl.In) {
			nftRun(fl, beh, w)
		}
	case "random":
		rng := rand.New(rand.NewSource(fl.Seed))
		for i := 0; i < fl.N; i++ {
			nftRandom(fl, rng, w)
		}
	default:
		return fmt.Errorf("unknown mode %q", mode)
	}
	return nil
}

// nftRandom runs one random history.  Events are generated block by block from
// the last observed state: entitled actors most of the time, strangers often,
// transfer to self, burn and re-mint, handover then mint, every flag
// combination, prefix-related ids, sentinel / empty / changed metadata.
func nftRandom(fl *drv.Flags, rng *rand.Rand, w *chain.TraceWriter) {
	classPool := []string{"cla", "clab", "cla/x", "clb"}
	idPool := []string{"tka", "tkab", "tk/a", "tkb", "cla"}
	e := newNftEnv(fl, classPool, idPool, 0)
	e.start(w)
	// field-specific values (a mix-up of two fields is visible), "" and one value
	// shared by all fields
	vals := map[string][]string{"n": {"na", "nb", "", "x"}, "u": {"ua", "ub", "", "x"},
		"h": {"ha", "hb", "", "x"}, "d": {"da", "db", "", "x"}}
	pick := func(l []string) string { return l[rng.Intn(len(l))] }
	metaArg := func(ev chain.M, pKeep int, allowKeepData bool) {
		for _, f := range []string{"n", "u", "h", "d"} {
			if rng.Intn(100) < pKeep && (f != "d" || allowKeepData) {
				ev[f] = keep
			} else {
				ev[f] = pick(vals[f])
			}
		}
	}
	flagSeq := rng.Perm(4)
	issued := 0
	for b := 0; b < fl.Len; b++ {
		var pending []chain.M
		cls := e.last["cls"].(chain.M)
		nfts := e.last["nft"].(chain.M)
		have := chain.SortedKeys(cls)
		type tk struct{ c, id, owner string }
		var toks []tk
		for _, c := range have {
			tm := nfts[c].(chain.M)
			for _, id := range chain.SortedKeys(tm) {
				toks = append(toks, tk{c, id, tm[id].(chain.M)["owner"].(string)})
			}
		}
		n := 1 + rng.Intn(4)
		for j := 0; j < n; j++ {
			u := pick(e.users)
			x := rng.Intn(100)
			switch {
			case x < 8 || len(have) == 0:
				ev := nftEvent("IssueDenom", u, pick(classPool), "", "")
				fb := flagSeq[issued%4]
				issued++
				ev["mintR"], ev["updateR"] = fb&1 == 1, fb&2 == 2
				ev["cmeta"] = pick([]string{"m", "k"})
				pending = append(pending, ev)
			case x < 38:
				c := pick(have)
				who := u
				if rng.Intn(3) > 0 {
					who = cls[c].(chain.M)["creator"].(string)
				}
				ev := nftEvent("MintNFT", who, c, pick(idPool), pick(e.users))
				metaArg(ev, 5, rng.Intn(20) == 0)
				pending = append(pending, ev)
			case len(toks) == 0:
				continue
			case x < 55:
				t := toks[rng.Intn(len(toks))]
				who := t.owner
				if rng.Intn(3) == 0 {
					who = u
				}
				ev := nftEvent("EditNFT", who, t.c, t.id, "")
				metaArg(ev, 50, true)
				pending = append(pending, ev)
			case x < 78:
				t := toks[rng.Intn(len(toks))]
				who := t.owner
				if rng.Intn(3) == 0 {
					who = u
				}
				to := pick(e.users)
				if rng.Intn(6) == 0 {
					to = who
				}
				ev := nftEvent("TransferNFT", who, t.c, t.id, to)
				if rng.Intn(2) == 0 {
					metaArg(ev, 60, true)
				}
				pending = append(pending, ev)
			case x < 90:
				t := toks[rng.Intn(len(toks))]
				who := t.owner
				if rng.Intn(3) == 0 {
					who = u
				}
				pending = append(pending, nftEvent("BurnNFT", who, t.c, t.id, ""))
			default:
				c := pick(have)
				who := cls[c].(chain.M)["creator"].(string)
				if rng.Intn(3) == 0 {
					who = u
				}
				pending = append(pending, nftEvent("TransferDenom", who, c, "", pick(e.users)))
			}
		}
		// occasionally aim at something that does not exist
		if rng.Intn(6) == 0 {
			pending = append(pending, nftEvent(pick([]string{"BurnNFT", "EditNFT", "TransferNFT"}), pick(e.users),
				pick(classPool), pick(idPool), pick(e.users)))
		}
		e.runBlock(pending, w)
	}
}
