package main

import (
	"bytes"
	"fmt"
	"math/rand"
	"sort"
	"strings"
	"time"

	authtypes "github.com/cosmos/cosmos-sdk/x/auth/types"

	sdk "github.com/cosmos/cosmos-sdk/types"
	"github.com/cosmos/cosmos-sdk/types/query"

	"verif/harness/chain"
	"verif/harness/drv"

	nftkeeper "mods.irisnet.org/modules/nft/keeper"
	nfttypes "mods.irisnet.org/modules/nft/types"
	"mods.irisnet.org/simapp"
)

func main() { drv.Main("nft", nftDriver) }

// Model <-> chain mapping for NFT.tla:
//
//	accounts   "u1".."uN" (deterministic keys, the signers); "mod": the fee collector's module
//	           address - tracked like a user, can be named as recipient, cannot sign (a message
//	           naming it as sender is delivered in a transaction signed by the spare account
//	           "sx", which the ante handler refuses); other owners are logged as bech32
//	class ids, token ids: identical strings in model and chain, except the abstract names
//	           "L101" / "L102" (an id of 101 / 102 letters) and "SENT" (the do-not-modify
//	           sentinel used as an id)
//	metadata   name / uri / uri hash: the abstract string itself; "keep" <-> "[do-not-modify]";
//	           uri "u256" / "u257" <-> a uri of 256 / 257 characters
//	           data: abstract v <-> JSON string literal "v" ("" <-> ""); "badjson" <-> text that
//	           is not JSON
//	class meta abstract v <-> name "n"+v, schema "s"+v, symbol "y"+v, description "d"+v,
//	           uri "u"+v, uri hash "h"+v, data "\"v\"" (all seven class fields)
//
// The projected state is what the module's own query endpoints report (Denom, NFT,
// NFTsOfOwner and Collection page by page, Supply(class), Supply(class, owner)) over the
// classes and tokens the RAW STORE holds plus a closed universe of class ids x token ids,
// for the tracked accounts; next to it the raw store itself (class keys, token records,
// owner keys, owner index of every address, supply counters) and two more read paths
// (Denoms page by page, NFTsOfOwner class by class).
type nftEnv struct {
	c       *chain.Chain
	users   []string          // signers
	tracked []string          // users + "mod"
	names   map[string]string // bech32 -> account name
	addrs   map[string]string // account name -> bech32 (accounts that cannot sign)
	classes []string          // class-id universe (abstract)
	ids     []string          // token-id universe (abstract)
	last    chain.M
}

const (
	keep    = "keep"
	modAcct = "mod"
	spare   = "sx"
	preCls  = "ibc/abc"
)

var (
	long101 = strings.Repeat("a", 101)
	long102 = strings.Repeat("a", 102)
	uri256  = strings.Repeat("u", 256)
	uri257  = strings.Repeat("u", 257)
)

// encID / decID: abstract id <-> real id.
func encID(v string) string {
	switch v {
	case "L101":
		return long101
	case "L102":
		return long102
	case "SENT":
		return nfttypes.DoNotModify
	}
	return v
}

func decID(v string) string {
	switch v {
	case long101:
		return "L101"
	case long102:
		return "L102"
	case nfttypes.DoNotModify:
		return "SENT"
	}
	return v
}

func encField(v string) string {
	switch v {
	case keep:
		return nfttypes.DoNotModify
	case "u256":
		return uri256
	case "u257":
		return uri257
	}
	return v
}

func decField(v string) string {
	switch v {
	case nfttypes.DoNotModify:
		return keep
	case uri256:
		return "u256"
	case uri257:
		return "u257"
	}
	return v
}

func encData(v string) string {
	switch v {
	case keep:
		return nfttypes.DoNotModify
	case "":
		return ""
	case "badjson":
		return `{"bad`
	}
	return `"` + v + `"`
}

func decData(v string) string {
	if v == nfttypes.DoNotModify {
		return keep
	}
	if len(v) >= 2 && strings.HasPrefix(v, `"`) && strings.HasSuffix(v, `"`) {
		return v[1 : len(v)-1]
	}
	return v
}

// usersIn: the largest N with an account name uN in the behaviour (replays of
// traces recorded with a larger universe than the default one).
func usersIn(beh []chain.M, fields ...string) int {
	max := 0
	for _, ev := range beh {
		for _, f := range fields {
			var n int
			if _, err := fmt.Sscanf(chain.Str(ev, f), "u%d", &n); err == nil && n > max && n < 50 {
				max = n
			}
		}
	}
	return max
}

func newNftEnv(fl *drv.Flags, classes, ids []string, minUsers int) *nftEnv {
	e := &nftEnv{names: map[string]string{}, addrs: map[string]string{}}
	n := int(fl.CfgInt("users", 3))
	if minUsers > n {
		n = minUsers
	}
	accts := map[string]string{spare: "1000stake"}
	for i := 1; i <= n; i++ {
		u := fmt.Sprintf("u%d", i)
		e.users = append(e.users, u)
		accts[u] = "1000stake"
	}
	e.tracked = append(append([]string{}, e.users...), modAcct)
	e.addrs[modAcct] = chain.ModuleAddr(authtypes.FeeCollectorName).String()
	opts := chain.Options{Accounts: accts}
	if fl.CfgInt("pre", 0) != 0 {
		// an IBC-style class cannot be issued by message; it is put into the genesis state
		// (NFT.tla InitPre): class "ibc/abc" of u2, no restrictions, token "tka" of u1
		opts.MutateGenesis = func(c *chain.Chain, gs simapp.GenesisState) {
			cdc := c.App.AppCodec()
			var g nfttypes.GenesisState
			cdc.MustUnmarshalJSON(gs[nfttypes.ModuleName], &g)
			g.Collections = append(g.Collections, nfttypes.Collection{
				Denom: nfttypes.Denom{Id: preCls, Name: "nm", Schema: "sm", Symbol: "ym", Description: "dm", Uri: "um",
					UriHash: "hm", Data: `"m"`, Creator: chain.AddrOf("u2").String()},
				NFTs: []nfttypes.BaseNFT{{Id: "tka", Name: "a", URI: "x", Owner: chain.AddrOf("u1").String()}},
			})
			gs[nfttypes.ModuleName] = cdc.MustMarshalJSON(&g)
		}
		classes = append(classes, preCls)
	}
	e.c = chain.New(opts)
	for _, u := range e.users {
		e.names[e.c.Accts[u].Addr.String()] = u
	}
	e.names[e.addrs[modAcct]] = modAcct
	e.classes = uniq(append(strings.Split(fl.CfgStr("classes", "cla+clb"), "+"), classes...))
	e.ids = uniq(append(strings.Split(fl.CfgStr("ids", "tka+tkb"), "+"), ids...))
	e.c.Project = func(ctx sdk.Context) any { return e.project(ctx) }
	return e
}

func uniq(in []string) []string {
	seen := map[string]bool{}
	var out []string
	for _, s := range in {
		if s != "" && !seen[s] {
			seen[s] = true
			out = append(out, s)
		}
	}
	sort.Strings(out)
	return out
}

func (e *nftEnv) nameOf(bech string) string {
	if n, ok := e.names[bech]; ok {
		return n
	}
	return bech
}

func (e *nftEnv) addr(name string) string {
	if a, ok := e.addrs[name]; ok {
		return a
	}
	if a, ok := e.c.Accts[name]; ok && name != spare {
		return a.Addr.String()
	}
	return name
}

func (e *nftEnv) canSign(name string) bool {
	for _, u := range e.users {
		if u == name {
			return true
		}
	}
	return false
}

func tokenRec(owner, name, uri, hash, data string) chain.M {
	return chain.M{"owner": owner, "n": decField(name), "u": decField(uri), "h": decField(hash), "d": decData(data)}
}

// rawStore is the content of the nft store, read key by key (x/nft keeper/keys.go).
type rawStore struct {
	cls []string                       // 0x01 <class>
	tok map[string]map[string]bool     // 0x02 <class> 0x00 <id>
	own map[string]map[string]string   // 0x04 <class> 0x00 <id> -> owner (account name or bech32)
	idx map[string]map[string][]string // 0x03 <len><owner> 0x00 <class> 0x00 <id>
	sup map[string]int64               // 0x05 <class>
}

func (e *nftEnv) scan(ctx sdk.Context) *rawStore {
	r := &rawStore{tok: map[string]map[string]bool{}, own: map[string]map[string]string{},
		idx: map[string]map[string][]string{}, sup: map[string]int64{}}
	key := e.c.App.UnsafeFindStoreKey(nfttypes.StoreKey)
	it := ctx.KVStore(key).Iterator(nil, nil)
	defer it.Close()
	split := func(b []byte) (string, string, bool) {
		p := bytes.IndexByte(b, 0)
		if p < 0 {
			return "", "", false
		}
		return decID(string(b[:p])), decID(string(b[p+1:])), true
	}
	for ; it.Valid(); it.Next() {
		k, v := it.Key(), it.Value()
		if len(k) < 2 {
			continue
		}
		switch k[0] {
		case 0x01:
			r.cls = append(r.cls, decID(string(k[1:])))
		case 0x02:
			if c, id, ok := split(k[1:]); ok {
				if r.tok[c] == nil {
					r.tok[c] = map[string]bool{}
				}
				r.tok[c][id] = true
			}
		case 0x03:
			l := int(k[1])
			if len(k) < 3+l {
				continue
			}
			a := e.nameOf(sdk.AccAddress(k[2 : 2+l]).String())
			if c, id, ok := split(k[3+l:]); ok {
				if r.idx[a] == nil {
					r.idx[a] = map[string][]string{}
				}
				r.idx[a][c] = append(r.idx[a][c], id)
			}
		case 0x04:
			if c, id, ok := split(k[1:]); ok {
				if r.own[c] == nil {
					r.own[c] = map[string]string{}
				}
				r.own[c][id] = e.nameOf(sdk.AccAddress(v).String())
			}
		case 0x05:
			n := sdk.BigEndianToUint64(v)
			if n > 1<<30 {
				n = 1 << 30 // a counter that wrapped below zero: out of any plausible range
			}
			r.sup[decID(string(k[1:]))] = int64(n)
		}
	}
	return r
}

func (r *rawStore) json() chain.M {
	cls := []any{}
	for _, c := range r.cls {
		cls = append(cls, c)
	}
	tok, own := chain.M{}, chain.M{}
	for c, m := range r.tok {
		tm := chain.M{}
		for id := range m {
			tm[id] = r.own[c][id] // "" when there is no owner key
		}
		tok[c] = tm
	}
	for c, m := range r.own {
		l := []any{}
		for _, id := range chain.SortedKeys(m) {
			l = append(l, id)
		}
		own[c] = l
	}
	idx := chain.M{}
	for a, m := range r.idx {
		row := chain.M{}
		for c, ids := range m {
			l := []any{}
			for _, id := range ids {
				l = append(l, id)
			}
			row[c] = l
		}
		idx[a] = row
	}
	sup := chain.M{}
	for c, n := range r.sup {
		sup[c] = n
	}
	return chain.M{"cls": cls, "tok": tok, "own": own, "idx": idx, "sup": sup}
}

const maxPages = 300 // a pagination that never ends is cut off (and shows as a wrong listing)

// project reads the abstract state of NFT.tla through the module's queries and the raw store.
func (e *nftEnv) project(ctx sdk.Context) any {
	k := e.c.K.NFT
	raw := e.scan(ctx)
	cls, nfts, sup, coll := chain.M{}, chain.M{}, chain.M{}, chain.M{}
	var existing []string
	for _, c := range uniq(append(append([]string{}, e.classes...), raw.cls...)) {
		dr, err := k.Denom(ctx, &nfttypes.QueryDenomRequest{DenomId: encID(c)})
		if err != nil || dr.Denom == nil {
			continue
		}
		d := dr.Denom
		existing = append(existing, c)
		cls[c] = chain.M{"creator": e.nameOf(d.Creator), "mintR": d.MintRestricted, "updateR": d.UpdateRestricted,
			"meta": decClassMeta(d)}
		toks := chain.M{}
		ids := append([]string{}, e.ids...)
		for id := range raw.tok[c] {
			ids = append(ids, id)
		}
		for _, id := range uniq(ids) {
			nr, err := k.NFT(ctx, &nfttypes.QueryNFTRequest{DenomId: encID(c), TokenId: encID(id)})
			if err != nil || nr.NFT == nil {
				continue
			}
			t := nr.NFT
			toks[id] = tokenRec(e.nameOf(t.Owner), t.Name, t.URI, t.UriHash, t.Data)
		}
		nfts[c] = toks
		// a query that fails (possible on a broken tree) marks the observation instead of
		// ending the run: the clauses judge the marked state
		if sr, err := k.Supply(ctx, &nfttypes.QuerySupplyRequest{DenomId: encID(c)}); err == nil {
			sup[c] = small(sr.Amount)
		} else {
			sup[c] = int64(1 << 30)
		}
		// Collection query, page by page (two tokens a page)
		cm := chain.M{}
		var key []byte
		for page := 0; ; page++ {
			cr, err := k.Collection(ctx, &nfttypes.QueryCollectionRequest{DenomId: encID(c), Pagination: &query.PageRequest{Key: key, Limit: 2}})
			if err != nil || cr.Collection == nil {
				cm["?error"] = tokenRec("", "", "", "", "")
				break
			}
			for _, t := range cr.Collection.NFTs {
				if _, dup := cm[decID(t.Id)]; dup {
					cm["?dup:"+decID(t.Id)] = tokenRec("", "", "", "", "")
				}
				cm[decID(t.Id)] = tokenRec(e.nameOf(t.Owner), t.Name, t.URI, t.UriHash, t.Data)
			}
			if cr.Pagination == nil || len(cr.Pagination.NextKey) == 0 {
				break
			}
			if page > maxPages {
				cm["?endless"] = tokenRec("", "", "", "", "")
				break
			}
			key = cr.Pagination.NextKey
		}
		coll[c] = cm
	}
	idx, bal, idxc := chain.M{}, chain.M{}, chain.M{}
	for _, u := range e.tracked {
		per := map[string][]any{}
		for _, c := range existing {
			per[c] = []any{}
		}
		var key []byte
		for page := 0; ; page++ {
			or, err := k.NFTsOfOwner(ctx, &nfttypes.QueryNFTsOfOwnerRequest{Owner: e.addr(u), Pagination: &query.PageRequest{Key: key, Limit: 2}})
			if err != nil || or.Owner == nil {
				per["?error"] = []any{}
				break
			}
			for _, ic := range or.Owner.IDCollections {
				for _, id := range ic.TokenIds {
					per[decID(ic.DenomId)] = append(per[decID(ic.DenomId)], decID(id))
				}
			}
			if or.Pagination == nil || len(or.Pagination.NextKey) == 0 || page > maxPages {
				break
			}
			key = or.Pagination.NextKey
		}
		row, brow, crow := chain.M{}, chain.M{}, chain.M{}
		for c, l := range per {
			row[c] = l
		}
		for _, c := range existing {
			if sr, err := k.Supply(ctx, &nfttypes.QuerySupplyRequest{DenomId: encID(c), Owner: e.addr(u)}); err == nil {
				brow[c] = small(sr.Amount)
			} else {
				brow[c] = int64(1 << 30)
			}
			// the owner index of one class, default page size
			l := []any{}
			or, err := k.NFTsOfOwner(ctx, &nfttypes.QueryNFTsOfOwnerRequest{Owner: e.addr(u), DenomId: encID(c)})
			if err != nil || or.Owner == nil {
				crow[c] = []any{"?error"}
				continue
			}
			for _, ic := range or.Owner.IDCollections {
				for _, id := range ic.TokenIds {
					if decID(ic.DenomId) != c {
						id = ic.DenomId + "|" + id
					}
					l = append(l, decID(id))
				}
			}
			crow[c] = l
		}
		idx[u], bal[u], idxc[u] = row, brow, crow
	}
	// the class list, page by page (two classes a page)
	denoms := []any{}
	var key []byte
	for page := 0; ; page++ {
		r, err := k.Denoms(ctx, &nfttypes.QueryDenomsRequest{Pagination: &query.PageRequest{Key: key, Limit: 2}})
		if err != nil {
			denoms = append(denoms, "?error")
			break
		}
		for _, d := range r.Denoms {
			denoms = append(denoms, decID(d.Id))
		}
		if r.Pagination == nil || len(r.Pagination.NextKey) == 0 || page > maxPages {
			break
		}
		key = r.Pagination.NextKey
	}
	broken := false
	func() {
		defer func() {
			if r := recover(); r != nil {
				broken = true
			}
		}()
		_, broken = nftkeeper.SupplyInvariant(k)(ctx)
	}()
	// would the module accept its own export? (InitGenesis panics when ValidateGenesis refuses it)
	exportBroken := false
	func() {
		defer func() {
			if r := recover(); r != nil {
				exportBroken = true
			}
		}()
		exportBroken = nfttypes.ValidateGenesis(*k.ExportGenesis(ctx)) != nil
	}()
	return chain.M{"cls": cls, "nft": nfts, "sup": sup, "coll": coll, "idx": idx, "bal": bal, "invBroken": broken,
		"exportBroken": exportBroken, "raw": raw.json(), "q": chain.M{"denoms": denoms, "idxc": idxc}}
}

func small(n uint64) int64 {
	if n > 1<<30 {
		return 1 << 30
	}
	return int64(n)
}

func decClassMeta(d *nfttypes.Denom) string {
	if len(d.Name) > 0 {
		v := d.Name[1:]
		if d.Name == "n"+v && d.Schema == "s"+v && d.Symbol == "y"+v && d.Description == "d"+v &&
			d.Uri == "u"+v && d.UriHash == "h"+v && d.Data == `"`+v+`"` {
			return v
		}
	}
	return "?" + strings.Join([]string{d.Name, d.Schema, d.Symbol, d.Description, d.Uri, d.UriHash, d.Data}, "|")
}

func nftEvent(name, who, cls, id, to string) chain.M {
	return chain.M{"name": name, "who": who, "cls": cls, "id": id, "to": to, "mintR": false, "updateR": false,
		"cmeta": "", "n": keep, "u": keep, "h": keep, "d": keep, "ok": true, "panic": false}
}

func (e *nftEnv) norm(ev chain.M) chain.M {
	o := nftEvent(chain.Str(ev, "name"), chain.Str(ev, "who"), chain.Str(ev, "cls"), chain.Str(ev, "id"), chain.Str(ev, "to"))
	o["mintR"], o["updateR"] = chain.Bool(ev, "mintR"), chain.Bool(ev, "updateR")
	o["cmeta"] = chain.Str(ev, "cmeta")
	for _, f := range []string{"n", "u", "h", "d"} {
		if v, ok := ev[f].(string); ok {
			o[f] = v
		}
	}
	return o
}

// msgOf maps an abstract event to a real message; nil for non-message events.
func (e *nftEnv) msgOf(ev chain.M) sdk.Msg {
	who, to := e.addr(chain.Str(ev, "who")), e.addr(chain.Str(ev, "to"))
	c, id := encID(chain.Str(ev, "cls")), encID(chain.Str(ev, "id"))
	n, u, h, d := encField(chain.Str(ev, "n")), encField(chain.Str(ev, "u")), encField(chain.Str(ev, "h")), encData(chain.Str(ev, "d"))
	switch chain.Str(ev, "name") {
	case "IssueDenom":
		v := chain.Str(ev, "cmeta")
		return &nfttypes.MsgIssueDenom{Id: c, Name: "n" + v, Schema: "s" + v, Sender: who, Symbol: "y" + v,
			MintRestricted: chain.Bool(ev, "mintR"), UpdateRestricted: chain.Bool(ev, "updateR"),
			Description: "d" + v, Uri: "u" + v, UriHash: "h" + v, Data: `"` + v + `"`}
	case "MintNFT":
		return &nfttypes.MsgMintNFT{Id: id, DenomId: c, Name: n, URI: u, UriHash: h, Data: d, Sender: who, Recipient: to}
	case "EditNFT":
		return &nfttypes.MsgEditNFT{Id: id, DenomId: c, Name: n, URI: u, UriHash: h, Data: d, Sender: who}
	case "TransferNFT":
		return &nfttypes.MsgTransferNFT{Id: id, DenomId: c, Name: n, URI: u, UriHash: h, Data: d, Sender: who, Recipient: to}
	case "BurnNFT":
		return &nfttypes.MsgBurnNFT{Id: id, DenomId: c, Sender: who}
	case "TransferDenom":
		return &nfttypes.MsgTransferDenom{Id: c, Sender: who, Recipient: to}
	}
	return nil
}

// runBlock executes the pending events as one block (one transaction each)
// and writes one trace line per event plus the EndBlock line.
func (e *nftEnv) runBlock(pending []chain.M, w *chain.TraceWriter) bool {
	var txs []chain.Tx
	for _, ev := range pending {
		who := chain.Str(ev, "who")
		tx := chain.Tx{Signer: who, Msgs: []sdk.Msg{e.msgOf(ev)}}
		if !e.canSign(who) {
			// nobody holds a key of this sender: the transaction is signed by the spare account
			// and the ante handler refuses it (kept out of bundles: it must fail alone)
			tx.Signer, tx.NoBundle = spare, true
		}
		txs = append(txs, tx)
	}
	res := e.c.RunBlock(5*time.Second, txs)
	if res.Halt {
		panic("nft: block halted: " + res.HaltMsg)
	}
	for i, ev := range pending {
		r := res.Txs[i]
		if r.Aborted {
			// member of a multi-message transaction that failed as a whole (chain.BundlePct):
			// whatever it did was rolled back; the specification knows no such event and
			// treats it as a rejection without effect
			ev["_orig"], ev["name"] = ev["name"], "TxFailed"
		}
		ev["ok"], ev["panic"] = r.OK, r.Panic
		st := r.State
		if st == nil {
			st = res.BeginState
		}
		w.Write(ev, st)
		if m, ok := st.(chain.M); ok {
			e.last = m
		}
	}
	w.Write(nftEvent("EndBlock", "", "", "", ""), res.EndState)
	if m, ok := res.EndState.(chain.M); ok {
		e.last = m
	}
	return true
}

func (e *nftEnv) start(w *chain.TraceWriter) {
	e.last = e.project(e.c.Ctx()).(chain.M)
	w.Write(nftEvent("Init", "", "", "", ""), e.last)
}

// lenient readers of the projected state (a broken tree may produce anything)
func sub(m chain.M, k string) chain.M {
	if v, ok := m[k].(chain.M); ok {
		return v
	}
	return chain.M{}
}

func str(m chain.M, k string) string {
	s, _ := m[k].(string)
	return s
}

// epilogue closes a history from what the REAL chain holds (the raw store, not what the
// specification expected): every token record - up to a bound - is transferred by the
// address under its owner key to the next user, who burns it; every class is handed over
// by its recorded creator.  Whatever the code wrongly accepted before is thereby followed
// up by the rightful (in the chain's own view) actors and judged by the clauses.
func (e *nftEnv) epilogue(fl *drv.Flags, w *chain.TraceWriter) {
	if fl.CfgInt("epilogue", 1) == 0 {
		return
	}
	next := func(u string) string {
		for i, x := range e.users {
			if x == u {
				return e.users[(i+1)%len(e.users)]
			}
		}
		return e.users[0]
	}
	tok := sub(sub(e.last, "raw"), "tok")
	var moves, burns, hands []chain.M
	n := 0
	for _, c := range chain.SortedKeys(tok) {
		tm := sub(tok, c)
		for _, id := range chain.SortedKeys(tm) {
			owner := str(tm, id)
			if n >= 6 || !e.canSign(owner) {
				continue
			}
			n++
			moves = append(moves, nftEvent("TransferNFT", owner, c, id, next(owner)))
			burns = append(burns, nftEvent("BurnNFT", next(owner), c, id, ""))
		}
	}
	cls := sub(e.last, "cls")
	for i, c := range chain.SortedKeys(cls) {
		creator := str(sub(cls, c), "creator")
		if i < 4 && e.canSign(creator) {
			hands = append(hands, nftEvent("TransferDenom", creator, c, "", next(creator)))
		}
	}
	for _, blk := range [][]chain.M{moves, append(burns, hands...)} {
		if len(blk) > 0 {
			e.runBlock(blk, w)
		}
	}
}

// nftRun executes one abstract behaviour on a fresh chain.  EndBlock events in
// the input are block boundaries; without any, a block is cut every `perblock`
// events.
func nftRun(fl *drv.Flags, beh []chain.M, w *chain.TraceWriter) {
	var classes, ids []string
	hasEnd := false
	for _, ev := range beh {
		classes = append(classes, chain.Str(ev, "cls"))
		ids = append(ids, chain.Str(ev, "id"))
		hasEnd = hasEnd || chain.Str(ev, "name") == "EndBlock"
	}
	e := newNftEnv(fl, classes, ids, usersIn(beh, "who", "to"))
	e.start(w)
	per := int(fl.CfgInt("perblock", 3))
	var pending []chain.M
	for _, raw := range beh {
		ev := e.norm(raw)
		if chain.Str(ev, "name") == "EndBlock" {
			e.runBlock(pending, w)
			pending = nil
			continue
		}
		if e.msgOf(ev) == nil {
			continue
		}
		pending = append(pending, ev)
		if !hasEnd && len(pending) >= per {
			e.runBlock(pending, w)
			pending = nil
		}
	}
	if len(pending) > 0 {
		e.runBlock(pending, w)
	}
	e.epilogue(fl, w)
}

func nftDriver(mode string, fl *drv.Flags) error {
	w := chain.NewTraceWriter(fl.Out)
	defer w.Close()
	switch mode {
	case "replay":
		for _, beh := range chain.ReadBehaviours(fl.In) {
			nftRun(fl, beh, w)
		}
	case "random":
		rng := rand.New(rand.NewSource(fl.Seed))
		for i := 0; i < fl.N; i++ {
			nftRandom(fl, rng, w)
		}
	default:
		return fmt.Errorf("unknown mode %q", mode)
	}
	return nil
}
