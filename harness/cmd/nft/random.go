package main

import (
	"math/rand"

	"verif/harness/chain"
	"verif/harness/drv"
)

// nftRandom runs one random history.  Events are generated block by block from the last
// observed state of the REAL chain.  Two kinds of events are mixed:
//
//	sensible  entitled actors most of the time, strangers often, transfer to self, burn and
//	          re-mint, handover then mint, every flag combination, sentinel / empty / changed
//	          metadata - the histories that get somewhere;
//	probes    EVERY message type aimed at objects in EVERY life-cycle state (class not issued /
//	          issued with each flag combination / handed over; token never minted / minted /
//	          moved / burned / minted again / existing under another class only), by EVERY role
//	          (token owner, previous owner, class creator, previous creator, stranger, the
//	          module account that cannot sign), with ids of the wrong kind in every id field
//	          (prefixes and extensions of existing ids, ids differing in case only, a token id
//	          that is a class id, the IBC-style class, reserved prefixes, ids at and beyond the
//	          length limit, the sentinel as an id, ids the pattern refuses), the sentinel and
//	          out-of-range values in every metadata field, recipient = sender / module account.
func nftRandom(fl *drv.Flags, rng *rand.Rand, w *chain.TraceWriter) {
	classPool := []string{"cla", "clab", "clA", "cla/x", "clb", "L101"}
	oddClasses := []string{"ab", "Cla", "cl-a", "SENT", "L102", "ibcabc", "tibc-abc", preCls, "pegabc"}
	idPool := []string{"tka", "tkab", "tkA", "tk/a", "tkb", "cla", "L101"}
	oddIds := []string{"ab", "SENT", "L102", "tibc-abc", "1la", preCls}
	e := newNftEnv(fl, append(append([]string{}, classPool...), oddClasses...), append(append([]string{}, idPool...), oddIds...), 0)
	e.start(w)
	// field-specific values (a mix-up of two fields is visible), "" and one value
	// shared by all fields
	vals := map[string][]string{"n": {"na", "nb", "", "x"}, "u": {"ua", "ub", "", "x"},
		"h": {"ha", "hb", "", "x"}, "d": {"da", "db", "", "x"}}
	pick := func(l []string) string { return l[rng.Intn(len(l))] }
	longURI := fl.CfgInt("uri257", 1) != 0
	odd := 40 // one event in odd/3 carries an out-of-range metadata value
	metaArg := func(ev chain.M, pKeep int, allowKeepData bool) {
		for _, f := range []string{"n", "u", "h", "d"} {
			if rng.Intn(100) < pKeep && (f != "d" || allowKeepData) {
				ev[f] = keep
			} else {
				ev[f] = pick(vals[f])
			}
		}
		// values at / beyond a limit, text that is not JSON
		switch rng.Intn(odd) {
		case 0:
			ev["u"] = "u256"
		case 1:
			// a transfer accepts a uri of 257 characters that mint / edit / the module's genesis
			// validation refuse (findings/nft.md N1): only where the driver cfg asks for it, so
			// that histories recorded for the genesis round trip (C12) stay free of it
			if longURI {
				ev["u"] = "u257"
			}
		case 2:
			ev["d"] = "badjson"
		}
	}
	recipient := func() string {
		if rng.Intn(12) == 0 {
			return modAcct
		}
		return pick(e.users)
	}
	// ids related to one another: prefix / extension, case variant
	relatives := map[string][]string{"tka": {"tkab", "tkA"}, "tkab": {"tka"}, "tkA": {"tka"}, "tkb": {"tka"},
		"cla": {"clab", "clA", "cla/x"}, "clab": {"cla"}, "clA": {"cla"}, "cla/x": {"cla"}, "clb": {"cla"}, "L101": {"L102"}}
	relative := func(x string) string {
		if r, ok := relatives[x]; ok {
			return pick(r)
		}
		return x
	}
	// history of the observed chain: who owned a token before, who created a class before
	exOwner := map[string][]string{}   // class|id -> previous owners
	exCreator := map[string][]string{} // class -> previous creators
	everTok := map[string][]string{}   // class -> ids ever seen
	lastOwner := map[string]string{}
	lastCreator := map[string]string{}
	flagSeq := rng.Perm(4)
	issued := 0
	type tk struct{ c, id, owner string }
	for b := 0; b < fl.Len; b++ {
		var pending []chain.M
		cls := sub(e.last, "cls")
		nfts := sub(e.last, "nft")
		have := chain.SortedKeys(cls)
		var toks []tk
		for _, c := range have {
			cr := str(sub(cls, c), "creator")
			if p, ok := lastCreator[c]; ok && p != cr {
				exCreator[c] = append(exCreator[c], p)
			}
			lastCreator[c] = cr
			tm := sub(nfts, c)
			for _, id := range chain.SortedKeys(tm) {
				o := str(sub(tm, id), "owner")
				toks = append(toks, tk{c, id, o})
				key := c + "|" + id
				if p, ok := lastOwner[key]; !ok {
					everTok[c] = append(everTok[c], id)
				} else if p != o {
					exOwner[key] = append(exOwner[key], p)
				}
				lastOwner[key] = o
			}
		}
		creatorOf := func(c string) string { return str(sub(cls, c), "creator") }
		ownerOf := func(c, id string) string { return str(sub(sub(nfts, c), id), "owner") }
		sensible := func() {
			u := pick(e.users)
			x := rng.Intn(100)
			switch {
			case x < 8 || len(have) == 0:
				ev := nftEvent("IssueDenom", u, pick(classPool), "", "")
				fb := flagSeq[issued%4]
				issued++
				ev["mintR"], ev["updateR"] = fb&1 == 1, fb&2 == 2
				ev["cmeta"] = pick([]string{"m", "k"})
				pending = append(pending, ev)
			case x < 38:
				c := pick(have)
				who := u
				if rng.Intn(3) > 0 {
					who = creatorOf(c)
				}
				ev := nftEvent("MintNFT", who, c, pick(idPool), recipient())
				metaArg(ev, 5, rng.Intn(20) == 0)
				pending = append(pending, ev)
			case len(toks) == 0:
				return
			case x < 55:
				t := toks[rng.Intn(len(toks))]
				who := t.owner
				if rng.Intn(3) == 0 {
					who = u
				}
				ev := nftEvent("EditNFT", who, t.c, t.id, "")
				metaArg(ev, 50, true)
				pending = append(pending, ev)
			case x < 78:
				t := toks[rng.Intn(len(toks))]
				who := t.owner
				if rng.Intn(3) == 0 {
					who = u
				}
				to := recipient()
				if rng.Intn(6) == 0 {
					to = who
				}
				ev := nftEvent("TransferNFT", who, t.c, t.id, to)
				if rng.Intn(2) == 0 {
					metaArg(ev, 60, true)
				}
				pending = append(pending, ev)
			case x < 90:
				t := toks[rng.Intn(len(toks))]
				who := t.owner
				if rng.Intn(3) == 0 {
					who = u
				}
				pending = append(pending, nftEvent("BurnNFT", who, t.c, t.id, ""))
			default:
				c := pick(have)
				who := creatorOf(c)
				if rng.Intn(3) == 0 {
					who = u
				}
				to := recipient()
				if rng.Intn(8) == 0 {
					to = who
				}
				pending = append(pending, nftEvent("TransferDenom", who, c, "", to))
			}
		}
		probe := func() {
			name := pick([]string{"IssueDenom", "MintNFT", "EditNFT", "TransferNFT", "BurnNFT", "TransferDenom"})
			// the class: existing, a valid id nobody issued (or a relative of an existing one), an odd one
			var c string
			switch x := rng.Intn(100); {
			case x < 50 && len(have) > 0:
				c = pick(have)
			case x < 62 && len(have) > 0:
				c = relative(pick(have))
			case x < 82:
				c = pick(classPool)
			default:
				c = pick(oddClasses)
			}
			// the token id: existing in this class, burned in this class, existing in another
			// class only, a valid id never minted, an odd one
			var id string
			var here, burned, elsewhere []string
			for _, t := range toks {
				if t.c == c {
					here = append(here, t.id)
				} else {
					elsewhere = append(elsewhere, t.id)
				}
			}
			for _, i := range everTok[c] {
				if ownerOf(c, i) == "" {
					burned = append(burned, i)
				}
			}
			switch x := rng.Intn(100); {
			case x < 30 && len(here) > 0:
				id = pick(here)
			case x < 42 && len(here) > 0:
				id = relative(pick(here))
			case x < 55 && len(burned) > 0:
				id = pick(burned)
			case x < 68 && len(elsewhere) > 0:
				id = pick(elsewhere)
			case x < 88:
				id = pick(idPool)
			default:
				id = pick(oddIds)
			}
			// the role: the token's owner, a previous owner (of a moved or burned token), the owner of
			// the same id under another class, an owner of some token of the class, the class's
			// creator, a previous creator, anybody, the module account
			var roles []string
			key := c + "|" + id
			switch x := rng.Intn(100); {
			case x < 22:
				roles = append(roles, ownerOf(c, id))
			case x < 40:
				roles = append(roles, exOwner[key]...)
				if ownerOf(c, id) == "" {
					roles = append(roles, lastOwner[key])
				}
			case x < 48:
				for _, t := range toks {
					if t.id == id && t.c != c {
						roles = append(roles, t.owner)
					}
				}
			case x < 56:
				for _, t := range toks {
					if t.c == c {
						roles = append(roles, t.owner)
					}
				}
			case x < 72:
				roles = append(roles, creatorOf(c))
			case x < 82:
				roles = append(roles, exCreator[c]...)
			case x < 88:
				roles = append(roles, modAcct)
			}
			var cand []string
			for _, r := range roles {
				if r != "" {
					cand = append(cand, r)
				}
			}
			if len(cand) == 0 {
				cand = e.users
			}
			who := pick(cand)
			to := recipient()
			if rng.Intn(6) == 0 {
				to = who
			}
			ev := nftEvent(name, who, c, id, to)
			odd = 9
			defer func() { odd = 40 }()
			switch name {
			case "IssueDenom":
				ev["id"], ev["to"] = "", ""
				ev["mintR"], ev["updateR"] = rng.Intn(2) == 0, rng.Intn(2) == 0
				ev["cmeta"] = pick([]string{"m", "k"})
			case "MintNFT":
				metaArg(ev, 10, rng.Intn(10) == 0)
			case "EditNFT":
				ev["to"] = ""
				metaArg(ev, 60, true)
			case "TransferNFT":
				if rng.Intn(2) == 0 {
					metaArg(ev, 70, true)
				}
			case "BurnNFT":
				ev["to"] = ""
			case "TransferDenom":
				ev["id"] = ""
			}
			pending = append(pending, ev)
		}
		n := 1 + rng.Intn(4)
		for j := 0; j < n; j++ {
			if rng.Intn(100) < int(fl.CfgInt("probe", 35)) {
				probe()
			} else {
				sensible()
			}
		}
		e.runBlock(pending, w)
	}
	e.epilogue(fl, w)
}
