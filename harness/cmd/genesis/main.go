// Command harness-genesis (C12): genesis export / import round trips of the real
// application.
//
//	roundtrip -cfg rec=<a.rec>:<b.rec>,every=K[,cont=M][,at=H][,boundary=B] -out trace
//	    replays each recording byte-for-byte on a fresh application (as the
//	    replica harness does); after every K-th block and after the last one, in
//	    up to B times per recording when something falls due in the next block
//	    (boundary heights), in both modes (as-is, and after the modules'
//	    prepare-for-zero-height steps),
//	    the state is exported, imported into a fresh application, exported again
//	    and queried through the modules' gRPC query servers on both sides.  An
//	    as-is import is then continued with the recorded blocks that follow.
//	scenario -cfg name=<scenario>|all|list|pending[,v=1][,dump=<module>][,keep=<dir>] -out trace
//	    scripted histories (known findings, boundary object states, the walk over
//	    the validation rules), round-tripped the same way; "list" / "all" = the
//	    registered set, "pending" = scenarios of refusals not recorded as findings
//	    yet (they run only when named; none at present).
//
// Trace lines (ReplicaTrace style, validated by GenesisTrace.tla):
//
//	Init              a new history (rec = recording / scenario name)
//	Block             the source executed block h
//	GenesisRoundTrip  export at h in mode, import, re-export, queries
//	Continuation      the as-is import of height h0 executed the recorded blocks
//	                  up to h and is compared with the source at h
package main

import (
	"crypto/sha256"
	"encoding/hex"
	"encoding/json"
	"fmt"
	"path/filepath"
	"sort"
	"strings"
	"time"

	storetypes "cosmossdk.io/store/types"
	abci "github.com/cometbft/cometbft/abci/types"
	tmbytes "github.com/cometbft/cometbft/libs/bytes"
	cmtproto "github.com/cometbft/cometbft/proto/tendermint/types"
	sdk "github.com/cosmos/cosmos-sdk/types"

	"verif/harness/chain"
	"verif/harness/drv"

	htlc "mods.irisnet.org/modules/htlc"
	oracle "mods.irisnet.org/modules/oracle"
	random "mods.irisnet.org/modules/random"
	service "mods.irisnet.org/modules/service"
	servicetypes "mods.irisnet.org/modules/service/types"
)

func main() { drv.Main("genesis", driver) }

const (
	modeAsIs = "asis"
	modeZero = "zeroheight"
)

// ZeroHeightPrep runs the irismod modules' own prepare-for-zero-height steps
// (the four modules that have one), as an application does before a restart
// export.
func ZeroHeightPrep(c *chain.Chain) func(ctx sdk.Context) {
	return func(ctx sdk.Context) {
		htlc.PrepForZeroHeightGenesis(ctx, c.K.HTLC)
		random.PrepForZeroHeightGenesis(ctx, c.K.Random)
		service.PrepForZeroHeightGenesis(ctx, c.K.Service)
		oracle.PrepForZeroHeightGenesis(ctx, c.K.Oracle)
	}
}

// ---------------------------------------------------------------------------
// trace events: flat records with a fixed set of fields

func boolMap(v bool) chain.M {
	m := chain.M{}
	for _, x := range Modules {
		m[x] = v
	}
	return m
}

func listMap() chain.M {
	m := chain.M{}
	for _, x := range Modules {
		m[x] = []any{}
	}
	return m
}

func strMap() chain.M {
	m := chain.M{}
	for _, x := range Modules {
		m[x] = ""
	}
	return m
}

func numMap() chain.M {
	m := chain.M{}
	for _, x := range Modules {
		m[x] = int64(0)
	}
	return m
}

func newEv(name, rec string, h int64) chain.M {
	// field names are chosen so that "name" comes early in the (key-sorted) line:
	// the bulky per-module results live under "res"
	return chain.M{"name": name, "rec": rec, "h": h, "h0": int64(0), "mode": "", "ntx": int64(0), "halt": false,
		"exported": true, "accepted": true, "stage": "", "invariants_ok": true, "culprit": "",
		"results_equal": true, "nblocks": int64(0), "res": chain.M{}}
}

// newResEv is an event that carries per-module results (round trip, continuation).
func newResEv(name, rec string, h int64) chain.M {
	e := newEv(name, rec, h)
	e["res"] = chain.M{"err": "", "broken": []any{}, "fixpoint": boolMap(true), "durable": boolMap(true),
		"lost": listMap(), "diff": listMap(), "nobj": numMap(), "kind": strMap(), "kinds": listMap(),
		"due_now": boolMap(false), "due_next": boolMap(false), "randoms_src": int64(0), "randoms_lost": int64(0)}
	return e
}

func rs(e chain.M) chain.M { return e["res"].(chain.M) }

// ---------------------------------------------------------------------------

func readCtx(c *chain.Chain, committed bool, h int64, t time.Time) sdk.Context {
	hdr := cmtproto.Header{ChainID: chain.ChainID, Height: h, Time: t}
	var ctx sdk.Context
	if committed {
		ctx = c.App.NewUncachedContext(false, hdr)
	} else {
		// state written by InitChain lives in the finalize-block branch until the
		// first block commits
		ctx = c.App.NewContextLegacy(false, hdr)
	}
	return ctx.WithGasMeter(storetypes.NewInfiniteGasMeter())
}

// exportAt exports the whole application state as genesis from a cache branch
// of ctx (nothing is written).
func exportAt(c *chain.Chain, ctx sdk.Context, zero bool) (gs map[string]json.RawMessage, err error) {
	defer func() {
		if r := recover(); r != nil {
			err = fmt.Errorf("export panic: %v", r)
		}
	}()
	cctx, _ := ctx.CacheContext()
	if zero {
		ZeroHeightPrep(c)(cctx)
	}
	return c.App.ModuleManager.ExportGenesisForModules(cctx, c.App.AppCodec(), nil)
}

// importGenesis builds a fresh application from exported genesis (InitChain
// only; the first block is run by the caller).
func importGenesis(bz []byte, ih int64, t time.Time, profile string) (c *chain.Chain, errs string) {
	defer func() {
		if r := recover(); r != nil {
			c, errs = nil, fmt.Sprint(r)
		}
	}()
	o := chain.Options{GenesisBytes: bz, InitialHeight: ih, GenesisTime: t, NoFirstBlock: true, NoPostHandler: true}
	providersFor(profile, &o)
	return chain.New(o), ""
}

// invariants runs every invariant registered with the crisis keeper (the
// application skips them at genesis time, DESIGN F16) and returns the broken
// routes.
func invariants(c *chain.Chain, ctx sdk.Context) (broken []string) {
	defer func() {
		if r := recover(); r != nil {
			broken = append(broken, "panic:"+short(fmt.Sprint(r), 80))
		}
	}()
	cctx, _ := ctx.CacheContext()
	for _, ir := range c.App.CrisisKeeper.Routes() {
		if _, stop := ir.Invar(cctx); stop {
			broken = append(broken, ir.ModuleName+"/"+ir.Route)
		}
	}
	return broken
}

func resultsDigest(txs []*abci.ExecTxResult) string {
	h := sha256.New()
	for _, t := range txs {
		fmt.Fprintf(h, "%d|%s|%x\n", t.Code, t.Codespace, t.Data)
	}
	return hex.EncodeToString(h.Sum(nil))[:24]
}

func shortIDs(ids []string) []any {
	sort.Strings(ids)
	out := []any{}
	for i, id := range ids {
		if i == 4 {
			out = append(out, fmt.Sprintf("+%d", len(ids)-4))
			break
		}
		if len(id) > 48 {
			id = id[:48]
		}
		out = append(out, id)
	}
	return out
}

// compareAnswers fills durable / lost / diff / nobj of an event.
func compareAnswers(e chain.M, qs []objQuery, want, got Answers) {
	dur, lost, diff, nobj := rs(e)["durable"].(chain.M), rs(e)["lost"].(chain.M), rs(e)["diff"].(chain.M), rs(e)["nobj"].(chain.M)
	l, d := map[string][]string{}, map[string][]string{}
	for _, q := range qs {
		if q.object {
			nobj[q.mod] = nobj[q.mod].(int64) + 1
		}
		w, g := want[q.mod][q.id], got[q.mod][q.id]
		if w == g || (w == zhRefunded && (strings.HasPrefix(g, "ERR ") || g == `{"fees":[]}`)) {
			continue
		}
		dur[q.mod] = false
		if isMissing(q.mod, g) && !isMissing(q.mod, w) {
			l[q.mod] = append(l[q.mod], q.id)
		} else {
			d[q.mod] = append(d[q.mod], q.id)
		}
		if verbose {
			fmt.Printf("  [%s] %s\n    source:   %s\n    imported: %s\n", q.mod, q.id, short(w, 1500), short(g, 1500))
		}
	}
	kind, kinds := rs(e)["kind"].(chain.M), rs(e)["kinds"].(chain.M)
	for _, m := range Modules {
		// kind: the object class of the first answer that differs; lost objects
		// first.  kinds: every object class with a differing answer — known
		// findings are keyed by (module, class), so that a known difference in one
		// class of answers never hides a difference in another class of the same
		// module on the same event
		all := append(append([]string{}, l[m]...), d[m]...)
		if len(all) > 0 {
			sort.Strings(l[m])
			sort.Strings(d[m])
			first := append(append([]string{}, l[m]...), d[m]...)[0]
			kind[m] = strings.SplitN(first, "/", 2)[0]
			seen, ks := map[string]bool{}, []string{}
			for _, id := range all {
				if k := answerClass(strings.SplitN(id, "/", 2)[0]); !seen[k] {
					seen[k] = true
					ks = append(ks, k)
				}
			}
			sort.Strings(ks)
			var kl []any
			for _, k := range ks {
				kl = append(kl, k)
			}
			kinds[m] = kl
		}
	}
	for m, ids := range l {
		lost[m] = shortIDs(ids)
	}
	for m, ids := range d {
		diff[m] = shortIDs(ids)
	}
}

// answerClass: the object class an answer is about; the list answers of a
// module ("pools", "tokensof/<owner>") belong to the class of their elements.
func answerClass(prefix string) string {
	switch prefix {
	case "pools":
		return "pool"
	case "feeds":
		return "feed"
	case "tokens", "tokensof", "tokenbyunit":
		return "token"
	case "classes":
		return "class"
	case "bindings":
		return "binding"
	case "mts":
		return "mt"
	case "supplies":
		return "supply"
	}
	return prefix
}

var verbose bool

// dumpMod (cfg dump=<module>): print that module's section of every as-is export
// (for writing scenarios: shows which states a history really reaches).
var dumpMod string

// ---------------------------------------------------------------------------

// live is an as-is import that keeps executing the recorded blocks.
type live struct {
	c       *chain.Chain
	h0      int64
	left    int64 // blocks still to run; <0 = to the end
	nblocks int64
	dueNow  chain.M
	dueNext chain.M
}

type session struct {
	w       *chain.TraceWriter
	name    string
	profile string
	src     *chain.Chain
	lives   []*live
	cont    int64
}

// roundTrip performs export -> import -> re-export -> queries at the source's
// current height.  An accepted as-is import is returned for continuation.
func (s *session) roundTrip(mode string, nextHasAuthority bool) *live {
	src := s.src
	h, t := src.Height, src.Time
	e := newResEv("GenesisRoundTrip", s.name, h)
	e["mode"] = mode
	zero := mode == modeZero
	fail := func(stage, msg string) *live {
		e["stage"], rs(e)["err"] = stage, short(msg, 240)
		if verbose {
			fmt.Printf("[%s h=%d %s] %s: %s\n", s.name, h, mode, stage, short(msg, 2000))
		}
		s.w.Write(e, chain.M{})
		return nil
	}
	srcCtx := src.Ctx()
	qs := Universe(src, srcCtx)
	dueNow, dueNext := dueInfo(src, srcCtx)
	rs(e)["due_now"], rs(e)["due_next"] = dueNow, dueNext
	// count objects even when the round trip breaks early
	nobj := rs(e)["nobj"].(chain.M)
	for _, q := range qs {
		if q.object {
			nobj[q.mod] = nobj[q.mod].(int64) + 1
		}
	}

	// (a) export
	gs, err := src.ExportGenesis(zero, ZeroHeightPrep(src))
	if err != nil {
		e["exported"], e["accepted"] = false, false
		rs(e)["fixpoint"], rs(e)["durable"] = boolMap(false), boolMap(false)
		return fail("export", err.Error())
	}
	// the whole export (cosmos-sdk sections included: auth accounts with their
	// numbers and sequences, bank balances and supply, staking with the bonded
	// validator, distribution, ...) is imported as it is — no section needed an
	// adjustment; InitChain is given an empty validator list, as an application
	// restarted from an export is
	bz, err := json.Marshal(gs)
	if err != nil {
		e["exported"], e["accepted"] = false, false
		return fail("export", err.Error())
	}
	if dumpMod != "" && !zero {
		fmt.Printf("[%s h=%d] exported %s: %s\n", s.name, h, dumpMod, string(gs[dumpMod]))
	}

	// (b) import into a fresh application
	ih := h + 1
	if zero {
		ih = 1
	}
	imp, errs := importGenesis(bz, ih, t, s.profile)
	if imp == nil {
		e["accepted"] = false
		rs(e)["fixpoint"], rs(e)["durable"] = boolMap(false), boolMap(false)
		e["culprit"] = s.culprit(gs, ih, t)
		if known, holds := reasonHolds(src, gs, errs); known && !holds {
			errs = refutedMark + errs
		}
		return fail("initchain", errs)
	}
	// the imported state is read at the source's height and time so that answers
	// that depend on the block height (pending rewards) are comparable; the
	// zero-height chain restarts at height 1
	rh := h
	if zero {
		rh = 1
	}
	impCtx := readCtx(imp, false, h, t)
	expCtx := readCtx(imp, false, rh, t)

	// (c) export again in the same mode: fixpoint per irismod module
	gs2, err := exportAt(imp, expCtx, zero)
	fix := rs(e)["fixpoint"].(chain.M)
	if err != nil {
		rs(e)["fixpoint"] = boolMap(false)
		rs(e)["err"] = short("re-export: "+err.Error(), 240)
	} else {
		for _, m := range Modules {
			a, b := canonModule(m, gs[m]), canonModule(m, gs2[m])
			fix[m] = a == b
			if a != b && verbose {
				fmt.Printf("[%s h=%d %s] fixpoint %s\n  export:    %s\n  re-export: %s\n", s.name, h, mode, m, short(a, 3000), short(b, 3000))
			}
		}
	}

	// (d) the gRPC queries about every durable object of the source
	want := evalAll(src, srcCtx, qs, 0)
	shift := int64(0)
	if zero {
		shift = h - 1
		want = rebaseAnswers(want, h)
	}
	got := evalAll(imp, impCtx, qs, shift)
	rs(e)["nobj"] = numMap()
	compareAnswers(e, qs, want, got)

	// diagnostic only: generated random numbers are not in the property's list
	// of durable objects and the random module does not export them
	have := map[string]bool{}
	for _, id := range generatedRandoms(imp, impCtx) {
		have[id] = true
	}
	for _, id := range generatedRandoms(src, srcCtx) {
		rs(e)["randoms_src"] = rs(e)["randoms_src"].(int64) + 1
		if !have[id] {
			rs(e)["randoms_lost"] = rs(e)["randoms_lost"].(int64) + 1
		}
	}

	// the registered invariants (skipped by the application at genesis time)
	if br := invariants(imp, impCtx); len(br) > 0 {
		e["invariants_ok"] = false
		var l []any
		for _, b := range br {
			l = append(l, b)
		}
		rs(e)["broken"] = l
	}

	// the chain must also be able to run: the first block is an empty one,
	// except for an as-is import that is going to be continued with the
	// recorded blocks (its first block is then the next recorded block)
	lv := &live{c: imp, h0: h, left: s.cont, dueNow: dueNow, dueNext: dueNext}
	if zero || s.cont == 0 || nextHasAuthority {
		res := imp.RunRawBlock(ih, t.Add(5*time.Second), nil)
		if res.Halt {
			e["accepted"] = false
			return fail("firstblock", res.HaltMsg)
		}
		lv = nil
	}
	if verbose {
		fmt.Printf("[%s h=%d %s] ok nobj=%v\n", s.name, h, mode, rs(e)["nobj"])
	}
	s.w.Write(e, chain.M{})
	return lv
}

// culprit finds the irismod module whose genesis section makes InitChain fail:
// the import is retried with one module's section replaced by that module's
// default genesis; the (first) module whose replacement makes the import
// succeed is the culprit.  "" when no single module is responsible.
func (s *session) culprit(gs map[string]json.RawMessage, ih int64, t time.Time) string {
	def := s.src.App.DefaultGenesis()
	try := func(mods ...string) bool {
		alt := map[string]json.RawMessage{}
		for k, v := range gs {
			alt[k] = v
		}
		for _, m := range mods {
			alt[m] = def[m]
		}
		bz, err := json.Marshal(alt)
		if err != nil {
			return false
		}
		c, _ := importGenesis(bz, ih, t, s.profile)
		return c != nil
	}
	for _, m := range Modules {
		if try(m) {
			return m
		}
	}
	// oracle feeds and random requests refer to service request contexts: the
	// service section can only be replaced together with its dependants
	if try("service", "oracle", "random") {
		return "service"
	}
	return ""
}

// stepLives runs the block the source just executed on every continued import
// and compares it with the source.  A continuation ends, with one Continuation
// event,
//   - when the import halts,
//   - at the first height where a query about a durable object of the source is
//     answered differently (the clause fails there),
//   - when the transaction results of a block differ from the source's (from
//     then on the two chains no longer execute the same history; the durable
//     answers were equal up to the block before — logged, not a verdict: a
//     re-imported chain has different app hashes, which the random module feeds
//     into its choices),
//   - after cont blocks, or at the end of the history.
func (s *session) stepLives(b *chain.RecBlock, srcRes chain.RawResult, last bool) {
	if len(s.lives) == 0 {
		return
	}
	src := s.src
	srcCtx := src.Ctx()
	qs := Universe(src, srcCtx)
	want := evalAll(src, srcCtx, qs, 0)
	skip := appHashDependent(src, srcCtx)
	var keep []*live
	for _, lv := range s.lives {
		for _, a := range b.Authority {
			lv.c.AuthorityJSON(a)
		}
		res := lv.c.RunRawBlock(b.Height, time.Unix(0, b.UnixNs).UTC(), b.RawTxs())
		lv.nblocks++
		if lv.left > 0 {
			lv.left--
		}
		e := newResEv("Continuation", s.name, src.Height)
		e["mode"], e["h0"], e["nblocks"] = modeAsIs, lv.h0, lv.nblocks
		rs(e)["due_now"], rs(e)["due_next"] = lv.dueNow, lv.dueNext
		if res.Halt {
			e["halt"], e["accepted"], e["stage"], rs(e)["err"] = true, false, "continue", short(res.HaltMsg, 240)
			rs(e)["durable"] = boolMap(false)
			s.w.Write(e, chain.M{})
			continue
		}
		if resultsDigest(res.Txs) != resultsDigest(srcRes.Txs) {
			if verbose {
				for i := range res.Txs {
					if i < len(srcRes.Txs) && (res.Txs[i].Code != srcRes.Txs[i].Code || string(res.Txs[i].Data) != string(srcRes.Txs[i].Data)) {
						fmt.Printf("[%s continuation from %d] first differing tx result at height %d tx %d:\n    source:   code=%d %s\n    imported: code=%d %s\n",
							s.name, lv.h0, b.Height, i, srcRes.Txs[i].Code, short(srcRes.Txs[i].Log, 300), res.Txs[i].Code, short(res.Txs[i].Log, 300))
						break
					}
				}
			}
			// durable answers were equal after every earlier block
			e["results_equal"] = false
			s.w.Write(e, chain.M{})
			continue
		}
		var cq []objQuery
		for _, q := range qs {
			if !skip[q.mod] {
				cq = append(cq, q)
			}
		}
		got := evalAll(lv.c, lv.c.Ctx(), cq, 0)
		if verbose {
			fmt.Printf("[%s continuation %d -> %d]\n", s.name, lv.h0, src.Height)
		}
		compareAnswers(e, cq, want, got)
		differs := false
		for _, m := range Modules {
			if !rs(e)["durable"].(chain.M)[m].(bool) {
				differs = true
			}
		}
		if br := invariants(lv.c, lv.c.Ctx()); len(br) > 0 {
			e["invariants_ok"] = false
			var l []any
			for _, x := range br {
				l = append(l, x)
			}
			rs(e)["broken"] = l
		}
		if differs || lv.left == 0 || last {
			s.w.Write(e, chain.M{})
			continue
		}
		keep = append(keep, lv)
	}
	s.lives = keep
}

// appHashDependent: modules whose behaviour on a continued import legitimately
// differs from the source because it depends on the application hash (a
// re-imported chain has a different store history, hence different app hashes):
// the random module seeds its choice of the service provider for oracle-backed
// requests with ctx.BlockHeader().AppHash.  While the source holds request
// contexts created by the random module, service and random objects are not
// compared on continuations.
func appHashDependent(c *chain.Chain, ctx sdk.Context) map[string]bool {
	out := map[string]bool{}
	defer func() { recover() }()
	c.K.Service.IterateRequestContexts(ctx, func(_ tmbytes.HexBytes, rc servicetypes.RequestContext) bool {
		if rc.ModuleName == "random" {
			out["service"], out["random"] = true, true
			return true
		}
		return false
	})
	return out
}

// runRecording replays one recording with round trips every K blocks.
//
// marks, when not nil, replaces the every-K rule: a round trip is taken after
// exactly the marked heights (scenarios mark the blocks in which they did
// something and leave their waiting loops unmarked), plus the boundary heights
// and the last block.
func runRecording(w *chain.TraceWriter, path string, every, cont, at, extra int64, marks map[int64]bool) error {
	rec, err := chain.ReadRecording(path)
	if err != nil {
		return err
	}
	o := chain.Options{
		GenesisBytes:  rec.GenesisBytes(),
		GenesisTime:   time.Unix(0, rec.Header.GenesisUnixNs).UTC(),
		InitialHeight: rec.Header.InitialHeight,
		NoFirstBlock:  true,
		NoPostHandler: true,
	}
	providersFor(rec.Header.Profile, &o)
	s := &session{w: w, name: filepath.Base(path), profile: rec.Header.Profile, cont: cont}
	s.src = chain.New(o)
	init := newEv("Init", s.name, 0)
	w.Write(init, chain.M{})
	for i := range rec.Blocks {
		b := &rec.Blocks[i]
		for _, a := range b.Authority {
			s.src.AuthorityJSON(a)
		}
		raw := b.RawTxs()
		res := s.src.RunRawBlock(b.Height, time.Unix(0, b.UnixNs).UTC(), raw)
		e := newEv("Block", s.name, b.Height)
		e["ntx"] = int64(len(raw))
		if res.Halt {
			e["halt"], e["stage"] = true, short(res.HaltMsg, 120)
			w.Write(e, chain.M{})
			break
		}
		w.Write(e, chain.M{})
		last := i == len(rec.Blocks)-1
		s.stepLives(b, res, last)
		due := (int64(i)+1)%every == 0 || last
		if marks != nil {
			due = marks[b.Height] || last
		}
		if !due && extra > 0 {
			// boundary heights: something falls due in the very next block
			_, next := dueInfo(s.src, s.src.Ctx())
			for _, v := range next {
				if v.(bool) {
					due = true
				}
			}
			if due {
				extra--
			}
		}
		if at > 0 {
			due = b.Height == at
		}
		if !due {
			continue
		}
		nextAuth := !last && len(rec.Blocks[i+1].Authority) > 0
		for _, mode := range []string{modeAsIs, modeZero} {
			if lv := s.roundTrip(mode, nextAuth || last); lv != nil {
				s.lives = append(s.lives, lv)
			}
		}
	}
	return nil
}

func driver(mode string, fl *drv.Flags) error {
	w := chain.NewTraceWriter(fl.Out)
	defer w.Close()
	verbose = fl.CfgInt("v", 0) == 1
	dumpMod = fl.CfgStr("dump", "")
	switch mode {
	case "roundtrip":
		every := fl.CfgInt("every", 5)
		if every < 1 {
			every = 1
		}
		for _, rp := range strings.Split(fl.CfgStr("rec", ""), ":") {
			if rp == "" {
				continue
			}
			if err := runRecording(w, rp, every, fl.CfgInt("cont", -1), fl.CfgInt("at", 0), fl.CfgInt("boundary", 3), nil); err != nil {
				return err
			}
		}
		return nil
	case "zhprobe":
		return zhProbe()
	case "scenario":
		return runScenarios(w, fl.CfgStr("name", "all"), fl.CfgStr("keep", ""))
	}
	return fmt.Errorf("unknown mode %q", mode)
}
