package main

import (
	"crypto/sha256"
	"encoding/hex"
	"fmt"
	"time"

	sdkmath "cosmossdk.io/math"
	sdk "github.com/cosmos/cosmos-sdk/types"
	banktypes "github.com/cosmos/cosmos-sdk/x/bank/types"

	"verif/harness/chain"

	coinswaptypes "mods.irisnet.org/modules/coinswap/types"
	farmtypes "mods.irisnet.org/modules/farm/types"
	htlctypes "mods.irisnet.org/modules/htlc/types"
	mttypes "mods.irisnet.org/modules/mt/types"
	nfttypes "mods.irisnet.org/modules/nft/types"
	servicetypes "mods.irisnet.org/modules/service/types"
	tokenv1 "mods.irisnet.org/modules/token/types/v1"
	"mods.irisnet.org/simapp"
)

// Boundary object states: objects that were emptied, closed, disabled or
// fulfilled but still exist (or just ceased to exist) next to live ones — the
// states in which export, validation and import disagree most easily.

// soft runs a block whose transactions may fail (the scenario only needs the
// chain to get into whatever state the real code allows).
func soft(c *chain.Chain, txs ...chain.Tx) chain.BlockResult {
	r := c.RunBlock(tick, txs)
	if r.Halt {
		panic("scenario block halted: " + r.HaltMsg)
	}
	if verbose {
		for i, t := range r.Txs {
			if !t.OK {
				fmt.Printf("[scenario] soft tx %d at height %d refused (%s): %s\n", i, r.Height, t.Stage, short(t.Log, 300))
			}
		}
	}
	mark(c)
	return r
}

func init() {
	scenarios = append(scenarios, []scenario{
		{
			// an MT fully burned (supply 0), a holder who transferred all units of
			// one MT away but keeps another, a holder who holds nothing any more
			name:     "mt_boundary",
			accounts: map[string]string{"a": rich, "b": rich},
			run: func(c *chain.Chain) {
				blk(c, tx("a", &mttypes.MsgIssueDenom{Name: "mtc", Data: []byte("d"), Sender: addr(c, "a")}))
				did := c.K.MT.GetDenoms(c.Ctx())[0].Id
				blk(c, tx("a", &mttypes.MsgMintMT{DenomId: did, Amount: 5, Data: []byte("A"), Sender: addr(c, "a"), Recipient: addr(c, "a")}),
					tx("a", &mttypes.MsgMintMT{DenomId: did, Amount: 3, Data: []byte("B"), Sender: addr(c, "a"), Recipient: addr(c, "a")}),
					tx("a", &mttypes.MsgMintMT{DenomId: did, Amount: 4, Data: []byte("C"), Sender: addr(c, "a"), Recipient: addr(c, "b")}))
				idOf := func(owner string, amount uint64) string {
					r, err := c.K.MT.Balances(c.Ctx(), &mttypes.QueryBalancesRequest{Owner: addr(c, owner), DenomId: did, Pagination: page()})
					if err != nil {
						panic(err)
					}
					for _, bal := range r.Balance {
						if bal.Amount == amount {
							return bal.MtId
						}
					}
					panic(fmt.Sprintf("mt_boundary: no mt of amount %d held by %s", amount, owner))
				}
				mtA, mtB, mtC := idOf("a", 5), idOf("a", 3), idOf("b", 4)
				// a is emptied of mtA but keeps mtB
				blk(c, tx("a", &mttypes.MsgTransferMT{Id: mtA, DenomId: did, Amount: 5, Sender: addr(c, "a"), Recipient: addr(c, "b")}))
				blk(c)
				// mtC is burned completely
				blk(c, tx("b", &mttypes.MsgBurnMT{Id: mtC, DenomId: did, Amount: 4, Sender: addr(c, "b")}))
				blk(c)
				// a holds nothing in the class any more
				blk(c, tx("a", &mttypes.MsgTransferMT{Id: mtB, DenomId: did, Amount: 3, Sender: addr(c, "a"), Recipient: addr(c, "b")}))
				blk(c)
				// and something is minted again afterwards (sequence reconstruction)
				blk(c, tx("a", &mttypes.MsgMintMT{DenomId: did, Amount: 2, Data: []byte("D"), Sender: addr(c, "a"), Recipient: addr(c, "a")}))
				blk(c)
			},
		},
		{
			// a class whose tokens were all burned; a token burned and minted again
			name:     "nft_boundary",
			accounts: map[string]string{"a": rich, "b": rich},
			run: func(c *chain.Chain) {
				issue := func(id string) sdk.Msg {
					return &nfttypes.MsgIssueDenom{Id: id, Name: "Class " + id, Schema: "{}", Sender: addr(c, "a"), Symbol: id,
						Description: "d", Uri: "u", UriHash: "h", Data: `{"k":"v"}`}
				}
				mint := func(class, id, to string) sdk.Msg {
					return &nfttypes.MsgMintNFT{Id: id, DenomId: class, Name: "n", URI: "u", Data: `{"k":1}`, Sender: addr(c, "a"), Recipient: addr(c, to)}
				}
				blk(c, tx("a", issue("class1")), tx("a", issue("class2")))
				blk(c, tx("a", mint("class1", "tok1", "a")), tx("a", mint("class2", "tokx", "b")), tx("a", mint("class1", "tok2", "b")))
				blk(c)
				blk(c, tx("a", &nfttypes.MsgBurnNFT{Id: "tok1", DenomId: "class1", Sender: addr(c, "a")}),
					tx("b", &nfttypes.MsgBurnNFT{Id: "tokx", DenomId: "class2", Sender: addr(c, "b")}))
				blk(c)
				blk(c, tx("a", mint("class1", "tok1", "b")))
				blk(c, tx("b", &nfttypes.MsgTransferNFT{Id: "tok1", DenomId: "class1", Name: "[do-not-modify]", URI: "[do-not-modify]",
					Data: "[do-not-modify]", UriHash: "[do-not-modify]", Sender: addr(c, "b"), Recipient: addr(c, "a")}))
				blk(c)
			},
		},
		{
			// completed and refunded contracts next to an open one
			name:     "htlc_boundary",
			accounts: map[string]string{"a": rich, "b": rich},
			every:    12, boundary: 4,
			run: func(c *chain.Chain) {
				mk := func(i int, lockBlocks uint64) (sdk.Msg, string, string) {
					secret := sha256.Sum256([]byte(fmt.Sprintf("verif-boundary-%d", i)))
					ts := uint64(1700000100 + i)
					lock := htlctypes.GetHashLock(secret[:], ts)
					amt := coins(fmt.Sprintf("%dstake", 10+i))
					id := htlctypes.GetID(c.Accts["a"].Addr, c.Accts["b"].Addr, amt, lock)
					return &htlctypes.MsgCreateHTLC{Sender: addr(c, "a"), To: addr(c, "b"), Amount: amt,
						HashLock: hex.EncodeToString(lock), Timestamp: ts, TimeLock: lockBlocks, Transfer: false}, hex.EncodeToString(id), hex.EncodeToString(secret[:])
				}
				m1, id1, s1 := mk(1, 50)
				m2, _, _ := mk(2, 50)
				m3, _, _ := mk(3, 70)
				blk(c, tx("a", m1), tx("a", m2), tx("a", m3))
				blk(c)
				blk(c, tx("b", &htlctypes.MsgClaimHTLC{Sender: addr(c, "b"), Id: id1, Secret: s1}))
				// the second contract expires and is refunded, the third stays open
				for i := 0; i < 53; i++ {
					blk(c)
				}
			},
		},
		{
			// a token whose whole supply was burned; a non-mintable token at its cap
			name:     "token_boundary",
			accounts: map[string]string{"a": rich},
			run: func(c *chain.Chain) {
				blk(c, tx("a", &tokenv1.MsgIssueToken{Symbol: "zero", Name: "Burned Token", Scale: 0, MinUnit: "zero",
					InitialSupply: 5, MaxSupply: 10, Mintable: true, Owner: addr(c, "a")}),
					tx("a", &tokenv1.MsgIssueToken{Symbol: "capd", Name: "Capped Token", Scale: 2, MinUnit: "capdmin",
						InitialSupply: 10, MaxSupply: 10, Mintable: false, Owner: addr(c, "a")}))
				blk(c)
				blk(c, tx("a", &tokenv1.MsgBurnToken{Coin: sdk.NewInt64Coin("zero", 5), Sender: addr(c, "a")}))
				blk(c)
				blk(c)
			},
		},
		{
			// a pool emptied (all liquidity removed) and funded again
			name:     "coinswap_boundary",
			accounts: map[string]string{"a": rich},
			run: func(c *chain.Chain) {
				lpSetup(c, "a")
				blk(c)
				all := c.App.BankKeeper.GetBalance(c.Ctx(), c.Accts["a"].Addr, "lpt-1")
				blk(c, tx("a", &coinswaptypes.MsgRemoveLiquidity{WithdrawLiquidity: all, MinToken: sdkmath.OneInt(),
					MinStandardAmt: sdkmath.OneInt(), Deadline: c.Time.Add(time.Hour).Unix(), Sender: addr(c, "a")}))
				blk(c)
				amt, _ := sdkmath.NewIntFromString("2000000000000000000")
				soft(c, tx("a", &coinswaptypes.MsgAddLiquidity{MaxToken: sdk.NewCoin("btc", amt), ExactStandardAmt: amt,
					MinLiquidity: sdkmath.OneInt(), Deadline: c.Time.Add(time.Hour).Unix(), Sender: addr(c, "a")}))
				blk(c)
				blk(c)
			},
		},
		{
			// a completed context, earned fees withdrawn to zero, a binding
			// disabled and its deposit refunded
			name:     "service_boundary",
			accounts: map[string]string{"a": rich, "p": rich, "q": rich},
			mutate: func(c *chain.Chain, gs simapp.GenesisState) {
				cdc := c.App.AppCodec()
				var sg servicetypes.GenesisState
				cdc.MustUnmarshalJSON(gs[servicetypes.ModuleName], &sg)
				sg.Params.ArbitrationTimeLimit = 5 * time.Second
				sg.Params.ComplaintRetrospect = 5 * time.Second
				gs[servicetypes.ModuleName] = cdc.MustMarshalJSON(&sg)
			},
			run: func(c *chain.Chain) {
				defineAndBind(c, "echo", "p")
				blk(c, tx("q", &servicetypes.MsgBindService{ServiceName: "echo", Provider: addr(c, "q"),
					Deposit: coins("50000stake"), Pricing: `{"price":"50stake"}`, QoS: 1, Options: "{}", Owner: addr(c, "q")}))
				blk(c, tx("a", &servicetypes.MsgCallService{ServiceName: "echo", Providers: []string{addr(c, "p")},
					Consumer: addr(c, "a"), Input: svcInput, ServiceFeeCap: coins("50stake"), Timeout: 2}))
				blk(c, respondAll(c, "echo", "p", 1)...)
				blk(c)
				blk(c, tx("q", &servicetypes.MsgDisableServiceBinding{ServiceName: "echo", Provider: addr(c, "q"), Owner: addr(c, "q")}))
				blk(c)
				soft(c, tx("p", &servicetypes.MsgWithdrawEarnedFees{Owner: addr(c, "p"), Provider: addr(c, "p")}))
				blk(c)
				soft(c, tx("q", &servicetypes.MsgRefundServiceDeposit{ServiceName: "echo", Provider: addr(c, "q"), Owner: addr(c, "q")}))
				blk(c)
				blk(c)
			},
		},
		{
			// a pool destroyed with a staker still inside, an expired pool with a
			// staker still inside; both stakers leave afterwards
			name:     "farm_boundary",
			accounts: map[string]string{"a": rich, "f": rich, "g": rich},
			run: func(c *chain.Chain) {
				lpSetup(c, "a")
				lp := func(n int64) sdk.Coins { return sdk.NewCoins(sdk.NewInt64Coin("lpt-1", n)) }
				blk(c, tx("a", banktypes.NewMsgSend(c.Accts["a"].Addr, c.Accts["f"].Addr, lp(5000))),
					tx("a", banktypes.NewMsgSend(c.Accts["a"].Addr, c.Accts["g"].Addr, lp(5000))))
				blk(c, tx("a", &farmtypes.MsgCreatePool{Description: "long", LptDenom: "lpt-1", StartHeight: c.Height + 2,
					RewardPerBlock: coins("2rw1"), TotalReward: coins("60rw1"), Editable: true, Creator: addr(c, "a")}),
					tx("a", &farmtypes.MsgCreatePool{Description: "short", LptDenom: "lpt-1", StartHeight: c.Height + 2,
						RewardPerBlock: coins("2rw2"), TotalReward: coins("6rw2"), Editable: false, Creator: addr(c, "a")}))
				blk(c, tx("f", &farmtypes.MsgStake{PoolId: "farm-1", Amount: sdk.NewInt64Coin("lpt-1", 1000), Sender: addr(c, "f")}),
					tx("g", &farmtypes.MsgStake{PoolId: "farm-2", Amount: sdk.NewInt64Coin("lpt-1", 700), Sender: addr(c, "g")}))
				for i := 0; i < 5; i++ { // farm-2 expires with g inside
					blk(c)
				}
				soft(c, tx("a", &farmtypes.MsgDestroyPool{PoolId: "farm-1", Creator: addr(c, "a")})) // f still inside
				blk(c)
				blk(c)
				soft(c, tx("g", &farmtypes.MsgUnstake{PoolId: "farm-2", Amount: sdk.NewInt64Coin("lpt-1", 700), Sender: addr(c, "g")}),
					tx("f", &farmtypes.MsgUnstake{PoolId: "farm-1", Amount: sdk.NewInt64Coin("lpt-1", 400), Sender: addr(c, "f")}))
				blk(c)
				blk(c)
			},
		},
	}...)
}
