package main

import (
	"encoding/json"
	"fmt"

	sdk "github.com/cosmos/cosmos-sdk/types"

	"verif/harness/chain"

	farmtypes "mods.irisnet.org/modules/farm/types"
)

// zhProbe (mode "zhprobe", diagnostic, not part of the check): what a farmer can
// do on a chain restarted from a zero-height export.  Farm has no zero-height
// preparation: pools keep absolute heights.
func zhProbe() error {
	accts := map[string]string{"a": rich, "f": rich}
	c := chain.New(chain.Options{Accounts: accts})
	lpSetup(c, "a")
	blk(c, tx("a", &farmtypes.MsgCreatePool{Description: "p", LptDenom: "lpt-1", StartHeight: c.Height + 2,
		RewardPerBlock: coins("2rw1"), TotalReward: coins("40rw1"), Editable: true, Creator: addr(c, "a")}))
	blk(c, tx("a", &farmtypes.MsgStake{PoolId: "farm-1", Amount: sdk.NewInt64Coin("lpt-1", 1000), Sender: addr(c, "a")}))
	for i := 0; i < 4; i++ {
		blk(c)
	}
	fmt.Printf("source height %d\n", c.Height)
	gs, err := c.ExportGenesis(true, ZeroHeightPrep(c))
	if err != nil {
		return err
	}
	bz, _ := json.Marshal(gs)
	imp := chain.New(chain.Options{Accounts: accts, GenesisBytes: bz, InitialHeight: 1, GenesisTime: c.Time})
	for i := 0; i < 3; i++ {
		r := imp.RunBlock(tick, []chain.Tx{tx("a", &farmtypes.MsgUnstake{PoolId: "farm-1", Amount: sdk.NewInt64Coin("lpt-1", 10), Sender: addr(imp, "a")})})
		fmt.Printf("restarted chain height %d: unstake ok=%v log=%s\n", r.Height, r.Txs[0].OK, short(r.Txs[0].Log, 200))
		q, err := imp.K.Farm.Farmer(imp.Ctx(), &farmtypes.QueryFarmerRequest{Farmer: addr(imp, "a"), PoolId: "farm-1"})
		fmt.Printf("   farmer query: %v %v\n", q, err)
	}
	return nil
}
