package main

import (
	"encoding/json"
	"regexp"
	"strings"

	"verif/harness/chain"

	farmtypes "mods.irisnet.org/modules/farm/types"
	htlctypes "mods.irisnet.org/modules/htlc/types"
	servicetypes "mods.irisnet.org/modules/service/types"
	tokenv1 "mods.irisnet.org/modules/token/types/v1"
)

// A refused import names its reason in the error text, and the known findings
// of C12 are keyed by that text.  A validation rule that became too strict
// refuses a sound export with the very same words ("... is over the supply
// limit", "rewardPerShare must be positive") — so the words alone must not be
// enough to be taken for the known finding.  reasonHolds evaluates, on the
// exported genesis itself (what the import was given), the state of affairs
// the known finding is about.  When the text belongs to a known class and the
// exported state does NOT show that state of affairs, the error is marked
// (refutedMark) and bin/propdefs/genesis.py gives it a class of its own.
const refutedMark = "[the exported state does not bear this out] "

var (
	reRpsZero     = regexp.MustCompile(`rewardPerShare must be positive`)
	reTsZero      = regexp.MustCompile(`timestamp cannot be 0`)
	reNotPaused   = regexp.MustCompile(`invalid request context (batch )?state`)
	reAssetGone   = regexp.MustCompile(`asset not found`)
	reAssetOff    = regexp.MustCompile(`asset is currently inactive`)
	reOverLimit   = regexp.MustCompile(`is over the supply limit`)
	reMaxSupply   = regexp.MustCompile(`invalid token max supply`)
	reIbcMinUnit  = regexp.MustCompile(`invalid minUnit: ibc/`)
	knownPatterns = []*regexp.Regexp{reRpsZero, reTsZero, reNotPaused, reAssetGone, reAssetOff, reOverLimit, reMaxSupply, reIbcMinUnit}
)

// reasonHolds: known = the text is of a known class; holds = the exported
// genesis really is in the state that class is about.
func reasonHolds(c *chain.Chain, gs map[string]json.RawMessage, msg string) (known, holds bool) {
	defer func() {
		if r := recover(); r != nil {
			known, holds = true, true // undecidable: leave the text as it is
		}
	}()
	for _, re := range knownPatterns {
		if re.MatchString(msg) {
			known = true
		}
	}
	if !known {
		return false, false
	}
	cdc := c.App.AppCodec()
	switch {
	case reRpsZero.MatchString(msg):
		// F13: a rule with rewardPerShare 0 although rewards were released and the
		// pool did not end
		var g farmtypes.GenesisState
		cdc.MustUnmarshalJSON(gs[farmtypes.ModuleName], &g)
		for _, p := range g.Pools {
			for _, r := range p.Rules {
				if !r.RewardPerShare.IsPositive() && !r.RemainingReward.Equal(r.TotalReward) && p.EndHeight != p.LastHeightDistrRewards {
					return true, true
				}
			}
		}
	case reTsZero.MatchString(msg):
		var g htlctypes.GenesisState
		cdc.MustUnmarshalJSON(gs[htlctypes.ModuleName], &g)
		for _, h := range g.Htlcs {
			if h.Timestamp == 0 {
				return true, true
			}
		}
	case reNotPaused.MatchString(msg):
		var g servicetypes.GenesisState
		cdc.MustUnmarshalJSON(gs[servicetypes.ModuleName], &g)
		for _, rc := range g.RequestContexts {
			if rc.State != servicetypes.PAUSED || rc.BatchState != servicetypes.BATCHCOMPLETED {
				return true, true
			}
		}
	case reAssetGone.MatchString(msg), reAssetOff.MatchString(msg), reOverLimit.MatchString(msg):
		var g htlctypes.GenesisState
		cdc.MustUnmarshalJSON(gs[htlctypes.ModuleName], &g)
		assets := map[string]htlctypes.AssetParam{}
		for _, a := range g.Params.AssetParams {
			assets[a.Denom] = a
		}
		for _, h := range g.Htlcs {
			if !h.Transfer || len(h.Amount) == 0 {
				continue
			}
			a, ok := assets[h.Amount[0].Denom]
			if (!ok && reAssetGone.MatchString(msg)) || (ok && !a.Active && reAssetOff.MatchString(msg)) {
				return true, true
			}
		}
		for _, s := range g.Supplies {
			a, ok := assets[s.CurrentSupply.Denom]
			if !ok {
				if reAssetGone.MatchString(msg) {
					return true, true
				}
				continue
			}
			l := a.SupplyLimit.Limit
			if reOverLimit.MatchString(msg) && (s.CurrentSupply.Amount.GT(l) || s.IncomingSupply.Amount.GT(l) || s.OutgoingSupply.Amount.GT(l) ||
				s.IncomingSupply.Amount.Add(s.CurrentSupply.Amount).GT(l)) {
				return true, true
			}
		}
	case reMaxSupply.MatchString(msg), reIbcMinUnit.MatchString(msg):
		var g tokenv1.GenesisState
		cdc.MustUnmarshalJSON(gs["token"], &g)
		for _, t := range g.Tokens {
			if (reMaxSupply.MatchString(msg) && t.MaxSupply < t.InitialSupply) || (reIbcMinUnit.MatchString(msg) && strings.HasPrefix(t.MinUnit, "ibc/")) {
				return true, true
			}
		}
	}
	return true, false
}
