package main

import (
	"bytes"
	"encoding/json"
	"sort"
	"strconv"
	"strings"
)

// Canonical JSON: objects with sorted keys (Go's encoder sorts map keys),
// numbers kept as written, arrays in the order written.  Collections whose
// order the importing code ignores *and* whose export order is not a function
// of the state (C11's business, not C12's) are listed in unordered and are
// compared sorted.

func parseJSON(bz []byte) (any, error) {
	d := json.NewDecoder(bytes.NewReader(bz))
	d.UseNumber()
	var v any
	if err := d.Decode(&v); err != nil {
		return nil, err
	}
	return v, nil
}

func canonBytes(v any) string {
	var b bytes.Buffer
	e := json.NewEncoder(&b)
	e.SetEscapeHTML(false)
	if err := e.Encode(v); err != nil {
		return "!" + err.Error()
	}
	return strings.TrimSpace(b.String())
}

// canon parses and re-encodes; on a parse error the raw text is returned.
func canon(bz []byte) string {
	v, err := parseJSON(bz)
	if err != nil {
		return string(bz)
	}
	return canonBytes(v)
}

// unordered[module] lists JSON paths (dot separated; "*" matches any array
// index or object key) of arrays compared as multisets.
//
//	mt: ExportGenesisState walks nested Go maps (DESIGN F8 — the instability is
//	    C11's finding); InitGenesis adds balances/supplies keyed by (denom, mt,
//	    owner), so the order of owners, their denoms and balances is ignored.
var unordered = map[string][]string{
	"mt": {"owners", "owners.*.denoms", "owners.*.denoms.*.balances"},
}

func sortUnordered(module string, v any) any {
	pats := unordered[module]
	if len(pats) == 0 {
		return v
	}
	return sortWalk(v, "", pats)
}

func pathMatch(path string, pats []string) bool {
	ps := strings.Split(path, ".")
	for _, pat := range pats {
		qs := strings.Split(pat, ".")
		if len(qs) != len(ps) {
			continue
		}
		ok := true
		for i := range qs {
			if qs[i] != "*" && qs[i] != ps[i] {
				ok = false
				break
			}
		}
		if ok {
			return true
		}
	}
	return false
}

func sortWalk(v any, path string, pats []string) any {
	join := func(k string) string {
		if path == "" {
			return k
		}
		return path + "." + k
	}
	switch x := v.(type) {
	case map[string]any:
		o := make(map[string]any, len(x))
		for k, e := range x {
			o[k] = sortWalk(e, join(k), pats)
		}
		return o
	case []any:
		o := make([]any, len(x))
		for i, e := range x {
			o[i] = sortWalk(e, join(strconv.Itoa(i)), pats)
		}
		if pathMatch(path, pats) {
			sort.SliceStable(o, func(i, j int) bool { return canonBytes(o[i]) < canonBytes(o[j]) })
		}
		return o
	}
	return v
}

// canonModule is the canonical text of one module's genesis section.
func canonModule(module string, bz []byte) string {
	v, err := parseJSON(bz)
	if err != nil {
		return string(bz)
	}
	return canonBytes(sortUnordered(module, v))
}

// getPath / setPath walk parsed JSON by dot paths (objects only).
func getPath(v any, path string) (any, bool) {
	cur := v
	for _, p := range strings.Split(path, ".") {
		m, ok := cur.(map[string]any)
		if !ok {
			return nil, false
		}
		cur, ok = m[p]
		if !ok {
			return nil, false
		}
	}
	return cur, true
}

func setPath(v any, path string, val any) bool {
	ps := strings.Split(path, ".")
	cur := v
	for i, p := range ps {
		m, ok := cur.(map[string]any)
		if !ok {
			return false
		}
		if i == len(ps)-1 {
			m[p] = val
			return true
		}
		cur, ok = m[p]
		if !ok {
			return false
		}
	}
	return false
}

// numAt reads an integer written as a JSON string or number.
func numAt(v any, path string) (int64, bool) {
	x, ok := getPath(v, path)
	if !ok {
		return 0, false
	}
	switch t := x.(type) {
	case string:
		n, err := strconv.ParseInt(t, 10, 64)
		return n, err == nil
	case json.Number:
		n, err := t.Int64()
		return n, err == nil
	}
	return 0, false
}

func short(s string, n int) string {
	s = strings.ReplaceAll(s, "\n", " ")
	if len(s) > n {
		return s[:n]
	}
	return s
}
