package main

import (
	"encoding/json"
	"strconv"
	"strings"
)

// The documented zero-height transformations, applied to the *source* answers
// to obtain what a chain restarted from the zero-height export must answer
// (Genesis.tla: ZeroHeight(mod, objs, h)).  What the modules' own
// PrepForZeroHeightGenesis functions document:
//
//	htlc    open contracts: expiration height e  ->  e - h + 1
//	random  pending queue:  request height  q    ->  q - h + 1  (the request
//	        itself is unchanged; the rebasing is applied to the height argument
//	        of the queue query, see objQuery.run's shift)
//	service every request context -> state PAUSED, batch state COMPLETED,
//	        batch request/response counts 0; active requests are refunded and
//	        dropped (in-flight items: not queried); earned fees refunded: the
//	        EarnedFees query must answer "none"
//	oracle  running feeds -> paused (the feed answer shows the state of its
//	        request context)
//
// All other modules document no zero-height step: their answers must be equal.
// zhRefunded: the expected answer "nothing left" (any not-found answer matches).
const zhRefunded = "ZH-REFUNDED"

func rebaseAnswers(a Answers, h int64) Answers {
	out := Answers{}
	for m, as := range a {
		out[m] = map[string]string{}
		for id, ans := range as {
			out[m][id] = rebaseAnswer(m, id, ans, h)
		}
	}
	return out
}

func rebaseAnswer(mod, id, ans string, h int64) string {
	if (strings.HasPrefix(ans, "ERR ") || strings.HasPrefix(ans, "PANIC ")) && !(mod == "service" && strings.HasPrefix(id, "earned/")) {
		return ans
	}
	edit := func(f func(v any)) string {
		v, err := parseJSON([]byte(ans))
		if err != nil {
			return ans
		}
		f(v)
		return canonBytes(v)
	}
	switch {
	case mod == "service" && strings.HasPrefix(id, "earned/"):
		// earned fees are refunded by the zero-height step: none are left
		return zhRefunded
	case mod == "htlc" && strings.HasPrefix(id, "htlc/"):
		return edit(func(v any) {
			if e, ok := numAt(v, "htlc.expiration_height"); ok {
				setPath(v, "htlc.expiration_height", strconv.FormatInt(e-h+1, 10))
			}
		})
	case mod == "service" && strings.HasPrefix(id, "ctx/"):
		return edit(func(v any) {
			if _, ok := getPath(v, "request_context.state"); ok {
				setPath(v, "request_context.state", "PAUSED")
				setPath(v, "request_context.batch_state", "BATCH_COMPLETED")
				setPath(v, "request_context.batch_request_count", json.Number("0"))
				setPath(v, "request_context.batch_response_count", json.Number("0"))
			}
		})
	case mod == "oracle" && strings.HasPrefix(id, "feed/"):
		return edit(func(v any) {
			if _, ok := getPath(v, "feed.state"); ok {
				setPath(v, "feed.state", "PAUSED")
			}
		})
	case mod == "oracle" && id == "feeds":
		return edit(func(v any) {
			if l, ok := getPath(v, "feeds"); ok {
				if arr, ok := l.([]any); ok {
					for _, f := range arr {
						if _, ok := getPath(f, "state"); ok {
							setPath(f, "state", "PAUSED")
						}
					}
				}
			}
		})
	}
	return ans
}
