package main

import (
	"crypto/sha256"
	"encoding/hex"
	"fmt"
	"os"
	"path/filepath"
	"sort"
	"strings"
	"time"

	sdkmath "cosmossdk.io/math"
	sdk "github.com/cosmos/cosmos-sdk/types"

	"verif/harness/chain"

	coinswaptypes "mods.irisnet.org/modules/coinswap/types"
	farmtypes "mods.irisnet.org/modules/farm/types"
	htlctypes "mods.irisnet.org/modules/htlc/types"
	mttypes "mods.irisnet.org/modules/mt/types"
	nfttypes "mods.irisnet.org/modules/nft/types"
	oracletypes "mods.irisnet.org/modules/oracle/types"
	randomtypes "mods.irisnet.org/modules/random/types"
	recordtypes "mods.irisnet.org/modules/record/types"
	servicetypes "mods.irisnet.org/modules/service/types"
	tokentypes "mods.irisnet.org/modules/token/types"
	tokenv1 "mods.irisnet.org/modules/token/types/v1"
	"mods.irisnet.org/simapp"
)

// Scenarios: short scripted histories (real signed transactions through the
// real ABCI path) that build the states of the known C12 findings.  A scenario
// is *recorded* while it runs (the same recorder every module driver uses) and
// the recording is then round-tripped after every block exactly like a
// driver's recording; with keep=<dir> the recording is kept as
// <dir>/genesis_<name>.rec.

type scenario struct {
	name     string
	accounts map[string]string
	mutate   func(c *chain.Chain, gs simapp.GenesisState)
	run      func(c *chain.Chain)
	// checkpoints: every block unless every > 1 (long scenarios), plus up to
	// boundary heights where something falls due in the next block
	every, boundary int64
	// marked: round trips after the blocks run with blk / soft only (not after
	// the blocks of idle), plus boundary heights and the last block
	marked bool
	// pending: a scenario that reaches a refused export / import of a class that
	// is not (yet) a recorded finding; it is kept out of "list" and "all" (the
	// registered scenario set) and runs only when named explicitly
	pending string
}

// marks of the scenario being run (nil: every block is a checkpoint)
var marks map[int64]bool

func mark(c *chain.Chain) {
	if marks != nil {
		marks[c.Height] = true
	}
}

// idle runs n empty blocks that are not checkpoints of a marked scenario.
func idle(c *chain.Chain, n int) {
	for i := 0; i < n; i++ {
		r := c.RunBlock(tick, nil)
		if r.Halt {
			panic("scenario block halted: " + r.HaltMsg)
		}
	}
}

const tick = 5 * time.Second

// blk runs one block; every transaction must succeed.
func blk(c *chain.Chain, txs ...chain.Tx) chain.BlockResult {
	r := c.RunBlock(tick, txs)
	if r.Halt {
		panic("scenario block halted: " + r.HaltMsg)
	}
	for i, t := range r.Txs {
		if !t.OK {
			panic(fmt.Sprintf("scenario tx %d at height %d failed (%s): %s", i, r.Height, t.Stage, t.Log))
		}
	}
	mark(c)
	return r
}

func tx(signer string, msgs ...sdk.Msg) chain.Tx { return chain.Tx{Signer: signer, Msgs: msgs} }

func addr(c *chain.Chain, n string) string { return c.Accts[n].Addr.String() }

func coins(s string) sdk.Coins {
	cs, err := sdk.ParseCoinsNormalized(s)
	if err != nil {
		panic(err)
	}
	return cs
}

const rich = "100000000000000000000stake,100000000000000000000btc,1000000rw1,1000000rw2"

const (
	svcSchemas = `{"input":{"type":"object"},"output":{"type":"object"}}`
	svcInput   = `{"header":{},"body":{}}`
	svcResult  = `{"code":200,"message":""}`
)

func defineAndBind(c *chain.Chain, svc, provider string) {
	blk(c, tx(provider, &servicetypes.MsgDefineService{Name: svc, Description: "d", Author: addr(c, provider),
		AuthorDescription: "a", Schemas: svcSchemas}))
	blk(c, tx(provider, &servicetypes.MsgBindService{ServiceName: svc, Provider: addr(c, provider),
		Deposit: coins("50000stake"), Pricing: `{"price":"50stake"}`, QoS: 1, Options: "{}", Owner: addr(c, provider)}))
}

// respondAll answers every active request of the provider with the given price.
func respondAll(c *chain.Chain, svc, provider string, price int) []chain.Tx {
	resp, err := c.K.Service.Requests(c.Ctx(), &servicetypes.QueryRequestsRequest{ServiceName: svc,
		Provider: addr(c, provider), Pagination: page()})
	if err != nil {
		panic(err)
	}
	var txs []chain.Tx
	for _, r := range resp.Requests {
		txs = append(txs, tx(provider, &servicetypes.MsgRespondService{RequestId: r.Id, Provider: addr(c, provider),
			Result: svcResult, Output: fmt.Sprintf(`{"header":{},"body":{"price":"%d"}}`, price)}))
	}
	return txs
}

func lpSetup(c *chain.Chain, who string) {
	big21, _ := sdkmath.NewIntFromString("4000000000000000000")
	blk(c, tx(who, &coinswaptypes.MsgAddLiquidity{MaxToken: sdk.NewCoin("btc", big21), ExactStandardAmt: big21,
		MinLiquidity: sdkmath.OneInt(), Deadline: c.Time.Add(time.Hour).Unix(), Sender: addr(c, who)}))
}

var scenarios = []scenario{
	{
		// F9: a hash lock without timestamp (allowed: timestamp 0) is an open
		// contract that genesis validation refuses
		name:     "htlc_ts0",
		accounts: map[string]string{"a": rich, "b": rich},
		run: func(c *chain.Chain) {
			secret := sha256.Sum256([]byte("verif-secret-1"))
			lock := sha256.Sum256(secret[:])
			blk(c, tx("a", &htlctypes.MsgCreateHTLC{Sender: addr(c, "a"), To: addr(c, "b"), Amount: coins("10stake"),
				HashLock: hex.EncodeToString(lock[:]), Timestamp: 0, TimeLock: 50, Transfer: false}))
			blk(c)
			blk(c)
		},
	},
	{
		// control: open contracts with a timestamp round-trip, and the zero-height
		// export rebases their expiry
		name:     "htlc_open",
		accounts: map[string]string{"a": rich, "b": rich},
		run: func(c *chain.Chain) {
			for i := 0; i < 2; i++ {
				secret := sha256.Sum256([]byte(fmt.Sprintf("verif-secret-%d", i)))
				ts := uint64(1700000000 + i)
				lock := htlctypes.GetHashLock(secret[:], ts)
				blk(c, tx("a", &htlctypes.MsgCreateHTLC{Sender: addr(c, "a"), To: addr(c, "b"), Amount: coins("10stake"),
					HashLock: hex.EncodeToString(lock), Timestamp: ts, TimeLock: uint64(50 + 3*i), Transfer: false}))
			}
			blk(c)
			blk(c)
		},
	},
	{
		// F10: record ids are hash(record || counter); import re-adds the records
		// with a fresh counter
		name:     "record_ids",
		accounts: map[string]string{"a": rich},
		run: func(c *chain.Chain) {
			mk := func(i int) sdk.Msg {
				return &recordtypes.MsgCreateRecord{Creator: addr(c, "a"), Contents: []recordtypes.Content{{
					Digest: fmt.Sprintf("digest-%d", i), DigestAlgo: "sha256", URI: fmt.Sprintf("uri-%d", i), Meta: "m"}}}
			}
			blk(c, tx("a", mk(1)), tx("a", mk(2)), tx("a", mk(3)))
			blk(c, tx("a", mk(4)))
			blk(c)
		},
	},
	{
		// F11: a feed with a value history of several entries; F17: while the
		// feed's request context is running the as-is export is refused by the
		// service module — the feed is paused at the end so that both modes
		// import
		name:     "oracle_history",
		accounts: map[string]string{"a": rich, "p": rich},
		run: func(c *chain.Chain) {
			defineAndBind(c, "price", "p")
			blk(c, tx("a", &oracletypes.MsgCreateFeed{FeedName: "feed1", LatestHistory: 5, Description: "d",
				Creator: addr(c, "a"), ServiceName: "price", Providers: []string{addr(c, "p")}, Input: svcInput,
				Timeout: 2, ServiceFeeCap: coins("50stake"), RepeatedFrequency: 3, AggregateFunc: "avg",
				ValueJsonPath: "price", ResponseThreshold: 1}))
			blk(c, tx("a", &oracletypes.MsgStartFeed{FeedName: "feed1", Creator: addr(c, "a")}))
			price := 5
			for i := 0; i < 12 && price > 1; i++ {
				txs := respondAll(c, "price", "p", price)
				if len(txs) > 0 {
					price--
				}
				blk(c, txs...)
			}
			vals := c.K.Oracle.GetFeedValues(c.Ctx(), "feed1")
			if len(vals) < 3 {
				panic(fmt.Sprintf("oracle scenario: only %d feed values", len(vals)))
			}
			blk(c, tx("a", &oracletypes.MsgPauseFeed{FeedName: "feed1", Creator: addr(c, "a")}))
			blk(c)
			blk(c)
		},
	},
	{
		// F12: burning below the initial supply and lowering the maximum to the
		// present supply is a legal edit; import demands max >= initial supply
		name:     "token_maxsupply",
		accounts: map[string]string{"a": rich},
		run: func(c *chain.Chain) {
			blk(c, tx("a", &tokenv1.MsgIssueToken{Symbol: "kitty", Name: "Kitty Token", Scale: 0, MinUnit: "kitty",
				InitialSupply: 11, MaxSupply: 100, Mintable: true, Owner: addr(c, "a")}))
			blk(c, tx("a", &tokenv1.MsgBurnToken{Coin: sdk.NewInt64Coin("kitty", 1), Sender: addr(c, "a")}))
			blk(c, tx("a", &tokenv1.MsgEditToken{Symbol: "kitty", Name: tokenv1.DoNotModify, MaxSupply: 10,
				Mintable: tokentypes.Nil, Owner: addr(c, "a")}))
			blk(c)
		},
	},
	{
		// F13: a large stake and a tiny reward give rewardPerShare = 0 although
		// rewards were released
		name:     "farm_rps0",
		accounts: map[string]string{"a": rich, "f": "10stake"},
		run: func(c *chain.Chain) {
			lpSetup(c, "a")
			blk(c, tx("a", &farmtypes.MsgCreatePool{Description: "p", LptDenom: "lpt-1", StartHeight: c.Height + 2,
				RewardPerBlock: coins("1rw1"), TotalReward: coins("20rw1"), Editable: true, Creator: addr(c, "a")}))
			amt, _ := sdkmath.NewIntFromString("3000000000000000000")
			blk(c, tx("a", &farmtypes.MsgStake{PoolId: "farm-1", Amount: sdk.NewCoin("lpt-1", amt), Sender: addr(c, "a")}))
			blk(c)
			blk(c, tx("a", &farmtypes.MsgHarvest{PoolId: "farm-1", Sender: addr(c, "a")}))
			blk(c)
		},
	},
	{
		// G1: an as-is export taken one block before a pool's end height is
		// imported at the end height itself; InitGenesis then considers the pool
		// expired and does not queue it: the refund never happens
		name:     "farm_endheight",
		accounts: map[string]string{"a": rich, "f": rich},
		run: func(c *chain.Chain) {
			lpSetup(c, "a")
			blk(c, tx("a", &farmtypes.MsgCreatePool{Description: "p", LptDenom: "lpt-1", StartHeight: c.Height + 2,
				RewardPerBlock: coins("2rw1"), TotalReward: coins("8rw1"), Editable: true, Creator: addr(c, "a")}))
			blk(c, tx("a", &farmtypes.MsgStake{PoolId: "farm-1", Amount: sdk.NewInt64Coin("lpt-1", 1000), Sender: addr(c, "a")}))
			for i := 0; i < 6; i++ {
				blk(c)
			}
		},
	},
	{
		// control: NFT classes / tokens / owners and MT classes / balances
		name:     "nft_mt",
		accounts: map[string]string{"a": rich, "b": rich},
		run: func(c *chain.Chain) {
			blk(c, tx("a", &nfttypes.MsgIssueDenom{Id: "class1", Name: "Class One", Schema: "{}", Sender: addr(c, "a"), Symbol: "cls",
				Description: "d", Uri: "u", UriHash: "h", Data: `{"k":"v"}`}),
				tx("b", &mttypes.MsgIssueDenom{Name: "mtc", Data: []byte("d"), Sender: addr(c, "b")}))
			blk(c, tx("a", &nfttypes.MsgMintNFT{Id: "tok1", DenomId: "class1", Name: "n1", URI: "u1", Data: `{"k":1}`, Sender: addr(c, "a"), Recipient: addr(c, "a")}),
				tx("a", &nfttypes.MsgMintNFT{Id: "tok2", DenomId: "class1", Name: "n2", URI: "u2", Data: `{"k":2}`, Sender: addr(c, "a"), Recipient: addr(c, "b")}))
			did := c.K.MT.GetDenoms(c.Ctx())[0].Id
			blk(c, tx("a", &nfttypes.MsgTransferNFT{Id: "tok1", DenomId: "class1", Name: "[do-not-modify]", URI: "[do-not-modify]",
				Data: "[do-not-modify]", UriHash: "[do-not-modify]", Sender: addr(c, "a"), Recipient: addr(c, "b")}),
				tx("b", &mttypes.MsgMintMT{DenomId: did, Amount: 10, Data: []byte("m1"), Sender: addr(c, "b"), Recipient: addr(c, "a")}),
				tx("b", &mttypes.MsgMintMT{DenomId: did, Amount: 7, Data: []byte("m2"), Sender: addr(c, "b"), Recipient: addr(c, "b")}))
			mts, err := c.K.MT.MTs(c.Ctx(), &mttypes.QueryMTsRequest{DenomId: did, Pagination: page()})
			if err != nil || len(mts.Mts) != 2 {
				panic(fmt.Sprint("nft_mt scenario: mts ", err))
			}
			var mine string
			for _, m := range mts.Mts {
				r, _ := c.K.MT.Balances(c.Ctx(), &mttypes.QueryBalancesRequest{Owner: addr(c, "a"), DenomId: did, Pagination: page()})
				for _, bal := range r.Balance {
					if bal.MtId == m.Id {
						mine = m.Id
					}
				}
			}
			blk(c, tx("a", &mttypes.MsgTransferMT{Id: mine, DenomId: did, Amount: 3, Sender: addr(c, "a"), Recipient: addr(c, "b")}),
				tx("a", &nfttypes.MsgMintNFT{Id: "tok3", DenomId: "class1", Name: "n3", URI: "u3", Data: `{"k":3}`, Sender: addr(c, "a"), Recipient: addr(c, "a")}))
			blk(c, tx("b", &mttypes.MsgBurnMT{Id: mine, DenomId: did, Amount: 1, Sender: addr(c, "b")}))
			blk(c)
		},
	},
	{
		// control: pending random requests at several heights (the zero-height
		// export rebases the queue); generated random numbers are not exported
		name:     "random_pending",
		accounts: map[string]string{"a": rich, "b": rich},
		run: func(c *chain.Chain) {
			blk(c, tx("a", &randomtypes.MsgRequestRandom{BlockInterval: 3, Consumer: addr(c, "a")}),
				tx("b", &randomtypes.MsgRequestRandom{BlockInterval: 6, Consumer: addr(c, "b")}))
			blk(c, tx("a", &randomtypes.MsgRequestRandom{BlockInterval: 5, Consumer: addr(c, "a")}))
			// ... until every request is fulfilled and nothing is pending
			for i := 0; i < 8; i++ {
				blk(c)
			}
		},
	},
	{
		// F17: a running (repeated) request context is refused by the service
		// module's genesis validation in an as-is export
		name:     "service_running",
		accounts: map[string]string{"a": rich, "p": rich},
		run: func(c *chain.Chain) {
			defineAndBind(c, "echo", "p")
			blk(c, tx("a", &servicetypes.MsgCallService{ServiceName: "echo", Providers: []string{addr(c, "p")},
				Consumer: addr(c, "a"), Input: svcInput, ServiceFeeCap: coins("50stake"), Timeout: 2, Repeated: true,
				RepeatedFrequency: 3, RepeatedTotal: 10}))
			blk(c, respondAll(c, "echo", "p", 1)...)
			blk(c)
			blk(c)
		},
	},
}

func runScenario(w *chain.TraceWriter, s scenario, keep string) (err error) {
	dir, e := os.MkdirTemp("", "genesis-scn-")
	if e != nil {
		return e
	}
	defer os.RemoveAll(dir)
	os.Setenv("VERIF_RECORD_DIR", dir)
	marks = nil
	if s.marked {
		marks = map[int64]bool{}
	}
	func() {
		defer func() {
			if r := recover(); r != nil {
				err = fmt.Errorf("scenario %s: %v", s.name, r)
			}
		}()
		c := chain.New(chain.Options{Accounts: s.accounts, MutateGenesis: s.mutate})
		s.run(c)
	}()
	os.Unsetenv("VERIF_RECORD_DIR")
	// a scenario that could not go on (on a changed tree a step may be refused or
	// the chain may halt) still recorded what the real code did up to there: that
	// part is round-tripped like any other history, and the error is reported
	// afterwards (the check is then inconclusive unless a clause failed)
	runErr := err
	recs, _ := filepath.Glob(filepath.Join(dir, "*.rec"))
	if len(recs) != 1 {
		if runErr != nil {
			return runErr
		}
		return fmt.Errorf("scenario %s: %d recordings", s.name, len(recs))
	}
	if runErr != nil {
		if rec, e := chain.ReadRecording(recs[0]); e != nil || len(rec.Blocks) < 2 {
			return runErr
		}
		marks = nil
	}
	path := filepath.Join(dir, "genesis_"+s.name+".rec")
	if err := os.Rename(recs[0], path); err != nil {
		return err
	}
	if keep != "" {
		bz, err := os.ReadFile(path)
		if err != nil {
			return err
		}
		if err := os.WriteFile(filepath.Join(keep, filepath.Base(path)), bz, 0o644); err != nil {
			return err
		}
	}
	every := s.every
	if every < 1 {
		every = 1
	}
	if err := runRecording(w, path, every, -1, 0, s.boundary, marks); err != nil {
		return err
	}
	return runErr
}

func runScenarios(w *chain.TraceWriter, name, keep string) error {
	var names []string
	if name == "list" {
		for _, s := range scenarios {
			if s.pending == "" {
				fmt.Println(s.name)
			}
		}
		return nil
	}
	if name == "pending" {
		for _, s := range scenarios {
			if s.pending != "" {
				fmt.Printf("%s\t%s\n", s.name, s.pending)
			}
		}
		return nil
	}
	for _, s := range scenarios {
		names = append(names, s.name)
	}
	sort.Strings(names)
	ran := 0
	for _, s := range scenarios {
		if name == "all" && s.pending != "" {
			continue
		}
		if name != "all" && !strings.Contains(":"+name+":", ":"+s.name+":") {
			continue
		}
		ran++
		if err := runScenario(w, s, keep); err != nil {
			return err
		}
	}
	if ran == 0 {
		return fmt.Errorf("unknown scenario %q (have %v)", name, names)
	}
	return nil
}
