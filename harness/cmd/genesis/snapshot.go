package main

import (
	"encoding/hex"
	"fmt"
	"sort"
	"strings"

	tmbytes "github.com/cometbft/cometbft/libs/bytes"
	sdk "github.com/cosmos/cosmos-sdk/types"
	"github.com/cosmos/cosmos-sdk/types/query"
	"github.com/cosmos/gogoproto/proto"

	"verif/harness/chain"

	coinswaptypes "mods.irisnet.org/modules/coinswap/types"
	farmtypes "mods.irisnet.org/modules/farm/types"
	htlctypes "mods.irisnet.org/modules/htlc/types"
	mttypes "mods.irisnet.org/modules/mt/types"
	nfttypes "mods.irisnet.org/modules/nft/types"
	oracletypes "mods.irisnet.org/modules/oracle/types"
	randomtypes "mods.irisnet.org/modules/random/types"
	recordtypes "mods.irisnet.org/modules/record/types"
	servicetypes "mods.irisnet.org/modules/service/types"
	tokenv1 "mods.irisnet.org/modules/token/types/v1"
)

// Modules are the ten irismod modules, in name order.
var Modules = []string{"coinswap", "farm", "htlc", "mt", "nft", "oracle", "random", "record", "service", "token"}

// A query is one gRPC query about one durable user-visible object.  It is built
// from the *source* chain (the universe of objects is read from the source's
// keepers and list queries, never from the genesis export under test) and can
// be evaluated on any chain: the source, the re-imported chain, a continued
// chain.  shift is subtracted from height-valued request fields (the documented
// zero-height rebasing of the random request queue); it is 0 for as-is.
type objQuery struct {
	mod, id string
	// object: a durable user-visible object of the property's list (counted in
	// nobj, "lost" when it no longer resolves); otherwise a module-level answer
	// (parameters, totals) that is compared but is not an object.
	object bool
	run    func(c *chain.Chain, ctx sdk.Context, shift int64) (proto.Message, error)
}

type Answers map[string]map[string]string // module -> id -> canonical answer

func page() *query.PageRequest { return &query.PageRequest{Limit: 100000} }

// evalQuery runs one query; errors and panics are answers too.
func evalQuery(c *chain.Chain, ctx sdk.Context, q objQuery, shift int64) (ans string) {
	defer func() {
		if r := recover(); r != nil {
			ans = "PANIC " + short(fmt.Sprint(r), 160)
		}
	}()
	cctx, _ := ctx.CacheContext()
	resp, err := q.run(c, cctx, shift)
	if err != nil {
		return "ERR " + short(err.Error(), 200)
	}
	bz, err := c.App.AppCodec().MarshalJSON(resp)
	if err != nil {
		return "ERR marshal " + err.Error()
	}
	return canon(bz)
}

func evalAll(c *chain.Chain, ctx sdk.Context, qs []objQuery, shift int64) Answers {
	out := Answers{}
	for _, m := range Modules {
		out[m] = map[string]string{}
	}
	for _, q := range qs {
		out[q.mod][q.id] = evalQuery(c, ctx, q, shift)
	}
	return out
}

// isMissing: the answer says "no such object".
func isMissing(mod, ans string) bool {
	if strings.HasPrefix(ans, "ERR ") || strings.HasPrefix(ans, "PANIC ") {
		return true
	}
	switch mod {
	case "record":
		// the Record query answers an unknown id with an empty record
		return !strings.Contains(ans, `"tx_hash":"`) || strings.Contains(ans, `"tx_hash":""`)
	case "random":
		return strings.Contains(ans, `"requests":[]`)
	case "oracle":
		return strings.Contains(ans, `"feed_values":[]`)
	}
	return false
}

// accounts: every account known to auth (user and module accounts).
func accounts(c *chain.Chain, ctx sdk.Context) []string {
	var out []string
	c.App.AccountKeeper.IterateAccounts(ctx, func(a sdk.AccountI) bool {
		out = append(out, a.GetAddress().String())
		return false
	})
	sort.Strings(out)
	return out
}

// Universe builds the queries for every durable object of the source chain.
func Universe(c *chain.Chain, ctx sdk.Context) []objQuery {
	var qs []objQuery
	add := func(mod, id string, object bool, run func(c *chain.Chain, ctx sdk.Context, shift int64) (proto.Message, error)) {
		qs = append(qs, objQuery{mod: mod, id: id, object: object, run: run})
	}
	accts := accounts(c, ctx)
	safe := func(f func()) {
		defer func() { recover() }()
		f()
	}

	// ---- coinswap: pools (with their reserves and fee) ----
	add("coinswap", "params", false, func(c *chain.Chain, ctx sdk.Context, _ int64) (proto.Message, error) {
		return c.K.Coinswap.Params(ctx, &coinswaptypes.QueryParamsRequest{})
	})
	add("coinswap", "pools", false, func(c *chain.Chain, ctx sdk.Context, _ int64) (proto.Message, error) {
		return c.K.Coinswap.LiquidityPools(ctx, &coinswaptypes.QueryLiquidityPoolsRequest{Pagination: page()})
	})
	safe(func() {
		for _, p := range c.K.Coinswap.GetAllPools(ctx) {
			lpt := p.LptDenom
			add("coinswap", "pool/"+lpt, true, func(c *chain.Chain, ctx sdk.Context, _ int64) (proto.Message, error) {
				return c.K.Coinswap.LiquidityPool(ctx, &coinswaptypes.QueryLiquidityPoolRequest{LptDenom: lpt})
			})
		}
	})

	// ---- farm: pools, each farmer's stake and pending reward ----
	add("farm", "params", false, func(c *chain.Chain, ctx sdk.Context, _ int64) (proto.Message, error) {
		return c.K.Farm.Params(ctx, &farmtypes.QueryParamsRequest{})
	})
	add("farm", "pools", false, func(c *chain.Chain, ctx sdk.Context, _ int64) (proto.Message, error) {
		return c.K.Farm.FarmPools(ctx, &farmtypes.QueryFarmPoolsRequest{Pagination: page()})
	})
	safe(func() {
		c.K.Farm.IteratorAllPools(ctx, func(p farmtypes.FarmPool) {
			id := p.Id
			add("farm", "pool/"+id, true, func(c *chain.Chain, ctx sdk.Context, _ int64) (proto.Message, error) {
				return c.K.Farm.FarmPool(ctx, &farmtypes.QueryFarmPoolRequest{Id: id})
			})
		})
		c.K.Farm.IteratorAllFarmInfo(ctx, func(fi farmtypes.FarmInfo) {
			pool, addr := fi.PoolId, fi.Address
			add("farm", "farmer/"+pool+"/"+addr, true, func(c *chain.Chain, ctx sdk.Context, _ int64) (proto.Message, error) {
				return c.K.Farm.Farmer(ctx, &farmtypes.QueryFarmerRequest{Farmer: addr, PoolId: pool})
			})
		})
	})

	// ---- htlc: open contracts by id, asset supplies ----
	add("htlc", "params", false, func(c *chain.Chain, ctx sdk.Context, _ int64) (proto.Message, error) {
		return c.K.HTLC.Params(ctx, &htlctypes.QueryParamsRequest{})
	})
	add("htlc", "supplies", false, func(c *chain.Chain, ctx sdk.Context, _ int64) (proto.Message, error) {
		return c.K.HTLC.AssetSupplies(ctx, &htlctypes.QueryAssetSuppliesRequest{})
	})
	safe(func() {
		c.K.HTLC.IterateHTLCs(ctx, func(id tmbytes.HexBytes, h htlctypes.HTLC) bool {
			if h.State != htlctypes.Open {
				return false
			}
			hid := strings.ToLower(id.String())
			add("htlc", "htlc/"+hid, true, func(c *chain.Chain, ctx sdk.Context, _ int64) (proto.Message, error) {
				return c.K.HTLC.HTLC(ctx, &htlctypes.QueryHTLCRequest{Id: hid})
			})
			return false
		})
		for _, s := range c.K.HTLC.GetAllAssetSupplies(ctx) {
			denom := s.CurrentSupply.Denom
			add("htlc", "supply/"+denom, true, func(c *chain.Chain, ctx sdk.Context, _ int64) (proto.Message, error) {
				return c.K.HTLC.AssetSupply(ctx, &htlctypes.QueryAssetSupplyRequest{Denom: denom})
			})
		}
	})

	// ---- token: tokens, fees ----
	add("token", "params", false, func(c *chain.Chain, ctx sdk.Context, _ int64) (proto.Message, error) {
		return c.K.Token.Params(ctx, &tokenv1.QueryParamsRequest{})
	})
	add("token", "tokens", false, func(c *chain.Chain, ctx sdk.Context, _ int64) (proto.Message, error) {
		return c.K.Token.Tokens(ctx, &tokenv1.QueryTokensRequest{Pagination: page()})
	})
	add("token", "totalburn", false, func(c *chain.Chain, ctx sdk.Context, _ int64) (proto.Message, error) {
		return c.K.Token.TotalBurn(ctx, &tokenv1.QueryTotalBurnRequest{})
	})
	safe(func() {
		owners := map[string]bool{}
		for _, t := range c.K.Token.GetTokens(ctx, nil) {
			sym, minu := t.GetSymbol(), t.GetMinUnit()
			owners[t.GetOwner().String()] = true
			add("token", "token/"+sym, true, func(c *chain.Chain, ctx sdk.Context, _ int64) (proto.Message, error) {
				return c.K.Token.Token(ctx, &tokenv1.QueryTokenRequest{Denom: sym})
			})
			add("token", "tokenbyunit/"+minu, false, func(c *chain.Chain, ctx sdk.Context, _ int64) (proto.Message, error) {
				return c.K.Token.Token(ctx, &tokenv1.QueryTokenRequest{Denom: minu})
			})
			add("token", "fees/"+sym, false, func(c *chain.Chain, ctx sdk.Context, _ int64) (proto.Message, error) {
				return c.K.Token.Fees(ctx, &tokenv1.QueryFeesRequest{Symbol: sym})
			})
		}
		for o := range owners {
			owner := o
			add("token", "tokensof/"+owner, false, func(c *chain.Chain, ctx sdk.Context, _ int64) (proto.Message, error) {
				return c.K.Token.Tokens(ctx, &tokenv1.QueryTokensRequest{Owner: owner, Pagination: page()})
			})
		}
	})

	// ---- nft: classes, collections, owners, supply ----
	add("nft", "classes", false, func(c *chain.Chain, ctx sdk.Context, _ int64) (proto.Message, error) {
		return c.K.NFT.Denoms(ctx, &nfttypes.QueryDenomsRequest{Pagination: page()})
	})
	safe(func() {
		resp, err := c.K.NFT.Denoms(ctx, &nfttypes.QueryDenomsRequest{Pagination: page()})
		if err != nil {
			return
		}
		for _, d := range resp.Denoms {
			did := d.Id
			add("nft", "class/"+did, true, func(c *chain.Chain, ctx sdk.Context, _ int64) (proto.Message, error) {
				return c.K.NFT.Denom(ctx, &nfttypes.QueryDenomRequest{DenomId: did})
			})
			add("nft", "collection/"+did, false, func(c *chain.Chain, ctx sdk.Context, _ int64) (proto.Message, error) {
				return c.K.NFT.Collection(ctx, &nfttypes.QueryCollectionRequest{DenomId: did, Pagination: page()})
			})
			add("nft", "supply/"+did, false, func(c *chain.Chain, ctx sdk.Context, _ int64) (proto.Message, error) {
				return c.K.NFT.Supply(ctx, &nfttypes.QuerySupplyRequest{DenomId: did})
			})
			col, err := c.K.NFT.Collection(ctx, &nfttypes.QueryCollectionRequest{DenomId: did, Pagination: page()})
			if err != nil || col.Collection == nil {
				continue
			}
			for _, n := range col.Collection.NFTs {
				tid := n.Id
				add("nft", "nft/"+did+"/"+tid, true, func(c *chain.Chain, ctx sdk.Context, _ int64) (proto.Message, error) {
					return c.K.NFT.NFT(ctx, &nfttypes.QueryNFTRequest{DenomId: did, TokenId: tid})
				})
			}
		}
		// per-owner answers for every account (an owner who held and no longer
		// holds must be answered with the same empty list / zero)
		for _, d := range resp.Denoms {
			did := d.Id
			for _, o := range accts {
				owner := o
				add("nft", "owner/"+did+"/"+owner, false, func(c *chain.Chain, ctx sdk.Context, _ int64) (proto.Message, error) {
					return c.K.NFT.NFTsOfOwner(ctx, &nfttypes.QueryNFTsOfOwnerRequest{DenomId: did, Owner: owner, Pagination: page()})
				})
				add("nft", "supply/"+did+"/"+owner, false, func(c *chain.Chain, ctx sdk.Context, _ int64) (proto.Message, error) {
					return c.K.NFT.Supply(ctx, &nfttypes.QuerySupplyRequest{DenomId: did, Owner: owner})
				})
			}
		}
	})

	// ---- mt: classes, tokens with supplies, balances of every account ----
	add("mt", "classes", false, func(c *chain.Chain, ctx sdk.Context, _ int64) (proto.Message, error) {
		return c.K.MT.Denoms(ctx, &mttypes.QueryDenomsRequest{Pagination: page()})
	})
	safe(func() {
		for _, d := range c.K.MT.GetDenoms(ctx) {
			did := d.Id
			add("mt", "class/"+did, true, func(c *chain.Chain, ctx sdk.Context, _ int64) (proto.Message, error) {
				return c.K.MT.Denom(ctx, &mttypes.QueryDenomRequest{DenomId: did})
			})
			add("mt", "mts/"+did, false, func(c *chain.Chain, ctx sdk.Context, _ int64) (proto.Message, error) {
				return c.K.MT.MTs(ctx, &mttypes.QueryMTsRequest{DenomId: did, Pagination: page()})
			})
			mts, err := c.K.MT.MTs(ctx, &mttypes.QueryMTsRequest{DenomId: did, Pagination: page()})
			if err == nil {
				for _, m := range mts.Mts {
					mid := m.Id
					add("mt", "mt/"+did+"/"+mid, true, func(c *chain.Chain, ctx sdk.Context, _ int64) (proto.Message, error) {
						return c.K.MT.MT(ctx, &mttypes.QueryMTRequest{DenomId: did, MtId: mid})
					})
					add("mt", "mtsupply/"+did+"/"+mid, false, func(c *chain.Chain, ctx sdk.Context, _ int64) (proto.Message, error) {
						return c.K.MT.MTSupply(ctx, &mttypes.QueryMTSupplyRequest{DenomId: did, MtId: mid})
					})
				}
			}
			for _, a := range accts {
				owner := a
				// every account is asked: a holder who transferred or burned
				// everything keeps a zero entry that the answer shows
				r, err := c.K.MT.Balances(ctx, &mttypes.QueryBalancesRequest{Owner: owner, DenomId: did, Pagination: page()})
				add("mt", "balance/"+did+"/"+owner, err == nil && len(r.Balance) > 0, func(c *chain.Chain, ctx sdk.Context, _ int64) (proto.Message, error) {
					return c.K.MT.Balances(ctx, &mttypes.QueryBalancesRequest{Owner: owner, DenomId: did, Pagination: page()})
				})
			}
		}
	})

	// ---- service: definitions, bindings, request contexts ----
	add("service", "params", false, func(c *chain.Chain, ctx sdk.Context, _ int64) (proto.Message, error) {
		return c.K.Service.Params(ctx, &servicetypes.QueryParamsRequest{})
	})
	safe(func() {
		c.K.Service.IterateServiceDefinitions(ctx, func(d servicetypes.ServiceDefinition) bool {
			name := d.Name
			add("service", "def/"+name, true, func(c *chain.Chain, ctx sdk.Context, _ int64) (proto.Message, error) {
				return c.K.Service.Definition(ctx, &servicetypes.QueryDefinitionRequest{ServiceName: name})
			})
			add("service", "bindings/"+name, false, func(c *chain.Chain, ctx sdk.Context, _ int64) (proto.Message, error) {
				return c.K.Service.Bindings(ctx, &servicetypes.QueryBindingsRequest{ServiceName: name, Pagination: page()})
			})
			return false
		})
		c.K.Service.IterateServiceBindings(ctx, func(b servicetypes.ServiceBinding) bool {
			name, prov := b.ServiceName, b.Provider
			add("service", "binding/"+name+"/"+prov, true, func(c *chain.Chain, ctx sdk.Context, _ int64) (proto.Message, error) {
				return c.K.Service.Binding(ctx, &servicetypes.QueryBindingRequest{ServiceName: name, Provider: prov})
			})
			return false
		})
		provs := map[string]bool{}
		c.K.Service.IterateServiceBindings(ctx, func(b servicetypes.ServiceBinding) bool {
			provs[b.Provider] = true
			return false
		})
		for pv := range provs {
			prov := pv
			// what the provider has earned and not yet withdrawn (zero-height:
			// documented as refunded, see rebase.go)
			add("service", "earned/"+prov, false, func(c *chain.Chain, ctx sdk.Context, _ int64) (proto.Message, error) {
				return c.K.Service.EarnedFees(ctx, &servicetypes.QueryEarnedFeesRequest{Provider: prov})
			})
		}
		c.K.Service.IterateWithdrawAddresses(ctx, func(owner, _ sdk.AccAddress) bool {
			o := owner.String()
			add("service", "waddr/"+o, false, func(c *chain.Chain, ctx sdk.Context, _ int64) (proto.Message, error) {
				return c.K.Service.WithdrawAddress(ctx, &servicetypes.QueryWithdrawAddressRequest{Owner: o})
			})
			return false
		})
		c.K.Service.IterateRequestContexts(ctx, func(id tmbytes.HexBytes, _ servicetypes.RequestContext) bool {
			cid := strings.ToUpper(hex.EncodeToString(id))
			add("service", "ctx/"+cid, true, func(c *chain.Chain, ctx sdk.Context, _ int64) (proto.Message, error) {
				return c.K.Service.RequestContext(ctx, &servicetypes.QueryRequestContextRequest{RequestContextId: cid})
			})
			return false
		})
	})

	// ---- oracle: feeds and their value history ----
	add("oracle", "feeds", false, func(c *chain.Chain, ctx sdk.Context, _ int64) (proto.Message, error) {
		return c.K.Oracle.Feeds(ctx, &oracletypes.QueryFeedsRequest{Pagination: page()})
	})
	safe(func() {
		c.K.Oracle.IteratorFeeds(ctx, func(f oracletypes.Feed) {
			name := f.FeedName
			add("oracle", "feed/"+name, true, func(c *chain.Chain, ctx sdk.Context, _ int64) (proto.Message, error) {
				return c.K.Oracle.Feed(ctx, &oracletypes.QueryFeedRequest{FeedName: name})
			})
			add("oracle", "values/"+name, true, func(c *chain.Chain, ctx sdk.Context, _ int64) (proto.Message, error) {
				return c.K.Oracle.FeedValue(ctx, &oracletypes.QueryFeedValueRequest{FeedName: name})
			})
		})
	})

	// ---- random: pending request queue (by height and as a whole) ----
	add("random", "queue", false, func(c *chain.Chain, ctx sdk.Context, _ int64) (proto.Message, error) {
		return c.K.Random.RandomRequestQueue(ctx, &randomtypes.QueryRandomRequestQueueRequest{Height: 0})
	})
	safe(func() {
		seen := map[int64]bool{}
		c.K.Random.IterateRandomRequestQueue(ctx, func(h int64, _ []byte, _ randomtypes.Request) bool {
			if !seen[h] {
				seen[h] = true
				add("random", fmt.Sprintf("queue/%d", h), true, func(c *chain.Chain, ctx sdk.Context, shift int64) (proto.Message, error) {
					return c.K.Random.RandomRequestQueue(ctx, &randomtypes.QueryRandomRequestQueueRequest{Height: h - shift})
				})
			}
			return false
		})
	})

	// ---- record: records by id ----
	safe(func() {
		it := c.K.Record.RecordsIterator(ctx)
		defer it.Close()
		for ; it.Valid(); it.Next() {
			rid := hex.EncodeToString(it.Key()[1:])
			add("record", "record/"+rid, true, func(c *chain.Chain, ctx sdk.Context, _ int64) (proto.Message, error) {
				return c.K.Record.Record(ctx, &recordtypes.QueryRecordRequest{RecordId: rid})
			})
		}
	})
	return qs
}

// generatedRandoms lists the request ids of stored random numbers (not part of
// the property's list of durable objects — the module does not export them;
// logged as a diagnostic only).
func generatedRandoms(c *chain.Chain, ctx sdk.Context) (ids []string) {
	defer func() { recover() }()
	c.K.Random.IterateRandoms(ctx, func(r randomtypes.Random) bool {
		ids = append(ids, r.RequestTxHash)
		return false
	})
	return ids
}

// dueInfo: per module, whether an object has its due height exactly at the
// current height (it was processed by this very block) or at the next one (an
// import taken now starts at the due height).  These are the boundary
// conditions under which queue reconstruction on import goes wrong; they
// direct the choice of checkpoints and are logged with every round trip.
func dueInfo(c *chain.Chain, ctx sdk.Context) (now, next chain.M) {
	now, next = boolMap(false), boolMap(false)
	h := ctx.BlockHeight()
	mark := func(mod string, due int64) {
		if due == h {
			now[mod] = true
		}
		if due == h+1 {
			next[mod] = true
		}
	}
	func() {
		defer func() { recover() }()
		c.K.Farm.IteratorAllPools(ctx, func(p farmtypes.FarmPool) { mark("farm", p.EndHeight) })
	}()
	func() {
		defer func() { recover() }()
		c.K.HTLC.IterateHTLCs(ctx, func(_ tmbytes.HexBytes, x htlctypes.HTLC) bool {
			if x.State == htlctypes.Open {
				mark("htlc", int64(x.ExpirationHeight))
			}
			return false
		})
	}()
	func() {
		defer func() { recover() }()
		c.K.Random.IterateRandomRequestQueue(ctx, func(q int64, _ []byte, _ randomtypes.Request) bool {
			mark("random", q)
			return false
		})
	}()
	func() {
		defer func() { recover() }()
		c.K.Service.IterateExpiredRequestBatch(ctx, h+1, func(_ tmbytes.HexBytes, _ servicetypes.RequestContext) {
			next["service"] = true
		})
		c.K.Service.IterateNewRequestBatch(ctx, h+1, func(_ tmbytes.HexBytes, _ *servicetypes.RequestContext) {
			next["service"] = true
		})
	}()
	return now, next
}
