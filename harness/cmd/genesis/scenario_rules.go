package main

import (
	"crypto/sha256"
	"encoding/hex"
	"fmt"
	"time"

	sdkmath "cosmossdk.io/math"
	tmbytes "github.com/cometbft/cometbft/libs/bytes"
	sdk "github.com/cosmos/cosmos-sdk/types"
	banktypes "github.com/cosmos/cosmos-sdk/x/bank/types"

	"verif/harness/chain"

	coinswaptypes "mods.irisnet.org/modules/coinswap/types"
	farmtypes "mods.irisnet.org/modules/farm/types"
	htlctypes "mods.irisnet.org/modules/htlc/types"
	mttypes "mods.irisnet.org/modules/mt/types"
	nfttypes "mods.irisnet.org/modules/nft/types"
	oracletypes "mods.irisnet.org/modules/oracle/types"
	randomtypes "mods.irisnet.org/modules/random/types"
	servicetypes "mods.irisnet.org/modules/service/types"
	tokentypes "mods.irisnet.org/modules/token/types"
	tokenv1 "mods.irisnet.org/modules/token/types/v1"
	"mods.irisnet.org/simapp"
)

// Rule-boundary scenarios (findings/genesis.md, "Walk over the validation
// rules"): for every rule of the modules' ValidateGenesis / InitGenesis (and
// the types' Validate methods they call) a history of real transactions and
// block handlers that puts the exported objects NEXT to the rule's boundary on
// the accepted side — counters equal or off by one, two related counters at
// their extreme reachable values, objects after their "last" transition and
// after parameter changes, empty next to populated sub-collections.  All of
// them must round-trip on the unchanged tree (both modes); a validation rule
// that is one notch too strict, an export that drops the unusual entry or an
// import that rebuilds a counter from the wrong collection fails a clause here.

// must runs an authority message (between blocks) that has to be accepted.
func must(c *chain.Chain, msg sdk.Msg) {
	ok, panicked, log := c.Authority(msg)
	if !ok || panicked {
		panic(fmt.Sprintf("scenario authority message refused (panic=%v): %s", panicked, log))
	}
}

// need: the scenario must really have reached the state it is about (otherwise
// it fails, and the check is inconclusive instead of vacuously green).
func need(ok bool, format string, a ...any) {
	if !ok {
		panic("scenario did not reach its state: " + fmt.Sprintf(format, a...))
	}
}

// ---------------------------------------------------------------------------
// htlc

type swap struct {
	msg        sdk.Msg
	id, secret string
}

// htlt builds a cross-chain transfer (HTLT) of amt between from and to.
func htlt(c *chain.Chain, n int, from, to string, amt string, lock uint64) swap {
	secret := sha256.Sum256([]byte(fmt.Sprintf("verif-rules-%d", n)))
	ts := uint64(c.Time.Unix())
	hl := htlctypes.GetHashLock(secret[:], ts)
	a := coins(amt)
	id := htlctypes.GetID(c.Accts[from].Addr, c.Accts[to].Addr, a, hl)
	return swap{msg: &htlctypes.MsgCreateHTLC{Sender: addr(c, from), To: addr(c, to), ReceiverOnOtherChain: "rx", SenderOnOtherChain: "sx",
		Amount: a, HashLock: hex.EncodeToString(hl), Timestamp: ts, TimeLock: lock, Transfer: true},
		id: hex.EncodeToString(id), secret: hex.EncodeToString(secret[:])}
}

func claim(c *chain.Chain, who string, s swap) chain.Tx {
	return tx(who, &htlctypes.MsgClaimHTLC{Sender: addr(c, who), Id: s.id, Secret: s.secret})
}

func assetParam(c *chain.Chain, denom string, limit int64, timeLimited bool, period time.Duration, tbl, minA, maxA, fee int64, active bool) htlctypes.AssetParam {
	return htlctypes.AssetParam{Denom: denom,
		SupplyLimit: htlctypes.SupplyLimit{Limit: sdkmath.NewInt(limit), TimeLimited: timeLimited, TimePeriod: period,
			TimeBasedLimit: sdkmath.NewInt(tbl)},
		Active: active, DeputyAddress: addr(c, "dep"), FixedFee: sdkmath.NewInt(fee), MinSwapAmount: sdkmath.NewInt(minA),
		MaxSwapAmount: sdkmath.NewInt(maxA), MinBlockLock: htlctypes.MinTimeLock, MaxBlockLock: 2 * htlctypes.MinTimeLock}
}

func htlcGenesis(assets func(c *chain.Chain) []htlctypes.AssetParam) func(c *chain.Chain, gs simapp.GenesisState) {
	return func(c *chain.Chain, gs simapp.GenesisState) {
		cdc := c.App.AppCodec()
		var hg htlctypes.GenesisState
		cdc.MustUnmarshalJSON(gs[htlctypes.ModuleName], &hg)
		hg.Params.AssetParams = assets(c)
		hg.Supplies = nil
		for _, a := range hg.Params.AssetParams {
			z := sdk.NewCoin(a.Denom, sdkmath.ZeroInt())
			hg.Supplies = append(hg.Supplies, htlctypes.NewAssetSupply(z, z, z, z, 0))
		}
		hg.PreviousBlockTime = c.Time
		gs[htlctypes.ModuleName] = cdc.MustMarshalJSON(&hg)
	}
}

func supplyOf(c *chain.Chain, denom string) htlctypes.AssetSupply {
	s, ok := c.K.HTLC.GetAssetSupply(c.Ctx(), denom)
	if !ok {
		panic("no asset supply of " + denom)
	}
	return s
}

func wantSupply(c *chain.Chain, denom string, in, out, cur, tl int64) {
	s := supplyOf(c, denom)
	got := [4]int64{s.IncomingSupply.Amount.Int64(), s.OutgoingSupply.Amount.Int64(), s.CurrentSupply.Amount.Int64(), s.TimeLimitedCurrentSupply.Amount.Int64()}
	if got != [4]int64{in, out, cur, tl} {
		panic(fmt.Sprintf("scenario: supply of %s is in/out/cur/tl=%v at height %d, wanted %v", denom, got, c.Height, [4]int64{in, out, cur, tl}))
	}
}

func init() {
	scenarios = append(scenarios, []scenario{
		{
			// AssetSupply.Validate / InitGenesis supply rules.  Two assets with a
			// limit of 100: "htltwin" is time-limited (60 per 100 s window), "htltcap"
			// is not.  Reached, and exported at every block in between:
			//   time-limited counter = time-based limit (60/60), = current, > current
			//   (an incoming claim followed by an outgoing create + claim inside one
			//   window: current 0, time-limited 60), outgoing = current, the window
			//   roll-over (time-limited back to 0, elapsed time back to 0);
			//   incoming + current = limit, current = limit, outgoing = current = limit.
			name:     "htlc_supply_rules",
			accounts: map[string]string{"dep": rich, "u": rich},
			mutate: htlcGenesis(func(c *chain.Chain) []htlctypes.AssetParam {
				return []htlctypes.AssetParam{
					assetParam(c, "htltwin", 100, true, 100*time.Second, 60, 1, 60, 1, true),
					assetParam(c, "htltcap", 100, false, 0, 0, 1, 100, 0, true),
				}
			}),
			marked: true, boundary: 2,
			run: func(c *chain.Chain) {
				in1, cin1 := htlt(c, 1, "dep", "u", "50htltwin", 60), htlt(c, 2, "dep", "u", "60htltcap", 60)
				blk(c, tx("dep", in1.msg), tx("dep", cin1.msg))
				wantSupply(c, "htltwin", 50, 0, 0, 0)
				blk(c, claim(c, "u", in1), claim(c, "u", cin1))
				wantSupply(c, "htltwin", 0, 0, 50, 50)
				in2, cin2 := htlt(c, 3, "dep", "u", "10htltwin", 60), htlt(c, 4, "dep", "u", "40htltcap", 60)
				blk(c, tx("dep", in2.msg), tx("dep", cin2.msg))
				wantSupply(c, "htltwin", 10, 0, 50, 50) // time-limited + incoming = time-based limit
				wantSupply(c, "htltcap", 40, 0, 60, 0)  // incoming + current = limit
				blk(c, claim(c, "u", in2), claim(c, "u", cin2))
				wantSupply(c, "htltwin", 0, 0, 60, 60) // time-limited = time-based limit = current
				wantSupply(c, "htltcap", 0, 0, 100, 0) // current = limit
				out1, cout1 := htlt(c, 5, "u", "dep", "60htltwin", 60), htlt(c, 6, "u", "dep", "100htltcap", 60)
				blk(c, tx("u", out1.msg), tx("u", cout1.msg))
				wantSupply(c, "htltwin", 0, 60, 60, 60)  // outgoing = current
				wantSupply(c, "htltcap", 0, 100, 100, 0) // outgoing = current = limit
				blk(c, claim(c, "dep", out1))
				wantSupply(c, "htltwin", 0, 0, 0, 60) // current 0, time-limited 60: the counter measures inflow
				blk(c)
				// ... until the window has rolled over
				for i := 0; i < 24 && !supplyOf(c, "htltwin").TimeLimitedCurrentSupply.IsZero(); i++ {
					blk(c)
				}
				wantSupply(c, "htltwin", 0, 0, 0, 0)
				in3 := htlt(c, 7, "dep", "u", "30htltwin", 60)
				blk(c, tx("dep", in3.msg))
				blk(c, claim(c, "u", in3))
				wantSupply(c, "htltwin", 0, 0, 30, 30)
				out2 := htlt(c, 8, "u", "dep", "20htltwin", 60)
				blk(c, tx("u", out2.msg), claim(c, "dep", cout1))
				wantSupply(c, "htltcap", 0, 0, 0, 0)
				blk(c, claim(c, "dep", out2))
				wantSupply(c, "htltwin", 0, 0, 10, 30) // 0 < current < time-limited
				blk(c)
			},
		},
		{
			// Params.Validate (asset rules) and the supply-versus-limit panics of
			// InitGenesis after parameter changes, each on the accepted side:
			// a limit lowered to exactly current + incoming, then current = limit;
			// time-based limit = limit; an asset added by the authority (its supply
			// record is created by the next begin blocker); limit 0 and time-based
			// limit 0 on an unused asset; min = max block lock, min = max swap amount;
			// an unused asset switched off; plain contracts over several coins, over
			// an asset denom, with a 128-byte foreign address.  At the very end an
			// unused asset is removed from the parameters while its (all-zero)
			// supply record stays: InitGenesis finds no limit for it (F26's class).
			name:     "htlc_params_life",
			accounts: map[string]string{"dep": rich, "u": rich},
			mutate: htlcGenesis(func(c *chain.Chain) []htlctypes.AssetParam {
				return []htlctypes.AssetParam{assetParam(c, "htltone", 100, false, 0, 0, 1, 100, 0, true)}
			}),
			run: func(c *chain.Chain) {
				one := func(limit int64, tl bool, tbl int64) htlctypes.AssetParam {
					return assetParam(c, "htltone", limit, tl, 200*time.Second, tbl, 1, 100, 0, true)
				}
				two := func(limit, tbl int64, active bool) htlctypes.AssetParam {
					p := assetParam(c, "htlttwo", limit, true, 50*time.Second, tbl, 7, 7, 0, active)
					p.MaxBlockLock = p.MinBlockLock
					return p
				}
				set := func(ps ...htlctypes.AssetParam) {
					must(c, &htlctypes.MsgUpdateParams{Authority: chain.GovAuthority(), Params: htlctypes.Params{AssetParams: ps}})
				}
				in1 := htlt(c, 11, "dep", "u", "50htltone", 60)
				blk(c, tx("dep", in1.msg))
				in2 := htlt(c, 12, "dep", "u", "30htltone", 60)
				blk(c, claim(c, "u", in1), tx("dep", in2.msg))
				out1 := htlt(c, 13, "u", "dep", "20htltone", 60)
				blk(c, tx("u", out1.msg))
				wantSupply(c, "htltone", 30, 20, 50, 0)
				set(one(100, false, 0), two(40, 40, true)) // a new asset
				blk(c)
				wantSupply(c, "htlttwo", 0, 0, 0, 0)
				set(one(80, false, 0), two(40, 40, true)) // limit = current + incoming
				blk(c)
				blk(c, claim(c, "u", in2))
				wantSupply(c, "htltone", 0, 20, 80, 0)  // current = limit
				set(one(80, true, 80), two(0, 0, true)) // time-based limit = limit; limit 0
				blk(c)
				// plain contracts: several coins, an asset denom, a long foreign address
				sec := sha256.Sum256([]byte("verif-rules-plain"))
				ts := uint64(c.Time.Unix())
				hl := hex.EncodeToString(htlctypes.GetHashLock(sec[:], ts))
				long := ""
				for len(long) < htlctypes.MaxLengthForAddressOnOtherChain {
					long += "x"
				}
				blk(c, tx("u", &htlctypes.MsgCreateHTLC{Sender: addr(c, "u"), To: addr(c, "dep"), ReceiverOnOtherChain: long, SenderOnOtherChain: long,
					Amount: coins("5btc,7htltone,1rw1,3stake"), HashLock: hl, Timestamp: ts, TimeLock: htlctypes.MinTimeLock}),
					tx("u", &htlctypes.MsgCreateHTLC{Sender: addr(c, "u"), To: addr(c, "u"),
						Amount: coins("1htltone"), HashLock: hl, Timestamp: ts, TimeLock: htlctypes.MaxTimeLock}))
				set(one(80, true, 80), two(0, 0, false)) // an unused asset switched off
				blk(c)
				blk(c, claim(c, "dep", out1))
				wantSupply(c, "htltone", 0, 0, 60, 0)
				set(one(60, true, 0), two(5, 5, false)) // current = limit again, time-based limit 0
				blk(c)
				blk(c)
				set(one(60, true, 0)) // the unused asset is removed; its supply record stays
				blk(c)
				blk(c)
			},
		},
		{
			// coinswap ValidateGenesis: sequence = highest share denom + 1 with 1, 3
			// and 4 pools; counterparty denoms of unusual kinds (an IBC voucher, an
			// upper-case twin of another pool's denom, separators); an emptied pool
			// between funded ones; Params.Validate at its open bounds (fee and tax
			// rate 10^-18 and 1 - 10^-18, unilateral fee 0 and 1 - 10^-18, creation
			// fee of 1 unit of a non-standard coin), with pools created and traded
			// under the changed parameters.
			name: "coinswap_rules",
			accounts: map[string]string{"a": rich + ",1000000000000BTC,1000000000000ibc/27394FB092D2ECCD56123C74F36E4C1F926001CEADA9CA97EA622B25F41E5EB2,1000000000000x:y.z_w-v",
				"b": rich},
			run: func(c *chain.Chain) {
				const voucher = "ibc/27394FB092D2ECCD56123C74F36E4C1F926001CEADA9CA97EA622B25F41E5EB2"
				add := func(denom string, tok, std int64) sdk.Msg {
					return &coinswaptypes.MsgAddLiquidity{MaxToken: sdk.NewInt64Coin(denom, tok), ExactStandardAmt: sdkmath.NewInt(std),
						MinLiquidity: sdkmath.OneInt(), Deadline: c.Time.Add(time.Hour).Unix(), Sender: addr(c, "a")}
				}
				eps := sdkmath.LegacyNewDecWithPrec(1, 18)
				almost := sdkmath.LegacyOneDec().Sub(eps)
				blk(c, tx("a", add("btc", 1000000, 2000000)))
				blk(c, tx("a", add(voucher, 3000000, 1000000)), tx("a", add("BTC", 500000, 500000)))
				must(c, &coinswaptypes.MsgUpdateParams{Authority: chain.GovAuthority(), Params: coinswaptypes.Params{Fee: eps,
					PoolCreationFee: sdk.NewInt64Coin("btc", 1), TaxRate: almost, UnilateralLiquidityFee: sdkmath.LegacyZeroDec()}})
				blk(c)
				blk(c, tx("a", add("x:y.z_w-v", 700000, 700000)))
				need(len(c.K.Coinswap.GetAllPools(c.Ctx())) == 4, "four pools")
				soft(c, tx("b", &coinswaptypes.MsgSwapOrder{Input: coinswaptypes.Input{Address: addr(c, "b"), Coin: sdk.NewInt64Coin("stake", 1000)},
					Output: coinswaptypes.Output{Address: addr(c, "a"), Coin: sdk.NewInt64Coin(voucher, 1)}, Deadline: c.Time.Add(time.Hour).Unix()}),
					tx("b", &coinswaptypes.MsgAddUnilateralLiquidity{CounterpartyDenom: "BTC", ExactToken: sdk.NewInt64Coin("stake", 5000),
						MinLiquidity: sdkmath.OneInt(), Deadline: c.Time.Add(time.Hour).Unix(), Sender: addr(c, "b")}))
				all := c.App.BankKeeper.GetBalance(c.Ctx(), c.Accts["a"].Addr, "lpt-2")
				blk(c, tx("a", &coinswaptypes.MsgRemoveLiquidity{WithdrawLiquidity: all, MinToken: sdkmath.OneInt(),
					MinStandardAmt: sdkmath.OneInt(), Deadline: c.Time.Add(time.Hour).Unix(), Sender: addr(c, "a")}))
				must(c, &coinswaptypes.MsgUpdateParams{Authority: chain.GovAuthority(), Params: coinswaptypes.Params{Fee: almost,
					PoolCreationFee: sdk.NewInt64Coin("x:y.z_w-v", 1), TaxRate: eps, UnilateralLiquidityFee: almost}})
				blk(c)
				soft(c, tx("b", &coinswaptypes.MsgSwapOrder{Input: coinswaptypes.Input{Address: addr(c, "b"), Coin: sdk.NewInt64Coin("stake", 1000)},
					Output: coinswaptypes.Output{Address: addr(c, "b"), Coin: sdk.NewInt64Coin("btc", 1)}, Deadline: c.Time.Add(time.Hour).Unix()}))
				blk(c)
			},
		},
		{
			// farm ValidateGenesis: sequence = highest pool number with four pools; a
			// rule whose rewardPerShare is 0 in each excused state (nothing released
			// yet, also after an AdjustPool that added reward; ended and refunded with
			// nobody ever inside; destroyed before its start) next to rules with
			// rewardPerShare > 0 and remaining 0 (a pool whose reward ran out exactly
			// in its last block: the end-block refund fails half way with "no remaining
			// reward"); two reward denoms; a pool whose end height was moved by
			// AdjustPool; a farmer who left completely and came back; total stake 0
			// while rewards remain; parameters changed afterwards (creation fee in
			// another coin, fewer reward categories than an existing pool has).
			name:     "farm_rules",
			accounts: map[string]string{"a": rich, "f": rich, "g": rich},
			run: func(c *chain.Chain) {
				lpSetup(c, "a")
				lp := func(n int64) sdk.Coins { return sdk.NewCoins(sdk.NewInt64Coin("lpt-1", n)) }
				blk(c, tx("a", banktypes.NewMsgSend(c.Accts["a"].Addr, c.Accts["f"].Addr, lp(5000))),
					tx("a", banktypes.NewMsgSend(c.Accts["a"].Addr, c.Accts["g"].Addr, lp(5000))))
				pool := func(desc string, start int64, perBlock, total string, editable bool) sdk.Msg {
					return &farmtypes.MsgCreatePool{Description: desc, LptDenom: "lpt-1", StartHeight: start,
						RewardPerBlock: coins(perBlock), TotalReward: coins(total), Editable: editable, Creator: addr(c, "a")}
				}
				h := c.Height
				blk(c, tx("a", pool("two denoms", h+4, "2rw1,1rw2", "40rw1,20rw2", true)),
					tx("a", pool("runs out exactly", h+4, "3rw1", "9rw1", false)),
					tx("a", pool("nobody comes", h+4, "1rw2", "3rw2", false)),
					tx("a", pool("destroyed before its start", h+100, "1rw1", "50rw1", true)))
				blk(c, tx("a", &farmtypes.MsgAdjustPool{PoolId: "farm-1", AdditionalReward: coins("10rw1"), Creator: addr(c, "a")}))
				blk(c, tx("a", &farmtypes.MsgDestroyPool{PoolId: "farm-4", Creator: addr(c, "a")}))
				stake := func(who, id string, n int64) chain.Tx {
					return tx(who, &farmtypes.MsgStake{PoolId: id, Amount: sdk.NewInt64Coin("lpt-1", n), Sender: addr(c, who)})
				}
				unstake := func(who, id string, n int64) chain.Tx {
					return tx(who, &farmtypes.MsgUnstake{PoolId: id, Amount: sdk.NewInt64Coin("lpt-1", n), Sender: addr(c, who)})
				}
				blk(c, stake("f", "farm-1", 1000), stake("f", "farm-2", 500)) // height h+4: the pools start
				blk(c)
				blk(c, tx("a", &farmtypes.MsgAdjustPool{PoolId: "farm-1", RewardPerBlock: coins("5rw1"), Creator: addr(c, "a")}))
				blk(c) // farm-2 and farm-3 end here
				for id, want := range map[string][2]bool{"farm-2": {true, true}, "farm-3": {false, true}, "farm-4": {false, true}} {
					p, _ := c.K.Farm.GetPool(c.Ctx(), id)
					r := c.K.Farm.GetRewardRules(c.Ctx(), id)[0]
					need(r.RewardPerShare.IsPositive() == want[0] && r.RemainingReward.IsZero() == want[1] && p.EndHeight == p.LastHeightDistrRewards,
						"%s: rewardPerShare %s remaining %s end %d last %d", id, r.RewardPerShare, r.RemainingReward, p.EndHeight, p.LastHeightDistrRewards)
				}
				need(c.K.Farm.GetSequence(c.Ctx()) == 4, "farm sequence")
				blk(c, unstake("f", "farm-1", 1000)) // nobody is left in farm-1
				blk(c)
				blk(c, stake("g", "farm-1", 300))
				blk(c, stake("f", "farm-1", 200), unstake("f", "farm-2", 500))
				blk(c, tx("g", &farmtypes.MsgHarvest{PoolId: "farm-1", Sender: addr(c, "g")}))
				must(c, &farmtypes.MsgUpdateParams{Authority: chain.GovAuthority(), Params: farmtypes.Params{
					PoolCreationFee: sdk.NewInt64Coin("rw2", 1), MaxRewardCategories: 1, TaxRate: sdkmath.LegacyNewDecWithPrec(5, 1)}})
				blk(c)
				blk(c, tx("a", pool("under the new parameters", c.Height+2, "1rw2", "4rw2", true)))
				blk(c)
				blk(c)
			},
		},
		{
			// mt ValidateGenesis (classes of the owners' balances exist; as many MTs in
			// the classes as in the balances; supplies equal the sums of balances): a
			// class without any MT next to populated ones; an MT whose supply is the
			// largest 64-bit number, spread over two holders (the sum of the balances is
			// formed in uint64); a fully burned MT and an emptied holder in the same
			// class; a class handed over to another owner; an MT edited after its supply
			// changed (the stored record carries a stale supply); minting goes on
			// afterwards (both sequences are rebuilt from counts on import).
			name:     "mt_rules",
			accounts: map[string]string{"a": rich, "b": rich},
			run: func(c *chain.Chain) {
				blk(c, tx("a", &mttypes.MsgIssueDenom{Name: "first", Data: []byte("d1"), Sender: addr(c, "a")}),
					tx("b", &mttypes.MsgIssueDenom{Name: "stays empty", Sender: addr(c, "b")}),
					tx("a", &mttypes.MsgIssueDenom{Name: "third", Data: []byte("d3"), Sender: addr(c, "a")}))
				var dA, dC string
				for _, d := range c.K.MT.GetDenoms(c.Ctx()) {
					switch d.Name {
					case "first":
						dA = d.Id
					case "third":
						dC = d.Id
					}
				}
				const top = ^uint64(0)
				blk(c, tx("a", &mttypes.MsgMintMT{DenomId: dA, Amount: top - 5, Data: []byte("huge"), Sender: addr(c, "a"), Recipient: addr(c, "a")}),
					tx("a", &mttypes.MsgMintMT{DenomId: dA, Amount: 1, Data: []byte("one"), Sender: addr(c, "a"), Recipient: addr(c, "b")}),
					tx("a", &mttypes.MsgMintMT{DenomId: dC, Amount: 7, Data: []byte("seven"), Sender: addr(c, "a"), Recipient: addr(c, "a")}))
				idOf := func(class, owner string, amount uint64) string {
					r, err := c.K.MT.Balances(c.Ctx(), &mttypes.QueryBalancesRequest{Owner: addr(c, owner), DenomId: class, Pagination: page()})
					if err != nil {
						panic(err)
					}
					for _, bal := range r.Balance {
						if bal.Amount == amount {
							return bal.MtId
						}
					}
					panic(fmt.Sprintf("mt_rules: no mt of amount %d held by %s", amount, owner))
				}
				huge, one := idOf(dA, "a", top-5), idOf(dA, "b", 1)
				blk(c, tx("a", &mttypes.MsgMintMT{Id: huge, DenomId: dA, Amount: 5, Sender: addr(c, "a"), Recipient: addr(c, "b")})) // supply 2^64-1
				need(c.K.MT.GetMTSupply(c.Ctx(), dA, huge) == top, "mt supply %d", c.K.MT.GetMTSupply(c.Ctx(), dA, huge))
				blk(c, tx("a", &mttypes.MsgTransferDenom{Id: dA, Sender: addr(c, "a"), Recipient: addr(c, "b")}))
				blk(c, tx("b", &mttypes.MsgBurnMT{Id: one, DenomId: dA, Amount: 1, Sender: addr(c, "b")}),
					tx("b", &mttypes.MsgTransferMT{Id: huge, DenomId: dA, Amount: 5, Sender: addr(c, "b"), Recipient: addr(c, "a")}))
				blk(c, tx("b", &mttypes.MsgEditMT{Id: one, DenomId: dA, Data: []byte("edited after the burn"), Sender: addr(c, "b")}),
					tx("b", &mttypes.MsgEditMT{Id: huge, DenomId: dA, Data: []byte("edited at full supply"), Sender: addr(c, "b")}))
				blk(c, tx("a", &mttypes.MsgBurnMT{Id: huge, DenomId: dA, Amount: top - 1, Sender: addr(c, "a")}))
				blk(c, tx("b", &mttypes.MsgMintMT{DenomId: dA, Amount: 2, Data: []byte("late"), Sender: addr(c, "b"), Recipient: addr(c, "b")}),
					tx("a", &mttypes.MsgIssueDenom{Name: "fourth", Sender: addr(c, "a")}))
				blk(c)
			},
		},
		{
			// nft ValidateGenesis (class id, token id, token uri length, owner): class
			// and token ids of the shortest (3) and longest (101) accepted length, with
			// upper-case letters and slashes, a token id shaped like an IBC class id;
			// a token uri of exactly 256 bytes set at mint time, by an edit and by a
			// transfer; empty names, uris and data; restricted classes; a class without
			// tokens; a class handed over; a module account as owner.
			name:     "nft_rules",
			accounts: map[string]string{"a": rich, "b": rich},
			run: func(c *chain.Chain) {
				rep := func(ch string, n int) string {
					out := ""
					for len(out) < n {
						out += ch
					}
					return out
				}
				longID := "z" + rep("Q/9", 100)[:100]
				uri256 := rep("u", nfttypes.MaxTokenURILen)
				keep := nfttypes.DoNotModify
				issue := func(id string, mr, ur bool) sdk.Msg {
					return &nfttypes.MsgIssueDenom{Id: id, Name: "n" + id[:2], Schema: "{}", Sender: addr(c, "a"), Symbol: "s",
						MintRestricted: mr, UpdateRestricted: ur, Description: "d", Uri: uri256 + uri256, UriHash: "h", Data: `{"k":"v"}`}
				}
				mint := func(class, id, uri, data, to string) sdk.Msg {
					return &nfttypes.MsgMintNFT{Id: id, DenomId: class, Name: "", URI: uri, Data: data, Sender: addr(c, "a"), Recipient: to}
				}
				blk(c, tx("a", issue("abc", false, false)), tx("a", issue(longID, true, true)), tx("a", issue("aBC/dEF", true, false)),
					tx("a", &nfttypes.MsgIssueDenom{Id: "bare", Sender: addr(c, "a")}), tx("a", issue("untouched", false, true)))
				farm := chain.ModuleAddr("farm").String()
				blk(c, tx("a", mint("abc", "t01", uri256, "", addr(c, "a"))), tx("a", mint("abc", longID, "", `{"a":[1,2]}`, addr(c, "b"))),
					tx("a", mint("abc", "ibc/Tok1", "short", "", farm)), tx("a", mint(longID, "t02", "", "", addr(c, "b"))),
					tx("a", mint("aBC/dEF", "t03", "x", "", addr(c, "a"))), tx("a", mint("bare", "t04", "", "", addr(c, "a"))))
				blk(c, tx("a", &nfttypes.MsgEditNFT{Id: "t03", DenomId: "aBC/dEF", Name: "edited", URI: uri256, Data: keep, Sender: addr(c, "a"), UriHash: keep}),
					tx("a", &nfttypes.MsgTransferNFT{Id: "t04", DenomId: "bare", Name: keep, URI: uri256, Data: keep, UriHash: "hash", Sender: addr(c, "a"), Recipient: addr(c, "b")}))
				for _, id := range [][2]string{{"abc", "t01"}, {"aBC/dEF", "t03"}, {"bare", "t04"}} {
					n, err := c.K.NFT.GetNFT(c.Ctx(), id[0], id[1])
					need(err == nil && len(n.GetURI()) == nfttypes.MaxTokenURILen, "uri of %s/%s", id[0], id[1])
				}
				blk(c, tx("a", &nfttypes.MsgTransferDenom{Id: "abc", Sender: addr(c, "a"), Recipient: addr(c, "b")}),
					tx("b", &nfttypes.MsgBurnNFT{Id: longID, DenomId: "abc", Sender: addr(c, "b")}))
				blk(c, tx("b", &nfttypes.MsgMintNFT{Id: "t05", DenomId: "abc", Name: "after the hand-over", Sender: addr(c, "b"), Recipient: addr(c, "b")}))
				blk(c)
			},
		},
		{
			// token ValidateGenesis (Token.Validate, Params.Validate, burned coins, the
			// fee denom must be an issued symbol): names, symbols and min units of the
			// shortest and longest accepted length; scale 18 with the largest initial
			// supply and the largest maximum; maximum = initial = 0; maximum = initial;
			// supply minted up to the maximum; maximum lowered to the present supply
			// (not below the initial one); minting switched off; owner changed; burned
			// coins of two denoms; tax rate 0 and mint fee ratio 1 (closed bounds); the
			// issue fee moved to another issued token.
			name:     "token_rules",
			accounts: map[string]string{"a": rich, "b": rich},
			run: func(c *chain.Chain) {
				rep := func(ch string, n int) string {
					out := ""
					for len(out) < n {
						out += ch
					}
					return out
				}
				issue := func(sym, name, unit string, scale uint32, initial, max uint64, mintable bool) chain.Tx {
					return tx("a", &tokenv1.MsgIssueToken{Symbol: sym, Name: name, Scale: scale, MinUnit: unit, InitialSupply: initial,
						MaxSupply: max, Mintable: mintable, Owner: addr(c, "a")})
				}
				long := "q" + rep("7w", 63)[:63]
				blk(c, issue("abc", rep("N", tokentypes.MaximumNameLen), "abc", 0, 0, 0, false),
					issue(long, "n", "u"+long[1:], tokentypes.MaximumScale, tokentypes.MaximumInitSupply, 0, true),
					issue("capd", "max = initial", "capdmin", 2, 10, 10, true),
					issue("grow", "grows to its maximum", "growmin", 6, 5, 8, true))
				blk(c, tx("a", &tokenv1.MsgMintToken{Coin: sdk.NewInt64Coin("growmin", 3000000), Receiver: addr(c, "b"), Owner: addr(c, "a")}))
				blk(c, tx("b", &tokenv1.MsgBurnToken{Coin: sdk.NewInt64Coin("growmin", 2000000), Sender: addr(c, "b")}),
					tx("a", &tokenv1.MsgBurnToken{Coin: sdk.NewInt64Coin("capdmin", 100), Sender: addr(c, "a")}))
				blk(c, tx("a", &tokenv1.MsgEditToken{Symbol: "grow", Name: tokenv1.DoNotModify, MaxSupply: 6, Mintable: tokentypes.Nil, Owner: addr(c, "a")}))
				blk(c, tx("a", &tokenv1.MsgEditToken{Symbol: "grow", Name: "n", MaxSupply: 0, Mintable: tokentypes.False, Owner: addr(c, "a")}),
					tx("a", &tokenv1.MsgTransferTokenOwner{SrcOwner: addr(c, "a"), DstOwner: addr(c, "b"), Symbol: "capd"}))
				tk, err := c.K.Token.GetToken(c.Ctx(), "grow")
				need(err == nil && tk.GetMaxSupply() == 6 && !tk.GetMintable() && c.Supply(c.Ctx(), "growmin").Equal(sdkmath.NewInt(6000000)), "grow: maximum = supply")
				p := c.K.Token.GetParams(c.Ctx())
				p.TokenTaxRate, p.MintTokenFeeRatio = sdkmath.LegacyZeroDec(), sdkmath.LegacyOneDec()
				p.IssueTokenBaseFee = sdk.NewInt64Coin("grow", 1)
				must(c, &tokenv1.MsgUpdateParams{Authority: chain.GovAuthority(), Params: p})
				blk(c)
				soft(c, issue("late", "issued for a fee in grow", "latemin", 1, 1, 2, true),
					tx("b", &tokenv1.MsgMintToken{Coin: sdk.NewInt64Coin("capdmin", 100), Owner: addr(c, "b")}))
				blk(c)
			},
		},
		{
			// service ValidateGenesis (Params, definitions, bindings, withdraw addresses,
			// request contexts: valid, PAUSED, batch COMPLETED): names, descriptions and
			// tags of the largest accepted size; a binding whose owner is not its
			// provider, with promotions by time and by volume, structured options and
			// a QoS equal to the request timeout limit; a withdraw address; a binding updated, one slashed for
			// not answering, one disabled and refunded (empty deposit); a repeated
			// context paused by its consumer between two batches (batch counter > 0),
			// updated (other providers, fee cap, timeout, frequency, total), started and
			// paused again; parameters changed under the living objects (minimum deposit
			// above every deposit, slash fraction 1, tax 0, request timeout limit below a
			// context's timeout).  At the very end the context is killed: until its
			// batch expires it is stored as COMPLETED, which the as-is import refuses
			// like a running one (F17's class).
			name:     "service_rules",
			accounts: map[string]string{"a": rich, "p": rich, "q": rich, "r": rich, "o": rich, "w": "1stake"},
			mutate: func(c *chain.Chain, gs simapp.GenesisState) {
				cdc := c.App.AppCodec()
				var sg servicetypes.GenesisState
				cdc.MustUnmarshalJSON(gs[servicetypes.ModuleName], &sg)
				sg.Params.ArbitrationTimeLimit = 5 * time.Second
				sg.Params.ComplaintRetrospect = 5 * time.Second
				gs[servicetypes.ModuleName] = cdc.MustMarshalJSON(&sg)
			},
			run: func(c *chain.Chain) {
				rep := func(ch string, n int) string {
					out := ""
					for len(out) < n {
						out += ch
					}
					return out
				}
				var tags []string
				for i := 0; i < servicetypes.MaxTagsNum; i++ {
					tags = append(tags, fmt.Sprintf("%d", i)+rep("t", servicetypes.MaxTagLength-1))
				}
				longName := "L" + rep("-_9", servicetypes.MaxNameLength)[:servicetypes.MaxNameLength-1]
				blk(c, tx("p", &servicetypes.MsgDefineService{Name: "echo", Description: rep("d", servicetypes.MaxDescriptionLength), Tags: tags,
					Author: addr(c, "p"), AuthorDescription: rep("a", servicetypes.MaxDescriptionLength), Schemas: svcSchemas}),
					tx("r", &servicetypes.MsgDefineService{Name: longName, Author: addr(c, "r"), Schemas: svcSchemas}),
					tx("r", &servicetypes.MsgDefineService{Name: "s", Author: addr(c, "r"), Schemas: svcSchemas}))
				t0 := c.Time.UTC()
				promo := fmt.Sprintf(`{"price":"50stake","promotions_by_time":[{"start_time":"%s","end_time":"%s","discount":"0.5"},{"start_time":"%s","end_time":"%s","discount":"0.000000000000000001"}],"promotions_by_volume":[{"volume":1,"discount":"0.9"},{"volume":1000000,"discount":"0.1"}]}`,
					t0.Add(-time.Hour).Format(time.RFC3339), t0.Add(time.Minute).Format(time.RFC3339), t0.Add(time.Minute).Format(time.RFC3339), t0.Add(1000*time.Hour).Format(time.RFC3339))
				blk(c, tx("p", &servicetypes.MsgBindService{ServiceName: "echo", Provider: addr(c, "p"), Deposit: coins("50000stake"),
					Pricing: promo, QoS: 1, Options: `{"a":[1,{"b":null}],"c":"x"}`, Owner: addr(c, "p")}),
					tx("o", &servicetypes.MsgBindService{ServiceName: "echo", Provider: addr(c, "q"), Deposit: coins("50000stake"),
						Pricing: `{"price":"50stake"}`, QoS: 1, Options: "{}", Owner: addr(c, "o")}),
					tx("r", &servicetypes.MsgBindService{ServiceName: longName, Provider: addr(c, "r"), Deposit: coins("5000stake"),
						Pricing: `{"price":"1stake"}`, QoS: 100, Options: `[]`, Owner: addr(c, "r")}))
				blk(c, tx("o", &servicetypes.MsgSetWithdrawAddress{Owner: addr(c, "o"), WithdrawAddress: addr(c, "w")}),
					tx("p", &servicetypes.MsgUpdateServiceBinding{ServiceName: "echo", Provider: addr(c, "p"), Deposit: coins("1stake"),
						Pricing: `{"price":"40stake"}`, QoS: 2, Options: `"just a string"`, Owner: addr(c, "p")}))
				blk(c, tx("a", &servicetypes.MsgCallService{ServiceName: "echo", Providers: []string{addr(c, "p"), addr(c, "q")},
					Consumer: addr(c, "a"), Input: svcInput, ServiceFeeCap: coins("60stake"), Timeout: 2, Repeated: true,
					RepeatedFrequency: 4, RepeatedTotal: 3}))
				var cid string
				c.K.Service.IterateRequestContexts(c.Ctx(), func(id tmbytes.HexBytes, _ servicetypes.RequestContext) bool {
					cid = id.String()
					return true
				})
				ctxOf := func() servicetypes.RequestContext {
					id, _ := hex.DecodeString(cid)
					rc, ok := c.K.Service.GetRequestContext(c.Ctx(), id)
					if !ok {
						panic("service_rules: the request context is gone")
					}
					return rc
				}
				// p answers, q never does (and is slashed when the batch expires)
				betweenBatches := func(counter uint64) {
					for i := 0; i < 12; i++ {
						rc := ctxOf()
						if rc.BatchCounter >= counter && rc.BatchState == servicetypes.BATCHCOMPLETED {
							return
						}
						blk(c, respondAll(c, "echo", "p", 1)...)
					}
					panic("service_rules: the batch never completed")
				}
				betweenBatches(1)
				// (the provider collects what it earned at once: an as-is export loses
				// earned fees, finding F29, which would end every continuation here)
				withdraw := tx("p", &servicetypes.MsgWithdrawEarnedFees{Owner: addr(c, "p"), Provider: addr(c, "p")})
				blk(c, tx("a", &servicetypes.MsgPauseRequestContext{RequestContextId: cid, Consumer: addr(c, "a")}), withdraw)
				blk(c, tx("a", &servicetypes.MsgUpdateRequestContext{RequestContextId: cid, Providers: []string{addr(c, "p")}, Consumer: addr(c, "a"),
					ServiceFeeCap: coins("41stake"), Timeout: 3, RepeatedFrequency: 5, RepeatedTotal: 5}))
				blk(c, tx("a", &servicetypes.MsgStartRequestContext{RequestContextId: cid, Consumer: addr(c, "a")}))
				betweenBatches(2)
				// (q's binding may already have been switched off by the slashing)
				soft(c, tx("a", &servicetypes.MsgPauseRequestContext{RequestContextId: cid, Consumer: addr(c, "a")}),
					tx("o", &servicetypes.MsgDisableServiceBinding{ServiceName: "echo", Provider: addr(c, "q"), Owner: addr(c, "o")}), withdraw)
				blk(c)
				soft(c, tx("o", &servicetypes.MsgRefundServiceDeposit{ServiceName: "echo", Provider: addr(c, "q"), Owner: addr(c, "o")}))
				sp := c.K.Service.GetParams(c.Ctx())
				sp.MinDeposit = coins("1000000000stake")
				sp.SlashFraction, sp.ServiceFeeTax = sdkmath.LegacyOneDec(), sdkmath.LegacyZeroDec()
				sp.MaxRequestTimeout, sp.MinDepositMultiple, sp.TxSizeLimit = 1, 1, 1
				sp.ComplaintRetrospect, sp.ArbitrationTimeLimit = 1, 1
				must(c, &servicetypes.MsgUpdateParams{Authority: chain.GovAuthority(), Params: sp})
				blk(c)
				blk(c, tx("a", &servicetypes.MsgStartRequestContext{RequestContextId: cid, Consumer: addr(c, "a")}))
				blk(c)
				blk(c, tx("a", &servicetypes.MsgKillRequestContext{RequestContextId: cid, Consumer: addr(c, "a")}))
				if ctxOf().State != servicetypes.COMPLETED {
					panic("service_rules: the killed context is not stored as COMPLETED")
				}
				blk(c)
			},
		},
		{
			// oracle ValidateGenesis (feed name, description, aggregate function, latest
			// history, creator) and InitGenesis (the feed's request context must exist;
			// values are stored under the context's batch counter): a feed that was never
			// started next to feeds that ran; the longest accepted description, a name
			// with every accepted separator, latest history 100 and 1; a feed with
			// history 1 that received several values (only one is kept and exported:
			// the accepted side of F11); a feed edited while paused (history, providers,
			// threshold, fee cap, timeout, frequency); two feeds on one service.  The
			// feeds are paused at the end (an as-is export is refused while one runs, F17).
			name:     "oracle_rules",
			accounts: map[string]string{"a": rich, "b": rich, "p": rich, "q": rich},
			run: func(c *chain.Chain) {
				rep := func(ch string, n int) string {
					out := ""
					for len(out) < n {
						out += ch
					}
					return out
				}
				defineAndBind(c, "price", "p")
				blk(c, tx("q", &servicetypes.MsgBindService{ServiceName: "price", Provider: addr(c, "q"),
					Deposit: coins("50000stake"), Pricing: `{"price":"50stake"}`, QoS: 1, Options: "{}", Owner: addr(c, "q")}))
				feed := func(who, name string, hist uint64, fn string, provs ...string) chain.Tx {
					var ps []string
					for _, x := range provs {
						ps = append(ps, addr(c, x))
					}
					return tx(who, &oracletypes.MsgCreateFeed{FeedName: name, LatestHistory: hist, Description: rep("d", oracletypes.MaxDescriptionLen),
						Creator: addr(c, who), ServiceName: "price", Providers: ps, Input: svcInput, Timeout: 2, ServiceFeeCap: coins("50stake"),
						RepeatedFrequency: 3, AggregateFunc: fn, ValueJsonPath: "price", ResponseThreshold: 1})
				}
				blk(c, feed("a", "never/started_feed-1", oracletypes.MaxLatestHistory, "max", "p", "q"),
					feed("a", "hist1", 1, "min", "p"), feed("b", "edited", 7, "avg", "p"))
				blk(c, tx("a", &oracletypes.MsgStartFeed{FeedName: "hist1", Creator: addr(c, "a")}),
					tx("b", &oracletypes.MsgStartFeed{FeedName: "edited", Creator: addr(c, "b")}))
				for i := 0; i < 12 && len(c.K.Oracle.GetFeedValues(c.Ctx(), "edited")) < 1; i++ {
					blk(c, respondAll(c, "price", "p", 9)...)
				}
				blk(c, tx("b", &oracletypes.MsgPauseFeed{FeedName: "edited", Creator: addr(c, "b")}))
				blk(c, tx("b", &oracletypes.MsgEditFeed{FeedName: "edited", Description: "", LatestHistory: 1, Providers: []string{addr(c, "q"), addr(c, "p")},
					Timeout: 3, ServiceFeeCap: coins("70stake"), RepeatedFrequency: 9, ResponseThreshold: 2, Creator: addr(c, "b")}))
				// hist1 goes on: more batches, still one value
				for i := 0; i < 5; i++ {
					blk(c, respondAll(c, "price", "p", 4+i)...)
				}
				if n := len(c.K.Oracle.GetFeedValues(c.Ctx(), "hist1")); n != 1 {
					panic(fmt.Sprintf("oracle_rules: hist1 keeps %d values", n))
				}
				blk(c, tx("a", &oracletypes.MsgPauseFeed{FeedName: "hist1", Creator: addr(c, "a")}))
				blk(c)
				blk(c)
			},
		},
		{
			// random ValidateGenesis / InitGenesis (queue heights; requests are queued
			// again under the ids recomputed from their contents): requests of two
			// consumers due at the same height, a request due in the very next block, a
			// request backed by the oracle service — its request context is created
			// PAUSED and stays so until the request falls due, so the as-is export must
			// be accepted while it is pending — and the states after it fell due
			// (context running: F17 as-is) and after the provider answered.
			name:     "random_rules",
			accounts: map[string]string{"a": rich, "b": rich, "p": rich},
			run: func(c *chain.Chain) {
				def := servicetypes.GetRandomSvcDefinition()
				blk(c, tx("p", &servicetypes.MsgDefineService{Name: def.Name, Description: def.Description, Tags: def.Tags, Author: addr(c, "p"),
					AuthorDescription: def.AuthorDescription, Schemas: def.Schemas}))
				blk(c, tx("p", &servicetypes.MsgBindService{ServiceName: def.Name, Provider: addr(c, "p"), Deposit: coins("50000stake"),
					Pricing: `{"price":"50stake"}`, QoS: 1, Options: "{}", Owner: addr(c, "p")}))
				blk(c, tx("a", &randomtypes.MsgRequestRandom{BlockInterval: 4, Consumer: addr(c, "a"), Oracle: true, ServiceFeeCap: coins("60stake")}),
					tx("b", &randomtypes.MsgRequestRandom{BlockInterval: 4, Consumer: addr(c, "b")}))
				blk(c, tx("b", &randomtypes.MsgRequestRandom{BlockInterval: 1, Consumer: addr(c, "b")}))
				blk(c)
				blk(c)
				for i := 0; i < 4; i++ {
					resp, err := c.K.Service.Requests(c.Ctx(), &servicetypes.QueryRequestsRequest{ServiceName: def.Name,
						Provider: addr(c, "p"), Pagination: page()})
					if err != nil {
						panic(err)
					}
					var txs []chain.Tx
					for _, r := range resp.Requests {
						txs = append(txs, tx("p", &servicetypes.MsgRespondService{RequestId: r.Id, Provider: addr(c, "p"), Result: svcResult,
							Output: `{"header":{},"body":{"seed":"` + rep64("3f") + `"}}`}))
					}
					blk(c, txs...)
				}
			},
		},
		{
			// F37 (fixed in /repo 19c5b32; regression): a transfer that changes the
			// uri to 257 bytes.  The repaired chain refuses it and everything round-trips;
			// should it ever be accepted again the token carries a uri that nft
			// ValidateGenesis refuses and C12_Accepted fails on every later export.
			// The longest accepted uri (256) is then set by a transfer.
			name:     "nft_uri_transfer",
			accounts: map[string]string{"a": rich, "b": rich},
			run: func(c *chain.Chain) {
				uri := ""
				for len(uri) < nfttypes.MaxTokenURILen+1 {
					uri += "u"
				}
				keep := nfttypes.DoNotModify
				blk(c, tx("a", &nfttypes.MsgIssueDenom{Id: "class1", Name: "c", Sender: addr(c, "a")}))
				blk(c, tx("a", &nfttypes.MsgMintNFT{Id: "tok1", DenomId: "class1", Sender: addr(c, "a"), Recipient: addr(c, "a")}),
					tx("a", &nfttypes.MsgMintNFT{Id: "tok2", DenomId: "class1", Sender: addr(c, "a"), Recipient: addr(c, "a")}))
				soft(c, tx("a", &nfttypes.MsgTransferNFT{Id: "tok1", DenomId: "class1", Name: keep, URI: uri, Data: keep, UriHash: keep,
					Sender: addr(c, "a"), Recipient: addr(c, "b")}))
				blk(c)
				blk(c, tx("a", &nfttypes.MsgTransferNFT{Id: "tok2", DenomId: "class1", Name: keep, URI: uri[1:], Data: keep, UriHash: keep,
					Sender: addr(c, "a"), Recipient: addr(c, "b")}))
				blk(c)
			},
		},
		{
			// F38 (fixed in /repo 462c5ca; regression): the authority moves the token
			// issue fee to a coin that is not an issued token.  The repaired chain
			// refuses the message; if it is accepted again token InitGenesis panics
			// 'Token btc does not exist' on every later export.  The fee is then moved
			// to an issued token (accepted before and after the repair).
			name:     "token_fee_denom",
			accounts: map[string]string{"a": rich},
			run: func(c *chain.Chain) {
				blk(c, tx("a", &tokenv1.MsgIssueToken{Symbol: "kitty", Name: "Kitty Token", Scale: 0, MinUnit: "kitty",
					InitialSupply: 11, MaxSupply: 100, Mintable: true, Owner: addr(c, "a")}))
				p := c.K.Token.GetParams(c.Ctx())
				p.IssueTokenBaseFee = sdk.NewInt64Coin("btc", 10)
				ok, _, log := c.Authority(&tokenv1.MsgUpdateParams{Authority: chain.GovAuthority(), Params: p})
				if verbose {
					fmt.Printf("[scenario] issue fee in btc accepted=%v %s\n", ok, short(log, 200))
				}
				blk(c)
				blk(c)
				p.IssueTokenBaseFee = sdk.NewInt64Coin("kitty", 10)
				must(c, &tokenv1.MsgUpdateParams{Authority: chain.GovAuthority(), Params: p})
				blk(c)
				blk(c)
			},
		},
		{
			// F39 (fixed in /repo 8afa321; regression): a feed created with, and a feed
			// edited to, a provider string that is no address.  The repaired chain
			// refuses both messages; before the repair the empty address was stored in
			// the feed's request context, which service ValidateGenesis refuses.  A
			// proper feed lives next to the attempts.
			name:     "oracle_bad_provider",
			accounts: map[string]string{"a": rich, "p": rich},
			run: func(c *chain.Chain) {
				defineAndBind(c, "price", "p")
				feed := func(name string, provs ...string) chain.Tx {
					return tx("a", &oracletypes.MsgCreateFeed{FeedName: name, LatestHistory: 3, Description: "d", Creator: addr(c, "a"),
						ServiceName: "price", Providers: provs, Input: svcInput, Timeout: 2, ServiceFeeCap: coins("50stake"),
						RepeatedFrequency: 3, AggregateFunc: "avg", ValueJsonPath: "price", ResponseThreshold: 1})
				}
				blk(c, feed("good", addr(c, "p")))
				soft(c, feed("garbage", addr(c, "p"), "not-an-address"), feed("empty", ""))
				blk(c)
				soft(c, tx("a", &oracletypes.MsgEditFeed{FeedName: "good", Description: "edited", Providers: []string{"cosmos1garbage"},
					ServiceFeeCap: coins("50stake"), ResponseThreshold: 1, Creator: addr(c, "a")}))
				blk(c)
				blk(c)
			},
		},
	}...)
}

func rep64(two string) string {
	out := ""
	for len(out) < 64 {
		out += two
	}
	return out
}
