package main

import "encoding/json"

// adjustSDK makes the minimal changes to the cosmos-sdk sections of an
// exported genesis that a fresh application needs to accept it (documented in
// findings/genesis.md).  irismod sections are never touched.
func adjustSDK(gs map[string]json.RawMessage) {}
