// Command harness-servicebig (C07, magnitude tier): drives the real service
// module through the real ABCI path — bind, update / enable with deposit, call,
// end-block batch, respond, expire (slash + refund), withdraw, disable, refund
// deposit — with prices, deposits, fee caps and balances in every magnitude
// stratum from < 2^31 to ~2^129 (values TLC's 32-bit integers cannot hold), with
// time discounts and with tax / slash fractions across their valid range
// (0, 10^-18, 5%, 1/3, 1/2, 0.999…, 1), and writes one row per settled request,
// slash, settlement of a consumer in an end-block, withdrawal and deposit move.
// bin/check turns the rows into a TLA+ module whose invariant — the
// ServiceClauses.tla operators that Service.tla's C07 clauses are made of — is
// evaluated by Apalache/Z3 on unbounded integers.
//
//	harness-servicebig rows -seed S -n N -len L -out rows.json
//
// History i uses stratum (i + S) mod 11 for ALL its operands (prices, deposits,
// top-ups), so every stratum occurs whatever the seed; the rates cycle per round.
package main

import (
	"encoding/hex"
	"encoding/json"
	"fmt"
	"math/big"
	"math/rand"
	"os"
	"strings"
	"time"

	sdkmath "cosmossdk.io/math"
	tmbytes "github.com/cometbft/cometbft/libs/bytes"
	sdk "github.com/cosmos/cosmos-sdk/types"

	"verif/harness/chain"
	"verif/harness/drv"

	servicetypes "mods.irisnet.org/modules/service/types"
	"mods.irisnet.org/simapp"
)

func main() { drv.Main("servicebig", driver) }

const (
	denom   = "stake"
	svc     = "s1"
	schemas = `{"input":{"type":"object"},"output":{"type":"object"}}`
	input   = `{"header":{},"body":{}}`
	output  = `{"header":{},"body":{}}`
	result  = `{"code":200,"message":""}`
)

// one row; every number is a decimal string
type row struct {
	Kind string `json:"kind"` // answer, slash, block, settle, withdraw, deposit, refunddep
	// answer
	Fee   string `json:"fee"`
	Tn    string `json:"tn"` // tax rate as 18-decimal integer
	Td    string `json:"td"` // 10^18
	Tax   string `json:"tax"`
	DReq  string `json:"dReq"`
	DEarn string `json:"dEarn"`
	DOwn  string `json:"dOwn"`
	// slash (one per binding and end-block; k = expired requests of the binding)
	Dep  string `json:"dep"`
	Dep2 string `json:"dep2"`
	Sn   string `json:"sn"`
	Sd   string `json:"sd"`
	K    string `json:"k"`
	// block: what all slashes of the end-block moved
	Slashed string `json:"slashed"`
	DDepEsc string `json:"dDepEsc"`
	DFeep   string `json:"dFeep"`
	// settle: one consumer in one end-block
	Delta   string `json:"delta"`
	Refunds string `json:"refunds"`
	Charges string `json:"charges"`
	Over    string `json:"over"`
	// withdraw / deposit / refunddep
	Paid   string `json:"paid"`
	Own    string `json:"own"`
	Own2   string `json:"own2"`
	DTo    string `json:"dTo"`
	Amt    string `json:"amt"`
	DOwner string `json:"dOwner"`
	// escrow identities after the step
	DepBal string `json:"depBal"`
	DepSum string `json:"depSum"`
	ReqBal string `json:"reqBal"`
	Liab   string `json:"liab"`
	F4     string `json:"f4"`
	// bookkeeping
	Stratum string `json:"stratum"`
	Op      string `json:"op"`
	Hist    int    `json:"hist"`
	Step    int    `json:"step"`
}

var strata = []struct {
	name   string
	lo, hi uint // bit positions: value in [2^lo, 2^hi)
}{
	{"lt2^31", 3, 31}, {"2^31..2^32", 31, 32}, {"2^32..2^53", 32, 53}, {"2^53..2^63", 53, 63},
	{"2^63..2^64", 63, 64}, {"2^64..2^65", 64, 65}, {"~2^96", 95, 97}, {"2^127..2^129", 127, 129},
	// operands that fit a word each while sums / products cross it
	{"mixed:2^62..2^63(sum>=2^63)", 62, 63}, {"mixed:2^63..2^64(sum>=2^64)", 63, 64}, {"mixed:2^127..2^128(sum>=2^128)", 127, 128},
}

func pow2(k uint) *big.Int { return new(big.Int).Lsh(big.NewInt(1), k) }

// val draws a value of the stratum with non-zero low bits.
func val(rng *rand.Rand, st int) sdkmath.Int {
	lo, hi := pow2(strata[st].lo), pow2(strata[st].hi)
	span := new(big.Int).Sub(hi, lo)
	v := new(big.Int).Rand(rng, span)
	v.Add(v, lo)
	if new(big.Int).And(v, big.NewInt(0xffff)).Sign() == 0 {
		v.Add(v, big.NewInt(int64(1+rng.Intn(0xfffe))))
		if v.Cmp(hi) >= 0 {
			v.Sub(v, big.NewInt(0x10000))
		}
	}
	return sdkmath.NewIntFromBigInt(v)
}

var taxes = []string{"0.05", "0.333333333333333333", "0", "0.000000000000000001", "0.5", "0.999999999999999999", "0.1"}
var slashes = []string{"0.001", "0.333333333333333333", "1", "0.000000000000000001", "0", "0.999999999999999999", "0.5"}
var discounts = []string{"0.5", "0.25", "0.3", "0.999999999999999999", "0.000000000000000001", "0.333333333333333333"}

type reqInfo struct {
	fee      sdkmath.Int
	provider string
	consumer string
	active   bool
}

type snap struct {
	bal                     map[string]sdkmath.Int // users
	depEsc, reqEsc, feepool sdkmath.Int
	deposit, price          map[string]sdkmath.Int // per provider
	available               map[string]bool
	reqs                    map[string]reqInfo
	earned, ownerEarned     map[string]sdkmath.Int
}

type env struct {
	c     *chain.Chain
	users []string
	provs []string
	names map[string]string
	f4    sdkmath.Int
	rows  []row
	st    int
	hist  int
	step  int
	tax   sdkmath.LegacyDec
	slash sdkmath.LegacyDec
}

func (e *env) snapshot(ctx sdk.Context) *snap {
	c, k := e.c, e.c.K.Service
	s := &snap{bal: map[string]sdkmath.Int{}, deposit: map[string]sdkmath.Int{}, price: map[string]sdkmath.Int{},
		available: map[string]bool{}, reqs: map[string]reqInfo{}, earned: map[string]sdkmath.Int{}, ownerEarned: map[string]sdkmath.Int{}}
	for _, u := range e.users {
		s.bal[u] = c.Bal(ctx, c.Accts[u].Addr, denom)
	}
	s.depEsc = c.Bal(ctx, chain.ModuleAddr(servicetypes.DepositAccName), denom)
	s.reqEsc = c.Bal(ctx, chain.ModuleAddr(servicetypes.RequestAccName), denom)
	s.feepool = c.Bal(ctx, chain.ModuleAddr(servicetypes.FeeCollectorName), denom)
	for _, p := range e.provs {
		addr := c.Accts[p].Addr
		if b, ok := k.GetServiceBinding(ctx, svc, addr); ok {
			s.deposit[p] = b.Deposit.AmountOf(denom)
			s.available[p] = b.Available
			s.price[p] = k.GetPricing(ctx, svc, addr).Price.AmountOf(denom)
		}
		fees, _ := k.GetEarnedFees(ctx, addr)
		s.earned[p] = fees.AmountOf(denom)
		ofees, _ := k.GetOwnerEarnedFees(ctx, addr)
		s.ownerEarned[p] = ofees.AmountOf(denom)
	}
	k.IterateRequests(ctx, func(id tmbytes.HexBytes, r servicetypes.CompactRequest) bool {
		cid, _ := hex.DecodeString(r.RequestContextId)
		rc, _ := k.GetRequestContext(ctx, cid)
		s.reqs[id.String()] = reqInfo{fee: r.ServiceFee.AmountOf(denom), provider: e.names[r.Provider], consumer: e.names[rc.Consumer],
			active: k.IsRequestActive(ctx, id)}
		return false
	})
	return s
}

func sum(m map[string]sdkmath.Int) sdkmath.Int {
	t := sdkmath.ZeroInt()
	for _, v := range m {
		t = t.Add(v)
	}
	return t
}

func get(m map[string]sdkmath.Int, k string) sdkmath.Int {
	if v, ok := m[k]; ok {
		return v
	}
	return sdkmath.ZeroInt()
}

// emit completes a row with the escrow identities of the post-state.
func (e *env) emit(r row, post *snap) {
	liab := sum(post.earned)
	for _, q := range post.reqs {
		if q.active {
			liab = liab.Add(q.fee)
		}
	}
	r.DepBal, r.DepSum, r.ReqBal, r.Liab, r.F4 = post.depEsc.String(), sum(post.deposit).String(), post.reqEsc.String(), liab.String(), e.f4.String()
	r.Td, r.Sd = "1000000000000000000", "1000000000000000000"
	r.Tn, r.Sn = e.tax.BigInt().String(), e.slash.BigInt().String()
	r.Stratum, r.Hist, r.Step = strata[e.st].name, e.hist, e.step
	for _, p := range []*string{&r.Fee, &r.Tax, &r.DReq, &r.DEarn, &r.DOwn, &r.Dep, &r.Dep2, &r.K, &r.Slashed, &r.DDepEsc, &r.DFeep, &r.Delta,
		&r.Refunds, &r.Charges, &r.Over, &r.Paid, &r.Own, &r.Own2, &r.DTo, &r.Amt, &r.DOwner} {
		if *p == "" {
			*p = "0"
		}
	}
	e.rows = append(e.rows, r)
}

// endBlock derives the rows of an end-block from the states around it.
func (e *env) endBlock(pre, post *snap) {
	refunds, charges, over := map[string]sdkmath.Int{}, map[string]sdkmath.Int{}, map[string]sdkmath.Int{}
	hits := map[string]int64{}
	for id, q := range pre.reqs {
		if p, still := post.reqs[id]; q.active && (!still || !p.active) {
			refunds[q.consumer] = get(refunds, q.consumer).Add(q.fee)
			hits[q.provider]++
		}
	}
	for id, q := range post.reqs {
		if _, old := pre.reqs[id]; !old {
			charges[q.consumer] = get(charges, q.consumer).Add(q.fee)
			over[q.consumer] = get(over, q.consumer).Add(get(pre.price, q.provider).Sub(q.fee))
		}
	}
	for _, o := range over {
		e.f4 = e.f4.Add(o)
	}
	for _, u := range e.users {
		_, a := refunds[u]
		_, b := charges[u]
		if a || b {
			e.emit(row{Kind: "settle", Op: "EndBlock", Delta: post.bal[u].Sub(pre.bal[u]).String(), Refunds: get(refunds, u).String(),
				Charges: get(charges, u).String(), Over: get(over, u).String()}, post)
		}
	}
	slashed := sdkmath.ZeroInt()
	for _, p := range e.provs {
		d, d2 := get(pre.deposit, p), get(post.deposit, p)
		slashed = slashed.Add(d.Sub(d2))
		if hits[p] > 0 {
			e.emit(row{Kind: "slash", Op: "EndBlock", Dep: d.String(), Dep2: d2.String(), K: fmt.Sprint(hits[p])}, post)
		}
	}
	if len(hits) > 0 {
		e.emit(row{Kind: "block", Op: "EndBlock", Slashed: slashed.String(), DDepEsc: post.depEsc.Sub(pre.depEsc).String(),
			DFeep: post.feepool.Sub(pre.feepool).String()}, post)
	}
}

// block runs one block with the given messages and derives the rows.
func (e *env) block(dt time.Duration, txs []chain.Tx, kinds []string, args []string) []chain.TxResult {
	e.step++
	res := e.c.RunBlock(dt, txs)
	if res.Halt {
		panic("chain halted: " + res.HaltMsg)
	}
	cur := res.BeginState.(*snap)
	for i, t := range res.Txs {
		post, _ := t.State.(*snap)
		if !t.OK || post == nil {
			continue
		}
		who := txs[i].Signer
		switch kinds[i] {
		case "answer":
			q := cur.reqs[args[i]]
			e.emit(row{Kind: "answer", Op: "Respond", Fee: q.fee.String(), Tax: post.feepool.Sub(cur.feepool).String(),
				DReq: post.reqEsc.Sub(cur.reqEsc).String(), DEarn: post.earned[q.provider].Sub(cur.earned[q.provider]).String(),
				DOwn: post.ownerEarned[q.provider].Sub(cur.ownerEarned[q.provider]).String()}, post)
		case "deposit":
			// args: provider|amount named by the message
			parts := strings.SplitN(args[i], "|", 2)
			p := parts[0]
			e.emit(row{Kind: "deposit", Op: "Deposit", Amt: parts[1], Dep: get(cur.deposit, p).String(),
				Dep2: get(post.deposit, p).String(), DOwner: post.bal[who].Sub(cur.bal[who]).String(),
				DDepEsc: post.depEsc.Sub(cur.depEsc).String()}, post)
		case "refunddep":
			p := args[i]
			e.emit(row{Kind: "refunddep", Op: "RefundDeposit", Dep: get(cur.deposit, p).String(), Dep2: get(post.deposit, p).String(),
				DOwner: post.bal[who].Sub(cur.bal[who]).String(), DDepEsc: post.depEsc.Sub(cur.depEsc).String()}, post)
		case "withdraw":
			p := args[i]
			e.emit(row{Kind: "withdraw", Op: "Withdraw", Paid: cur.earned[p].String(), Own: cur.ownerEarned[p].String(),
				Own2: post.ownerEarned[p].String(), DReq: post.reqEsc.Sub(cur.reqEsc).String(), DTo: post.bal[who].Sub(cur.bal[who]).String()}, post)
		}
		cur = post
	}
	e.endBlock(cur, res.EndState.(*snap))
	return res.Txs
}

func (e *env) setParams(tax, slash string) {
	p := e.c.K.Service.GetParams(e.c.Ctx())
	p.ServiceFeeTax, p.SlashFraction = sdkmath.LegacyMustNewDecFromStr(tax), sdkmath.LegacyMustNewDecFromStr(slash)
	if ok, _, log := e.c.Authority(&servicetypes.MsgUpdateParams{Authority: chain.GovAuthority(), Params: p}); !ok {
		panic("MsgUpdateParams: " + log)
	}
	e.tax, e.slash = p.ServiceFeeTax, p.SlashFraction
}

func coins(v sdkmath.Int) sdk.Coins { return sdk.NewCoins(sdk.NewCoin(denom, v)) }

func history(rng *rand.Rand, h, rounds, st int, seed int64) []row {
	huge := "10000000000000000000000000000000000000000" // 1e40 ~ 2^133
	users := []string{"p1", "p2", "c1", "c2"}
	accts := map[string]string{}
	for _, u := range users {
		accts[u] = huge + denom
	}
	e := &env{users: users, provs: []string{"p1", "p2"}, names: map[string]string{}, f4: sdkmath.ZeroInt(), st: st, hist: h}
	e.c = chain.New(chain.Options{Accounts: accts, MutateGenesis: func(c *chain.Chain, gs simapp.GenesisState) {
		cdc := c.App.AppCodec()
		var g servicetypes.GenesisState
		cdc.MustUnmarshalJSON(gs[servicetypes.ModuleName], &g)
		g.Params.MinDepositMultiple = 1
		g.Params.MinDeposit = sdk.NewCoins(sdk.NewInt64Coin(denom, 1))
		g.Params.MaxRequestTimeout = 100
		g.Params.ArbitrationTimeLimit = 5 * time.Second
		g.Params.ComplaintRetrospect = 5 * time.Second
		g.Params.BaseDenom = denom
		gs[servicetypes.ModuleName] = cdc.MustMarshalJSON(&g)
	}})
	c := e.c
	for _, u := range users {
		e.names[c.Accts[u].Addr.String()] = u
	}
	c.Project = func(ctx sdk.Context) any { return e.snapshot(ctx) }
	addr := func(u string) string { return c.Accts[u].Addr.String() }
	e.setParams(taxes[(h+int(seed))%len(taxes)], slashes[(h+int(seed))%len(slashes)])

	// setup: define, bind p1 (flat price) and p2 (time discount always active)
	disc := discounts[(h+int(seed))%len(discounts)]
	pricing := func(p sdkmath.Int, d string) string {
		if d == "" {
			return fmt.Sprintf(`{"price":"%s%s"}`, p, denom)
		}
		return fmt.Sprintf(`{"price":"%s%s","promotions_by_time":[{"start_time":"2000-01-01T00:00:00Z","end_time":"2100-01-01T00:00:00Z","discount":"%s"}]}`, p, denom, d)
	}
	mk := func() (price, dep sdkmath.Int) {
		a, b := val(rng, st), val(rng, st)
		if a.GT(b) {
			a, b = b, a
		}
		return a, b // deposit >= price (MinDepositMultiple 1)
	}
	p1price, p1dep := mk()
	p2price, p2dep := mk()
	e.block(5*time.Second, []chain.Tx{
		{Signer: "p1", Msgs: []sdk.Msg{&servicetypes.MsgDefineService{Name: svc, Description: "d", Author: addr("p1"), AuthorDescription: "a", Schemas: schemas}}},
		{Signer: "p1", Msgs: []sdk.Msg{&servicetypes.MsgBindService{ServiceName: svc, Provider: addr("p1"), Deposit: coins(p1dep), Pricing: pricing(p1price, ""), QoS: 1, Options: "{}", Owner: addr("p1")}}},
		{Signer: "p2", Msgs: []sdk.Msg{&servicetypes.MsgBindService{ServiceName: svc, Provider: addr("p2"), Deposit: coins(p2dep), Pricing: pricing(p2price, disc), QoS: 1, Options: "{}", Owner: addr("p2")}}},
	}, []string{"", "deposit", "deposit"}, []string{"", "p1|" + p1dep.String(), "p2|" + p2dep.String()})

	capAll := sdkmath.NewIntFromBigInt(pow2(131))
	for r := 0; r < rounds; r++ {
		e.setParams(taxes[(h+r+1+int(seed))%len(taxes)], slashes[(h+2*r+int(seed))%len(slashes)])
		cons := []string{"c1", "c2"}[r%2]
		// block A: call both providers; its end-block issues the two requests
		e.block(5*time.Second, []chain.Tx{{Signer: cons, Msgs: []sdk.Msg{&servicetypes.MsgCallService{ServiceName: svc,
			Providers: []string{addr("p1"), addr("p2")}, Consumer: addr(cons), Input: input, ServiceFeeCap: coins(capAll), Timeout: 1}}}},
			[]string{""}, []string{""})
		// block B: one provider answers, the other lets its request expire (slash + refund in the end-block)
		ans := []string{"p1", "p2"}[r%2]
		var txs []chain.Tx
		var kinds, args []string
		pre := e.snapshot(c.Ctx())
		for id, q := range pre.reqs {
			if q.active && q.provider == ans {
				txs = append(txs, chain.Tx{Signer: ans, Msgs: []sdk.Msg{&servicetypes.MsgRespondService{RequestId: id, Provider: addr(ans), Result: result, Output: output}}})
				kinds, args = append(kinds, "answer"), append(args, id)
			}
		}
		e.block(5*time.Second, txs, kinds, args)
		// block C: top up / re-enable the slashed binding, withdraw now and then
		txs, kinds, args = nil, nil, nil
		cur := e.snapshot(c.Ctx())
		for _, p := range e.provs {
			add := val(rng, st)
			if _, bound := cur.deposit[p]; !bound {
				continue
			}
			if !cur.available[p] {
				need := cur.price[p]
				if add.LT(need) {
					add = need
				}
				txs = append(txs, chain.Tx{Signer: p, Msgs: []sdk.Msg{&servicetypes.MsgEnableServiceBinding{ServiceName: svc, Provider: addr(p), Deposit: coins(add), Owner: addr(p)}}})
				kinds, args = append(kinds, "deposit"), append(args, p+"|"+add.String())
			} else if rng.Intn(2) == 0 {
				txs = append(txs, chain.Tx{Signer: p, Msgs: []sdk.Msg{&servicetypes.MsgUpdateServiceBinding{ServiceName: svc, Provider: addr(p), Deposit: coins(add), Owner: addr(p)}}})
				kinds, args = append(kinds, "deposit"), append(args, p+"|"+add.String())
			}
			if r%2 == 1 || rng.Intn(3) == 0 {
				txs = append(txs, chain.Tx{Signer: p, Msgs: []sdk.Msg{&servicetypes.MsgWithdrawEarnedFees{Owner: addr(p), Provider: addr(p)}}})
				kinds, args = append(kinds, "withdraw"), append(args, p)
			}
		}
		e.block(5*time.Second, txs, kinds, args)
	}
	// epilogue: disable p1, wait out arbitration + complaint time, refund the deposit; last withdrawals
	e.block(5*time.Second, []chain.Tx{{Signer: "p1", Msgs: []sdk.Msg{&servicetypes.MsgDisableServiceBinding{ServiceName: svc, Provider: addr("p1"), Owner: addr("p1")}}}},
		[]string{""}, []string{""})
	e.block(5*time.Second, nil, nil, nil)
	e.block(5*time.Second, []chain.Tx{
		{Signer: "p1", Msgs: []sdk.Msg{&servicetypes.MsgRefundServiceDeposit{ServiceName: svc, Provider: addr("p1"), Owner: addr("p1")}}},
		{Signer: "p1", Msgs: []sdk.Msg{&servicetypes.MsgWithdrawEarnedFees{Owner: addr("p1"), Provider: addr("p1")}}},
		{Signer: "p2", Msgs: []sdk.Msg{&servicetypes.MsgWithdrawEarnedFees{Owner: addr("p2"), Provider: addr("p2")}}},
	}, []string{"refunddep", "withdraw", "withdraw"}, []string{"p1", "p1", "p2"})
	return e.rows
}

func driver(mode string, fl *drv.Flags) error {
	if mode != "rows" {
		return fmt.Errorf("unknown mode %q", mode)
	}
	rng := rand.New(rand.NewSource(fl.Seed))
	rows := []row{}
	for h := 0; h < fl.N; h++ {
		rows = append(rows, history(rng, h, fl.Len, (h+int(fl.Seed))%len(strata), fl.Seed)...)
	}
	f, err := os.Create(fl.Out)
	if err != nil {
		return err
	}
	defer f.Close()
	return json.NewEncoder(f).Encode(rows)
}
