package main

import (
	"crypto/sha256"
	"encoding/hex"
	"fmt"
	"math/rand"
	"sort"
	"strings"
	"time"

	sdkmath "cosmossdk.io/math"
	sdk "github.com/cosmos/cosmos-sdk/types"
	banktypes "github.com/cosmos/cosmos-sdk/x/bank/types"

	"verif/harness/chain"
	"verif/harness/drv"

	recordtypes "mods.irisnet.org/modules/record/types"
)

func main() { drv.Main("record", recordDriver) }

// Model <-> chain mapping for Record.tla:
//
//	one event   = one transaction of `who` with len(digests) MsgCreateRecord messages
//	              (+ a bank send that must fail when poison)
//	contents    abstract value v = entries joined by "+"; entry  base[~var][^algo]  <->
//	            Content{Digest: D(base), DigestAlgo: algo (default "sha256"), URI, Meta} with
//	            URI/Meta = "uri-base"/"meta-base" (no var), ""/"" (var e), long strings (var L),
//	            "uri-base-mK"/"meta-base-mK" (any other var K: the same file at another mirror);
//	            D(base) = base, or a long pseudo-random string when base starts with "L";
//	            "" = no contents, "!" = a content without digest (both refused by ValidateBasic).
//	            FIDELITY: what is read back is turned into an abstract value only through the
//	            canonical text of EVERY field of EVERY entry in order (canon): the stored
//	            contents get the value v iff they equal, field by field, the message the
//	            harness built for v; anything else is logged as "?<hash of what was read>".
//	            ev.shape lists what the submitted entry lists look like (coverage counters).
//	record ids  real hex ids are named r1, r2, ... in the order the message responses
//	            return them; an id returned again keeps its first name
//	tx hashes   named by the event's tx field (t1, t2, ...)
//
// After every transaction the post handler dumps the whole record store; the
// harness then reads back EVERY id ever returned from that dump and logs the
// window (first `winfirst`, every `winmod`-th) explicitly and a rolling hash
// over the rest.
type rawSnap struct {
	cnt  uint32
	recs map[string]recordtypes.Record // upper-case hex id -> record
}

type recEnv struct {
	c        *chain.Chain
	users    []string
	names    map[string]string // bech32 -> account name
	txName   map[string]string // upper-case hex tx hash -> name
	idName   map[string]string // upper-case hex id -> name
	idOrder  []string          // hex ids in naming order
	valueOf  map[string]string // canonical text of a built contents list -> abstract value
	orders   map[string]string // sorted entry multiset -> canonical text first seen in that order
	winFirst int64
	winMod   int64
	prevRest int
	ntx      int
}

// usersIn: the largest N with an account name uN in the behaviour.
func usersIn(beh []chain.M) int {
	max := 0
	for _, ev := range beh {
		var n int
		if _, err := fmt.Sscanf(chain.Str(ev, "who"), "u%d", &n); err == nil && n > max && n < 50 {
			max = n
		}
	}
	return max
}

func newRecEnv(fl *drv.Flags, winFirst, winMod int64, minUsers int) *recEnv {
	e := &recEnv{names: map[string]string{}, txName: map[string]string{}, idName: map[string]string{},
		valueOf: map[string]string{}, orders: map[string]string{}, winFirst: fl.CfgInt("winfirst", winFirst), winMod: fl.CfgInt("winmod", winMod)}
	n := int(fl.CfgInt("users", 2))
	if minUsers > n {
		n = minUsers
	}
	accts := map[string]string{}
	for i := 1; i <= n; i++ {
		u := fmt.Sprintf("u%d", i)
		e.users = append(e.users, u)
		accts[u] = "1000stake"
	}
	e.c = chain.New(chain.Options{Accounts: accts})
	for _, u := range e.users {
		e.names[e.c.Accts[u].Addr.String()] = u
	}
	e.c.Project = func(ctx sdk.Context) any { return e.dump(ctx) }
	return e
}

// dump copies the record store and the counter (raw; named after the block).
func (e *recEnv) dump(ctx sdk.Context) any {
	k := e.c.K.Record
	s := &rawSnap{cnt: k.GetIntraTxCounter(ctx), recs: map[string]recordtypes.Record{}}
	it := k.RecordsIterator(ctx)
	defer it.Close()
	for ; it.Valid(); it.Next() {
		id := it.Key()[len(recordtypes.RecordKey):]
		// read it back the way a user does: through the module's gRPC query service, under the id
		// string the message server returns (lower-case hex of the key).  A record the query
		// cannot produce (error, or the empty record it answers for an unknown id) is absent from
		// the observed state, whatever the store holds.
		resp, err := k.Record(ctx, &recordtypes.QueryRecordRequest{RecordId: hex.EncodeToString(id)})
		if err != nil || resp == nil || resp.Record == nil || (len(resp.Record.Contents) == 0 && resp.Record.Creator == "") {
			continue
		}
		s.recs[strings.ToUpper(hex.EncodeToString(id))] = *resp.Record
	}
	return s
}

func expandDigest(base string) string {
	if strings.HasPrefix(base, "L") {
		h := sha256.Sum256([]byte("long-" + base))
		return strings.Repeat(hex.EncodeToString(h[:]), 8)
	}
	return base
}

// entryOf builds the content entry of one abstract entry  base[~var][^algo].
func entryOf(p string) recordtypes.Content {
	algo := "sha256"
	if i := strings.Index(p, "^"); i >= 0 {
		p, algo = p[:i], p[i+1:]
	}
	base, v := p, ""
	hasVar := false
	if i := strings.Index(p, "~"); i >= 0 {
		base, v, hasVar = p[:i], p[i+1:], true
	}
	c := recordtypes.Content{Digest: expandDigest(base), DigestAlgo: algo, URI: "uri-" + base, Meta: "meta-" + base}
	switch {
	case !hasVar:
	case v == "e":
		c.URI, c.Meta = "", ""
	case v == "w":
		// every field padded with white space (blank, tab, newline): stored byte for byte
		c.Digest, c.DigestAlgo = " "+c.Digest+"\n", " "+c.DigestAlgo+"\t"
		c.URI, c.Meta = "\turi-"+base+" ", " meta-"+base+" \n"
	case v == "c":
		// mixed case and non-ASCII text: no case folding, no re-encoding
		c.Digest, c.DigestAlgo = "AbC-"+strings.ToUpper(c.Digest)+"-é", strings.ToUpper(c.DigestAlgo)
		c.URI, c.Meta = "URI-"+base+"-Ü", "Meta-"+base+"-日本"
	case v == "L":
		c.URI = "uri-" + base + "-" + strings.Repeat("u", 200)
		c.Meta = "meta-" + base + "-" + strings.Repeat("m", 1000)
	default:
		c.URI, c.Meta = "uri-"+base+"-m"+v, "meta-"+base+"-m"+v
	}
	return c
}

// canon is the canonical text of a contents list: every field of every entry, in order.
func canon(cs []recordtypes.Content) string {
	var b strings.Builder
	for _, x := range cs {
		fmt.Fprintf(&b, "%q %q %q %q|", x.Digest, x.DigestAlgo, x.URI, x.Meta)
	}
	return b.String()
}

// expand builds the contents of a message from the abstract value and remembers
// the canonical text of what was built (the submitted side of the comparison).
func (e *recEnv) expand(v string) []recordtypes.Content {
	if v == "" {
		return nil
	}
	if v == "!" {
		return []recordtypes.Content{{Digest: "", DigestAlgo: "sha256"}}
	}
	var out []recordtypes.Content
	for _, p := range strings.Split(v, "+") {
		out = append(out, entryOf(p))
	}
	if _, ok := e.valueOf[canon(out)]; !ok {
		e.valueOf[canon(out)] = v
	}
	return out
}

// compress names what was read back (the query side): the abstract value whose
// built message it equals in every field of every entry, else a hash of it.
func (e *recEnv) compress(cs []recordtypes.Content) string {
	k := canon(cs)
	if v, ok := e.valueOf[k]; ok {
		return v
	}
	h := sha256.Sum256([]byte(k))
	return fmt.Sprintf("?%d:%s", len(cs), hex.EncodeToString(h[:])[:12])
}

// shapeOf: coverage tags of the entry lists an event submits.
func (e *recEnv) shapeOf(digests []any) []any {
	tags := map[string]bool{}
	for _, d := range digests {
		v, _ := d.(string)
		if v == "" || v == "!" {
			continue
		}
		cs := e.expand(v)
		if len(cs) >= 2 {
			tags["multi_entry"] = true
		}
		if len(cs) >= 4 {
			tags["four_entries"] = true
		}
		var keys []string
		for i, a := range cs {
			keys = append(keys, canon([]recordtypes.Content{a}))
			if a.Meta == "" && a.URI == "" {
				tags["empty_meta"] = true
			}
			if len(a.Meta) > 500 {
				tags["long_meta"] = true
			}
			if len(a.Digest) > 100 {
				tags["long_digest"] = true
			}
			if strings.TrimSpace(a.Digest) != a.Digest || strings.TrimSpace(a.DigestAlgo) != a.DigestAlgo {
				tags["padded"] = true
			}
			if strings.ToLower(a.Digest) != a.Digest && strings.ToUpper(a.Digest) != a.Digest {
				tags["mixed_case"] = true
			}
			for _, b := range cs[:i] {
				switch {
				case a == b:
					tags["identical_entries"] = true
				case a.Digest == b.Digest && a.DigestAlgo == b.DigestAlgo:
					tags["share_digest"] = true
				case a.Digest == b.Digest && a.URI == b.URI && a.Meta == b.Meta:
					tags["algo_only"] = true
				}
			}
		}
		sort.Strings(keys)
		ms := strings.Join(keys, "")
		if first, ok := e.orders[ms]; ok && first != canon(cs) {
			tags["reordered"] = true
		} else if !ok {
			e.orders[ms] = canon(cs)
		}
	}
	out := []any{}
	for _, t := range chain.SortedKeys(tags) {
		out = append(out, t)
	}
	return out
}

func (e *recEnv) absRec(r recordtypes.Record) chain.M {
	creator := r.Creator
	if n, ok := e.names[creator]; ok {
		creator = n
	}
	tx := strings.ToUpper(r.TxHash)
	if n, ok := e.txName[tx]; ok {
		tx = n
	}
	return chain.M{"digest": e.compress(r.Contents), "creator": creator, "tx": tx}
}

func (e *recEnv) keep(i int64) bool { return i <= e.winFirst || i%e.winMod == 0 }

// state builds the abstract state + observations from a raw dump.
func (e *recEnv) state(s *rawSnap, created []string) chain.M {
	rec := chain.M{}
	h := sha256.New()
	hPrev := ""
	restN := 0
	sum := func() string { return hex.EncodeToString(h.Sum(nil))[:16] }
	if e.prevRest == 0 {
		hPrev = sum()
	}
	for i, id := range e.idOrder {
		name := e.idName[id]
		r, ok := s.recs[id]
		if e.keep(int64(i + 1)) {
			if ok {
				rec[name] = e.absRec(r)
			}
			continue
		}
		restN++
		if ok {
			a := e.absRec(r)
			fmt.Fprintf(h, "%s|%s|%s|%s;", name, a["digest"], a["creator"], a["tx"])
		} else {
			fmt.Fprintf(h, "%s|ABSENT;", name)
		}
		if restN == e.prevRest {
			hPrev = sum()
		}
	}
	cr := chain.M{}
	for _, id := range created {
		if r, ok := s.recs[id]; ok {
			cr[e.idName[id]] = e.absRec(r)
		}
	}
	orphans := 0
	for id := range s.recs {
		if _, ok := e.idName[id]; !ok {
			orphans++
		}
	}
	e.prevRest = restN
	return chain.M{"cnt": int64(s.cnt), "rec": rec, "win": chain.M{"first": e.winFirst, "mod": e.winMod},
		"restN": int64(restN), "restH": sum(), "restPrevH": hPrev, "created": cr, "orphans": int64(orphans)}
}

func recEvent(name, who string, digests []any, tx string, poison bool) chain.M {
	if digests == nil {
		digests = []any{}
	}
	return chain.M{"name": name, "who": who, "digests": digests, "tx": tx, "poison": poison,
		"ok": true, "panic": false, "ids": []any{}, "shape": []any{}}
}

func (e *recEnv) norm(ev chain.M) chain.M {
	var ds []any
	if l, ok := ev["digests"].([]any); ok {
		for _, x := range l {
			if s, ok := x.(string); ok {
				ds = append(ds, s)
			}
		}
	}
	return recEvent(chain.Str(ev, "name"), chain.Str(ev, "who"), ds, chain.Str(ev, "tx"), chain.Bool(ev, "poison"))
}

func (e *recEnv) txOf(ev chain.M) chain.Tx {
	who := chain.Str(ev, "who")
	if _, ok := e.c.Accts[who]; !ok {
		who = e.users[0]
	}
	addr := e.c.Accts[who].Addr
	var msgs []sdk.Msg
	for _, d := range ev["digests"].([]any) {
		msgs = append(msgs, &recordtypes.MsgCreateRecord{Contents: e.expand(d.(string)), Creator: addr.String()})
	}
	if chain.Bool(ev, "poison") {
		other := e.c.Accts[e.users[len(e.users)-1]].Addr
		msgs = append(msgs, banktypes.NewMsgSend(addr, other, sdk.NewCoins(sdk.NewCoin("stake", sdkmath.NewInt(1_000_000_000_000)))))
	}
	return chain.Tx{Signer: who, Msgs: msgs}
}

// runBlock executes the pending events (one transaction each) as one block.
func (e *recEnv) runBlock(pending []chain.M, w *chain.TraceWriter) {
	var txs []chain.Tx
	for _, ev := range pending {
		txs = append(txs, e.txOf(ev))
	}
	res := e.c.RunBlock(5*time.Second, txs)
	if res.Halt {
		panic("record: block halted: " + res.HaltMsg)
	}
	last := res.BeginState.(*rawSnap)
	for i, ev := range pending {
		r := res.Txs[i]
		ev["ok"], ev["panic"] = r.OK, r.Panic
		ev["shape"] = e.shapeOf(ev["digests"].([]any))
		e.ntx++
		name := chain.Str(ev, "tx")
		if name == "" {
			name = fmt.Sprintf("t%d", e.ntx)
			ev["tx"] = name
		}
		if r.TxHash != "" {
			e.txName[strings.ToUpper(r.TxHash)] = name
		}
		var created []string
		if r.OK {
			var ids []any
			for _, any := range r.MsgResps {
				if !strings.HasSuffix(any.TypeUrl, "MsgCreateRecordResponse") {
					continue
				}
				var resp recordtypes.MsgCreateRecordResponse
				if err := resp.Unmarshal(any.Value); err != nil {
					panic(err)
				}
				id := strings.ToUpper(resp.Id)
				if _, known := e.idName[id]; !known {
					e.idOrder = append(e.idOrder, id)
					e.idName[id] = fmt.Sprintf("r%d", len(e.idOrder))
				}
				ids = append(ids, e.idName[id])
				created = append(created, id)
			}
			if ids == nil {
				ids = []any{}
			}
			ev["ids"] = ids
		}
		if s, ok := r.State.(*rawSnap); ok && s != nil {
			last = s
		}
		w.Write(ev, e.state(last, created))
	}
	w.Write(recEvent("EndBlock", "", nil, "", false), e.state(res.EndState.(*rawSnap), nil))
}

func (e *recEnv) start(w *chain.TraceWriter) {
	w.Write(recEvent("Init", "", nil, "", false), e.state(e.dump(e.c.Ctx()).(*rawSnap), nil))
}

func recRun(fl *drv.Flags, beh []chain.M, w *chain.TraceWriter) {
	hasEnd := false
	for _, ev := range beh {
		hasEnd = hasEnd || chain.Str(ev, "name") == "EndBlock"
	}
	e := newRecEnv(fl, 1000000, 1, usersIn(beh))
	e.start(w)
	per := int(fl.CfgInt("perblock", 2))
	var pending []chain.M
	for _, raw := range beh {
		ev := e.norm(raw)
		switch chain.Str(ev, "name") {
		case "EndBlock":
			e.runBlock(pending, w)
			pending = nil
			continue
		case "CreateRecord":
		default:
			continue
		}
		if len(ev["digests"].([]any)) == 0 {
			continue // a transaction without messages cannot be built
		}
		pending = append(pending, ev)
		if !hasEnd && len(pending) >= per {
			e.runBlock(pending, w)
			pending = nil
		}
	}
	if len(pending) > 0 {
		e.runBlock(pending, w)
	}
}

func recordDriver(mode string, fl *drv.Flags) error {
	w := chain.NewTraceWriter(fl.Out)
	defer w.Close()
	switch mode {
	case "replay":
		for _, beh := range chain.ReadBehaviours(fl.In) {
			recRun(fl, beh, w)
		}
	case "random":
		rng := rand.New(rand.NewSource(fl.Seed))
		for i := 0; i < fl.N; i++ {
			recRandom(fl, rng, w)
		}
	default:
		return fmt.Errorf("unknown mode %q", mode)
	}
	return nil
}

// recRandom: one random history of fl.Len blocks.  A small pool of contents
// (so that byte-identical records from one creator meet in one transaction,
// one block and different blocks), 1..maxmsgs messages per transaction,
// 0..maxtx transactions per block, rolled-back and refused transactions.
func recRandom(fl *drv.Flags, rng *rand.Rand, w *chain.TraceWriter) {
	e := newRecEnv(fl, 20, 10, 0)
	e.start(w)
	pool := []string{"a", "b", "c", "a+b", "b+a", "L1", "L2", "L3+a", "a+a", "a+a~1", "a^md5+a", "a~e", "b~L+b", "a~w", "a~w+a", "b~c", "b~c+b~w"}
	bases := []string{"a", "b", "c", "L1"}
	vars := []string{"", "", "~1", "~2", "~e", "~L", "~w", "~c"}
	algos := []string{"", "", "", "^md5", "^sha512"}
	rndEntry := func() string {
		return bases[rng.Intn(len(bases))] + vars[rng.Intn(len(vars))] + algos[rng.Intn(len(algos))]
	}
	baseOf := func(p string) string {
		if i := strings.IndexAny(p, "~^"); i >= 0 {
			return p[:i]
		}
		return p
	}
	// an entry list of 1..4 entries; later entries often repeat an earlier one
	// entirely, or keep its digest and change mirror (uri/meta) or only the algo
	rndList := func() string {
		k := 1 + rng.Intn(4)
		var es []string
		for i := 0; i < k; i++ {
			if i > 0 && rng.Intn(10) < 6 {
				prev := es[rng.Intn(len(es))]
				switch rng.Intn(3) {
				case 0:
					es = append(es, prev)
				case 1:
					alg := ""
					if j := strings.Index(prev, "^"); j >= 0 {
						alg = prev[j:]
					}
					es = append(es, baseOf(prev)+vars[2+rng.Intn(len(vars)-2)]+alg)
				default:
					v := prev
					if j := strings.Index(v, "^"); j >= 0 {
						v = v[:j]
					} else {
						v += "^md5"
					}
					es = append(es, v)
				}
				continue
			}
			es = append(es, rndEntry())
		}
		return strings.Join(es, "+")
	}
	permute := func(v string) string {
		es := strings.Split(v, "+")
		rng.Shuffle(len(es), func(i, j int) { es[i], es[j] = es[j], es[i] })
		return strings.Join(es, "+")
	}
	var lists []string
	maxMsgs := int(fl.CfgInt("maxmsgs", 4))
	maxTx := int(fl.CfgInt("maxtx", 3))
	for b := 0; b < fl.Len; b++ {
		var pending []chain.M
		n := rng.Intn(maxTx + 1)
		for j := 0; j < n; j++ {
			who := e.users[rng.Intn(len(e.users))]
			k := 1 + rng.Intn(maxMsgs)
			var ds []any
			base := pool[rng.Intn(len(pool))]
			for i := 0; i < k; i++ {
				d := base
				switch x := rng.Intn(12); {
				case x < 3:
					d = pool[rng.Intn(len(pool))]
				case x < 6:
					d = rndList()
					lists = append(lists, d)
				case x < 8 && len(lists) > 0:
					d = permute(lists[rng.Intn(len(lists))]) // same entries, (maybe) another order
				}
				if rng.Intn(60) == 0 {
					d = []string{"", "!"}[rng.Intn(2)]
				}
				ds = append(ds, d)
			}
			pending = append(pending, recEvent("CreateRecord", who, ds, "", rng.Intn(10) == 0))
		}
		e.runBlock(pending, w)
	}
}
