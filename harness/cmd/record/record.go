package main

import (
	"crypto/sha256"
	"encoding/hex"
	"fmt"
	"math/rand"
	"strings"
	"time"

	sdkmath "cosmossdk.io/math"
	sdk "github.com/cosmos/cosmos-sdk/types"
	banktypes "github.com/cosmos/cosmos-sdk/x/bank/types"

	"verif/harness/chain"
	"verif/harness/drv"

	recordtypes "mods.irisnet.org/modules/record/types"
)

func main() { drv.Main("record", recordDriver) }

// Model <-> chain mapping for Record.tla:
//
//	one event   = one transaction of `who` with len(digests) MsgCreateRecord messages
//	              (+ a bank send that must fail when poison)
//	contents    abstract value v = parts joined by "+"; part p <-> Content{Digest: D(p),
//	            DigestAlgo "sha256", URI "uri-p", Meta "meta-p"}; D(p) = p, or a long
//	            pseudo-random string when p starts with "L"; "" = no contents, "!" = a
//	            content without digest (both refused by ValidateBasic)
//	record ids  real hex ids are named r1, r2, ... in the order the message responses
//	            return them; an id returned again keeps its first name
//	tx hashes   named by the event's tx field (t1, t2, ...)
//
// After every transaction the post handler dumps the whole record store; the
// harness then reads back EVERY id ever returned from that dump and logs the
// window (first `winfirst`, every `winmod`-th) explicitly and a rolling hash
// over the rest.
type rawSnap struct {
	cnt  uint32
	recs map[string]recordtypes.Record // upper-case hex id -> record
}

type recEnv struct {
	c        *chain.Chain
	users    []string
	names    map[string]string // bech32 -> account name
	txName   map[string]string // upper-case hex tx hash -> name
	idName   map[string]string // upper-case hex id -> name
	idOrder  []string          // hex ids in naming order
	digestOf map[string]string // expanded digest -> abstract part
	winFirst int64
	winMod   int64
	prevRest int
	ntx      int
}

// usersIn: the largest N with an account name uN in the behaviour.
func usersIn(beh []chain.M) int {
	max := 0
	for _, ev := range beh {
		var n int
		if _, err := fmt.Sscanf(chain.Str(ev, "who"), "u%d", &n); err == nil && n > max && n < 50 {
			max = n
		}
	}
	return max
}

func newRecEnv(fl *drv.Flags, winFirst, winMod int64, minUsers int) *recEnv {
	e := &recEnv{names: map[string]string{}, txName: map[string]string{}, idName: map[string]string{},
		digestOf: map[string]string{}, winFirst: fl.CfgInt("winfirst", winFirst), winMod: fl.CfgInt("winmod", winMod)}
	n := int(fl.CfgInt("users", 2))
	if minUsers > n {
		n = minUsers
	}
	accts := map[string]string{}
	for i := 1; i <= n; i++ {
		u := fmt.Sprintf("u%d", i)
		e.users = append(e.users, u)
		accts[u] = "1000stake"
	}
	e.c = chain.New(chain.Options{Accounts: accts})
	for _, u := range e.users {
		e.names[e.c.Accts[u].Addr.String()] = u
	}
	e.c.Project = func(ctx sdk.Context) any { return e.dump(ctx) }
	return e
}

// dump copies the record store and the counter (raw; named after the block).
func (e *recEnv) dump(ctx sdk.Context) any {
	k := e.c.K.Record
	s := &rawSnap{cnt: k.GetIntraTxCounter(ctx), recs: map[string]recordtypes.Record{}}
	it := k.RecordsIterator(ctx)
	defer it.Close()
	for ; it.Valid(); it.Next() {
		id := it.Key()[len(recordtypes.RecordKey):]
		// read it back through the keeper's getter, as the query does
		r, found := k.GetRecord(ctx, id)
		if !found {
			continue
		}
		s.recs[strings.ToUpper(hex.EncodeToString(id))] = r
	}
	return s
}

func (e *recEnv) expandDigest(p string) string {
	d := p
	if strings.HasPrefix(p, "L") {
		h := sha256.Sum256([]byte("long-" + p))
		d = strings.Repeat(hex.EncodeToString(h[:]), 8)
	}
	e.digestOf[d] = p
	return d
}

func (e *recEnv) expand(v string) []recordtypes.Content {
	if v == "" {
		return nil
	}
	if v == "!" {
		return []recordtypes.Content{{Digest: "", DigestAlgo: "sha256"}}
	}
	var out []recordtypes.Content
	for _, p := range strings.Split(v, "+") {
		out = append(out, recordtypes.Content{Digest: e.expandDigest(p), DigestAlgo: "sha256", URI: "uri-" + p, Meta: "meta-" + p})
	}
	return out
}

func (e *recEnv) compress(cs []recordtypes.Content) string {
	var parts []string
	for _, c := range cs {
		p, ok := e.digestOf[c.Digest]
		if !ok || c.DigestAlgo != "sha256" || c.URI != "uri-"+p || c.Meta != "meta-"+p {
			h := sha256.New()
			for _, x := range cs {
				fmt.Fprintf(h, "%q %q %q %q|", x.Digest, x.DigestAlgo, x.URI, x.Meta)
			}
			return "?" + hex.EncodeToString(h.Sum(nil))[:12]
		}
		parts = append(parts, p)
	}
	return strings.Join(parts, "+")
}

func (e *recEnv) absRec(r recordtypes.Record) chain.M {
	creator := r.Creator
	if n, ok := e.names[creator]; ok {
		creator = n
	}
	tx := strings.ToUpper(r.TxHash)
	if n, ok := e.txName[tx]; ok {
		tx = n
	}
	return chain.M{"digest": e.compress(r.Contents), "creator": creator, "tx": tx}
}

func (e *recEnv) keep(i int64) bool { return i <= e.winFirst || i%e.winMod == 0 }

// state builds the abstract state + observations from a raw dump.
func (e *recEnv) state(s *rawSnap, created []string) chain.M {
	rec := chain.M{}
	h := sha256.New()
	hPrev := ""
	restN := 0
	sum := func() string { return hex.EncodeToString(h.Sum(nil))[:16] }
	if e.prevRest == 0 {
		hPrev = sum()
	}
	for i, id := range e.idOrder {
		name := e.idName[id]
		r, ok := s.recs[id]
		if e.keep(int64(i + 1)) {
			if ok {
				rec[name] = e.absRec(r)
			}
			continue
		}
		restN++
		if ok {
			a := e.absRec(r)
			fmt.Fprintf(h, "%s|%s|%s|%s;", name, a["digest"], a["creator"], a["tx"])
		} else {
			fmt.Fprintf(h, "%s|ABSENT;", name)
		}
		if restN == e.prevRest {
			hPrev = sum()
		}
	}
	cr := chain.M{}
	for _, id := range created {
		if r, ok := s.recs[id]; ok {
			cr[e.idName[id]] = e.absRec(r)
		}
	}
	orphans := 0
	for id := range s.recs {
		if _, ok := e.idName[id]; !ok {
			orphans++
		}
	}
	e.prevRest = restN
	return chain.M{"cnt": int64(s.cnt), "rec": rec, "win": chain.M{"first": e.winFirst, "mod": e.winMod},
		"restN": int64(restN), "restH": sum(), "restPrevH": hPrev, "created": cr, "orphans": int64(orphans)}
}

func recEvent(name, who string, digests []any, tx string, poison bool) chain.M {
	if digests == nil {
		digests = []any{}
	}
	return chain.M{"name": name, "who": who, "digests": digests, "tx": tx, "poison": poison,
		"ok": true, "panic": false, "ids": []any{}}
}

func (e *recEnv) norm(ev chain.M) chain.M {
	var ds []any
	if l, ok := ev["digests"].([]any); ok {
		for _, x := range l {
			if s, ok := x.(string); ok {
				ds = append(ds, s)
			}
		}
	}
	return recEvent(chain.Str(ev, "name"), chain.Str(ev, "who"), ds, chain.Str(ev, "tx"), chain.Bool(ev, "poison"))
}

func (e *recEnv) txOf(ev chain.M) chain.Tx {
	who := chain.Str(ev, "who")
	if _, ok := e.c.Accts[who]; !ok {
		who = e.users[0]
	}
	addr := e.c.Accts[who].Addr
	var msgs []sdk.Msg
	for _, d := range ev["digests"].([]any) {
		msgs = append(msgs, &recordtypes.MsgCreateRecord{Contents: e.expand(d.(string)), Creator: addr.String()})
	}
	if chain.Bool(ev, "poison") {
		other := e.c.Accts[e.users[len(e.users)-1]].Addr
		msgs = append(msgs, banktypes.NewMsgSend(addr, other, sdk.NewCoins(sdk.NewCoin("stake", sdkmath.NewInt(1_000_000_000_000)))))
	}
	return chain.Tx{Signer: who, Msgs: msgs}
}

// runBlock executes the pending events (one transaction each) as one block.
func (e *recEnv) runBlock(pending []chain.M, w *chain.TraceWriter) {
	var txs []chain.Tx
	for _, ev := range pending {
		txs = append(txs, e.txOf(ev))
	}
	res := e.c.RunBlock(5*time.Second, txs)
	if res.Halt {
		panic("record: block halted: " + res.HaltMsg)
	}
	last := res.BeginState.(*rawSnap)
	for i, ev := range pending {
		r := res.Txs[i]
		ev["ok"], ev["panic"] = r.OK, r.Panic
		e.ntx++
		name := chain.Str(ev, "tx")
		if name == "" {
			name = fmt.Sprintf("t%d", e.ntx)
			ev["tx"] = name
		}
		if r.TxHash != "" {
			e.txName[strings.ToUpper(r.TxHash)] = name
		}
		var created []string
		if r.OK {
			var ids []any
			for _, any := range r.MsgResps {
				if !strings.HasSuffix(any.TypeUrl, "MsgCreateRecordResponse") {
					continue
				}
				var resp recordtypes.MsgCreateRecordResponse
				if err := resp.Unmarshal(any.Value); err != nil {
					panic(err)
				}
				id := strings.ToUpper(resp.Id)
				if _, known := e.idName[id]; !known {
					e.idOrder = append(e.idOrder, id)
					e.idName[id] = fmt.Sprintf("r%d", len(e.idOrder))
				}
				ids = append(ids, e.idName[id])
				created = append(created, id)
			}
			if ids == nil {
				ids = []any{}
			}
			ev["ids"] = ids
		}
		if s, ok := r.State.(*rawSnap); ok && s != nil {
			last = s
		}
		w.Write(ev, e.state(last, created))
	}
	w.Write(recEvent("EndBlock", "", nil, "", false), e.state(res.EndState.(*rawSnap), nil))
}

func (e *recEnv) start(w *chain.TraceWriter) {
	w.Write(recEvent("Init", "", nil, "", false), e.state(e.dump(e.c.Ctx()).(*rawSnap), nil))
}

func recRun(fl *drv.Flags, beh []chain.M, w *chain.TraceWriter) {
	hasEnd := false
	for _, ev := range beh {
		hasEnd = hasEnd || chain.Str(ev, "name") == "EndBlock"
	}
	e := newRecEnv(fl, 1000000, 1, usersIn(beh))
	e.start(w)
	per := int(fl.CfgInt("perblock", 2))
	var pending []chain.M
	for _, raw := range beh {
		ev := e.norm(raw)
		switch chain.Str(ev, "name") {
		case "EndBlock":
			e.runBlock(pending, w)
			pending = nil
			continue
		case "CreateRecord":
		default:
			continue
		}
		if len(ev["digests"].([]any)) == 0 {
			continue // a transaction without messages cannot be built
		}
		pending = append(pending, ev)
		if !hasEnd && len(pending) >= per {
			e.runBlock(pending, w)
			pending = nil
		}
	}
	if len(pending) > 0 {
		e.runBlock(pending, w)
	}
}

func recordDriver(mode string, fl *drv.Flags) error {
	w := chain.NewTraceWriter(fl.Out)
	defer w.Close()
	switch mode {
	case "replay":
		for _, beh := range chain.ReadBehaviours(fl.In) {
			recRun(fl, beh, w)
		}
	case "random":
		rng := rand.New(rand.NewSource(fl.Seed))
		for i := 0; i < fl.N; i++ {
			recRandom(fl, rng, w)
		}
	default:
		return fmt.Errorf("unknown mode %q", mode)
	}
	return nil
}

// recRandom: one random history of fl.Len blocks.  A small pool of contents
// (so that byte-identical records from one creator meet in one transaction,
// one block and different blocks), 1..maxmsgs messages per transaction,
// 0..maxtx transactions per block, rolled-back and refused transactions.
func recRandom(fl *drv.Flags, rng *rand.Rand, w *chain.TraceWriter) {
	e := newRecEnv(fl, 20, 10, 0)
	e.start(w)
	pool := []string{"a", "b", "c", "a+b", "b+a", "L1", "L2", "L3+a"}
	maxMsgs := int(fl.CfgInt("maxmsgs", 4))
	maxTx := int(fl.CfgInt("maxtx", 3))
	for b := 0; b < fl.Len; b++ {
		var pending []chain.M
		n := rng.Intn(maxTx + 1)
		for j := 0; j < n; j++ {
			who := e.users[rng.Intn(len(e.users))]
			k := 1 + rng.Intn(maxMsgs)
			var ds []any
			base := pool[rng.Intn(len(pool))]
			for i := 0; i < k; i++ {
				d := base
				if rng.Intn(3) == 0 {
					d = pool[rng.Intn(len(pool))]
				}
				if rng.Intn(60) == 0 {
					d = []string{"", "!"}[rng.Intn(2)]
				}
				ds = append(ds, d)
			}
			pending = append(pending, recEvent("CreateRecord", who, ds, "", rng.Intn(10) == 0))
		}
		e.runBlock(pending, w)
	}
}
