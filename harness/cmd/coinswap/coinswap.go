package main

import (
	"fmt"
	"math/big"
	"math/rand"
	"os"
	"strings"
	"time"

	sdkmath "cosmossdk.io/math"
	sdk "github.com/cosmos/cosmos-sdk/types"
	authtypes "github.com/cosmos/cosmos-sdk/x/auth/types"
	banktypes "github.com/cosmos/cosmos-sdk/x/bank/types"

	"verif/harness/chain"
	"verif/harness/drv"

	cstypes "mods.irisnet.org/modules/coinswap/types"
	"mods.irisnet.org/simapp"
)

func main() { drv.Main("coinswap", csDriver) }

// Model <-> chain mapping for Coinswap.tla:
//
//	accounts: "u1".. users, "esc-lpt-N" = escrow address of lpt-N (hash of the
//	          denom, whether or not the pool exists yet), "module" = coinswap
//	          module account, "feepool" = fee collector + distribution account
//	denoms:   "stake" standard, "btc","eth" tokens, "lpt-N" liquidity tokens,
//	          "voucher-1" an ODD coin: an ordinary bank coin held by every user whose
//	          denom is shaped like a liquidity denom (types.ParseLptDenom accepts it);
//	          anybody may open a pool on it, so there is one liquidity denom / escrow
//	          account more than there are tokens.  Messages may also name denoms
//	          outside this universe ("BTC", "lpt-9": nobody holds any) - passed through
//	time:     now = block time (unix seconds) - base; deadlines likewise
//	fees:     the on-chain decimals are exactly n/d with d | 10^18 (DESIGN 4.2);
//	          the projection reads them back from the store and reduces them
type csEnv struct {
	c        *chain.Chain
	users    []string
	tokens   []string
	odd      []string // odd plain coins of the closed universe (cfg odd=0 switches them off)
	lpts     []string
	std      string
	names    map[string]string // bech32 -> account name
	off      map[string]sdkmath.Int
	base     int64
	dt       int64 // seconds between the last block and the one executed next
	nextDt   int64 // the same for the block after (used by the end-of-block projection)
	last     chain.M
	skew     bool   // random driver: pools of very different depth
	probePct int    // random driver: share of events that are negative probes (wrong-kind denoms, odd roles)
	cfg      string // effective driver configuration (logged so that replays are self-contained)
}

var cfgKeys = []struct {
	k string
	d int64
}{{"users", 3}, {"tokens", 2}, {"initstd", 30}, {"inittok", 30}, {"fee", 3}, {"feenum", 3}, {"feeden", 10},
	{"uninum", 2}, {"uniden", 10}, {"taxnum", 2}, {"taxden", 5}, {"odd", 1}, {"initodd", 9}, {"probe", 18}}

func effectiveCfg(fl *drv.Flags) string {
	var parts []string
	for _, c := range cfgKeys {
		parts = append(parts, fmt.Sprintf("%s=%d", c.k, fl.CfgInt(c.k, c.d)))
	}
	return strings.Join(parts, ",")
}

// withCfg returns flags whose driver configuration is taken from a logged
// "Config" event (everything else, e.g. epilogue, stays as given).
func withCfg(fl *drv.Flags, cfg string) *drv.Flags {
	n := *fl
	n.Cfg = map[string]string{}
	for k, v := range fl.Cfg {
		n.Cfg[k] = v
	}
	for _, kv := range strings.Split(cfg, ",") {
		if p := strings.SplitN(kv, "=", 2); len(p) == 2 {
			n.Cfg[p[0]] = p[1]
		}
	}
	return &n
}

func newEnv(fl *drv.Flags) *csEnv {
	e := &csEnv{
		users:  []string{"u1", "u2", "u3"}[:fl.CfgInt("users", 3)],
		tokens: []string{"btc", "eth"}[:fl.CfgInt("tokens", 2)],
		std:    "stake",
		names:  map[string]string{},
		off:    map[string]sdkmath.Int{},
		dt:     1, nextDt: 1,
		cfg: effectiveCfg(fl),
	}
	e.odd = []string{"voucher-1"}[:fl.CfgInt("odd", 1)]
	e.probePct = int(fl.CfgInt("probe", 18))
	for i := 0; i < len(e.tokens)+len(e.odd); i++ {
		e.lpts = append(e.lpts, fmt.Sprintf("lpt-%d", i+1))
	}
	initStd, initTok, initOdd := fl.CfgInt("initstd", 30), fl.CfgInt("inittok", 30), fl.CfgInt("initodd", 9)
	accts := map[string]string{}
	for _, u := range e.users {
		s := fmt.Sprintf("%d%s", initStd, e.std)
		for _, d := range e.tokens {
			s += fmt.Sprintf(",%d%s", initTok, d)
		}
		for _, d := range e.odd {
			if initOdd > 0 {
				s += fmt.Sprintf(",%d%s", initOdd, d)
			}
		}
		accts[u] = s
	}
	rat := func(n, d string, dn, dd int64) sdkmath.LegacyDec {
		return sdkmath.LegacyNewDec(fl.CfgInt(n, dn)).QuoInt64(fl.CfgInt(d, dd))
	}
	e.c = chain.New(chain.Options{
		Accounts: accts,
		MutateGenesis: func(c *chain.Chain, gs simapp.GenesisState) {
			cdc := c.App.AppCodec()
			var g cstypes.GenesisState
			cdc.MustUnmarshalJSON(gs[cstypes.ModuleName], &g)
			g.Params.Fee = rat("feenum", "feeden", 3, 10)
			g.Params.UnilateralLiquidityFee = rat("uninum", "uniden", 2, 10)
			g.Params.TaxRate = rat("taxnum", "taxden", 2, 5)
			g.Params.PoolCreationFee = sdk.NewInt64Coin(e.std, fl.CfgInt("fee", 3))
			g.StandardDenom = e.std
			gs[cstypes.ModuleName] = cdc.MustMarshalJSON(&g)
		},
	})
	c := e.c
	e.base = c.Time.Unix()
	for _, a := range e.accounts() {
		if a != "feepool" {
			e.names[e.addrOf(a).String()] = a
		}
	}
	ctx := c.Ctx()
	for _, d := range e.denoms() {
		sum := sdkmath.ZeroInt()
		for _, a := range e.accounts() {
			sum = sum.Add(e.balOf(ctx, a, d))
		}
		e.off[d] = c.Supply(ctx, d).Sub(sum)
	}
	c.Project = func(ctx sdk.Context) any { return e.project(ctx) }
	return e
}

func (e *csEnv) denoms() []string {
	return append(append(append([]string{e.std}, e.tokens...), e.odd...), e.lpts...)
}

func (e *csEnv) accounts() []string {
	out := append([]string{}, e.users...)
	for _, l := range e.lpts {
		out = append(out, "esc-"+l)
	}
	return append(out, "module", "feepool")
}

func (e *csEnv) addrOf(a string) sdk.AccAddress {
	switch {
	case a == "module":
		return chain.ModuleAddr(cstypes.ModuleName)
	case a == "feepool":
		return chain.ModuleAddr(authtypes.FeeCollectorName)
	case len(a) > 4 && a[:4] == "esc-":
		return cstypes.GetReservePoolAddr(a[4:])
	}
	if acc, ok := e.c.Accts[a]; ok {
		return acc.Addr
	}
	return nil
}

func (e *csEnv) balOf(ctx sdk.Context, a, d string) sdkmath.Int {
	if a == "feepool" {
		return e.c.FeePool(ctx, d)
	}
	return e.c.Bal(ctx, e.addrOf(a), d)
}

func (e *csEnv) nameOf(bech string) string {
	if n, ok := e.names[bech]; ok {
		return n
	}
	return bech
}

// ratOf reduces an 18-decimal to num/den.
func ratOf(d sdkmath.LegacyDec) (int64, int64) {
	if d.IsNil() {
		return 0, 1
	}
	m := new(big.Int).Set(d.BigInt())
	den := new(big.Int).Exp(big.NewInt(10), big.NewInt(18), nil)
	g := new(big.Int).GCD(nil, nil, new(big.Int).Abs(m), den)
	if g.Sign() == 0 {
		return 0, 1
	}
	m.Quo(m, g)
	den.Quo(den, g)
	if !m.IsInt64() || !den.IsInt64() || den.Int64() > 1_000_000 {
		panic(fmt.Sprintf("fee %s is not a small rational", d))
	}
	return m.Int64(), den.Int64()
}

func sm(i sdkmath.Int) int64 {
	v, ok := chain.Small(i)
	if !ok {
		panic("amount out of TLC range: " + i.String())
	}
	return v
}

// project reads the abstract state of Coinswap.tla from the real stores.
func (e *csEnv) project(ctx sdk.Context) any {
	c := e.c
	k := c.K.Coinswap
	now := ctx.BlockTime().Unix() - e.base
	if ctx.BlockHeight() == c.Height {
		// committed state: the next message executes in the next block
		now = c.Time.Unix() + e.nextDt - e.base
	}
	store := ctx.KVStore(c.App.UnsafeFindStoreKey(cstypes.StoreKey))
	seq := int64(1)
	if bz := store.Get([]byte(cstypes.KeyNextPoolSequence)); bz != nil {
		seq = int64(sdk.BigEndianToUint64(bz))
	}
	pools := chain.M{}
	for _, p := range k.GetAllPools(ctx) {
		lpt, esc := p.LptDenom, e.nameOf(p.EscrowAddress)
		// the secondary index and the standard denom must agree with the registry
		if q, ok := k.GetPoolByLptDenom(ctx, p.LptDenom); !ok || q.Id != p.Id {
			lpt = "BROKEN-INDEX:" + lpt
		}
		if p.StandardDenom != k.GetStandardDenom(ctx) || p.Id != cstypes.GetPoolId(p.CounterpartyDenom) {
			esc = "BROKEN-POOL:" + esc
		}
		pools[p.CounterpartyDenom] = chain.M{"lpt": lpt, "esc": esc}
	}
	bal := chain.M{}
	for _, a := range e.accounts() {
		row := chain.M{}
		for _, d := range e.denoms() {
			row[d] = sm(e.balOf(ctx, a, d))
		}
		bal[a] = row
	}
	supply := chain.M{}
	for _, d := range e.denoms() {
		supply[d] = sm(c.Supply(ctx, d).Sub(e.off[d]))
	}
	p := k.GetParams(ctx)
	fn, fd := ratOf(p.Fee)
	un, ud := ratOf(p.UnilateralLiquidityFee)
	tn, td := ratOf(p.TaxRate)
	// the application's blocked addresses among the tracked accounts (the fee
	// pool stands for the fee collector and the distribution account)
	blocked := []any{}
	bl := c.App.BankKeeper.GetBlockedAddresses()
	if bl[chain.ModuleAddr(authtypes.FeeCollectorName).String()] {
		blocked = append(blocked, "feepool")
	}
	if bl[chain.ModuleAddr(cstypes.ModuleName).String()] {
		blocked = append(blocked, "module")
	}
	return chain.M{
		"now": now, "seq": seq, "std": k.GetStandardDenom(ctx), "blocked": blocked,
		"params": chain.M{"feeNum": fn, "feeDen": fd, "uniNum": un, "uniDen": ud, "taxNum": tn, "taxDen": td,
			"fee": sm(p.PoolCreationFee.Amount), "feeDenom": p.PoolCreationFee.Denom},
		"pools": pools, "bal": bal, "supply": supply,
	}
}

func coin(d string, a int64) sdk.Coin { return sdk.Coin{Denom: d, Amount: sdkmath.NewInt(a)} }

func (e *csEnv) bech(a string) string {
	if ad := e.addrOf(a); ad != nil {
		return ad.String()
	}
	return a
}

// msgOf maps an abstract event to a real message; nil for non-message events.
func (e *csEnv) msgOf(ev chain.M) sdk.Msg {
	who := e.bech(chain.Str(ev, "who"))
	dl := e.base + chain.Num(ev, "deadline")
	amt, amt2 := chain.Num(ev, "amt"), chain.Num(ev, "amt2")
	min1, min2 := chain.Num(ev, "min1"), chain.Num(ev, "min2")
	denom, tok := chain.Str(ev, "denom"), chain.Str(ev, "tok")
	switch chain.Str(ev, "name") {
	case "AddLiquidity":
		return &cstypes.MsgAddLiquidity{MaxToken: coin(denom, amt2), ExactStandardAmt: sdkmath.NewInt(amt),
			MinLiquidity: sdkmath.NewInt(min1), Deadline: dl, Sender: who}
	case "RemoveLiquidity":
		return &cstypes.MsgRemoveLiquidity{WithdrawLiquidity: coin(denom, amt), MinStandardAmt: sdkmath.NewInt(min1),
			MinToken: sdkmath.NewInt(min2), Deadline: dl, Sender: who}
	case "AddUnilateral":
		return &cstypes.MsgAddUnilateralLiquidity{CounterpartyDenom: denom, ExactToken: coin(tok, amt),
			MinLiquidity: sdkmath.NewInt(min1), Deadline: dl, Sender: who}
	case "RemoveUnilateral":
		return &cstypes.MsgRemoveUnilateralLiquidity{CounterpartyDenom: denom, MinToken: coin(tok, min1),
			ExactLiquidity: sdkmath.NewInt(amt), Deadline: dl, Sender: who}
	case "Swap":
		return &cstypes.MsgSwapOrder{
			Input:    cstypes.Input{Address: who, Coin: coin(chain.Str(ev, "inDenom"), amt)},
			Output:   cstypes.Output{Address: e.bech(chain.Str(ev, "to")), Coin: coin(chain.Str(ev, "outDenom"), amt2)},
			Deadline: dl, IsBuyOrder: chain.Bool(ev, "isBuy")}
	case "Donate":
		from, to := e.addrOf(chain.Str(ev, "who")), e.addrOf(chain.Str(ev, "to"))
		if from == nil || to == nil {
			return nil
		}
		return &banktypes.MsgSend{FromAddress: from.String(), ToAddress: to.String(), Amount: sdk.Coins{coin(denom, amt)}}
	}
	return nil
}

func csEvent(name, who string) chain.M {
	return chain.M{"name": name, "who": who, "to": "", "denom": "", "tok": "", "inDenom": "", "outDenom": "",
		"amt": int64(0), "amt2": int64(0), "min1": int64(0), "min2": int64(0), "deadline": int64(0),
		"isBuy": false, "hops": int64(0), "ok": true, "panic": false, "minted": int64(0), "wd": chain.M{}}
}

// norm brings an abstract event read from JSON into the fixed record shape.
func (e *csEnv) norm(ev chain.M) chain.M {
	o := csEvent(chain.Str(ev, "name"), chain.Str(ev, "who"))
	for _, k := range []string{"to", "denom", "tok", "inDenom", "outDenom"} {
		o[k] = chain.Str(ev, k)
	}
	for _, k := range []string{"amt", "amt2", "min1", "min2", "deadline"} {
		o[k] = chain.Num(ev, k)
	}
	o["isBuy"] = chain.Bool(ev, "isBuy")
	if o["name"] == "Swap" {
		o["hops"] = int64(1)
		if o["inDenom"] != e.std && o["outDenom"] != e.std {
			o["hops"] = int64(2)
		}
	}
	return o
}

func (e *csEnv) fillResp(ev chain.M, r chain.TxResult) {
	ev["ok"], ev["panic"] = r.OK, r.Panic
	ev["minted"], ev["wd"] = int64(0), chain.M{}
	if !r.OK || len(r.MsgResps) == 0 {
		return
	}
	bz := r.MsgResps[0].Value
	wd := func(cs []sdk.Coin) chain.M {
		m := chain.M{}
		for _, c := range cs {
			m[c.Denom] = sm(c.Amount)
		}
		return m
	}
	switch chain.Str(ev, "name") {
	case "AddLiquidity":
		var resp cstypes.MsgAddLiquidityResponse
		if resp.Unmarshal(bz) == nil && resp.MintToken != nil && !resp.MintToken.Amount.IsNil() {
			ev["minted"] = sm(resp.MintToken.Amount)
		}
	case "AddUnilateral":
		var resp cstypes.MsgAddUnilateralLiquidityResponse
		if resp.Unmarshal(bz) == nil && resp.MintToken != nil && !resp.MintToken.Amount.IsNil() {
			ev["minted"] = sm(resp.MintToken.Amount)
		}
	case "RemoveLiquidity":
		var resp cstypes.MsgRemoveLiquidityResponse
		if resp.Unmarshal(bz) == nil {
			ev["wd"] = wd(resp.WithdrawCoins)
		}
	case "RemoveUnilateral":
		var resp cstypes.MsgRemoveUnilateralLiquidityResponse
		if resp.Unmarshal(bz) == nil {
			ev["wd"] = wd(resp.WithdrawCoins)
		}
	}
}

// runBlock executes the pending message events as one block; the block after
// it will be dtNext seconds later.  One trace line per event plus EndBlock.
func (e *csEnv) runBlock(pending []chain.M, dtNext int64, w *chain.TraceWriter) bool {
	var txs []chain.Tx
	for _, ev := range pending {
		txs = append(txs, chain.Tx{Signer: chain.Str(ev, "who"), Msgs: []sdk.Msg{e.msgOf(ev)}})
	}
	e.nextDt = dtNext
	res := e.c.RunBlock(time.Duration(e.dt)*time.Second, txs)
	if res.Halt {
		panic("coinswap: block halted: " + res.HaltMsg)
	}
	e.dt = dtNext
	for i, ev := range pending {
		r := res.Txs[i]
		if r.Aborted {
			// member of a multi-message transaction that failed as a whole (chain.BundlePct):
			// whatever it did was rolled back; the specification knows no such event and
			// treats it as a rejection without effect
			ev["_orig"], ev["name"] = ev["name"], "TxFailed"
		}
		e.fillResp(ev, r)
		if r.Aborted {
			// a recovered panic belongs to the message that raised it, not to the pseudo event
			// standing for a rolled-back member of its transaction
			ev["panic"] = false
		}
		if !r.OK && os.Getenv("COINSWAP_DEBUG") != "" {
			fmt.Fprintf(os.Stderr, "rejected %v %v: %s\n", ev["name"], ev["who"], r.Log)
		}
		st := r.State
		if st == nil {
			st = res.BeginState
		}
		w.Write(ev, st)
		e.last = st.(chain.M)
	}
	end := csEvent("EndBlock", "")
	end["amt"] = dtNext
	w.Write(end, res.EndState)
	e.last = res.EndState.(chain.M)
	return true
}

// start writes the Init line and a "Config" pseudo event (not a message: the
// specification rejects it without effect) that carries the driver
// configuration, so that a behaviour cut out of this trace replays identically.
func (e *csEnv) start(w *chain.TraceWriter) {
	e.last = e.project(e.c.Ctx()).(chain.M)
	w.Write(csEvent("Init", ""), e.last)
	c := csEvent("Config", e.cfg)
	c["ok"] = false
	w.Write(c, e.last)
}

func dtOf(ev chain.M) int64 {
	if d := chain.Num(ev, "amt"); d > 0 {
		return d
	}
	return 1
}

// csRun executes one abstract behaviour on a fresh chain.
func csRun(fl *drv.Flags, beh []chain.M, w *chain.TraceWriter, epilogue bool) {
	if len(beh) > 0 && chain.Str(beh[0], "name") == "Config" {
		fl = withCfg(fl, chain.Str(beh[0], "who"))
	}
	e := newEnv(fl)
	e.start(w)
	var pending []chain.M
	for _, raw := range beh {
		ev := e.norm(raw)
		if chain.Str(ev, "name") == "EndBlock" {
			e.runBlock(pending, dtOf(ev), w)
			pending = nil
			continue
		}
		if _, ok := e.c.Accts[chain.Str(ev, "who")]; !ok || e.msgOf(ev) == nil {
			continue
		}
		pending = append(pending, ev)
	}
	if len(pending) > 0 {
		e.runBlock(pending, 1, w)
	}
	if epilogue {
		e.epilogue(w)
	}
}

func (e *csEnv) now() int64 { return e.last["now"].(int64) }

// balM reads the last observed balance sheet; 0 for a cell outside the tracked universe
// (a broken tree may register pools whose accounts / denoms are not tracked).
func (e *csEnv) balM(a, d string) int64 {
	bal, _ := e.last["bal"].(chain.M)
	row, _ := bal[a].(chain.M)
	v, _ := row[d].(int64)
	return v
}

func (e *csEnv) supM(d string) (int64, bool) {
	sup, _ := e.last["supply"].(chain.M)
	v, ok := sup[d].(int64)
	return v, ok
}

type poolView struct {
	denom, lpt, esc string
	S, T, L         int64
}

func (e *csEnv) poolViews() []poolView {
	var out []poolView
	pools, _ := e.last["pools"].(chain.M)
	bal, _ := e.last["bal"].(chain.M)
	for _, d := range chain.SortedKeys(pools) {
		p, _ := pools[d].(chain.M)
		lpt, _ := p["lpt"].(string)
		esc, _ := p["esc"].(string)
		L, okL := e.supM(lpt)
		if _, ok := bal[esc]; !ok || !okL {
			continue
		}
		out = append(out, poolView{d, lpt, esc, e.balM(esc, e.std), e.balM(esc, d), L})
	}
	return out
}

// epilogue: every user withdraws all liquidity (pools end empty when nothing
// was donated), the emptied pools are probed with messages that an empty pool
// must turn away or survive, then the first user funds every pool again.
// Everything is computed from the REAL state last
// observed (registry, balances, supplies) - never from what a model expected -
// so that whatever the code accepted before, its consequences are exercised.
func (e *csEnv) epilogue(w *chain.TraceWriter) {
	var pending []chain.M
	for _, p := range e.poolViews() {
		for _, u := range e.users {
			if b := e.balM(u, p.lpt); b > 0 {
				ev := csEvent("RemoveLiquidity", u)
				ev["denom"], ev["amt"], ev["deadline"] = p.lpt, b, e.now()
				pending = append(pending, ev)
			}
		}
	}
	if len(pending) > 0 {
		e.runBlock(pending, 1, w)
	}
	if len(e.poolViews()) == 0 {
		return
	}
	// the pools as they are now (normally: no shares, no reserves; with donations: wedged): two of
	// four probes per pool, rotating with the pool index and the time
	pending = nil
	n := len(e.users)
	for i, p := range e.poolViews() {
		dl := e.now() + 1
		a := csEvent("AddUnilateral", e.users[(i+1)%n])
		a["denom"], a["tok"], a["amt"], a["deadline"] = p.denom, e.std, int64(1), dl
		r := csEvent("RemoveUnilateral", e.users[(i+2)%n])
		r["denom"], r["tok"], r["amt"], r["min1"], r["deadline"] = p.denom, p.denom, int64(1), int64(1), dl
		l := csEvent("RemoveLiquidity", e.users[i%n])
		l["denom"], l["amt"], l["deadline"] = p.lpt, int64(1), dl
		sw := csEvent("Swap", e.users[(i+2)%n])
		sw["to"], sw["inDenom"], sw["outDenom"], sw["amt"], sw["amt2"] = e.users[i%n], e.std, p.denom, int64(2), int64(1)
		sw["hops"], sw["deadline"], sw["isBuy"] = int64(1), dl, i%2 == 1
		four := []chain.M{a, r, l, sw}
		k := i + int(e.now())
		pending = append(pending, four[k%4], four[(k+1)%4])
	}
	e.runBlock(pending, 1, w)
	pending = nil
	for _, p := range e.poolViews() {
		ev := csEvent("AddLiquidity", e.users[0])
		ev["denom"], ev["amt"], ev["amt2"], ev["deadline"] = p.denom, int64(2), int64(3), e.now()+1
		pending = append(pending, ev)
	}
	e.runBlock(pending, 1, w)
}

func csDriver(mode string, fl *drv.Flags) error {
	w := chain.NewTraceWriter(fl.Out)
	defer w.Close()
	switch mode {
	case "replay":
		for _, beh := range chain.ReadBehaviours(fl.In) {
			csRun(fl, beh, w, fl.CfgInt("epilogue", 1) == 1)
		}
	case "random":
		rng := rand.New(rand.NewSource(fl.Seed))
		for i := 0; i < fl.N; i++ {
			csRandom(fl, rng, w)
		}
	default:
		return fmt.Errorf("unknown mode %q", mode)
	}
	return nil
}
