package main

import (
	"math/big"
	"math/rand"

	"verif/harness/chain"
	"verif/harness/drv"
)

// Seeded random histories.  Events are generated block by block from the last
// observed state, with bounds at the value the code will compute +-1, deadlines
// around the block time, recipients different from the sender, donations to
// pool escrows, pools emptied and funded again.  All values stay small enough
// for TLC's 32-bit clauses (DESIGN 4.2): a history stops when a reserve or a
// share supply exceeds lim.

func (e *csEnv) par(k string) int64 { return e.last["params"].(chain.M)[k].(int64) }

func (e *csEnv) inPrice(x, rin, rout int64) int64 {
	fd, g := e.par("feeDen"), e.par("feeDen")-e.par("feeNum")
	if rin <= 0 || rout <= 0 {
		return 0
	}
	return x * g * rout / (rin*fd + x*g)
}

func (e *csEnv) outPrice(y, rin, rout int64) int64 {
	fd, g := e.par("feeDen"), e.par("feeDen")-e.par("feeNum")
	if rin <= 0 || rout <= 0 || y >= rout {
		return 0
	}
	return rin*y*fd/((rout-y)*g) + 1
}

func isqrt(n int64) int64 {
	return new(big.Int).Sqrt(big.NewInt(n)).Int64()
}

func pick(rng *rand.Rand, xs ...int64) int64 { return xs[rng.Intn(len(xs))] }

func max1(x int64) int64 {
	if x < 1 {
		return 1
	}
	return x
}

func (e *csEnv) deadline(rng *rand.Rand) int64 {
	switch x := rng.Intn(20); {
	case x == 0:
		return e.now() - 1
	case x < 5:
		return e.now()
	default:
		return e.now() + 1 + int64(rng.Intn(4))
	}
}

func (e *csEnv) findPool(ps []poolView, denom string) *poolView {
	for i := range ps {
		if ps[i].denom == denom {
			return &ps[i]
		}
	}
	return nil
}

// reserves of the pool of `denom` seen from a swap selling inD for outD
func (e *csEnv) reserves(ps []poolView, inD, outD string) (rin, rout int64, ok bool) {
	d := inD
	if d == e.std {
		d = outD
	}
	p := e.findPool(ps, d)
	if p == nil {
		return 0, 0, false
	}
	if inD == e.std {
		return p.S, p.T, true
	}
	return p.T, p.S, true
}

// strange denoms: valid, outside the tracked universe (nobody holds any, no pool is named after
// them): different case, a liquidity denom whose sequence is never reached
var strangeDenoms = []string{"BTC", "lpt-9"}

// anyDenom: a denom of ANY kind - standard, token, odd coin, liquidity denom, strange.
func (e *csEnv) anyDenom(rng *rand.Rand) string {
	ds := append(e.denoms(), strangeDenoms...)
	return ds[rng.Intn(len(ds))]
}

// held: the denoms of which account a holds something, in the last observed state.
func (e *csEnv) held(a string) []string {
	var out []string
	for _, d := range e.denoms() {
		if e.balM(a, d) > 0 {
			out = append(out, d)
		}
	}
	return out
}

// heldOrAny: half of the time a denom the account really holds (an identifier that belongs to
// another object: a foreign coin donated to an escrow, somebody's share token, an odd coin).
func (e *csEnv) heldOrAny(rng *rand.Rand, a string) string {
	if h := e.held(a); len(h) > 0 && rng.Intn(2) == 0 {
		return h[rng.Intn(len(h))]
	}
	return e.anyDenom(rng)
}

// wrongTok: a denom for the token field of a one-sided message on the pool of poolDenom: mostly a
// coin that the escrow holds without its being one of the two reserves, else any denom.
func (e *csEnv) wrongTok(rng *rand.Rand, esc, poolDenom string) string {
	var foreign []string
	for _, d := range e.held(esc) {
		if d != e.std && d != poolDenom {
			foreign = append(foreign, d)
		}
	}
	if len(foreign) > 0 && rng.Intn(3) > 0 {
		return foreign[rng.Intn(len(foreign))]
	}
	return e.anyDenom(rng)
}

// probeEvent: NEGATIVE PROBING.  A message of a random type whose denom-valued fields are drawn
// from every kind of denom, by a random user (often one without any share in the pool), against a
// pool in whatever life-cycle state it is in (not created, funded, emptied, wedged, re-funded); or
// a plain bank send of a foreign coin / share token / odd coin to an escrow.  Bounds are wide open
// and deadlines valid, so that code which wrongly accepts the message goes through with it.  Most
// of these are rejected by the unchanged code (the specification says which, and why); pools opened
// on the odd coin and foreign donations are accepted and become part of the state.
func (e *csEnv) probeEvent(rng *rand.Rand, ps []poolView) chain.M {
	u := e.users[rng.Intn(len(e.users))]
	dl := e.now() + 1 + int64(rng.Intn(3))
	var p *poolView
	if len(ps) > 0 && rng.Intn(5) > 0 {
		p = &ps[rng.Intn(len(ps))]
	}
	poolDenom := e.anyDenom(rng) // counterparty field: an existing pool most of the time
	esc := "esc-" + e.lpts[rng.Intn(len(e.lpts))]
	if p != nil {
		poolDenom, esc = p.denom, p.esc
	}
	small := func(n int) int64 { return int64(1 + rng.Intn(n)) }
	switch rng.Intn(8) {
	case 0:
		ev := csEvent("AddLiquidity", u)
		d := e.anyDenom(rng)
		if rng.Intn(3) == 0 {
			d = e.heldOrAny(rng, u)
		}
		ev["denom"], ev["amt"], ev["amt2"], ev["deadline"] = d, small(4), small(6)+3, dl
		return ev
	case 1:
		// withdraw "liquidity" named by any coin the sender holds (or any denom at all)
		ev := csEvent("RemoveLiquidity", u)
		d := e.heldOrAny(rng, u)
		switch rng.Intn(3) {
		case 0: // an ordinary coin shaped like a liquidity denom
			if len(e.odd) > 0 {
				d = e.odd[rng.Intn(len(e.odd))]
			}
		case 1: // somebody's liquidity denom, with or without a pool
			d = e.lpts[rng.Intn(len(e.lpts))]
		}
		amt := small(4)
		if have := e.balM(u, d); have > 0 && rng.Intn(3) > 0 {
			amt = 1 + rng.Int63n(have)
			if amt > 6 {
				amt = 6
			}
		}
		ev["denom"], ev["amt"], ev["deadline"] = d, amt, dl
		return ev
	case 2:
		// one-sided add naming a coin the escrow holds (foreign donation, share token) or any denom
		ev := csEvent("AddUnilateral", u)
		ev["denom"], ev["tok"], ev["amt"], ev["deadline"] = poolDenom, e.wrongTok(rng, esc, poolDenom), small(5), dl
		if rng.Intn(6) == 0 { // the counterparty field itself of the wrong kind, the token plausible
			ev["denom"], ev["tok"] = e.anyDenom(rng), pick2(rng, e.std, poolDenom)
		}
		return ev
	case 3:
		ev := csEvent("RemoveUnilateral", u)
		amt := small(3)
		if p != nil {
			switch have := e.balM(u, p.lpt); rng.Intn(4) {
			case 0:
				amt = p.L // all liquidity (forbidden), by whoever
			case 1:
				amt = p.L + 1
			default:
				if have > 0 {
					amt = 1 + rng.Int63n(have)
				}
			}
		}
		ev["denom"], ev["tok"], ev["amt"], ev["min1"], ev["deadline"] = poolDenom, e.wrongTok(rng, esc, poolDenom), max1(amt), int64(1), dl
		if rng.Intn(6) == 0 {
			ev["denom"], ev["tok"] = e.anyDenom(rng), pick2(rng, e.std, poolDenom)
		}
		return ev
	case 4:
		ev := csEvent("Swap", u)
		inD, outD := e.heldOrAny(rng, u), e.anyDenom(rng)
		if rng.Intn(2) == 0 {
			outD = e.heldOrAny(rng, esc)
		}
		to := u
		switch rng.Intn(7) {
		case 0:
			to = "module"
		case 1:
			to = "feepool"
		case 2, 3:
			to = e.users[rng.Intn(len(e.users))]
		case 4:
			// the escrow of a pool that takes no part in the order (a pool as recipient of its own
			// order is not generated: the legs are reconstructed from the pools' balance deltas)
			for _, q := range ps {
				if q.denom != inD && q.denom != outD {
					to = q.esc
				}
			}
		}
		buy := rng.Intn(2) == 0
		ev["to"], ev["inDenom"], ev["outDenom"], ev["isBuy"], ev["deadline"] = to, inD, outD, buy, dl
		ev["amt"], ev["amt2"] = small(4), int64(1)
		if buy {
			ev["amt"], ev["amt2"] = small(6)+6, small(2)
		}
		ev["hops"] = int64(1)
		if inD != e.std && outD != e.std {
			ev["hops"] = int64(2)
		}
		return ev
	case 5, 6:
		// plain bank send of whatever the user holds - foreign token, odd coin, share token - to an escrow
		h := e.held(u)
		if len(h) == 0 {
			return nil
		}
		ev := csEvent("Donate", u)
		d := h[rng.Intn(len(h))]
		amt := small(2)
		if have := e.balM(u, d); amt > have {
			amt = have
		}
		ev["to"], ev["denom"], ev["amt"] = esc, d, amt
		return ev
	default:
		// roles: somebody WITHOUT a share in the pool asks for it; somebody asks for more than exists
		if p == nil {
			return nil
		}
		var poor []string
		for _, x := range e.users {
			if e.balM(x, p.lpt) == 0 {
				poor = append(poor, x)
			}
		}
		if len(poor) > 0 {
			u = poor[rng.Intn(len(poor))]
		}
		ev := csEvent("RemoveLiquidity", u)
		amt := small(3)
		if rng.Intn(3) == 0 {
			amt = p.L + int64(rng.Intn(2))
		}
		ev["denom"], ev["amt"], ev["deadline"] = p.lpt, max1(amt), dl
		if rng.Intn(2) == 0 {
			ev = csEvent("RemoveUnilateral", u)
			ev["denom"], ev["tok"], ev["amt"], ev["min1"], ev["deadline"] = p.denom, pick2(rng, e.std, p.denom), max1(amt), int64(1), dl
		}
		return ev
	}
}

func (e *csEnv) randomEvent(rng *rand.Rand, ps []poolView) chain.M {
	if rng.Intn(100) < e.probePct {
		if ev := e.probeEvent(rng, ps); ev != nil {
			return ev
		}
	}
	u := e.users[rng.Intn(len(e.users))]
	tok := e.tokens[rng.Intn(len(e.tokens))]
	p := e.findPool(ps, tok)
	x := rng.Intn(100)
	if p != nil && p.L == 0 && (p.S+p.T > 0 && rng.Intn(3) == 0 || p.S+p.T == 0 && rng.Intn(8) == 0) {
		// an emptied pool: donate one side, or add one-sidedly to a side whose
		// reserve is zero (division by zero in AddUnilateralLiquidity)
		if p.S == 0 && p.T == 0 {
			ev := csEvent("Donate", u)
			ev["to"], ev["denom"], ev["amt"] = p.esc, pick2(rng, e.std, tok), int64(1+rng.Intn(3))
			return ev
		}
		ev := csEvent("AddUnilateral", u)
		tk := tok
		if p.S == 0 || (p.T != 0 && rng.Intn(2) == 0) {
			tk = e.std
		}
		ev["denom"], ev["tok"], ev["amt"], ev["deadline"] = tok, tk, int64(1+rng.Intn(4)), e.now()+1
		return ev
	}
	switch {
	case p == nil && x < 60, x < 14:
		ev := csEvent("AddLiquidity", u)
		ev["denom"], ev["deadline"] = tok, e.deadline(rng)
		if p == nil || (p.S == 0 && p.T == 0) || p.S == 0 {
			exact := int64(1 + rng.Intn(14))
			ev["amt"], ev["amt2"] = exact, int64(1+rng.Intn(14))
			if e.skew && tok != e.tokens[0] { // pools of very different depth on one standard denom
				exact = int64(1 + rng.Intn(3))
				ev["amt"], ev["amt2"] = exact, int64(1+rng.Intn(3))
			} else if e.skew {
				exact = int64(10 + rng.Intn(6))
				ev["amt"], ev["amt2"] = exact, int64(8+rng.Intn(8))
			}
			ev["min1"] = pick(rng, 0, 0, exact, exact, exact+1)
		} else {
			exact := int64(1 + rng.Intn(8))
			if exact > p.S { // shares at most double per event (32-bit clauses)
				exact = p.S
			}
			dep := p.T*exact/p.S + 1
			mint := p.L * exact / p.S
			ev["amt"], ev["amt2"] = exact, max1(dep+pick(rng, 0, 0, 0, -1, 1, 3))
			ev["min1"] = pick(rng, 0, mint, mint, mint+1)
		}
		return ev
	case p == nil:
		// nothing else makes sense without a pool, except a donation to the
		// address the next pool will get, or a message that must be rejected
		if x < 80 {
			ev := csEvent("Donate", u)
			ev["to"], ev["denom"], ev["amt"] = "esc-"+e.lpts[rng.Intn(len(e.lpts))], pick2(rng, e.std, tok), int64(1+rng.Intn(2))
			return ev
		}
		ev := csEvent("Swap", u)
		ev["to"], ev["inDenom"], ev["outDenom"], ev["amt"], ev["amt2"] = u, e.std, tok, int64(2), int64(1)
		ev["hops"], ev["deadline"] = int64(1), e.now()+1
		return ev
	case x < 26:
		ev := csEvent("RemoveLiquidity", u)
		lpt := p.lpt
		if rng.Intn(15) == 0 {
			lpt = e.lpts[rng.Intn(len(e.lpts))]
		}
		have := e.balM(u, p.lpt)
		amt := int64(1 + rng.Intn(6))
		if have > 0 {
			switch rng.Intn(4) {
			case 0:
				amt = have
			case 1:
				amt = have + int64(rng.Intn(2))
			default:
				amt = 1 + rng.Int63n(have)
			}
		}
		ws, wt := int64(0), int64(0)
		if p.L > 0 {
			ws, wt = amt*p.S/p.L, amt*p.T/p.L
		}
		ev["denom"], ev["amt"], ev["deadline"] = lpt, amt, e.deadline(rng)
		ev["min1"] = pick(rng, 0, ws, ws, ws+1)
		ev["min2"] = pick(rng, 0, wt, wt, wt, wt+1)
		return ev
	case x < 38:
		ev := csEvent("AddUnilateral", u)
		tk := pick2(rng, tok, e.std)
		T := p.T
		if tk == e.std {
			T = p.S
		}
		amt := int64(1 + rng.Intn(8))
		if T > 0 && amt > 3*T { // shares at most double per event
			amt = 3 * T
		}
		mint := int64(0)
		if T > 0 {
			ud, g := e.par("uniDen"), e.par("uniDen")-e.par("uniNum")
			mint = isqrt((ud*T+g*amt)*p.L*p.L/(ud*T)) - p.L
		}
		ev["denom"], ev["tok"], ev["amt"], ev["deadline"] = tok, tk, amt, e.deadline(rng)
		ev["min1"] = pick(rng, 0, mint, mint, mint+1)
		return ev
	case x < 48:
		ev := csEvent("RemoveUnilateral", u)
		tk := pick2(rng, tok, e.std)
		T := p.T
		if tk == e.std {
			T = p.S
		}
		have := e.balM(u, p.lpt)
		amt := int64(1 + rng.Intn(4))
		if have > 0 {
			amt = 1 + rng.Int63n(have)
			if rng.Intn(8) == 0 {
				amt = have
			}
		}
		target := int64(0)
		if p.L > 0 {
			ud, g := e.par("uniDen"), e.par("uniDen")-e.par("uniNum")
			target = (2*p.L - amt) * amt * T * g / (p.L * p.L * ud)
		}
		ev["denom"], ev["tok"], ev["amt"], ev["deadline"] = tok, tk, amt, e.deadline(rng)
		ev["min1"] = max1(target + pick(rng, 0, 0, 0, -1, 1))
		return ev
	case x < 56 && !(p.L == 0 && p.S+p.T == 0 && rng.Intn(4) > 0): // rarely wedge an emptied pool
		ev := csEvent("Donate", u)
		esc := p.esc
		switch rng.Intn(12) {
		case 0, 1:
			esc = "esc-" + e.lpts[rng.Intn(len(e.lpts))]
		case 2:
			esc = "module"
		case 3:
			esc = "feepool" // blocked: the bank rejects the send
		}
		ev["to"], ev["denom"], ev["amt"] = esc, pick2(rng, e.std, tok), int64(1+rng.Intn(3))
		return ev
	}
	// swap
	ev := csEvent("Swap", u)
	to := u
	switch y := rng.Intn(20); {
	case y == 0:
		to = "feepool" // blocked: rejected by the message server
	case y == 1:
		to = "module" // the coinswap module account is not blocked
	case y < 9:
		to = e.users[rng.Intn(len(e.users))]
	}
	all := append([]string{e.std}, e.tokens...)
	inD := all[rng.Intn(len(all))]
	outD := all[rng.Intn(len(all))]
	for outD == inD {
		outD = all[rng.Intn(len(all))]
	}
	if len(e.tokens) > 1 && rng.Intn(3) == 0 { // favour routed orders
		inD, outD = e.tokens[0], e.tokens[1]
		if rng.Intn(2) == 0 {
			inD, outD = outD, inD
		}
	}
	double := inD != e.std && outD != e.std
	buy := rng.Intn(2) == 0
	ev["to"], ev["inDenom"], ev["outDenom"], ev["isBuy"], ev["deadline"] = to, inD, outD, buy, e.deadline(rng)
	ev["hops"] = int64(1)
	if double {
		ev["hops"] = int64(2)
	}
	off := pick(rng, 0, 0, 0, 0, -1, 1)
	if !buy {
		in := int64(1 + rng.Intn(9))
		var out int64
		if double {
			r1i, r1o, ok1 := e.reserves(ps, inD, e.std)
			r2i, r2o, ok2 := e.reserves(ps, e.std, outD)
			if ok1 && ok2 {
				out = e.inPrice(e.inPrice(in, r1i, r1o), r2i, r2o)
			}
		} else if ri, ro, ok := e.reserves(ps, inD, outD); ok {
			out = e.inPrice(in, ri, ro)
		}
		ev["amt"], ev["amt2"] = in, max1(out+off)
	} else {
		var in int64
		out := int64(1 + rng.Intn(6))
		if double {
			r1i, r1o, ok1 := e.reserves(ps, inD, e.std)
			r2i, r2o, ok2 := e.reserves(ps, e.std, outD)
			if ok1 && ok2 {
				if r2o > 1 && out >= r2o {
					out = 1 + rng.Int63n(r2o-1)
				}
				in = e.outPrice(e.outPrice(out, r2i, r2o), r1i, r1o)
			}
		} else if ri, ro, ok := e.reserves(ps, inD, outD); ok {
			if ro > 1 && out >= ro && rng.Intn(5) > 0 {
				out = 1 + rng.Int63n(ro-1)
			}
			in = e.outPrice(out, ri, ro)
		}
		ev["amt"], ev["amt2"] = max1(in-off), out
	}
	return ev
}

func pick2(rng *rand.Rand, a, b string) string {
	if rng.Intn(2) == 0 {
		return a
	}
	return b
}

// sandwich: within one block A sells, B sells the same way (with a bound taken
// from the pre-block quote, from B's point of view: exact, loose, or none),
// A sells the proceeds back.  Also used without B in between (round trip).
func (e *csEnv) sandwich(rng *rand.Rand, ps []poolView) []chain.M {
	var live []poolView
	for _, p := range ps {
		if p.S > 1 && p.T > 1 {
			live = append(live, p)
		}
	}
	if len(live) == 0 || len(e.users) < 2 {
		return nil
	}
	p := live[rng.Intn(len(live))]
	inD, outD, rin, rout := e.std, p.denom, p.S, p.T
	if rng.Intn(2) == 0 {
		inD, outD, rin, rout = p.denom, e.std, p.T, p.S
	}
	perm := rng.Perm(len(e.users))
	a, b := e.users[perm[0]], e.users[perm[1]]
	mk := func(who, i string, x int64, o string, y int64) chain.M {
		ev := csEvent("Swap", who)
		ev["to"], ev["inDenom"], ev["outDenom"], ev["amt"], ev["amt2"] = who, i, o, x, max1(y)
		ev["hops"], ev["deadline"] = int64(1), e.now()+1
		return ev
	}
	xa := int64(1 + rng.Intn(6))
	ya := e.inPrice(xa, rin, rout)
	if ya < 1 {
		return nil
	}
	out := []chain.M{mk(a, inD, xa, outD, ya)}
	rin2, rout2 := rin+xa, rout-ya
	if rng.Intn(4) > 0 {
		xb := int64(1 + rng.Intn(6))
		quote := e.inPrice(xb, rin, rout) // what B saw before the block
		got := e.inPrice(xb, rin2, rout2) // what B gets behind A
		out = append(out, mk(b, inD, xb, outD, pick(rng, quote, got, 1)))
		if got >= 1 && got >= out[1]["amt2"].(int64) {
			rin2, rout2 = rin2+xb, rout2-got
		}
	}
	back := e.inPrice(ya, rout2, rin2)
	out = append(out, mk(a, outD, ya, inD, pick(rng, back, 1)))
	return out
}

func csRandom(fl *drv.Flags, rng *rand.Rand, w *chain.TraceWriter) {
	e := newEnv(fl)
	e.skew = rng.Intn(3) == 0
	e.start(w)
	lim := fl.CfgInt("lim", 64)
	for b := 0; b < fl.Len; b++ {
		ps := e.poolViews()
		var pending []chain.M
		n := rng.Intn(4)
		for _, p := range ps {
			// values at most double per event: <= 16 -> <= 128 after three events,
			// <= 32 after two, <= 64 after one; every clause product then fits 32 bits
			m := p.S
			if p.T > m {
				m = p.T
			}
			if p.L > m {
				m = p.L
			}
			if m > 32 && n > 1 {
				n = 1
			} else if m > 16 && n > 2 {
				n = 2
			}
		}
		for j := 0; j < n; j++ {
			pending = append(pending, e.randomEvent(rng, ps))
		}
		if sw := e.sandwich(rng, ps); sw != nil && rng.Intn(8) == 0 {
			pending = sw
		}
		e.runBlock(pending, int64(1+rng.Intn(2)), w)
		for _, p := range e.poolViews() {
			if p.S > lim || p.T > lim || p.L > lim {
				return
			}
		}
	}
	e.epilogue(w)
}
