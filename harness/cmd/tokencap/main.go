// Command harness-tokencap (C09, big-number tier): drives the real token module
// through the real ABCI path with maximum supplies up to MaxUint64 main units,
// scales up to 18 and amounts up to MaxUint64*10^18 min units — values TLC's
// 32-bit integers cannot hold — and writes one row per delivered message: the
// token's maximum, the circulating amount (bank supply of the min unit), the
// burned tally and the sender's balance before and after.  bin/check turns the
// rows into a TLA+ module whose invariant — the CapClauses.tla operators that
// Token.tla's C09_Cap / C09_Burned are made of — is evaluated by Apalache/Z3 on
// unbounded integers.
//
//	harness-tokencap rows -seed S -n N -len L -out rows.json
//
// Every history cycles deterministically through the boundary maxima (so all of
// them occur whatever the seed) and starts every token with the scripted
// boundary walk "mint exactly to the cap, one more, burn a fraction, edit the
// maximum down to what circulates / one below"; the seeded part follows.
package main

import (
	"encoding/json"
	"fmt"
	"math/big"
	"math/rand"
	"os"
	"strconv"
	"time"

	sdkmath "cosmossdk.io/math"
	sdk "github.com/cosmos/cosmos-sdk/types"

	"verif/harness/chain"
	"verif/harness/drv"

	tokentypes "mods.irisnet.org/modules/token/types"
	v1 "mods.irisnet.org/modules/token/types/v1"
	"mods.irisnet.org/simapp"
)

func main() { drv.Main("tokencap", driver) }

type row struct {
	Op       string `json:"op"` // Issue, Mint, Burn, Edit, Transfer
	Ok       bool   `json:"ok"`
	IsOwner  bool   `json:"isOwner"`  // the sender owned the token before the message
	Mintable bool   `json:"mintable"` // before the message
	Max      string `json:"max"`      // declared maximum (main units) before
	Max2     string `json:"max2"`
	NewMax   string `json:"newMax"` // Edit: the maximum asked for (0 = unchanged)
	W        string `json:"w"`      // 10^scale
	Circ     string `json:"circ"`   // bank supply of the min unit before
	Circ2    string `json:"circ2"`
	Amt      string `json:"amt"`
	Burned   string `json:"burned"`
	Burned2  string `json:"burned2"`
	Bal      string `json:"bal"` // sender's balance of the min unit before
	Bal2     string `json:"bal2"`
	Sym      string `json:"sym"`
	Who      string `json:"who"`
	Hist     int    `json:"hist"`
	Step     int    `json:"step"`
}

const maxU64 = ^uint64(0)

// boundary maxima (main units); 0 = "no maximum given" (mintable: MaxUint64)
var maxima = []uint64{0, maxU64, maxU64 - 1, 1 << 63, 1<<63 - 1, 1 << 32, tokentypes.MaximumInitSupply, 7}
var scales = []uint32{0, 1, 6, 18}
var initials = []uint64{0, 1, 1000, tokentypes.MaximumInitSupply, 5}

// MAGNITUDE STRATA.  The operands of the cap arithmetic — the maximum (main
// units, a uint64), w = 10^scale, the circulating amount, the minted / burned
// amount, the burned tally — are drawn together per token: the cap max*w is
// placed in each stratum < 2^31, [2^31,2^32), [2^32,2^53), [2^53,2^63),
// [2^63,2^64), [2^64,2^65), ~2^96 (max*w <= MaxUint64*10^18 < 2^124, so 2^128 is
// out of reach for this module) with busy low bits, including the mixed cells
// "max and w each fit a word, max*w does not" and caps just below / above 2^53,
// 2^64; the boundary walk then mints half the room twice (circ + amt crossing
// the boundary with both below it), burns nearly everything in two steps (tally
// + amt crossing it) and mints again.
type capSpec struct {
	max   uint64
	scale uint32
}

func specs(rng *rand.Rand) []capSpec {
	between := func(lo, hi uint, scale uint32) capSpec { // cap = max*10^scale in [2^lo, 2^hi)
		w := pow10(scale).BigInt()
		a := new(big.Int).Quo(new(big.Int).Lsh(big.NewInt(1), lo), w)
		a.Add(a, big.NewInt(1))
		b := new(big.Int).Quo(new(big.Int).Sub(new(big.Int).Lsh(big.NewInt(1), hi), big.NewInt(1)), w)
		if b.Cmp(a) <= 0 {
			return capSpec{a.Uint64(), scale}
		}
		v := new(big.Int).Rand(rng, new(big.Int).Sub(b, a))
		v.Add(v, a)
		v.SetBit(v, 0, 1)
		if v.Cmp(b) > 0 {
			v.Set(b)
		}
		return capSpec{v.Uint64(), scale}
	}
	// ordered so that the first 14 (the quick tier's 7 histories) hold every stratum
	// and every word-boundary cell; the remaining boundary maxima follow
	return []capSpec{
		{0, 0},              // no maximum given: MaxUint64
		{maxU64, 6},         // MaxUint64 * 10^6 ~ 2^84
		between(63, 64, 0),  // the maximum itself >= 2^63
		between(64, 65, 18), // max ~ 18..36, w = 10^18: each fits a word, the product does not
		{1 << 63, 0},        // exactly 2^63
		between(64, 65, 1),
		{18446744073709 - uint64(rng.Intn(3)), 6},  // max*10^6 just below 2^64
		{18446744073710 + uint64(rng.Intn(3)), 6},  // just above 2^64
		{1<<32 + 1 + uint64(rng.Intn(1000))*2, 10}, // max, w in [2^32,2^34): product ~2^65
		between(53, 63, 6),
		{1<<53 + 1 + uint64(rng.Intn(50))*2, 0}, // just above 2^53
		between(32, 53, 6),
		between(95, 97, 18),
		between(31, 32, 0),
		between(10, 31, 1),
		between(63, 64, 6),
		{maxU64 - 1, 18}, {1<<63 - 1, 1}, {1 << 32, 18}, {tokentypes.MaximumInitSupply, 6}, {7, 0}, {maxU64, 0},
	}
}

func pow10(k uint32) sdkmath.Int { return sdkmath.NewIntWithDecimal(1, int(k)) }

type tokInfo struct {
	sym, mu string
	scale   uint32
}

type env struct {
	c     *chain.Chain
	rows  []row
	h     int
	step  int
	users []string
	specs []capSpec
}

func (e *env) state(ctx sdk.Context, t tokInfo, who string) (max uint64, mintable bool, owner string, circ, burned, bal sdkmath.Int, exists bool) {
	circ, burned, bal = e.c.Supply(ctx, t.mu), sdkmath.ZeroInt(), sdkmath.ZeroInt()
	if b, err := e.c.K.Token.GetBurnCoin(ctx, t.mu); err == nil {
		burned = b.Amount
	}
	if a, ok := e.c.Accts[who]; ok {
		bal = e.c.Bal(ctx, a.Addr, t.mu)
	}
	for _, ti := range e.c.K.Token.GetTokens(ctx, nil) {
		if ti.GetSymbol() == t.sym {
			return ti.GetMaxSupply(), ti.GetMintable(), ti.GetOwner().String(), circ, burned, bal, true
		}
	}
	return 0, false, "", circ, burned, bal, false
}

// exec delivers one message in its own block and records the row.
func (e *env) exec(op string, t tokInfo, who string, msg sdk.Msg, amt sdkmath.Int, newMax uint64) bool {
	e.step++
	ctx := e.c.Ctx()
	max, mintable, owner, circ, burned, bal, _ := e.state(ctx, t, who)
	res := e.c.RunBlock(5*time.Second, []chain.Tx{{Signer: who, Msgs: []sdk.Msg{msg}}})
	if res.Halt {
		panic("tokencap: block halted: " + res.HaltMsg)
	}
	ok := res.Txs[0].OK
	ctx = e.c.Ctx()
	max2, _, _, circ2, burned2, bal2, _ := e.state(ctx, t, who)
	if op == "Issue" { // a new token: no maximum before
		max = max2
	}
	e.rows = append(e.rows, row{Op: op, Ok: ok, IsOwner: owner == e.c.Accts[who].Addr.String(), Mintable: mintable,
		Max: strconv.FormatUint(max, 10), Max2: strconv.FormatUint(max2, 10), NewMax: strconv.FormatUint(newMax, 10),
		W: pow10(t.scale).String(), Circ: circ.String(), Circ2: circ2.String(), Amt: amt.String(),
		Burned: burned.String(), Burned2: burned2.String(), Bal: bal.String(), Bal2: bal2.String(),
		Sym: t.sym, Who: who, Hist: e.h, Step: e.step})
	return ok
}

func (e *env) addr(u string) string { return e.c.Accts[u].Addr.String() }

func (e *env) mint(t tokInfo, who string, amt sdkmath.Int, to string) bool {
	if !amt.IsPositive() {
		return false
	}
	recv := ""
	if to != "" {
		recv = e.addr(to)
	}
	return e.exec("Mint", t, who, &v1.MsgMintToken{Coin: sdk.NewCoin(t.mu, amt), Receiver: recv, Owner: e.addr(who)}, amt, 0)
}

func (e *env) burn(t tokInfo, who string, amt sdkmath.Int) bool {
	if !amt.IsPositive() {
		return false
	}
	return e.exec("Burn", t, who, &v1.MsgBurnToken{Coin: sdk.NewCoin(t.mu, amt), Sender: e.addr(who)}, amt, 0)
}

func (e *env) edit(t tokInfo, who string, newMax uint64, mintable string) bool {
	return e.exec("Edit", t, who, &v1.MsgEditToken{Symbol: t.sym, Name: v1.DoNotModify, MaxSupply: newMax,
		Mintable: tokentypes.Bool(mintable), Owner: e.addr(who)}, sdkmath.ZeroInt(), newMax)
}

// room = max*10^scale - circ (may be negative)
func (e *env) room(t tokInfo) (room, circ sdkmath.Int, max uint64, owner string) {
	ctx := e.c.Ctx()
	max, _, ownerBech, circ, _, _, _ := e.state(ctx, t, "")
	for _, u := range e.users {
		if e.addr(u) == ownerBech {
			owner = u
		}
	}
	return sdkmath.NewIntFromUint64(max).Mul(pow10(t.scale)).Sub(circ), circ, max, owner
}

// ceilMain / floorMain: circulating amount in main units
func ceilMain(circ sdkmath.Int, scale uint32) (uint64, bool) {
	w := pow10(scale)
	q := circ.Add(w.SubRaw(1)).Quo(w)
	if !q.IsUint64() { // only when the cap is already broken
		return maxU64, false
	}
	return q.Uint64(), true
}

func other(u string) string {
	if u == "u1" {
		return "u2"
	}
	return "u1"
}

// boundary walk of one token: exactly to the cap, one more, fractional burn,
// the maximum lowered to what circulates / below it, raised again
func (e *env) walk(t tokInfo) {
	room, _, _, owner := e.room(t)
	if owner == "" {
		return
	}
	if room.IsPositive() {
		half := room.QuoRaw(2)
		e.mint(t, owner, half, other(owner)) // half the room, to somebody else
		room, _, _, _ = e.room(t)
		e.mint(t, owner, room.AddRaw(1), "") // one more than fits
		e.mint(t, owner, room, "")           // exactly to the cap
	}
	e.mint(t, owner, sdkmath.OneInt(), "") // at the cap: one more
	// fractional burns by both holders
	w := pow10(t.scale)
	e.burn(t, owner, w.QuoRaw(2).AddRaw(1))
	e.burn(t, other(owner), sdkmath.NewInt(3))
	_, circ, max, _ := e.room(t)
	if c, ok := ceilMain(circ, t.scale); ok {
		if c > 1 {
			e.edit(t, owner, c-1, "") // below what circulates
		}
		e.edit(t, owner, c, "") // exactly what circulates (rounded up to main units)
		fl := circ.Quo(w)
		if fl.IsUint64() && fl.Uint64() != c && fl.Uint64() > 0 {
			e.edit(t, owner, fl.Uint64(), "") // floor: below the fractional part (F5)
		}
		room, _, _, _ := e.room(t)
		e.mint(t, owner, room.AddRaw(1), "")
		if room.IsPositive() {
			e.mint(t, owner, room, "")
		}
	}
	e.edit(t, owner, max, "") // back to the old maximum
	e.edit(t, owner, 0, "true")
	// nearly everything burned in two steps (tally + amount crossing the stratum's
	// boundary with both below it), then minted again in two halves
	for _, u := range []string{owner, other(owner)} {
		if bal := e.c.Bal(e.c.Ctx(), e.c.Accts[u].Addr, t.mu); bal.GT(sdkmath.NewInt(11)) {
			e.burn(t, u, bal.SubRaw(7))
		}
	}
	room, _, _, _ = e.room(t)
	if room.GT(sdkmath.NewInt(3)) {
		e.mint(t, owner, room.QuoRaw(2).AddRaw(1), "")
		room, _, _, _ = e.room(t)
		e.mint(t, owner, room.AddRaw(1), other(owner))
		e.mint(t, owner, room, other(owner))
	}
}

func bigRand(rng *rand.Rand, max sdkmath.Int) sdkmath.Int {
	if !max.IsPositive() {
		return sdkmath.OneInt()
	}
	bits := 1 + rng.Intn(max.BigInt().BitLen())
	v := sdkmath.NewIntFromBigInt(new(big.Int).Rand(rng, new(big.Int).Lsh(big.NewInt(1), uint(bits))))
	if v.GT(max) {
		v = max
	}
	if !v.IsPositive() {
		v = sdkmath.OneInt()
	}
	return v
}

func history(rng *rand.Rand, h, steps int) []row {
	huge := "1000000000000000000000000"
	accts := map[string]string{"u1": huge + "stake", "u2": huge + "stake"}
	c := chain.New(chain.Options{Accounts: accts, MutateGenesis: func(c *chain.Chain, gs simapp.GenesisState) {
		cdc := c.App.AppCodec()
		var tg v1.GenesisState
		cdc.MustUnmarshalJSON(gs[tokentypes.ModuleName], &tg)
		tg.Params.IssueTokenBaseFee = sdk.NewInt64Coin("stake", 5)
		gs[tokentypes.ModuleName] = cdc.MustMarshalJSON(&tg)
	}})
	e := &env{c: c, h: h, users: []string{"u1", "u2"}, specs: specs(rng)}
	var toks []tokInfo
	for i, names := range [][2]string{{"aaa", "maa"}, {"bbb", "mbb"}} {
		sp := e.specs[(2*h+i)%len(e.specs)]
		k := 2*h + i
		max, scale := sp.max, sp.scale
		initial := initials[(k+h)%len(initials)]
		if max != 0 && initial > max {
			initial = max
		}
		mintable := true
		if max == 0 && k%3 == 2 { // no maximum + not mintable: the maximum is the initial supply
			mintable = false
		}
		t := tokInfo{sym: names[0], mu: names[1], scale: scale}
		owner := e.users[i]
		if e.exec("Issue", t, owner, &v1.MsgIssueToken{Symbol: t.sym, Name: "n", Scale: scale, MinUnit: t.mu,
			InitialSupply: initial, MaxSupply: max, Mintable: mintable, Owner: e.addr(owner)}, sdkmath.ZeroInt(), max) {
			toks = append(toks, t)
			if !mintable {
				e.edit(t, owner, 0, "true") // max stays = initial supply, now mintable
			}
			e.walk(t)
		}
	}
	for i := 0; i < steps && len(toks) > 0; i++ {
		t := toks[rng.Intn(len(toks))]
		room, circ, _, owner := e.room(t)
		if owner == "" {
			continue
		}
		who := owner
		if rng.Intn(5) == 0 {
			who = other(owner)
		}
		switch rng.Intn(10) {
		case 0, 1, 2, 3: // mint around the cap
			var amt sdkmath.Int
			switch rng.Intn(6) {
			case 0:
				amt = room
			case 1:
				amt = room.AddRaw(1)
			case 2:
				amt = room.SubRaw(1)
			case 3:
				amt = room.QuoRaw(2)
			case 4:
				amt = sdkmath.OneInt()
			default:
				amt = bigRand(rng, room)
			}
			if !amt.IsPositive() {
				amt = sdkmath.OneInt()
			}
			to := ""
			if rng.Intn(2) == 0 {
				to = other(who)
			}
			e.mint(t, who, amt, to)
		case 4, 5, 6: // burn, fractional amounts
			holder := e.users[rng.Intn(2)]
			bal := c.Bal(c.Ctx(), c.Accts[holder].Addr, t.mu)
			amt := bigRand(rng, bal)
			if rng.Intn(4) == 0 {
				amt = bal.AddRaw(1) // more than held
			}
			e.burn(t, holder, amt)
		case 7, 8: // edit the maximum around what circulates
			cm, ok := ceilMain(circ, t.scale)
			nm := uint64(0)
			switch rng.Intn(6) {
			case 0:
				nm = cm
			case 1:
				if cm > 0 {
					nm = cm - 1
				}
			case 2:
				nm = maxU64
			case 3:
				nm = 0
			case 4:
				if f := circ.Quo(pow10(t.scale)); f.IsUint64() {
					nm = f.Uint64()
				}
			default:
				nm = cm + uint64(rng.Intn(1000))
			}
			if !ok {
				nm = maxU64
			}
			e.edit(t, who, nm, []string{"", "", "true", "false"}[rng.Intn(4)])
		default: // hand the token over
			to := other(owner)
			e.exec("Transfer", t, who, &v1.MsgTransferTokenOwner{SrcOwner: e.addr(who), DstOwner: e.addr(to), Symbol: t.sym},
				sdkmath.ZeroInt(), 0)
		}
	}
	return e.rows
}

func driver(mode string, fl *drv.Flags) error {
	if mode != "rows" {
		return fmt.Errorf("unknown mode %q", mode)
	}
	rng := rand.New(rand.NewSource(fl.Seed))
	var rows []row
	for h := 0; h < fl.N; h++ {
		// the boundary maxima cycle with the history number shifted by the seed, so
		// every run of >= 4 histories sees all of them
		rows = append(rows, history(rng, h, fl.Len)...)
	}
	f, err := os.Create(fl.Out)
	if err != nil {
		return err
	}
	defer f.Close()
	return json.NewEncoder(f).Encode(rows)
}
