package main

import (
	"fmt"
	"math/big"
	"math/rand"
	"os"
	"sort"
	"strings"
	"time"

	sdkmath "cosmossdk.io/math"
	storetypes "cosmossdk.io/store/types"
	sdk "github.com/cosmos/cosmos-sdk/types"
	banktypes "github.com/cosmos/cosmos-sdk/x/bank/types"
	distrtypes "github.com/cosmos/cosmos-sdk/x/distribution/types"

	"verif/harness/chain"
	"verif/harness/drv"

	coinswaptypes "mods.irisnet.org/modules/coinswap/types"
	farmkeeper "mods.irisnet.org/modules/farm/keeper"
	farmtypes "mods.irisnet.org/modules/farm/types"
	"mods.irisnet.org/simapp"
)

func main() { drv.Main("farm", farmDriver) }

// Model <-> chain mapping for Farm.tla (DESIGN.md 4.2, unit scaling):
//
//	LP amounts:   model k  <->  k * U base units, U = 10^18 / prec
//	rps:          model integer = raw 18-decimal mantissa of RewardPerShare
//	accounts:     "u1".. users, "farm" module, "collector", "feepool"
//	denoms:       LP "lpt-1", fee "stake", rewards "rw1","rw2"
type farmEnv struct {
	c       *chain.Chain
	prec    int64
	unit    *big.Int
	users   []string
	rdenoms []string
	lp      string
	feeDen  string
	names   map[string]string // bech32 -> account name
	off     map[string]sdkmath.Int
	donated map[string]int64
	initLP  int64
	initR   int64
	fee     int64
	taxNum  int64
	taxDen  int64
	last    chain.M       // last projected state
	opts    chain.Options // how the application was built (reimport builds another one)
	// magnitude tier (DESIGN 4.2, exact scaling): every reward-denom amount on the
	// chain is rk times the model's, every LP amount lpk*10^18/prec times; rk is a
	// multiple of lpk, and the accumulator mantissa is rk/lpk times the model's.
	// Exact as long as every released amount is divisible by the pool's total
	// stake (the magnitude drivers keep reward rates multiples of lcm(1..max stake)).
	rk     *big.Int
	lpk    *big.Int
	rpsDiv *big.Int
	isR    map[string]bool
	mag    bool
	grain  int64 // model reward rates are multiples of this in magnitude histories
	// governance-funded pools (gov.go)
	wired     bool
	proposers []string
	initCP    int64
	minDep    int64
	thrNum    int64
	thrDen    int64
	govDP     int64
	govVP     int64
	cNum      int64
	cDen      int64
	burnPre   bool
	burnQ     bool
	burnV     bool
}

func newFarmEnv(fl *drv.Flags, wired bool) *farmEnv {
	e := &farmEnv{
		wired:     wired,
		proposers: []string{"g1", "g2"}[:fl.CfgInt("proposers", 1)],
		minDep:    fl.CfgInt("mindep", 4),
		thrNum:    fl.CfgInt("thrnum", 1),
		thrDen:    fl.CfgInt("thrden", 2),
		govDP:     fl.CfgInt("govdp", 2),
		govVP:     fl.CfgInt("govvp", 2),
		cNum:      fl.CfgInt("cnum", 1),
		cDen:      fl.CfgInt("cden", 2),
		burnPre:   fl.CfgInt("burnpre", 0) == 1,
		burnQ:     fl.CfgInt("burnq", 0) == 1,
		burnV:     fl.CfgInt("burnv", 1) == 1,
		prec:      fl.CfgInt("prec", 10),
		users:     []string{"u1", "u2", "u3"}[:fl.CfgInt("users", 2)],
		rdenoms:   []string{"rw1", "rw2"}[:fl.CfgInt("rdenoms", 1)],
		lp:        "lpt-1",
		feeDen:    "stake",
		names:     map[string]string{},
		off:       map[string]sdkmath.Int{},
		donated:   map[string]int64{},
		initLP:    fl.CfgInt("initlp", 3),
		initR:     fl.CfgInt("initr", 20),
		fee:       fl.CfgInt("fee", 5),
		taxNum:    fl.CfgInt("taxnum", 2),
		taxDen:    fl.CfgInt("taxden", 5),
	}
	e.initCP = fl.CfgInt("initcp", map[bool]int64{false: 0, true: 20}[wired])
	e.unit = new(big.Int).Quo(new(big.Int).Exp(big.NewInt(10), big.NewInt(18), nil), big.NewInt(e.prec))
	e.rk, e.lpk = bigCfg(fl, "rk"), bigCfg(fl, "lpk")
	var rem big.Int
	e.rpsDiv, _ = new(big.Int).QuoRem(e.rk, e.lpk, &rem)
	if rem.Sign() != 0 {
		panic("cfg: rk must be a multiple of lpk")
	}
	e.unit.Mul(e.unit, e.lpk)
	e.mag = fl.CfgInt("mag", 0) == 1 || e.rk.Cmp(big.NewInt(1)) != 0 || e.lpk.Cmp(big.NewInt(1)) != 0
	e.grain = lcmUpTo(int64(len(e.users)) * e.initLP)
	e.isR = map[string]bool{}
	for _, d := range e.rdenoms {
		e.isR[d] = true
	}
	scaledR := func(n int64) string { return new(big.Int).Mul(big.NewInt(n), e.rk).String() }
	// the LP source adds enough liquidity for every user's LP tokens (1e21 at least)
	lpNeed, _ := new(big.Int).SetString("1000000000000000000000", 10)
	if n := new(big.Int).Mul(e.unit, big.NewInt(4*int64(len(e.users))*e.initLP)); n.Cmp(lpNeed) > 0 {
		lpNeed = n
	}
	lpFund := new(big.Int).Mul(lpNeed, big.NewInt(2)).String()
	accts := map[string]string{"lpsrc": lpFund + "stake," + lpFund + "btc"}
	if e.initCP > 0 {
		s := ""
		for _, d := range e.rdenoms {
			s += fmt.Sprintf(",%s%s", scaledR(e.initCP), d)
		}
		accts["cpsrc"] = s[1:]
	}
	for _, u := range append(append([]string{}, e.users...), e.proposers...) {
		s := fmt.Sprintf("%d%s", e.initR, e.feeDen)
		for _, d := range e.rdenoms {
			s += fmt.Sprintf(",%s%s", scaledR(e.initR), d)
		}
		accts[u] = s
	}
	opts := chain.Options{}
	if wired {
		opts.ExtraConfig = farmGovWiring()
		opts.AfterBuild = farmEscrowAccount
	}
	opts.Accounts = accts
	opts.MutateGenesis = func(c *chain.Chain, gs simapp.GenesisState) {
		cdc := c.App.AppCodec()
		var fg farmtypes.GenesisState
		cdc.MustUnmarshalJSON(gs[farmtypes.ModuleName], &fg)
		fg.Params.PoolCreationFee = sdk.NewInt64Coin(e.feeDen, e.fee)
		fg.Params.TaxRate = sdkmath.LegacyNewDec(e.taxNum).QuoInt64(e.taxDen)
		fg.Params.MaxRewardCategories = 2
		gs[farmtypes.ModuleName] = cdc.MustMarshalJSON(&fg)
		e.govGenesis(c, gs)
	}
	e.opts = opts
	func() {
		// should /repo one day provide the hooks and the route itself, the extra
		// providers collide (depinject refuses a second provider): build without them
		defer func() {
			if r := recover(); r != nil && opts.ExtraConfig != nil {
				fmt.Fprintln(os.Stderr, "farm harness: building without the extra gov wiring:", r)
				opts.ExtraConfig = nil
				e.opts = opts
				e.c = chain.New(opts)
			} else if r != nil {
				panic(r)
			}
		}()
		e.c = chain.New(opts)
	}()
	c := e.c
	for _, n := range append(append([]string{"lpsrc"}, e.users...), e.proposers...) {
		e.names[c.Accts[n].Addr.String()] = n
	}
	// pools created by a passed proposal belong to the distribution module account
	e.names[chain.ModuleAddr(distrtypes.ModuleName).String()] = "feepool"
	// block 2: create the coinswap pool lpt-1 and hand LP tokens to the users
	big21 := sdkmath.NewIntFromBigInt(lpNeed)
	src := c.Accts["lpsrc"]
	txs := []chain.Tx{{Signer: "lpsrc", Msgs: []sdk.Msg{&coinswaptypes.MsgAddLiquidity{
		MaxToken: sdk.NewCoin("btc", big21), ExactStandardAmt: big21, MinLiquidity: sdkmath.OneInt(),
		Deadline: c.Time.Add(time.Hour).Unix(), Sender: src.Addr.String(),
	}}}}
	for _, u := range e.users {
		amt := sdkmath.NewIntFromBigInt(new(big.Int).Mul(big.NewInt(e.initLP), e.unit))
		txs = append(txs, chain.Tx{Signer: "lpsrc", Msgs: []sdk.Msg{
			banktypes.NewMsgSend(src.Addr, c.Accts[u].Addr, sdk.NewCoins(sdk.NewCoin(e.lp, amt)))}})
	}
	if e.initCP > 0 {
		txs = append(txs, e.fundCommunityPoolTx())
	}
	r := c.RunBlock(5*time.Second, txs)
	for i, t := range r.Txs {
		if !t.OK {
			panic(fmt.Sprintf("farm setup tx %d failed: %s", i, t.Log))
		}
	}
	// supply offsets: logged supply = real supply - offset = sum of tracked balances
	ctx := c.Ctx()
	for _, d := range e.denoms() {
		sum := sdkmath.ZeroInt()
		for _, a := range e.accounts() {
			sum = sum.Add(e.balOf(ctx, a, d))
		}
		for _, a := range e.gaccounts() {
			sum = sum.Add(e.gbalOf(ctx, a, d))
		}
		e.off[d] = c.Supply(ctx, d).Sub(sum)
	}
	c.Project = func(ctx sdk.Context) any { return e.project(ctx) }
	return e
}

func (e *farmEnv) denoms() []string { return append(append([]string{}, e.rdenoms...), e.lp, e.feeDen) }
func (e *farmEnv) accounts() []string {
	return append(append([]string{}, e.users...), "farm", "collector", "feepool")
}

func (e *farmEnv) balOf(ctx sdk.Context, a, d string) sdkmath.Int {
	switch a {
	case "farm":
		return e.c.Bal(ctx, chain.ModuleAddr(farmtypes.ModuleName), d)
	case "collector":
		return e.c.Bal(ctx, chain.ModuleAddr(farmtypes.RewardCollector), d)
	case "feepool":
		return e.c.FeePool(ctx, d)
	}
	return e.c.Bal(ctx, e.c.Accts[a].Addr, d)
}

func (e *farmEnv) nameOf(bech string) string {
	if n, ok := e.names[bech]; ok {
		return n
	}
	return bech
}

// project reads the abstract state of Farm.tla from the real stores.
func (e *farmEnv) project(ctx sdk.Context) any {
	c := e.c
	k := c.K.Farm
	inexact := 0
	sc := func(i sdkmath.Int) int64 {
		v, ok := chain.Scaled(i, e.unit)
		if !ok {
			inexact++
		}
		return v
	}
	sm := func(i sdkmath.Int) int64 {
		v, ok := chain.Small(i)
		if !ok {
			inexact++
		}
		return v
	}
	// reward-denom amounts in model units (divided by rk), the accumulator by rk/lpk
	rw := func(i sdkmath.Int) int64 { return e.div(i, e.rk, &inexact) }
	rpsOf := func(i sdkmath.Int) int64 { return e.div(i, e.rpsDiv, &inexact) }
	pools := chain.M{}
	fi := chain.M{}
	var poolList []farmtypes.FarmPool
	k.IteratorAllPools(ctx, func(p farmtypes.FarmPool) { poolList = append(poolList, p) })
	for _, p := range poolList {
		rules := chain.M{}
		rs := k.GetRewardRules(ctx, p.Id)
		for _, r := range rs {
			rules[r.Reward] = chain.M{
				"totalR": rw(r.TotalReward), "remaining": rw(r.RemainingReward),
				"rpb": rw(r.RewardPerBlock), "rps": rpsOf(sdkmath.NewIntFromBigInt(r.RewardPerShare.BigInt())),
			}
		}
		pools[p.Id] = chain.M{
			"creator": e.nameOf(p.Creator), "start": p.StartHeight, "end": p.EndHeight,
			"lastH": p.LastHeightDistrRewards, "total": sc(p.TotalLptLocked.Amount),
			"editable": p.Editable, "rules": rules,
		}
		infos := chain.M{}
		for _, u := range e.users {
			info, ok := k.GetFarmInfo(ctx, p.Id, c.Accts[u].Addr.String())
			if !ok {
				continue
			}
			debt := chain.M{}
			for _, r := range rs {
				debt[r.Reward] = rw(info.RewardDebt.AmountOf(r.Reward))
			}
			infos[u] = chain.M{"locked": sc(info.Locked), "debt": debt}
		}
		fi[p.Id] = infos
	}
	// active-pool queue, raw
	var queue []any
	store := ctx.KVStore(c.App.UnsafeFindStoreKey(farmtypes.StoreKey))
	it := storetypes.KVStorePrefixIterator(store, farmtypes.ActiveFarmPoolKey)
	for ; it.Valid(); it.Next() {
		key := it.Key()[len(farmtypes.ActiveFarmPoolKey):]
		h := int64(sdk.BigEndianToUint64(key[:8]))
		queue = append(queue, []any{h, string(key[8:])})
	}
	it.Close()
	if queue == nil {
		queue = []any{}
	}
	bal := chain.M{}
	for _, a := range e.accounts() {
		row := chain.M{}
		for _, d := range e.denoms() {
			switch {
			case d == e.lp:
				row[d] = sc(e.balOf(ctx, a, d))
			case e.isR[d]:
				row[d] = rw(e.balOf(ctx, a, d))
			default:
				row[d] = sm(e.balOf(ctx, a, d))
			}
		}
		bal[a] = row
	}
	supply := chain.M{}
	for _, d := range e.denoms() {
		v := c.Supply(ctx, d).Sub(e.off[d])
		switch {
		case d == e.lp:
			supply[d] = sc(v)
		case e.isR[d]:
			supply[d] = rw(v)
		default:
			supply[d] = sm(v)
		}
	}
	params := k.GetParams(ctx)
	don := chain.M{}
	for d, v := range e.donated {
		don[d] = v
	}
	_ = params
	h := ctx.BlockHeight()
	if !ctx.IsZero() && ctx.BlockHeight() == c.Height {
		// committed state: the next transaction executes in the next block
		h = c.Height + 1
	}
	inv, broken := "", false
	func() {
		defer func() { recover() }()
		inv, broken = farmInvariant(k, ctx)
	}()
	_ = inv
	gov := chain.M{}
	e.projectGov(ctx, gov, &inexact)
	out := chain.M{
		"h": h, "prec": e.prec, "seq": int64(k.GetSequence(ctx)),
		"params": chain.M{"fee": sm(params.PoolCreationFee.Amount), "taxNum": e.taxNum, "taxDen": e.taxDen,
			"maxCat": int64(params.MaxRewardCategories)},
		"pools": pools, "fi": fi, "queue": queue, "bal": bal, "supply": supply, "donated": don,
		"inexact": int64(inexact), "invBroken": broken,
	}
	for k, v := range gov {
		out[k] = v
	}
	return out
}

func (e *farmEnv) withDonated(st any) any {
	m := chain.CopyM(st.(chain.M))
	don := chain.M{}
	for d, v := range e.donated {
		don[d] = v
	}
	m["donated"] = don
	return m
}

func (e *farmEnv) coins(m map[string]int64) sdk.Coins {
	var cs sdk.Coins
	for _, d := range chain.SortedKeys(m) {
		amt := sdkmath.NewInt(m[d])
		if e.isR[d] {
			amt = sdkmath.NewIntFromBigInt(new(big.Int).Mul(big.NewInt(m[d]), e.rk))
		}
		cs = append(cs, sdk.Coin{Denom: d, Amount: amt})
	}
	return cs
}

func (e *farmEnv) lpCoin(k int64) sdk.Coin {
	return sdk.Coin{Denom: e.lp, Amount: sdkmath.NewIntFromBigInt(new(big.Int).Mul(big.NewInt(k), e.unit))}
}

// msgOf maps an abstract event to a real message; nil for non-message events.
func (e *farmEnv) msgOf(ev chain.M) sdk.Msg {
	c := e.c
	who := signerOf(chain.Str(ev, "who"))
	var addr string
	if a, ok := c.Accts[who]; ok {
		addr = a.Addr.String()
	}
	switch chain.Str(ev, "name") {
	case "CreatePool":
		return &farmtypes.MsgCreatePool{
			Description: "p", LptDenom: chain.Str(ev, "lpt"), StartHeight: chain.Num(ev, "start"),
			RewardPerBlock: e.coins(chain.Obj(ev, "rpb")), TotalReward: e.coins(chain.Obj(ev, "total")),
			Editable: chain.Bool(ev, "editable"), Creator: addr,
		}
	case "DestroyPool":
		return &farmtypes.MsgDestroyPool{PoolId: chain.Str(ev, "pool"), Creator: addr}
	case "AdjustPool":
		return &farmtypes.MsgAdjustPool{PoolId: chain.Str(ev, "pool"),
			AdditionalReward: e.coins(chain.Obj(ev, "total")), RewardPerBlock: e.coins(chain.Obj(ev, "rpb")), Creator: addr}
	case "Stake":
		return &farmtypes.MsgStake{PoolId: chain.Str(ev, "pool"), Amount: e.lpCoin(chain.Num(ev, "amt")), Sender: addr}
	case "Unstake":
		return &farmtypes.MsgUnstake{PoolId: chain.Str(ev, "pool"), Amount: e.lpCoin(chain.Num(ev, "amt")), Sender: addr}
	case "Harvest":
		return &farmtypes.MsgHarvest{PoolId: chain.Str(ev, "pool"), Sender: addr}
	case "Donate":
		d := chain.Str(ev, "lpt")
		coin := sdk.NewInt64Coin(d, chain.Num(ev, "amt"))
		if d == e.lp {
			coin = e.lpCoin(chain.Num(ev, "amt"))
		} else if e.isR[d] {
			coin = e.coins(map[string]int64{d: chain.Num(ev, "amt")})[0]
		}
		return banktypes.NewMsgSend(c.Accts[who].Addr, chain.ModuleAddr(farmtypes.ModuleName), sdk.NewCoins(coin))
	}
	return e.govMsgOf(ev, addr)
}

func farmEvent(name, who, pool string, amt int64) chain.M {
	return chain.M{"name": name, "who": who, "pool": pool, "amt": amt, "lpt": "", "total": chain.M{}, "rpb": chain.M{},
		"start": int64(0), "editable": false, "ok": true, "panic": false, "halt": false, "reward": chain.M{},
		"bond": chain.M{}}
}

// signerOf: the model's voter "val" is the delegator of the only validator,
// the chain's probe account.
func signerOf(who string) string {
	if who == "val" {
		return chain.ProbeName
	}
	return who
}

// normalise an abstract event read from JSON into the fixed record shape
func (e *farmEnv) norm(ev chain.M) chain.M {
	o := farmEvent(chain.Str(ev, "name"), chain.Str(ev, "who"), chain.Str(ev, "pool"), chain.Num(ev, "amt"))
	o["lpt"] = chain.Str(ev, "lpt")
	tot, rpb, bond := chain.M{}, chain.M{}, chain.M{}
	for k, v := range chain.Obj(ev, "total") {
		tot[k] = v
	}
	for k, v := range chain.Obj(ev, "rpb") {
		rpb[k] = v
	}
	for k, v := range chain.Obj(ev, "bond") {
		bond[k] = v
	}
	o["total"], o["rpb"], o["bond"] = tot, rpb, bond
	o["start"] = chain.Num(ev, "start")
	o["editable"] = chain.Bool(ev, "editable")
	return o
}

func (e *farmEnv) rewardOf(r chain.TxResult, name string) chain.M {
	out := chain.M{}
	if !r.OK || len(r.MsgResps) == 0 {
		return out
	}
	var cs sdk.Coins
	switch name {
	case "Stake":
		var resp farmtypes.MsgStakeResponse
		if err := resp.Unmarshal(r.MsgResps[0].Value); err == nil {
			cs = resp.Reward
		}
	case "Unstake":
		var resp farmtypes.MsgUnstakeResponse
		if err := resp.Unmarshal(r.MsgResps[0].Value); err == nil {
			cs = resp.Reward
		}
	case "Harvest":
		var resp farmtypes.MsgHarvestResponse
		if err := resp.Unmarshal(r.MsgResps[0].Value); err == nil {
			cs = resp.Reward
		}
	}
	bad := 0
	for _, c := range cs {
		out[c.Denom] = e.denomAmt(c.Denom, c.Amount, &bad)
	}
	return out
}

// div: i / unit as a model integer; counts what is not exactly divisible or out
// of the model's range (the scale guard C05_ScaleExact reads the count).
func (e *farmEnv) div(i sdkmath.Int, unit *big.Int, bad *int) int64 {
	q, r := new(big.Int).QuoRem(i.BigInt(), unit, new(big.Int))
	if r.Sign() != 0 {
		*bad++
	}
	lim := big.NewInt(1<<31 - 1)
	if q.CmpAbs(lim) > 0 {
		*bad++
		if q.Sign() < 0 {
			return -(1<<31 - 1)
		}
		return 1<<31 - 1
	}
	return q.Int64()
}

// denomAmt: an amount of a denom in model units.
func (e *farmEnv) denomAmt(d string, a sdkmath.Int, bad *int) int64 {
	switch {
	case d == e.lp:
		return e.div(a, e.unit, bad)
	case e.isR[d]:
		return e.div(a, e.rk, bad)
	}
	return e.div(a, big.NewInt(1), bad)
}

func bigCfg(fl *drv.Flags, k string) *big.Int {
	v, ok := new(big.Int).SetString(fl.CfgStr(k, "1"), 10)
	if !ok || v.Sign() <= 0 {
		panic("cfg: bad " + k)
	}
	return v
}

// magStrata: factors (reward rk, LP lpk; lpk divides rk) chosen so that with
// model rates of 60..180 per block, budgets of some thousands and balances of
// 20000 the real per-block rewards, budgets, balances, LP stakes (k*10^17*lpk)
// and the products rate x span fall into every stratum of the magnitude brief;
// all factors have non-zero low bits.
var magStrata = []struct{ name, rk, lpk string }{
	{"rpb in [2^31,2^32)", "46530001", "1"},
	{"rpb in [2^32,2^53), budgets cross 2^53", "75059993789509", "1"},
	{"rpb in [2^53,2^63), budgets in [2^63,2^64), top-ups and balances cross 2^64", "7205759403792797", "1"},
	{"rpb ~ 10^18 < 2^64, rpb x span >= 2^64 for spans >= 7..19", "16666666666666667", "1"},
	{"rpb in [2^63,2^64) (and 2^64.. for higher rates), rpb x 2 >= 2^64", "169093200598693763", "1"},
	{"rpb in [2^64,2^65), LP stakes in [2^64,2^65)", "399680655960798127", "257"},
	{"rpb ~ 2^96, LP stakes ~ 2^96", "1320469375238333597427208381", "792281625143"},
	{"rpb in [2^127,2^129), LP stakes ~ 2^128, balances beyond 2^128", "5671372782015648997643561488564147477", "3402823669209384634633"},
	{"rpb in [2^32,2^53) with LP stakes in [2^63,2^64)", "1099511640059", "97"},
}

func cfgString(m map[string]string) string {
	var kv []string
	for _, k := range chain.SortedKeys(m) {
		if k != "strata" {
			kv = append(kv, k+"="+m[k])
		}
	}
	return strings.Join(kv, ",")
}

func lcmUpTo(n int64) int64 {
	l := int64(1)
	for i := int64(2); i <= n; i++ {
		a, b := l, i
		for b != 0 {
			a, b = b, a%b
		}
		l = l / a * i
	}
	return l
}

// runBlock executes the pending message events as one block and writes one
// trace line per event plus the EndBlock line.
func (e *farmEnv) runBlock(pending []chain.M, w *chain.TraceWriter) bool {
	var txs []chain.Tx
	for _, ev := range pending {
		who := signerOf(chain.Str(ev, "who"))
		if _, ok := e.c.Accts[who]; !ok {
			who = e.users[0]
		}
		txs = append(txs, chain.Tx{Signer: who, Msgs: []sdk.Msg{e.msgOf(ev)}})
	}
	// donations are environment actions; account for them when they succeed
	res := e.c.RunBlock(5*time.Second, txs)
	if res.Halt {
		ev := farmEvent("EndBlock", "", "", 0)
		ev["halt"] = true
		ev["ok"] = false
		w.Write(ev, e.last)
		return false
	}
	for i, ev := range pending {
		r := res.Txs[i]
		if r.Aborted {
			// member of a multi-message transaction that failed as a whole (chain.BundlePct):
			// whatever it did was rolled back; the specification knows no such event and
			// treats it as a rejection without effect
			ev["name"] = "TxFailed"
		}
		ev["ok"] = r.OK
		ev["panic"] = r.Panic
		name := chain.Str(ev, "name")
		if !r.OK && os.Getenv("VERIF_DEBUG") != "" {
			fmt.Fprintf(os.Stderr, "rejected %s: %s\n", name, r.Log)
		}
		ev["reward"] = e.rewardOf(r, name)
		st := r.State
		if st == nil {
			st = res.BeginState
		}
		if name == "Donate" && r.OK {
			e.donated[chain.Str(ev, "lpt")] += chain.Num(ev, "amt")
		}
		// donations are environment actions known to the driver, not to the store:
		// every logged state carries the driver's running tally
		st = e.withDonated(st)
		w.Write(ev, st)
		e.last = st.(chain.M)
	}
	end := farmEvent("EndBlock", "", "", 0)
	endSt := e.withDonated(res.EndState)
	w.Write(end, endSt)
	e.last = endSt.(chain.M)
	return true
}

// run executes one abstract behaviour on a fresh chain.
func farmRun(fl *drv.Flags, beh []chain.M, w *chain.TraceWriter, epilogue bool) {
	// a behaviour with governance events runs on the completed wiring unless
	// the configuration says otherwise (gov=0: the application as /repo builds it)
	hasGov := false
	for _, raw := range beh {
		hasGov = hasGov || isGovEvent(chain.Str(raw, "name"))
	}
	e := newFarmEnv(fl, fl.CfgInt("gov", map[bool]int64{false: 0, true: 1}[hasGov]) == 1)
	init := farmEvent("Init", "", "", 0)
	e.last = e.project(e.c.Ctx()).(chain.M)
	w.Write(init, e.last)
	var pending []chain.M
	alive := true
	for _, raw := range beh {
		ev := e.norm(raw)
		if chain.Str(ev, "name") == "EndBlock" {
			alive = e.runBlock(pending, w)
			pending = nil
			if !alive {
				return
			}
			continue
		}
		if chain.Str(ev, "name") == "Reimport" {
			// between blocks: messages collected so far go into a block of their own
			if len(pending) > 0 {
				if !e.runBlock(pending, w) {
					return
				}
				pending = nil
			}
			if !e.reimport(w) {
				return
			}
			continue
		}
		if e.msgOf(ev) == nil {
			continue
		}
		pending = append(pending, ev)
	}
	if len(pending) > 0 {
		if !e.runBlock(pending, w) {
			return
		}
	}
	if epilogue {
		e.epilogue(w)
	}
}

// epilogue: every farmer withdraws everything (C05_Epilogue) — first half of
// the stake now, the rest one block later.
func (e *farmEnv) epilogue(w *chain.TraceWriter) {
	for round := 0; round < 2; round++ {
		var pending []chain.M
		fi := e.last["fi"].(chain.M)
		for _, p := range chain.SortedKeys(fi) {
			infos := fi[p].(chain.M)
			for _, u := range chain.SortedKeys(infos) {
				locked := infos[u].(chain.M)["locked"].(int64)
				amt := locked
				if round == 0 && locked > 1 {
					amt = locked / 2
				}
				if amt > 0 {
					pending = append(pending, farmEvent("Unstake", u, p, amt))
				}
			}
		}
		if len(pending) == 0 {
			return
		}
		if !e.runBlock(pending, w) {
			return
		}
	}
}

func farmDriver(mode string, fl *drv.Flags) error {
	w := chain.NewTraceWriter(fl.Out)
	defer w.Close()
	switch mode {
	case "replay":
		for _, beh := range chain.ReadBehaviours(fl.In) {
			farmRun(fl, beh, w, fl.CfgInt("epilogue", 1) == 1)
		}
	case "random":
		rng := rand.New(rand.NewSource(fl.Seed))
		for i := 0; i < fl.N; i++ {
			if fl.CfgInt("strata", 0) == 1 {
				// magnitude tier: every history runs at the next stratum's factors; the
				// Init line carries them, so a replay cut from the trace uses the same
				st := magStrata[(int(fl.Seed%1000)+i)%len(magStrata)]
				fl.Cfg["rk"], fl.Cfg["lpk"] = st.rk, st.lpk
				chain.DriverCfg = cfgString(fl.Cfg)
			}
			farmRandom(fl, rng, w)
		}
	default:
		return fmt.Errorf("unknown mode %q", mode)
	}
	return nil
}

// farmRandom runs one random history: events are generated block by block
// from the last observed state, so most are enabled, some deliberately not.
func farmRandom(fl *drv.Flags, rng *rand.Rand, w *chain.TraceWriter) {
	e := newFarmEnv(fl, fl.CfgInt("gov", 0) == 1)
	e.last = e.project(e.c.Ctx()).(chain.M)
	w.Write(farmEvent("Init", "", "", 0), e.last)
	maxPools := int(fl.CfgInt("maxpools", 2))
	reimports := fl.CfgInt("reimport", 0) == 1
	blocks := fl.Len
	for b := 0; b < blocks; b++ {
		var pending []chain.M
		n := rng.Intn(4)
		pools := e.last["pools"].(chain.M)
		ids := chain.SortedKeys(pools)
		h := e.last["h"].(int64)
		// most operations go to pools that are still running (expired pools
		// stay in the store for ever and would soak up the whole history)
		var running []string
		for _, p := range ids {
			if pools[p].(chain.M)["end"].(int64) >= h {
				running = append(running, p)
			}
		}
		pick := func() string {
			if len(running) > 0 && rng.Intn(5) > 0 {
				return running[rng.Intn(len(running))]
			}
			return ids[rng.Intn(len(ids))]
		}
		if e.mag {
			// magnitude histories are short: keep them busy - more messages per block,
			// and every running pool gets a farmer as soon as it has started
			n = 2 + rng.Intn(3)
			for _, p := range running {
				pl := pools[p].(chain.M)
				if pl["total"].(int64) == 0 && pl["start"].(int64) <= h && rng.Intn(3) > 0 {
					pending = append(pending, farmEvent("Stake", e.users[rng.Intn(len(e.users))], p, int64(1+rng.Intn(2))))
				}
			}
		}
		for j := 0; j < n; j++ {
			u := e.users[rng.Intn(len(e.users))]
			if e.wired && rng.Intn(20) < 7 {
				if ev := e.randomGov(rng, int(fl.CfgInt("maxprops", 4))); ev != nil {
					pending = append(pending, ev)
					continue
				}
			}
			switch x := rng.Intn(20); {
			case x == 19 && rng.Intn(3) == 0:
				// environment action: a plain bank send to the farm module account
				ev := farmEvent("Donate", u, "", int64(1+rng.Intn(2)))
				ev["lpt"] = append(append([]string{}, e.rdenoms...), e.lp)[rng.Intn(len(e.rdenoms)+1)]
				pending = append(pending, ev)
			case x < 3 && len(running) < maxPools && len(ids) < maxPools+4:
				ev := farmEvent("CreatePool", u, "", 0)
				tot, rpb := chain.M{}, chain.M{}
				k := 1 + rng.Intn(len(e.rdenoms))
				perm := rng.Perm(len(e.rdenoms))[:k]
				sort.Ints(perm)
				for _, di := range perm {
					r := int64(1 + rng.Intn(4))
					spans := int64(1 + rng.Intn(5))
					if e.mag {
						// rates in multiples of lcm(1..max stake): every released amount divides
						// by the staked total (exact scaling); budgets for long quiet spans
						r = e.grain * int64(1+rng.Intn(3))
						spans = int64(5 + rng.Intn(35))
					}
					rpb[e.rdenoms[di]] = r
					tot[e.rdenoms[di]] = r*spans + int64(rng.Intn(int(r)))
				}
				ev["total"], ev["rpb"] = tot, rpb
				ev["lpt"] = e.lp
				ev["start"] = h + int64(rng.Intn(3))
				if e.mag {
					ev["start"] = h + int64(rng.Intn(2))
				}
				ev["editable"] = rng.Intn(4) != 0
				pending = append(pending, ev)
			case len(ids) == 0:
				continue
			case x < 9:
				pending = append(pending, farmEvent("Stake", u, pick(), int64(1+rng.Intn(3))))
			case x < 13:
				p := pick()
				amt := int64(1 + rng.Intn(3))
				if infos, ok := e.last["fi"].(chain.M)[p].(chain.M); ok {
					if in, ok := infos[u].(chain.M); ok && rng.Intn(3) > 0 {
						amt = 1 + rng.Int63n(in["locked"].(int64))
					}
				}
				pending = append(pending, farmEvent("Unstake", u, p, amt))
			case x < 16:
				pending = append(pending, farmEvent("Harvest", u, pick(), 0))
			case x < 19:
				p := pick()
				who := u
				if cr := pools[p].(chain.M)["creator"].(string); rng.Intn(4) > 0 && cr != "feepool" {
					who = cr
				}
				ev := farmEvent("AdjustPool", who, p, 0)
				rules := pools[p].(chain.M)["rules"].(chain.M)
				tot, rpb := chain.M{}, chain.M{}
				for _, d := range chain.SortedKeys(rules) {
					if rng.Intn(2) == 0 {
						tot[d] = int64(1 + rng.Intn(6))
						if e.mag {
							tot[d] = int64(1 + rng.Intn(300))
							if rng.Intn(3) == 0 { // large top-ups: remaining + top-up crosses a word boundary
								tot[d] = int64(500 + rng.Intn(2500))
							}
						}
					}
					if rng.Intn(2) == 0 {
						rpb[d] = int64(1 + rng.Intn(4))
						if e.mag {
							rpb[d] = e.grain * int64(1+rng.Intn(3))
						}
					}
				}
				ev["total"], ev["rpb"] = tot, rpb
				pending = append(pending, ev)
			default:
				p := pick()
				who := u
				if cr := pools[p].(chain.M)["creator"].(string); rng.Intn(3) > 0 && cr != "feepool" {
					who = cr
				}
				pending = append(pending, farmEvent("DestroyPool", who, p, 0))
			}
		}
		if !e.runBlock(pending, w) {
			return
		}
		if reimports && rng.Intn(12) == 0 {
			if !e.reimport(w) {
				return
			}
		}
		if e.mag && rng.Intn(4) == 0 {
			// a quiet stretch: nobody touches any pool for 19..30 blocks, so the next
			// update multiplies the per-block reward by a long span
			for q := 19 + rng.Intn(12); q > 0; q-- {
				if !e.runBlock(nil, w) {
					return
				}
			}
		}
	}
	e.epilogue(w)
}

func farmInvariant(k farmkeeper.Keeper, ctx sdk.Context) (string, bool) {
	return farmkeeper.RewardInvariant(k)(ctx)
}
