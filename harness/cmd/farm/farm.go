package main

import (
	"fmt"
	"math"
	"math/big"
	"math/rand"
	"os"
	"sort"
	"strings"
	"time"

	sdkmath "cosmossdk.io/math"
	storetypes "cosmossdk.io/store/types"
	sdk "github.com/cosmos/cosmos-sdk/types"
	banktypes "github.com/cosmos/cosmos-sdk/x/bank/types"
	distrtypes "github.com/cosmos/cosmos-sdk/x/distribution/types"

	"verif/harness/chain"
	"verif/harness/drv"

	coinswaptypes "mods.irisnet.org/modules/coinswap/types"
	farmkeeper "mods.irisnet.org/modules/farm/keeper"
	farmtypes "mods.irisnet.org/modules/farm/types"
	"mods.irisnet.org/simapp"
)

func main() { drv.Main("farm", farmDriver) }

// Model <-> chain mapping for Farm.tla (DESIGN.md 4.2, unit scaling):
//
//	LP amounts:   model k  <->  k * U base units, U = 10^18 / prec
//	rps:          model integer = raw 18-decimal mantissa of RewardPerShare
//	accounts:     "u1".. users, "farm" module, "collector", "feepool"
//	denoms:       LP "lpt-1", fee "stake", rewards "rw1","rw2"
type farmEnv struct {
	c       *chain.Chain
	prec    int64
	unit    *big.Int
	users   []string
	rdenoms []string
	lp      string
	feeDen  string
	names   map[string]string // bech32 -> account name
	off     map[string]sdkmath.Int
	donated map[string]int64
	initLP  int64
	initR   int64
	fee     int64
	taxNum  int64
	taxDen  int64
	last    chain.M       // last projected state
	opts    chain.Options // how the application was built (reimport builds another one)
	// magnitude tier (DESIGN 4.2, exact scaling): every reward-denom amount on the
	// chain is rk times the model's, every LP amount lpk*10^18/prec times; rk is a
	// multiple of lpk, and the accumulator mantissa is rk/lpk times the model's.
	// Exact as long as every released amount is divisible by the pool's total
	// stake (the magnitude drivers keep reward rates multiples of lcm(1..max stake)).
	rk     *big.Int
	lpk    *big.Int
	rpsDiv *big.Int
	isR    map[string]bool
	mag    bool
	grain  int64 // model reward rates are multiples of this in magnitude histories
	// governance-funded pools (gov.go)
	wired     bool
	proposers []string
	initCP    int64
	minDep    int64
	thrNum    int64
	thrDen    int64
	govDP     int64
	govVP     int64
	cNum      int64
	cDen      int64
	burnPre   bool
	burnQ     bool
	burnV     bool
	// negative probing: what the driver itself did to a pool (the projected
	// state cannot tell a destroyed pool from one that ended by itself)
	fate map[string]string // pool id -> "destroyed" | "destroyedEarly"
}

// oddDenoms: plain coins every user holds besides the tracked ones - denoms
// shaped like a pool share denom for which no liquidity pool exists, and the
// staking token in another case.  Nothing of the module accepts them.
var oddDenoms = []string{"lpt-2", "LPT-1"}

func newFarmEnv(fl *drv.Flags, wired bool) *farmEnv {
	e := &farmEnv{
		wired:     wired,
		proposers: []string{"g1", "g2"}[:fl.CfgInt("proposers", 1)],
		minDep:    fl.CfgInt("mindep", 4),
		thrNum:    fl.CfgInt("thrnum", 1),
		thrDen:    fl.CfgInt("thrden", 2),
		govDP:     fl.CfgInt("govdp", 2),
		govVP:     fl.CfgInt("govvp", 2),
		cNum:      fl.CfgInt("cnum", 1),
		cDen:      fl.CfgInt("cden", 2),
		burnPre:   fl.CfgInt("burnpre", 0) == 1,
		burnQ:     fl.CfgInt("burnq", 0) == 1,
		burnV:     fl.CfgInt("burnv", 1) == 1,
		prec:      fl.CfgInt("prec", 10),
		users:     []string{"u1", "u2", "u3"}[:fl.CfgInt("users", 2)],
		rdenoms:   []string{"rw1", "rw2"}[:fl.CfgInt("rdenoms", 1)],
		lp:        "lpt-1",
		feeDen:    "stake",
		names:     map[string]string{},
		fate:      map[string]string{},
		off:       map[string]sdkmath.Int{},
		donated:   map[string]int64{},
		initLP:    fl.CfgInt("initlp", 3),
		initR:     fl.CfgInt("initr", 20),
		fee:       fl.CfgInt("fee", 5),
		taxNum:    fl.CfgInt("taxnum", 2),
		taxDen:    fl.CfgInt("taxden", 5),
	}
	e.initCP = fl.CfgInt("initcp", map[bool]int64{false: 0, true: 20}[wired])
	e.unit = new(big.Int).Quo(new(big.Int).Exp(big.NewInt(10), big.NewInt(18), nil), big.NewInt(e.prec))
	e.rk, e.lpk = bigCfg(fl, "rk"), bigCfg(fl, "lpk")
	var rem big.Int
	e.rpsDiv, _ = new(big.Int).QuoRem(e.rk, e.lpk, &rem)
	if rem.Sign() != 0 {
		panic("cfg: rk must be a multiple of lpk")
	}
	e.unit.Mul(e.unit, e.lpk)
	e.mag = fl.CfgInt("mag", 0) == 1 || e.rk.Cmp(big.NewInt(1)) != 0 || e.lpk.Cmp(big.NewInt(1)) != 0
	e.grain = lcmUpTo(int64(len(e.users)) * e.initLP)
	e.isR = map[string]bool{}
	for _, d := range e.rdenoms {
		e.isR[d] = true
	}
	scaledR := func(n int64) string { return new(big.Int).Mul(big.NewInt(n), e.rk).String() }
	// the LP source adds enough liquidity for every user's LP tokens (1e21 at least)
	lpNeed, _ := new(big.Int).SetString("1000000000000000000000", 10)
	if n := new(big.Int).Mul(e.unit, big.NewInt(4*int64(len(e.users))*e.initLP)); n.Cmp(lpNeed) > 0 {
		lpNeed = n
	}
	lpFund := new(big.Int).Mul(lpNeed, big.NewInt(2)).String()
	accts := map[string]string{"lpsrc": lpFund + "stake," + lpFund + "btc"}
	if e.initCP > 0 {
		s := ""
		for _, d := range e.rdenoms {
			s += fmt.Sprintf(",%s%s", scaledR(e.initCP), d)
		}
		accts["cpsrc"] = s[1:]
	}
	for i, u := range append(append([]string{}, e.users...), e.proposers...) {
		s := fmt.Sprintf("%d%s", e.initR, e.feeDen)
		for _, d := range e.rdenoms {
			s += fmt.Sprintf(",%s%s", scaledR(e.initR), d)
		}
		if i < len(e.users) {
			for _, d := range oddDenoms {
				s += fmt.Sprintf(",%s%s", new(big.Int).Mul(big.NewInt(e.initLP), e.unit).String(), d)
			}
		}
		accts[u] = s
	}
	opts := chain.Options{}
	if wired {
		opts.ExtraConfig = farmGovWiring()
		opts.AfterBuild = farmEscrowAccount
	}
	opts.Accounts = accts
	opts.MutateGenesis = func(c *chain.Chain, gs simapp.GenesisState) {
		cdc := c.App.AppCodec()
		var fg farmtypes.GenesisState
		cdc.MustUnmarshalJSON(gs[farmtypes.ModuleName], &fg)
		fg.Params.PoolCreationFee = sdk.NewInt64Coin(e.feeDen, e.fee)
		fg.Params.TaxRate = sdkmath.LegacyNewDec(e.taxNum).QuoInt64(e.taxDen)
		fg.Params.MaxRewardCategories = 2
		gs[farmtypes.ModuleName] = cdc.MustMarshalJSON(&fg)
		e.govGenesis(c, gs)
	}
	e.opts = opts
	func() {
		// should /repo one day provide the hooks and the route itself, the extra
		// providers collide (depinject refuses a second provider): build without them
		defer func() {
			if r := recover(); r != nil && opts.ExtraConfig != nil {
				fmt.Fprintln(os.Stderr, "farm harness: building without the extra gov wiring:", r)
				opts.ExtraConfig = nil
				e.opts = opts
				e.c = chain.New(opts)
			} else if r != nil {
				panic(r)
			}
		}()
		e.c = chain.New(opts)
	}()
	c := e.c
	for _, n := range append(append([]string{"lpsrc"}, e.users...), e.proposers...) {
		e.names[c.Accts[n].Addr.String()] = n
	}
	// pools created by a passed proposal belong to the distribution module account
	e.names[chain.ModuleAddr(distrtypes.ModuleName).String()] = "feepool"
	// block 2: create the coinswap pool lpt-1 and hand LP tokens to the users
	big21 := sdkmath.NewIntFromBigInt(lpNeed)
	src := c.Accts["lpsrc"]
	txs := []chain.Tx{{Signer: "lpsrc", Msgs: []sdk.Msg{&coinswaptypes.MsgAddLiquidity{
		MaxToken: sdk.NewCoin("btc", big21), ExactStandardAmt: big21, MinLiquidity: sdkmath.OneInt(),
		Deadline: c.Time.Add(time.Hour).Unix(), Sender: src.Addr.String(),
	}}}}
	for _, u := range e.users {
		amt := sdkmath.NewIntFromBigInt(new(big.Int).Mul(big.NewInt(e.initLP), e.unit))
		txs = append(txs, chain.Tx{Signer: "lpsrc", Msgs: []sdk.Msg{
			banktypes.NewMsgSend(src.Addr, c.Accts[u].Addr, sdk.NewCoins(sdk.NewCoin(e.lp, amt)))}})
	}
	if e.initCP > 0 {
		txs = append(txs, e.fundCommunityPoolTx())
	}
	r := c.RunBlock(5*time.Second, txs)
	for i, t := range r.Txs {
		if !t.OK {
			panic(fmt.Sprintf("farm setup tx %d failed: %s", i, t.Log))
		}
	}
	// supply offsets: logged supply = real supply - offset = sum of tracked balances
	ctx := c.Ctx()
	for _, d := range e.denoms() {
		sum := sdkmath.ZeroInt()
		for _, a := range e.accounts() {
			sum = sum.Add(e.balOf(ctx, a, d))
		}
		for _, a := range e.gaccounts() {
			sum = sum.Add(e.gbalOf(ctx, a, d))
		}
		e.off[d] = c.Supply(ctx, d).Sub(sum)
	}
	c.Project = func(ctx sdk.Context) any { return e.project(ctx) }
	return e
}

func (e *farmEnv) denoms() []string { return append(append([]string{}, e.rdenoms...), e.lp, e.feeDen) }
func (e *farmEnv) accounts() []string {
	return append(append([]string{}, e.users...), "farm", "collector", "feepool")
}

func (e *farmEnv) balOf(ctx sdk.Context, a, d string) sdkmath.Int {
	switch a {
	case "farm":
		return e.c.Bal(ctx, chain.ModuleAddr(farmtypes.ModuleName), d)
	case "collector":
		return e.c.Bal(ctx, chain.ModuleAddr(farmtypes.RewardCollector), d)
	case "feepool":
		return e.c.FeePool(ctx, d)
	}
	return e.c.Bal(ctx, e.c.Accts[a].Addr, d)
}

func (e *farmEnv) nameOf(bech string) string {
	if n, ok := e.names[bech]; ok {
		return n
	}
	return bech
}

// project reads the abstract state of Farm.tla from the real stores.
func (e *farmEnv) project(ctx sdk.Context) any {
	c := e.c
	k := c.K.Farm
	inexact := 0
	sc := func(i sdkmath.Int) int64 {
		v, ok := chain.Scaled(i, e.unit)
		if !ok {
			inexact++
		}
		return v
	}
	sm := func(i sdkmath.Int) int64 {
		v, ok := chain.Small(i)
		if !ok {
			inexact++
		}
		return v
	}
	// reward-denom amounts in model units (divided by rk), the accumulator by rk/lpk
	rw := func(i sdkmath.Int) int64 { return e.div(i, e.rk, &inexact) }
	rpsOf := func(i sdkmath.Int) int64 { return e.div(i, e.rpsDiv, &inexact) }
	pools := chain.M{}
	fi := chain.M{}
	var poolList []farmtypes.FarmPool
	k.IteratorAllPools(ctx, func(p farmtypes.FarmPool) { poolList = append(poolList, p) })
	for _, p := range poolList {
		rules := chain.M{}
		rs := k.GetRewardRules(ctx, p.Id)
		for _, r := range rs {
			rules[r.Reward] = chain.M{
				"totalR": rw(r.TotalReward), "remaining": rw(r.RemainingReward),
				"rpb": rw(r.RewardPerBlock), "rps": rpsOf(sdkmath.NewIntFromBigInt(r.RewardPerShare.BigInt())),
			}
		}
		pools[p.Id] = chain.M{
			"creator": e.nameOf(p.Creator), "start": p.StartHeight, "end": p.EndHeight,
			"lastH": p.LastHeightDistrRewards, "total": sc(p.TotalLptLocked.Amount),
			"editable": p.Editable, "rules": rules,
		}
		infos := chain.M{}
		for _, u := range e.users {
			info, ok := k.GetFarmInfo(ctx, p.Id, c.Accts[u].Addr.String())
			if !ok {
				continue
			}
			debt := chain.M{}
			for _, r := range rs {
				debt[r.Reward] = rw(info.RewardDebt.AmountOf(r.Reward))
			}
			infos[u] = chain.M{"locked": sc(info.Locked), "debt": debt}
		}
		fi[p.Id] = infos
	}
	// active-pool queue, raw
	var queue []any
	store := ctx.KVStore(c.App.UnsafeFindStoreKey(farmtypes.StoreKey))
	it := storetypes.KVStorePrefixIterator(store, farmtypes.ActiveFarmPoolKey)
	for ; it.Valid(); it.Next() {
		key := it.Key()[len(farmtypes.ActiveFarmPoolKey):]
		h := int64(sdk.BigEndianToUint64(key[:8]))
		queue = append(queue, []any{h, string(key[8:])})
	}
	it.Close()
	if queue == nil {
		queue = []any{}
	}
	bal := chain.M{}
	for _, a := range e.accounts() {
		row := chain.M{}
		for _, d := range e.denoms() {
			switch {
			case d == e.lp:
				row[d] = sc(e.balOf(ctx, a, d))
			case e.isR[d]:
				row[d] = rw(e.balOf(ctx, a, d))
			default:
				row[d] = sm(e.balOf(ctx, a, d))
			}
		}
		bal[a] = row
	}
	supply := chain.M{}
	for _, d := range e.denoms() {
		v := c.Supply(ctx, d).Sub(e.off[d])
		switch {
		case d == e.lp:
			supply[d] = sc(v)
		case e.isR[d]:
			supply[d] = rw(v)
		default:
			supply[d] = sm(v)
		}
	}
	params := k.GetParams(ctx)
	don := chain.M{}
	for d, v := range e.donated {
		don[d] = v
	}
	_ = params
	h := ctx.BlockHeight()
	if !ctx.IsZero() && ctx.BlockHeight() == c.Height {
		// committed state: the next transaction executes in the next block
		h = c.Height + 1
	}
	inv, broken := "", false
	func() {
		defer func() { recover() }()
		inv, broken = farmInvariant(k, ctx)
	}()
	_ = inv
	gov := chain.M{}
	e.projectGov(ctx, gov, &inexact)
	out := chain.M{
		"h": h, "prec": e.prec, "seq": int64(k.GetSequence(ctx)),
		"params": chain.M{"fee": sm(params.PoolCreationFee.Amount), "taxNum": e.taxNum, "taxDen": e.taxDen,
			"maxCat": int64(params.MaxRewardCategories)},
		"pools": pools, "fi": fi, "queue": queue, "bal": bal, "supply": supply, "donated": don,
		"inexact": int64(inexact), "invBroken": broken,
	}
	for k, v := range gov {
		out[k] = v
	}
	return out
}

func (e *farmEnv) withDonated(st any) any {
	m := chain.CopyM(st.(chain.M))
	don := chain.M{}
	for d, v := range e.donated {
		don[d] = v
	}
	m["donated"] = don
	return m
}

func (e *farmEnv) coins(m map[string]int64) sdk.Coins {
	var cs sdk.Coins
	for _, d := range chain.SortedKeys(m) {
		amt := sdkmath.NewInt(m[d])
		if e.isR[d] {
			amt = sdkmath.NewIntFromBigInt(new(big.Int).Mul(big.NewInt(m[d]), e.rk))
		}
		cs = append(cs, sdk.Coin{Denom: d, Amount: amt})
	}
	return cs
}

func (e *farmEnv) lpCoin(k int64) sdk.Coin {
	return sdk.Coin{Denom: e.lp, Amount: sdkmath.NewIntFromBigInt(new(big.Int).Mul(big.NewInt(k), e.unit))}
}

// msgOf maps an abstract event to a real message; nil for non-message events.
func (e *farmEnv) msgOf(ev chain.M) sdk.Msg {
	c := e.c
	who := signerOf(chain.Str(ev, "who"))
	var addr string
	if a, ok := c.Accts[who]; ok {
		addr = a.Addr.String()
	}
	switch chain.Str(ev, "name") {
	case "CreatePool":
		return &farmtypes.MsgCreatePool{
			Description: "p", LptDenom: chain.Str(ev, "lpt"), StartHeight: chain.Num(ev, "start"),
			RewardPerBlock: e.coins(chain.Obj(ev, "rpb")), TotalReward: e.coins(chain.Obj(ev, "total")),
			Editable: chain.Bool(ev, "editable"), Creator: addr,
		}
	case "CreatePoolFar":
		// a start height so far ahead that start + budget/rate leaves int64: MaxInt64 - start
		return &farmtypes.MsgCreatePool{
			Description: "p", LptDenom: chain.Str(ev, "lpt"), StartHeight: math.MaxInt64 - chain.Num(ev, "start"),
			RewardPerBlock: e.coins(chain.Obj(ev, "rpb")), TotalReward: e.coins(chain.Obj(ev, "total")),
			Editable: chain.Bool(ev, "editable"), Creator: addr,
		}
	case "DestroyPool":
		return &farmtypes.MsgDestroyPool{PoolId: chain.Str(ev, "pool"), Creator: addr}
	case "AdjustPool":
		return &farmtypes.MsgAdjustPool{PoolId: chain.Str(ev, "pool"),
			AdditionalReward: e.coins(chain.Obj(ev, "total")), RewardPerBlock: e.coins(chain.Obj(ev, "rpb")), Creator: addr}
	case "Stake":
		return &farmtypes.MsgStake{PoolId: chain.Str(ev, "pool"), Amount: e.lpCoin(chain.Num(ev, "amt")), Sender: addr}
	case "Unstake":
		return &farmtypes.MsgUnstake{PoolId: chain.Str(ev, "pool"), Amount: e.lpCoin(chain.Num(ev, "amt")), Sender: addr}
	case "Harvest":
		return &farmtypes.MsgHarvest{PoolId: chain.Str(ev, "pool"), Sender: addr}
	case "StakeOther":
		return &farmtypes.MsgStake{PoolId: chain.Str(ev, "pool"), Amount: e.otherCoin(chain.Str(ev, "lpt"), chain.Num(ev, "amt")), Sender: addr}
	case "UnstakeOther":
		return &farmtypes.MsgUnstake{PoolId: chain.Str(ev, "pool"), Amount: e.otherCoin(chain.Str(ev, "lpt"), chain.Num(ev, "amt")), Sender: addr}
	case "Donate":
		d := chain.Str(ev, "lpt")
		coin := sdk.NewInt64Coin(d, chain.Num(ev, "amt"))
		if d == e.lp {
			coin = e.lpCoin(chain.Num(ev, "amt"))
		} else if e.isR[d] {
			coin = e.coins(map[string]int64{d: chain.Num(ev, "amt")})[0]
		}
		return banktypes.NewMsgSend(c.Accts[who].Addr, chain.ModuleAddr(farmtypes.ModuleName), sdk.NewCoins(coin))
	}
	return e.govMsgOf(ev, addr)
}

// otherCoin: k units of a denom that is not the staking token, in the amounts a
// user can pay (so that only the module's own check stands between the message
// and the pool): reward denoms in reward units, the fee denom as it is,
// anything else - the plain coins shaped like share denoms - in LP units.
func (e *farmEnv) otherCoin(d string, k int64) sdk.Coin {
	switch {
	case e.isR[d]:
		return sdk.Coin{Denom: d, Amount: sdkmath.NewIntFromBigInt(new(big.Int).Mul(big.NewInt(k), e.rk))}
	case d == e.feeDen:
		return sdk.Coin{Denom: d, Amount: sdkmath.NewInt(k)}
	}
	return sdk.Coin{Denom: d, Amount: sdkmath.NewIntFromBigInt(new(big.Int).Mul(big.NewInt(k), e.unit))}
}

func farmEvent(name, who, pool string, amt int64) chain.M {
	return chain.M{"name": name, "who": who, "pool": pool, "amt": amt, "lpt": "", "total": chain.M{}, "rpb": chain.M{},
		"start": int64(0), "editable": false, "ok": true, "panic": false, "halt": false, "reward": chain.M{},
		"bond": chain.M{}}
}

// signerOf: the model's voter "val" is the delegator of the only validator,
// the chain's probe account.
func signerOf(who string) string {
	if who == "val" {
		return chain.ProbeName
	}
	return who
}

// normalise an abstract event read from JSON into the fixed record shape
func (e *farmEnv) norm(ev chain.M) chain.M {
	o := farmEvent(chain.Str(ev, "name"), chain.Str(ev, "who"), chain.Str(ev, "pool"), chain.Num(ev, "amt"))
	o["lpt"] = chain.Str(ev, "lpt")
	tot, rpb, bond := chain.M{}, chain.M{}, chain.M{}
	for k, v := range chain.Obj(ev, "total") {
		tot[k] = v
	}
	for k, v := range chain.Obj(ev, "rpb") {
		rpb[k] = v
	}
	for k, v := range chain.Obj(ev, "bond") {
		bond[k] = v
	}
	o["total"], o["rpb"], o["bond"] = tot, rpb, bond
	o["start"] = chain.Num(ev, "start")
	o["editable"] = chain.Bool(ev, "editable")
	return o
}

func (e *farmEnv) rewardOf(r chain.TxResult, name string) chain.M {
	out := chain.M{}
	if !r.OK || len(r.MsgResps) == 0 {
		return out
	}
	var cs sdk.Coins
	switch name {
	case "Stake", "StakeOther":
		var resp farmtypes.MsgStakeResponse
		if err := resp.Unmarshal(r.MsgResps[0].Value); err == nil {
			cs = resp.Reward
		}
	case "Unstake", "UnstakeOther":
		var resp farmtypes.MsgUnstakeResponse
		if err := resp.Unmarshal(r.MsgResps[0].Value); err == nil {
			cs = resp.Reward
		}
	case "Harvest":
		var resp farmtypes.MsgHarvestResponse
		if err := resp.Unmarshal(r.MsgResps[0].Value); err == nil {
			cs = resp.Reward
		}
	}
	bad := 0
	for _, c := range cs {
		out[c.Denom] = e.denomAmt(c.Denom, c.Amount, &bad)
	}
	return out
}

// div: i / unit as a model integer; counts what is not exactly divisible or out
// of the model's range (the scale guard C05_ScaleExact reads the count).
func (e *farmEnv) div(i sdkmath.Int, unit *big.Int, bad *int) int64 {
	q, r := new(big.Int).QuoRem(i.BigInt(), unit, new(big.Int))
	if r.Sign() != 0 {
		*bad++
	}
	lim := big.NewInt(1<<31 - 1)
	if q.CmpAbs(lim) > 0 {
		*bad++
		if q.Sign() < 0 {
			return -(1<<31 - 1)
		}
		return 1<<31 - 1
	}
	return q.Int64()
}

// denomAmt: an amount of a denom in model units.
func (e *farmEnv) denomAmt(d string, a sdkmath.Int, bad *int) int64 {
	switch {
	case d == e.lp:
		return e.div(a, e.unit, bad)
	case e.isR[d]:
		return e.div(a, e.rk, bad)
	}
	return e.div(a, big.NewInt(1), bad)
}

func bigCfg(fl *drv.Flags, k string) *big.Int {
	v, ok := new(big.Int).SetString(fl.CfgStr(k, "1"), 10)
	if !ok || v.Sign() <= 0 {
		panic("cfg: bad " + k)
	}
	return v
}

// magStrata: factors (reward rk, LP lpk; lpk divides rk) chosen so that with
// model rates of 60..180 per block, budgets of some thousands and balances of
// 20000 the real per-block rewards, budgets, balances, LP stakes (k*10^17*lpk)
// and the products rate x span fall into every stratum of the magnitude brief;
// all factors have non-zero low bits.
var magStrata = []struct{ name, rk, lpk string }{
	{"rpb in [2^31,2^32)", "46530001", "1"},
	{"rpb in [2^32,2^53), budgets cross 2^53", "75059993789509", "1"},
	{"rpb in [2^53,2^63), budgets in [2^63,2^64), top-ups and balances cross 2^64", "7205759403792797", "1"},
	{"rpb ~ 10^18 < 2^64, rpb x span >= 2^64 for spans >= 7..19", "16666666666666667", "1"},
	{"rpb in [2^63,2^64) (and 2^64.. for higher rates), rpb x 2 >= 2^64", "169093200598693763", "1"},
	{"rpb in [2^64,2^65), LP stakes in [2^64,2^65)", "399680655960798127", "257"},
	{"rpb ~ 2^96, LP stakes ~ 2^96", "1320469375238333597427208381", "792281625143"},
	{"rpb in [2^127,2^129), LP stakes ~ 2^128, balances beyond 2^128", "5671372782015648997643561488564147477", "3402823669209384634633"},
	{"rpb in [2^32,2^53) with LP stakes in [2^63,2^64)", "1099511640059", "97"},
}

func cfgString(m map[string]string) string {
	var kv []string
	for _, k := range chain.SortedKeys(m) {
		if k != "strata" {
			kv = append(kv, k+"="+m[k])
		}
	}
	return strings.Join(kv, ",")
}

func lcmUpTo(n int64) int64 {
	l := int64(1)
	for i := int64(2); i <= n; i++ {
		a, b := l, i
		for b != 0 {
			a, b = b, a%b
		}
		l = l / a * i
	}
	return l
}

// runBlock executes the pending message events as one block and writes one
// trace line per event plus the EndBlock line.
func (e *farmEnv) runBlock(pending []chain.M, w *chain.TraceWriter) bool {
	var txs []chain.Tx
	for _, ev := range pending {
		who := signerOf(chain.Str(ev, "who"))
		if _, ok := e.c.Accts[who]; !ok {
			who = e.users[0]
		}
		txs = append(txs, chain.Tx{Signer: who, Msgs: []sdk.Msg{e.msgOf(ev)}})
	}
	// donations are environment actions; account for them when they succeed
	res := e.c.RunBlock(5*time.Second, txs)
	if res.Halt {
		ev := farmEvent("EndBlock", "", "", 0)
		ev["halt"] = true
		ev["ok"] = false
		w.Write(ev, e.last)
		return false
	}
	for i, ev := range pending {
		r := res.Txs[i]
		if r.Aborted {
			// member of a multi-message transaction that failed as a whole (chain.BundlePct):
			// whatever it did was rolled back; the specification knows no such event and
			// treats it as a rejection without effect
			ev["_orig"], ev["name"] = ev["name"], "TxFailed"
		}
		ev["ok"] = r.OK
		ev["panic"] = r.Panic
		name := chain.Str(ev, "name")
		if !r.OK && os.Getenv("VERIF_DEBUG") != "" {
			fmt.Fprintf(os.Stderr, "rejected %s: %s\n", name, r.Log)
		}
		ev["reward"] = e.rewardOf(r, name)
		st := r.State
		if st == nil {
			st = res.BeginState
		}
		if name == "Donate" && r.OK {
			e.donated[chain.Str(ev, "lpt")] += chain.Num(ev, "amt")
		}
		if name == "DestroyPool" && r.OK {
			e.fate[chain.Str(ev, "pool")] = "destroyed"
			if pl, ok := poolsOf(e.last)[chain.Str(ev, "pool")].(chain.M); ok && chain.Num(pl, "start") > chain.Num(e.last, "h") {
				e.fate[chain.Str(ev, "pool")] = "destroyedEarly"
			}
		}
		// donations are environment actions known to the driver, not to the store:
		// every logged state carries the driver's running tally
		st = e.withDonated(st)
		w.Write(ev, st)
		e.last = st.(chain.M)
	}
	end := farmEvent("EndBlock", "", "", 0)
	endSt := e.withDonated(res.EndState)
	w.Write(end, endSt)
	e.last = endSt.(chain.M)
	return true
}

// run executes one abstract behaviour on a fresh chain.
func farmRun(fl *drv.Flags, beh []chain.M, w *chain.TraceWriter, epilogue bool) {
	// a behaviour with governance events runs on the completed wiring unless
	// the configuration says otherwise (gov=0: the application as /repo builds it)
	hasGov := false
	for _, raw := range beh {
		hasGov = hasGov || isGovEvent(chain.Str(raw, "name"))
	}
	e := newFarmEnv(fl, fl.CfgInt("gov", map[bool]int64{false: 0, true: 1}[hasGov]) == 1)
	init := farmEvent("Init", "", "", 0)
	e.last = e.project(e.c.Ctx()).(chain.M)
	w.Write(init, e.last)
	var pending []chain.M
	alive := true
	for _, raw := range beh {
		ev := e.norm(raw)
		if chain.Str(ev, "name") == "EndBlock" {
			alive = e.runBlock(pending, w)
			pending = nil
			if !alive {
				return
			}
			continue
		}
		if chain.Str(ev, "name") == "Reimport" {
			// between blocks: messages collected so far go into a block of their own
			if len(pending) > 0 {
				if !e.runBlock(pending, w) {
					return
				}
				pending = nil
			}
			if !e.reimport(w) {
				return
			}
			continue
		}
		if e.msgOf(ev) == nil {
			continue
		}
		pending = append(pending, ev)
	}
	if len(pending) > 0 {
		if !e.runBlock(pending, w) {
			return
		}
	}
	if epilogue {
		e.epilogue(w, int(fl.CfgInt("epirun", 8)))
	}
}

// lenient readers of the projected state: a broken tree may produce anything
func poolsOf(st chain.M) chain.M {
	m, _ := st["pools"].(chain.M)
	return m
}

func infosOf(st chain.M, p string) chain.M {
	fi, _ := st["fi"].(chain.M)
	m, _ := fi[p].(chain.M)
	return m
}

func lockedOf(st chain.M, p, u string) int64 {
	in, _ := infosOf(st, p)[u].(chain.M)
	return chain.Num(in, "locked")
}

// queuedAhead: does the real active-pool queue hold an entry at or after h?
func queuedAhead(st chain.M) bool {
	q, _ := st["queue"].([]any)
	h := chain.Num(st, "h")
	for _, x := range q {
		if pr, ok := x.([]any); ok && len(pr) == 2 {
			if qh, ok := pr[0].(int64); ok && qh >= h {
				return true
			}
		}
	}
	return false
}

// withdrawals: one Unstake per farmer record of the REAL chain state (the last
// projection, never what the model expected): part = 0 everything, else the
// part-th part of the stake (at least 1).
func (e *farmEnv) withdrawals(part int64) []chain.M {
	var pending []chain.M
	fi, _ := e.last["fi"].(chain.M)
	for _, p := range chain.SortedKeys(fi) {
		infos, _ := fi[p].(chain.M)
		for _, u := range chain.SortedKeys(infos) {
			locked := lockedOf(e.last, p, u)
			amt := locked
			if part > 1 && locked > 1 {
				amt = (locked + part - 1) / part
			}
			if amt > 0 {
				pending = append(pending, farmEvent("Unstake", u, p, amt))
			}
		}
	}
	return pending
}

// epilogue: every farmer withdraws everything (C05_Epilogue), at different
// heights: half of every recorded stake in the next block, half of the rest one
// block later; then - runTo > 0 - the pools run to their ends (blocks until
// the real queue holds nothing ahead, at most runTo of them: the end-block
// refunds of whatever the history left behind, also of a pool that a wrongly
// accepted message put back into the queue); finally everything that the real
// chain still records is withdrawn, after the pools have ended.  All of it is
// read from the projection of the real stores.
func (e *farmEnv) epilogue(w *chain.TraceWriter, runTo int) {
	for round := 0; round < 2; round++ {
		pending := e.withdrawals(2)
		if len(pending) == 0 {
			break
		}
		if !e.runBlock(pending, w) {
			return
		}
	}
	for ; runTo > 0 && queuedAhead(e.last); runTo-- {
		if !e.runBlock(nil, w) {
			return
		}
	}
	if pending := e.withdrawals(0); len(pending) > 0 {
		e.runBlock(pending, w)
	}
}

func farmDriver(mode string, fl *drv.Flags) error {
	w := chain.NewTraceWriter(fl.Out)
	defer w.Close()
	switch mode {
	case "replay":
		for _, beh := range chain.ReadBehaviours(fl.In) {
			farmRun(fl, beh, w, fl.CfgInt("epilogue", 1) == 1)
		}
	case "random":
		rng := rand.New(rand.NewSource(fl.Seed))
		for i := 0; i < fl.N; i++ {
			if fl.CfgInt("strata", 0) == 1 {
				// magnitude tier: every history runs at the next stratum's factors; the
				// Init line carries them, so a replay cut from the trace uses the same
				st := magStrata[(int(fl.Seed%1000)+i)%len(magStrata)]
				fl.Cfg["rk"], fl.Cfg["lpk"] = st.rk, st.lpk
				chain.DriverCfg = cfgString(fl.Cfg)
			}
			farmRandom(fl, rng, w)
		}
	default:
		return fmt.Errorf("unknown mode %q", mode)
	}
	return nil
}

// farmRandom runs one random history: events are generated block by block
// from the last observed state, so most are enabled, some deliberately not.
func farmRandom(fl *drv.Flags, rng *rand.Rand, w *chain.TraceWriter) {
	e := newFarmEnv(fl, fl.CfgInt("gov", 0) == 1)
	e.last = e.project(e.c.Ctx()).(chain.M)
	w.Write(farmEvent("Init", "", "", 0), e.last)
	maxPools := int(fl.CfgInt("maxpools", 2))
	reimports := fl.CfgInt("reimport", 0) == 1
	// probe=<pct>: share of the blocks that carry a burst of operations aimed at a pool
	// picked by life-cycle state (negative probing), half as many an input of the wrong kind
	probe := int(fl.CfgInt("probe", 0))
	blocks := fl.Len
	for b := 0; b < blocks; b++ {
		var pending []chain.M
		n := rng.Intn(4)
		pools := e.last["pools"].(chain.M)
		ids := chain.SortedKeys(pools)
		h := e.last["h"].(int64)
		// most operations go to pools that are still running (expired pools
		// stay in the store for ever and would soak up the whole history)
		var running []string
		for _, p := range ids {
			if pools[p].(chain.M)["end"].(int64) >= h {
				running = append(running, p)
			}
		}
		pick := func() string {
			if len(running) > 0 && rng.Intn(5) > 0 {
				return running[rng.Intn(len(running))]
			}
			return ids[rng.Intn(len(ids))]
		}
		if e.mag {
			// magnitude histories are short: keep them busy - more messages per block,
			// and every running pool gets a farmer as soon as it has started
			n = 2 + rng.Intn(3)
			for _, p := range running {
				pl := pools[p].(chain.M)
				if pl["total"].(int64) == 0 && pl["start"].(int64) <= h && rng.Intn(3) > 0 {
					pending = append(pending, farmEvent("Stake", e.users[rng.Intn(len(e.users))], p, int64(1+rng.Intn(2))))
				}
			}
		}
		created := int64(0)
		if len(ids) > 0 && rng.Intn(100) < probe {
			pending = append(pending, e.probeBurst(rng)...)
		}
		if len(ids) > 0 && rng.Intn(100) < probe/2 {
			pending = append(pending, e.oddInput(rng, pick()))
		}
		for j := 0; j < n; j++ {
			u := e.users[rng.Intn(len(e.users))]
			if e.wired && rng.Intn(20) < 7 {
				if ev := e.randomGov(rng, int(fl.CfgInt("maxprops", 4))); ev != nil {
					pending = append(pending, ev)
					continue
				}
			}
			switch x := rng.Intn(20); {
			case x == 19 && rng.Intn(3) == 0:
				// environment action: a plain bank send to the farm module account
				ev := farmEvent("Donate", u, "", int64(1+rng.Intn(2)))
				ev["lpt"] = append(append([]string{}, e.rdenoms...), e.lp)[rng.Intn(len(e.rdenoms)+1)]
				pending = append(pending, ev)
			case x < 3 && len(running) < maxPools && len(ids) < maxPools+4:
				ev := farmEvent("CreatePool", u, "", 0)
				tot, rpb := chain.M{}, chain.M{}
				k := 1 + rng.Intn(len(e.rdenoms))
				perm := rng.Perm(len(e.rdenoms))[:k]
				sort.Ints(perm)
				for _, di := range perm {
					r := int64(1 + rng.Intn(4))
					spans := int64(1 + rng.Intn(5))
					if e.mag {
						// rates in multiples of lcm(1..max stake): every released amount divides
						// by the staked total (exact scaling); budgets for long quiet spans
						r = e.grain * int64(1+rng.Intn(3))
						spans = int64(5 + rng.Intn(35))
					}
					rpb[e.rdenoms[di]] = r
					tot[e.rdenoms[di]] = r*spans + int64(rng.Intn(int(r)))
				}
				ev["total"], ev["rpb"] = tot, rpb
				ev["lpt"] = e.lp
				ev["start"] = h + int64(rng.Intn(3))
				if e.mag {
					ev["start"] = h + int64(rng.Intn(2))
				}
				ev["editable"] = rng.Intn(4) != 0
				if probe > 0 && !e.mag && rng.Intn(4) == 0 {
					// a start far enough ahead for a whole life before it
					ev["start"] = h + int64(3+rng.Intn(3))
				}
				pending = append(pending, ev)
				if probe > 0 && rng.Intn(3) == 0 {
					// operations on the pool in the very block that creates it: its id is
					// the next sequence number (when an earlier creation of the block fails
					// the id names another pool or none - the specification follows either way)
					id := fmt.Sprintf("farm-%d", chain.Num(e.last, "seq")+1+created)
					pending = append(pending, e.probeOps(rng, id, u, 1+rng.Intn(2))...)
				}
				created++
			case len(ids) == 0:
				continue
			case x < 9:
				pending = append(pending, farmEvent("Stake", u, pick(), int64(1+rng.Intn(3))))
			case x < 13:
				p := pick()
				amt := int64(1 + rng.Intn(3))
				if l := lockedOf(e.last, p, u); l > 0 && rng.Intn(3) > 0 {
					amt = 1 + rng.Int63n(l)
				}
				pending = append(pending, farmEvent("Unstake", u, p, amt))
			case x < 16:
				p := pick()
				if probe > 0 && rng.Intn(3) > 0 {
					u = e.roleUser(rng, p, "staker")
				}
				pending = append(pending, farmEvent("Harvest", u, p, 0))
			case x < 19:
				p := pick()
				who := u
				if cr := pools[p].(chain.M)["creator"].(string); rng.Intn(4) > 0 && cr != "feepool" {
					who = cr
				}
				ev := farmEvent("AdjustPool", who, p, 0)
				rules := pools[p].(chain.M)["rules"].(chain.M)
				tot, rpb := chain.M{}, chain.M{}
				for _, d := range chain.SortedKeys(rules) {
					if rng.Intn(2) == 0 {
						tot[d] = int64(1 + rng.Intn(6))
						if e.mag {
							tot[d] = int64(1 + rng.Intn(300))
							if rng.Intn(3) == 0 { // large top-ups: remaining + top-up crosses a word boundary
								tot[d] = int64(500 + rng.Intn(2500))
							}
						}
					}
					if rng.Intn(2) == 0 {
						rpb[d] = int64(1 + rng.Intn(4))
						if e.mag {
							rpb[d] = e.grain * int64(1+rng.Intn(3))
						}
					}
				}
				ev["total"], ev["rpb"] = tot, rpb
				pending = append(pending, ev)
			default:
				p := pick()
				who := u
				if cr := pools[p].(chain.M)["creator"].(string); rng.Intn(3) > 0 && cr != "feepool" {
					who = cr
				}
				pending = append(pending, farmEvent("DestroyPool", who, p, 0))
			}
		}
		if !e.runBlock(pending, w) {
			return
		}
		if reimports && rng.Intn(12) == 0 {
			if !e.reimport(w) {
				return
			}
		}
		if e.mag && rng.Intn(4) == 0 {
			// a quiet stretch: nobody touches any pool for 19..30 blocks, so the next
			// update multiplies the per-block reward by a long span
			for q := 19 + rng.Intn(12); q > 0; q-- {
				if !e.runBlock(nil, w) {
					return
				}
			}
		}
	}
	e.epilogue(w, int(fl.CfgInt("epirun", 0)))
}

// ---------------------------------------------------------------------------
// Negative probing (random driver): every message type on pools in every
// life-cycle state, by every role, at every timing; inputs of the wrong kind.

// classes sorts the pools of the last observed state by life-cycle state.  A
// pool can be in several classes (e.g. running and in its last block).
func (e *farmEnv) classes() map[string][]string {
	out := map[string][]string{}
	h := chain.Num(e.last, "h")
	queued := map[string]bool{}
	if q, ok := e.last["queue"].([]any); ok {
		for _, x := range q {
			if pr, ok := x.([]any); ok && len(pr) == 2 {
				if id, ok := pr[1].(string); ok {
					queued[id] = true
				}
			}
		}
	}
	pools := poolsOf(e.last)
	for _, p := range chain.SortedKeys(pools) {
		pl, _ := pools[p].(chain.M)
		start, end, total := chain.Num(pl, "start"), chain.Num(pl, "end"), chain.Num(pl, "total")
		add := func(c string) { out[c] = append(out[c], p) }
		switch {
		case e.fate[p] != "":
			add(e.fate[p]) // destroyed | destroyedEarly
			if total > 0 {
				add("destroyedStaked")
			}
		case !queued[p]:
			add("ended")
			if total > 0 {
				add("endedStaked")
			}
		case start > h:
			add("notStarted")
			if start == h+1 {
				add("startsNext")
			}
		case total > 0:
			add("running")
		default:
			add("runningEmpty")
		}
		if queued[p] && start == h {
			add("startBlock")
		}
		if queued[p] && end == h {
			add("lastBlock")
		}
		if !queued[p] && end == h-1 {
			add("justOver")
		}
		if Str := chain.Str(pl, "creator"); Str == "feepool" {
			add("govOwned")
		}
	}
	return out
}

// roleUser picks a user by role towards pool p: the creator, a farmer with a
// stake in it, a user with neither (a stranger); falls back to any user.
func (e *farmEnv) roleUser(rng *rand.Rand, p, role string) string {
	pl, _ := poolsOf(e.last)[p].(chain.M)
	creator := chain.Str(pl, "creator")
	var with, without []string
	for _, u := range e.users {
		switch {
		case lockedOf(e.last, p, u) > 0:
			with = append(with, u)
		case u != creator:
			without = append(without, u)
		}
	}
	any := e.users[rng.Intn(len(e.users))]
	switch role {
	case "creator":
		if _, ok := e.c.Accts[creator]; ok && creator != "" {
			return creator
		}
	case "staker":
		if len(with) > 0 {
			return with[rng.Intn(len(with))]
		}
	case "stranger":
		if len(without) > 0 {
			return without[rng.Intn(len(without))]
		}
	}
	return any
}

var probeRoles = []string{"creator", "staker", "stranger", "any"}

// probeOps: n operations of every kind on pool p (which need not exist yet).
func (e *farmEnv) probeOps(rng *rand.Rand, p, creator string, n int) []chain.M {
	var out []chain.M
	pl, _ := poolsOf(e.last)[p].(chain.M)
	rules, _ := pl["rules"].(chain.M)
	rdenoms := chain.SortedKeys(rules)
	if len(rdenoms) == 0 {
		rdenoms = e.rdenoms
	}
	for i := 0; i < n; i++ {
		role := probeRoles[rng.Intn(len(probeRoles))]
		who := e.roleUser(rng, p, role)
		if pl == nil && role == "creator" {
			who = creator
		}
		rate := int64(1 + rng.Intn(4))
		if e.mag {
			rate = e.grain * int64(1+rng.Intn(3))
		}
		switch rng.Intn(9) {
		case 0, 1:
			out = append(out, farmEvent("Stake", who, p, int64(1+rng.Intn(2))))
		case 2, 3:
			amt := int64(1 + rng.Intn(2))
			if l := lockedOf(e.last, p, who); l > 0 {
				amt = []int64{l, 1 + rng.Int63n(l), l + 1}[rng.Intn(3)]
			}
			out = append(out, farmEvent("Unstake", who, p, amt))
		case 4:
			out = append(out, farmEvent("Harvest", who, p, 0))
		case 5:
			ev := farmEvent("AdjustPool", who, p, 0)
			ev["total"] = chain.M{rdenoms[rng.Intn(len(rdenoms))]: int64(1 + rng.Intn(4))}
			out = append(out, ev)
		case 6:
			ev := farmEvent("AdjustPool", who, p, 0)
			ev["rpb"] = chain.M{rdenoms[rng.Intn(len(rdenoms))]: rate}
			out = append(out, ev)
		case 7:
			out = append(out, farmEvent("DestroyPool", who, p, 0))
		default:
			nm := []string{"StakeOther", "UnstakeOther"}[rng.Intn(2)]
			ev := farmEvent(nm, who, p, int64(1+rng.Intn(2)))
			ev["lpt"] = e.oddDenom(rng)
			out = append(out, ev)
		}
	}
	return out
}

func (e *farmEnv) oddDenom(rng *rand.Rand) string {
	ds := append(append([]string{e.feeDen}, e.rdenoms...), oddDenoms...)
	return ds[rng.Intn(len(ds))]
}

// probeBurst: a life-cycle class first, then a pool of it, then one to three
// operations; in one burst of five on a live editable pool the transition
// itself (the creator's destroy) goes into the same block, ahead of the
// operations.
func (e *farmEnv) probeBurst(rng *rand.Rand) []chain.M {
	cl := e.classes()
	names := chain.SortedKeys(cl)
	if len(names) == 0 {
		return nil
	}
	c := names[rng.Intn(len(names))]
	p := cl[c][rng.Intn(len(cl[c]))]
	var out []chain.M
	pl, _ := poolsOf(e.last)[p].(chain.M)
	creator := chain.Str(pl, "creator")
	switch c {
	case "notStarted", "startsNext", "running", "runningEmpty", "startBlock", "lastBlock":
		if _, ok := e.c.Accts[creator]; ok && chain.Bool(pl, "editable") && rng.Intn(5) == 0 {
			out = append(out, farmEvent("DestroyPool", creator, p, 0))
		}
	}
	return append(out, e.probeOps(rng, p, creator, 1+rng.Intn(3))...)
}

// oddInput: one message with an identifier or denom of the wrong kind - a pool
// id that is a prefix / extension / other spelling of a real one or belongs to
// another kind of object, a staking coin that is not the staking token, a
// staking token that no liquidity pool stands behind, reward coins in denoms
// the pool does not pay.
func (e *farmEnv) oddInput(rng *rand.Rand, p string) chain.M {
	u := e.users[rng.Intn(len(e.users))]
	num := strings.TrimPrefix(p, "farm-")
	oddIDs := []string{"farm-", num, "farm-0" + num, p + "0", "Farm-" + num, "FARM-" + num, "farm-0", e.lp, " " + p, p[:len(p)-1]}
	switch rng.Intn(4) {
	case 0:
		id := oddIDs[rng.Intn(len(oddIDs))]
		who := e.roleUser(rng, p, probeRoles[rng.Intn(len(probeRoles))])
		switch rng.Intn(4) {
		case 0:
			return farmEvent("Stake", who, id, 1)
		case 1:
			amt := int64(1)
			if l := lockedOf(e.last, p, who); l > 0 {
				amt = l
			}
			return farmEvent("Unstake", who, id, amt)
		case 2:
			return farmEvent("Harvest", who, id, 0)
		}
		return farmEvent("DestroyPool", who, id, 0)
	case 1:
		who := e.roleUser(rng, p, []string{"staker", "any"}[rng.Intn(2)])
		nm := []string{"StakeOther", "UnstakeOther", "UnstakeOther"}[rng.Intn(3)]
		amt := int64(1 + rng.Intn(2))
		if l := lockedOf(e.last, p, who); l > 0 && nm == "UnstakeOther" {
			amt = l
		}
		ev := farmEvent(nm, who, p, amt)
		ev["lpt"] = e.oddDenom(rng)
		return ev
	case 2:
		ev := farmEvent("CreatePool", u, "", 0)
		d := e.rdenoms[rng.Intn(len(e.rdenoms))]
		r := int64(1 + rng.Intn(3))
		if e.mag {
			r = e.grain
		}
		ev["total"], ev["rpb"] = chain.M{d: r * 3}, chain.M{d: r}
		ev["lpt"] = append([]string{e.feeDen, e.rdenoms[0], "lpt-11", "lpt-", "lpt-0"}, oddDenoms...)[rng.Intn(5+len(oddDenoms))]
		ev["start"] = chain.Num(e.last, "h") + int64(rng.Intn(2))
		ev["editable"] = true
		switch rng.Intn(4) {
		case 0:
			// a staking token that exists, a start height that does not do: in the past, zero, or
			// so far ahead that the end height leaves int64
			ev["lpt"] = e.lp
			ev["start"] = []int64{chain.Num(e.last, "h") - 1, 0, 1}[rng.Intn(3)]
			if chain.Num(ev, "start") == 1 {
				ev["name"] = "CreatePoolFar"
			}
		}
		return ev
	}
	// the creator adjusts with coins the pool does not pay
	pl, _ := poolsOf(e.last)[p].(chain.M)
	rules, _ := pl["rules"].(chain.M)
	who := e.roleUser(rng, p, "creator")
	var cand []string
	for _, d := range append(append([]string{e.feeDen, e.lp}, e.rdenoms...), oddDenoms...) {
		if _, has := rules[d]; !has {
			cand = append(cand, d)
		}
	}
	ev := farmEvent("AdjustPool", who, p, 0)
	d := cand[rng.Intn(len(cand))]
	coins := chain.M{d: int64(1)}
	if rng.Intn(2) == 0 {
		// together with a denom the pool does pay
		for _, r := range chain.SortedKeys(rules) {
			coins[r] = int64(1)
			break
		}
	}
	if rng.Intn(2) == 0 {
		ev["total"] = coins
	} else {
		ev["rpb"] = coins
	}
	return ev
}

func farmInvariant(k farmkeeper.Keeper, ctx sdk.Context) (string, bool) {
	return farmkeeper.RewardInvariant(k)(ctx)
}
