package main

// Governance-funded farm pools (MsgCreatePoolWithCommunityPool): the wiring a
// host application adds, the projection of the governance side of the state,
// and the messages of the proposal life cycle.
//
// The repository's own application (e2e.AppConfig + simapp) does not provide
// what the path needs - the module account escrow_collector, the legacy
// proposal route of the farm module, its gov hooks - so with cfg gov=0 (the
// default) the message meets the application exactly as /repo builds it (the
// bank keeper panics: unknown module account).  With gov=1 the harness adds
// the three pieces the way a host application (irishub) does, through the
// application's own extension points; nothing in /repo is touched:
//   - depinject: a GovHooksWrapper and a v1beta1.HandlerRoute in the scope of
//     the farm module (the farm GovHook is written against the pre-0.50 hook
//     interface - sdk.Context, no error - and needs an adapter);
//   - the account keeper's permission table gets the escrow_collector entry.

import (
	"context"
	"encoding/json"
	"fmt"
	"math/rand"
	"os"
	"strconv"
	"time"

	"cosmossdk.io/collections"
	"cosmossdk.io/depinject"
	sdkmath "cosmossdk.io/math"
	storetypes "cosmossdk.io/store/types"
	cmtproto "github.com/cometbft/cometbft/proto/tendermint/types"
	sdk "github.com/cosmos/cosmos-sdk/types"
	authtypes "github.com/cosmos/cosmos-sdk/x/auth/types"
	distrtypes "github.com/cosmos/cosmos-sdk/x/distribution/types"
	govtypes "github.com/cosmos/cosmos-sdk/x/gov/types"
	govv1 "github.com/cosmos/cosmos-sdk/x/gov/types/v1"
	govv1beta1 "github.com/cosmos/cosmos-sdk/x/gov/types/v1beta1"

	"verif/harness/chain"

	"mods.irisnet.org/modules/farm"
	farmkeeper "mods.irisnet.org/modules/farm/keeper"
	farmtypes "mods.irisnet.org/modules/farm/types"
	"mods.irisnet.org/simapp"
)

const blockInterval = 5 * time.Second

// hookAdapter lifts the farm module's GovHook to the SDK 0.50 GovHooks interface.
type hookAdapter struct{ h farmkeeper.GovHook }

func (a hookAdapter) AfterProposalSubmission(ctx context.Context, id uint64) error {
	a.h.AfterProposalSubmission(sdk.UnwrapSDKContext(ctx), id)
	return nil
}
func (a hookAdapter) AfterProposalDeposit(ctx context.Context, id uint64, d sdk.AccAddress) error {
	a.h.AfterProposalDeposit(sdk.UnwrapSDKContext(ctx), id, d)
	return nil
}
func (a hookAdapter) AfterProposalVote(ctx context.Context, id uint64, v sdk.AccAddress) error {
	a.h.AfterProposalVote(sdk.UnwrapSDKContext(ctx), id, v)
	return nil
}
func (a hookAdapter) AfterProposalFailedMinDeposit(ctx context.Context, id uint64) error {
	a.h.AfterProposalFailedMinDeposit(sdk.UnwrapSDKContext(ctx), id)
	return nil
}
func (a hookAdapter) AfterProposalVotingPeriodEnded(ctx context.Context, id uint64) error {
	a.h.AfterProposalVotingPeriodEnded(sdk.UnwrapSDKContext(ctx), id)
	return nil
}

// ProvideFarmGovHooks / ProvideFarmGovRoute are depinject providers (exported, as depinject demands).
func ProvideFarmGovHooks(k farmkeeper.Keeper) govtypes.GovHooksWrapper {
	return govtypes.GovHooksWrapper{GovHooks: hookAdapter{farmkeeper.NewGovHook(k)}}
}

func ProvideFarmGovRoute(k farmkeeper.Keeper) govv1beta1.HandlerRoute {
	return govv1beta1.HandlerRoute{RouteKey: farmtypes.RouterKey, Handler: farm.NewProposalHandler(k)}
}

func farmGovWiring() depinject.Config {
	return depinject.ProvideInModule(farmtypes.ModuleName, ProvideFarmGovHooks, ProvideFarmGovRoute)
}

func farmEscrowAccount(app *simapp.SimApp) {
	perms := app.AccountKeeper.GetModulePermissions()
	if _, ok := perms[farmtypes.EscrowCollector]; !ok {
		perms[farmtypes.EscrowCollector] = authtypes.NewPermissionsForAddress(farmtypes.EscrowCollector, nil)
	}
}

// govGenesis sets short governance periods and small deposits (configuration).
func (e *farmEnv) govGenesis(c *chain.Chain, gs simapp.GenesisState) {
	cdc := c.App.AppCodec()
	var gg govv1.GenesisState
	cdc.MustUnmarshalJSON(gs[govtypes.ModuleName], &gg)
	p := gg.Params
	p.MinDeposit = sdk.NewCoins(sdk.NewInt64Coin(e.feeDen, e.minDep))
	p.ExpeditedMinDeposit = sdk.NewCoins(sdk.NewInt64Coin(e.feeDen, 2*e.minDep))
	dp, vp := time.Duration(e.govDP)*blockInterval, time.Duration(e.govVP)*blockInterval
	ex := vp / 2
	p.MaxDepositPeriod, p.VotingPeriod, p.ExpeditedVotingPeriod = &dp, &vp, &ex
	p.MinInitialDepositRatio = "0"
	p.MinDepositRatio = sdkmath.LegacyNewDec(e.thrNum).QuoInt64(e.thrDen).String()
	p.ProposalCancelRatio = sdkmath.LegacyNewDec(e.cNum).QuoInt64(e.cDen).String()
	p.ProposalCancelDest = ""
	p.BurnProposalDepositPrevote, p.BurnVoteQuorum, p.BurnVoteVeto = e.burnPre, e.burnQ, e.burnV
	gg.Params = p
	gs[govtypes.ModuleName] = cdc.MustMarshalJSON(&gg)
}

func (e *farmEnv) gaccounts() []string {
	return append([]string{"escrow", "gov"}, e.proposers...)
}

func (e *farmEnv) gbalOf(ctx sdk.Context, a, d string) sdkmath.Int {
	switch a {
	case "escrow":
		return e.c.Bal(ctx, chain.ModuleAddr(farmtypes.EscrowCollector), d)
	case "gov":
		return e.c.Bal(ctx, chain.ModuleAddr(govtypes.ModuleName), d)
	}
	return e.c.Bal(ctx, e.c.Accts[a].Addr, d)
}

var statusName = map[govv1.ProposalStatus]string{
	govv1.StatusDepositPeriod: "deposit", govv1.StatusVotingPeriod: "voting", govv1.StatusPassed: "passed",
	govv1.StatusRejected: "rejected", govv1.StatusFailed: "failed",
}

var voteName = map[govv1.VoteOption]string{
	govv1.OptionYes: "yes", govv1.OptionNo: "no", govv1.OptionNoWithVeto: "veto", govv1.OptionAbstain: "abstain",
}

func voteOption(s string) govv1.VoteOption {
	for k, v := range voteName {
		if v == s {
			return k
		}
	}
	return govv1.OptionEmpty
}

func (e *farmEnv) coinsM(cs sdk.Coins, bad *int) chain.M {
	out := chain.M{}
	for _, c := range cs {
		out[c.Denom] = e.denomAmt(c.Denom, c.Amount, bad)
	}
	return out
}

// projectGov reads the governance side of Farm.tla's state: the second balance
// sheet, the community pool, the gov parameters in model units, the proposals
// and the farm escrow records.
func (e *farmEnv) projectGov(ctx sdk.Context, out chain.M, inexact *int) {
	c := e.c
	gk := c.App.GovKeeper
	_, wired := c.App.AccountKeeper.GetModulePermissions()[farmtypes.EscrowCollector]
	out["wired"] = wired
	gbal := chain.M{}
	for _, a := range e.gaccounts() {
		row := chain.M{}
		for _, d := range e.denoms() {
			row[d] = e.denomAmt(d, e.gbalOf(ctx, a, d), inexact)
		}
		gbal[a] = row
	}
	out["gbal"] = gbal
	cp := chain.M{}
	fp, err := c.App.DistrKeeper.FeePool.Get(ctx)
	if err != nil {
		panic(err)
	}
	for _, d := range e.rdenoms {
		amt := fp.CommunityPool.AmountOf(d)
		if !amt.IsInteger() {
			*inexact++
		}
		cp[d] = e.div(amt.TruncateInt(), e.rk, inexact)
	}
	out["cp"] = cp
	params, err := gk.Params.Get(ctx)
	if err != nil {
		panic(err)
	}
	minDep := sdk.NewCoins(params.MinDeposit...).AmountOf(e.feeDen)
	ratio := sdkmath.LegacyMustNewDecFromStr(params.MinDepositRatio)
	if ratio.IsZero() || len(params.MinDeposit) != 1 {
		*inexact++ // the model assumes a deposit ratio and one deposit denom
	}
	per := func(d *time.Duration) int64 {
		if *d%blockInterval != 0 {
			*inexact++
		}
		return int64(*d / blockInterval)
	}
	md, _ := chain.Small(minDep)
	thr, _ := chain.Small(minDep.ToLegacyDec().Mul(ratio).TruncateInt())
	out["gov"] = chain.M{"minDep": md, "thr": thr, "dp": per(params.MaxDepositPeriod), "vp": per(params.VotingPeriod),
		"cnum": e.cNum, "cden": e.cDen, "burnPre": params.BurnProposalDepositPrevote,
		"burnQ": params.BurnVoteQuorum, "burnV": params.BurnVoteVeto}
	next, err := gk.ProposalID.Peek(ctx)
	if err != nil {
		panic(err)
	}
	out["pseq"] = int64(next) - 1
	props := chain.M{}
	realH, now := ctx.BlockHeight(), ctx.BlockTime()
	err = gk.Proposals.Walk(ctx, nil, func(id uint64, p govv1.Proposal) (bool, error) {
		pr := chain.M{"status": statusName[p.Status], "proposer": e.nameOf(p.Proposer), "vote": "none"}
		if pr["status"] == nil {
			pr["status"] = p.Status.String()
		}
		end := p.DepositEndTime
		if p.VotingEndTime != nil {
			end = p.VotingEndTime
		}
		dt := end.Sub(now)
		if dt%blockInterval != 0 {
			*inexact++
		}
		pr["due"] = realH + int64(dt/blockInterval)
		dep := chain.M{}
		rng := collections.NewPrefixedPairRange[uint64, sdk.AccAddress](id)
		if err := gk.Deposits.Walk(ctx, rng, func(_ collections.Pair[uint64, sdk.AccAddress], d govv1.Deposit) (bool, error) {
			v, ok := chain.Small(sdk.NewCoins(d.Amount...).AmountOf(e.feeDen))
			if !ok || len(d.Amount) > 1 {
				*inexact++
			}
			dep[e.nameOf(d.Depositor)] = v
			return false, nil
		}); err != nil {
			return true, err
		}
		pr["dep"] = dep
		if v, err := gk.Votes.Get(ctx, collections.Join(id, c.Accts[chain.ProbeName].Addr)); err == nil && len(v.Options) == 1 {
			pr["vote"] = voteName[v.Options[0].Option]
		}
		pr["lpt"], pr["rpb"], pr["applied"], pr["bond"] = "", chain.M{}, chain.M{}, chain.M{}
		if msgs, err := p.GetMsgs(); err == nil && len(msgs) == 1 {
			if lm, ok := msgs[0].(*govv1.MsgExecLegacyContent); ok {
				if ct, err := govv1.LegacyContentFromMessage(lm); err == nil {
					if fp, ok := ct.(*farmtypes.CommunityPoolCreateFarmProposal); ok {
						pr["lpt"] = fp.LptDenom
						pr["rpb"] = e.coinsM(fp.RewardPerBlock, inexact)
						pr["applied"] = e.coinsM(fp.FundApplied, inexact)
						pr["bond"] = e.coinsM(fp.FundSelfBond, inexact)
					}
				}
			}
		}
		props[strconv.FormatUint(id, 10)] = pr
		return false, nil
	})
	if err != nil {
		panic(err)
	}
	out["props"] = props
	esc := chain.M{}
	for _, info := range c.K.Farm.GetAllEscrowInfo(ctx) {
		esc[strconv.FormatUint(info.ProposalId, 10)] = chain.M{"proposer": e.nameOf(info.Proposer),
			"applied": e.coinsM(info.FundApplied, inexact), "bond": e.coinsM(info.FundSelfBond, inexact)}
	}
	out["esc"] = esc
}

func pidOf(s string) uint64 {
	n, err := strconv.ParseUint(s, 10, 64)
	if err != nil {
		return 0
	}
	return n
}

// govMsgOf maps the governance events of Farm.tla to real messages.
func (e *farmEnv) govMsgOf(ev chain.M, addr string) sdk.Msg {
	switch chain.Str(ev, "name") {
	case "CreatePoolCP":
		var dep sdk.Coins
		if n := chain.Num(ev, "amt"); n != 0 {
			dep = sdk.Coins{sdk.Coin{Denom: e.feeDen, Amount: sdkmath.NewInt(n)}}
		}
		return &farmtypes.MsgCreatePoolWithCommunityPool{
			Content: farmtypes.CommunityPoolCreateFarmProposal{
				Title: "t", Description: "d", PoolDescription: "p", LptDenom: chain.Str(ev, "lpt"),
				RewardPerBlock: e.coins(chain.Obj(ev, "rpb")), FundApplied: e.coins(chain.Obj(ev, "total")),
				FundSelfBond: e.coins(chain.Obj(ev, "bond")),
			},
			InitialDeposit: dep, Proposer: addr,
		}
	case "Deposit":
		return &govv1.MsgDeposit{ProposalId: pidOf(chain.Str(ev, "pool")), Depositor: addr,
			Amount: []sdk.Coin{{Denom: e.feeDen, Amount: sdkmath.NewInt(chain.Num(ev, "amt"))}}}
	case "Vote":
		return &govv1.MsgVote{ProposalId: pidOf(chain.Str(ev, "pool")), Voter: addr, Option: voteOption(chain.Str(ev, "lpt"))}
	case "CancelProposal":
		return &govv1.MsgCancelProposal{ProposalId: pidOf(chain.Str(ev, "pool")), Proposer: addr}
	}
	return nil
}

func isGovEvent(name string) bool {
	switch name {
	case "CreatePoolCP", "Deposit", "Vote", "CancelProposal":
		return true
	}
	return false
}

// fundCommunityPool: setup transaction of the account "cpsrc".
func (e *farmEnv) fundCommunityPoolTx() chain.Tx {
	var cs sdk.Coins
	for _, d := range e.rdenoms {
		cs = append(cs, e.coins(map[string]int64{d: e.initCP})...)
	}
	return chain.Tx{Signer: "cpsrc", Msgs: []sdk.Msg{
		distrtypes.NewMsgFundCommunityPool(sdk.NewCoins(cs...), e.c.Accts["cpsrc"].Addr.String())}}
}

// randomGov picks one governance event from the last observed state: mostly
// enabled ones (deposits on live proposals, votes in the voting period,
// cancellations by the proposer), some deliberately not.
func (e *farmEnv) randomGov(rng *rand.Rand, maxProps int) chain.M {
	props := e.last["props"].(chain.M)
	ids := chain.SortedKeys(props)
	var live, voting []string
	for _, i := range ids {
		switch props[i].(chain.M)["status"].(string) {
		case "deposit":
			live = append(live, i)
		case "voting":
			live, voting = append(live, i), append(voting, i)
		}
	}
	g := e.proposers[rng.Intn(len(e.proposers))]
	anyID := func(pref []string) string {
		if len(pref) > 0 && rng.Intn(6) > 0 {
			return pref[rng.Intn(len(pref))]
		}
		return strconv.Itoa(1 + rng.Intn(int(e.last["pseq"].(int64))+2))
	}
	canCreate := int(e.last["pseq"].(int64)) < maxProps
	var unvoted, depositing []string
	for _, i := range live {
		pr := props[i].(chain.M)
		if pr["status"] == "voting" && pr["vote"] == "none" {
			unvoted = append(unvoted, i)
		}
		if pr["status"] == "deposit" {
			depositing = append(depositing, i)
		}
	}
	x := rng.Intn(10)
	// keep the life cycle moving (one pick in eight stays as drawn and is often
	// refused on purpose): vote where a vote is missing, top up what is still
	// collecting deposits, submit when nothing is pending
	if rng.Intn(8) > 0 {
		switch {
		case len(unvoted) > 0 && rng.Intn(3) > 0:
			x, voting = 5, unvoted
		case len(depositing) > 0 && rng.Intn(2) > 0:
			x, live = 3, depositing
		case len(live) == 0 && canCreate:
			x = 0
		case len(live) == 0:
			return nil
		case len(voting) == 0 && x >= 4 && x < 9:
			x = 3
		}
	}
	switch {
	case x < 3 && canCreate:
		ev := farmEvent("CreatePoolCP", g, "", []int64{0, 1, 2, 3, 4, 5}[rng.Intn(6)])
		if rng.Intn(3) > 0 {
			ev["amt"] = []int64{2, 4}[rng.Intn(2)]
		}
		ev["lpt"] = e.lp
		tot, bond, rpb := chain.M{}, chain.M{}, chain.M{}
		perm := rng.Perm(len(e.rdenoms))
		na := 1 + rng.Intn(len(perm))
		for k, di := range perm {
			d := e.rdenoms[di]
			r := int64(1 + rng.Intn(3))
			amt := r*int64(1+rng.Intn(4)) + int64(rng.Intn(int(r)))
			if e.mag {
				r = e.grain * int64(1+rng.Intn(3))
				amt = r*int64(4+rng.Intn(30)) + int64(rng.Intn(int(r)))
			}
			if rng.Intn(12) == 0 {
				amt = r - 1 // budget below one block's reward: refused
			}
			if k < na {
				tot[d] = amt
			} else if rng.Intn(2) == 0 {
				bond[d] = amt
			} else {
				continue
			}
			rpb[d] = r
		}
		if rng.Intn(15) == 0 && len(bond) == 0 {
			for d, v := range tot { // the same denom applied for and bonded: refused
				bond[d] = v
				break
			}
		}
		ev["total"], ev["bond"], ev["rpb"] = tot, bond, rpb
		return ev
	case x < 4:
		return farmEvent("Deposit", g, anyID(live), int64(1+rng.Intn(4)))
	case x < 9:
		ev := farmEvent("Vote", "val", anyID(voting), 0)
		ev["lpt"] = []string{"yes", "yes", "yes", "no", "veto", "abstain"}[rng.Intn(6)]
		return ev
	default:
		i := anyID(live)
		who := g
		if pr, ok := props[i].(chain.M); ok && rng.Intn(4) > 0 {
			who = pr["proposer"].(string)
		}
		return farmEvent("CancelProposal", who, i, 0)
	}
}

// reimport: an as-is genesis round trip between two blocks.  The committed
// state is exported, a fresh application (built the same way) is initialised
// from it with the next height as its initial height, and the history goes on
// there.  The logged state is the projection of the imported application; the
// specification says the round trip changes nothing (queue rebuilt, escrow
// records, proposals, balances and the community pool as they were).
func (e *farmEnv) reimport(w *chain.TraceWriter) (alive bool) {
	ev := farmEvent("Reimport", "", "", 0)
	old := e.c
	if old.App.LastBlockHeight() < old.Height {
		// nothing committed since the last import (two round trips without a
		// block in between): there is no committed state to export yet
		return true
	}
	gs, err := old.ExportGenesis(false, nil)
	var bz []byte
	if err == nil {
		bz, err = json.Marshal(gs)
	}
	var nc *chain.Chain
	if err == nil {
		func() {
			defer func() {
				if r := recover(); r != nil {
					err = fmt.Errorf("import refused: %v", r)
				}
			}()
			o := e.opts
			o.MutateGenesis, o.GenesisBytes = nil, bz
			o.InitialHeight, o.GenesisTime, o.NoFirstBlock = old.Height+1, old.Time, true
			nc = chain.New(o)
		}()
	}
	if err != nil {
		if os.Getenv("VERIF_DEBUG") != "" {
			fmt.Fprintln(os.Stderr, "reimport:", err)
		}
		ev["ok"] = false
		w.Write(ev, e.last)
		return false
	}
	for n, a := range old.Accts {
		nc.Accts[n].Num, nc.Accts[n].Seq = a.Num, a.Seq
	}
	nc.Project = old.Project
	e.c = nc
	// the imported state lives in the finalize-block branch until the first block commits
	ctx := nc.App.NewContextLegacy(false, cmtproto.Header{ChainID: chain.ChainID, Height: nc.Height, Time: nc.Time}).
		WithGasMeter(storetypes.NewInfiniteGasMeter())
	st := e.withDonated(e.project(ctx))
	w.Write(ev, st)
	e.last = st.(chain.M)
	return true
}
