package main

import "verif/harness/chain"

// providersFor selects the dependency-injection providers a recording was made
// with (the token driver uses its own transactional ERC20 ledger).
func providersFor(profile string, o *chain.Options) {
	_ = profile
}
