package main

import (
	"verif/harness/chain"
	"verif/harness/evmledger"
)

// providersFor selects the dependency-injection providers a recording was made
// with.  The token driver replaces the repository's non-transactional mock EVM
// by the transactional in-memory ERC20 ledger; its recordings must be replayed
// (and re-imported) with the same provider, a fresh instance per application.
func providersFor(profile string, o *chain.Options) {
	if profile == "harness-token" {
		l := evmledger.New()
		o.EVM = l
		o.ICS20 = l.ICS20()
	}
}
