// Command harness-replica (C11): replays recorded histories (.rec files written
// by any module driver under VERIF_RECORD_DIR) on several replicas of the real
// application according to a schedule (TLC-generated from Replica.tla, or
// seeded random), with restarts between blocks and genesis exports, and logs
// what each replica computed at each height.
package main

import (
	"crypto/sha256"
	"encoding/hex"
	"encoding/json"
	"fmt"
	"math/rand"
	"os"
	"path/filepath"
	"sort"
	"strings"
	"time"

	sdk "github.com/cosmos/cosmos-sdk/types"

	"verif/harness/chain"
	"verif/harness/drv"

	htlc "mods.irisnet.org/modules/htlc"
	oracle "mods.irisnet.org/modules/oracle"
	random "mods.irisnet.org/modules/random"
	service "mods.irisnet.org/modules/service"
)

func main() { drv.Main("replica", driver) }

type replica struct {
	c    *chain.Chain
	next int // index of the next recorded block
}

func newReplica(rec *chain.Recording) *replica {
	c := chain.New(optionsFor(rec))
	return &replica{c: c}
}

func optionsFor(rec *chain.Recording) chain.Options {
	o := chain.Options{
		GenesisBytes:  rec.GenesisBytes(),
		GenesisTime:   time.Unix(0, rec.Header.GenesisUnixNs).UTC(),
		InitialHeight: rec.Header.InitialHeight,
		NoFirstBlock:  true,
		NoPostHandler: true,
	}
	providersFor(rec.Header.Profile, &o)
	return o
}

func hashOf(parts ...[]byte) string {
	h := sha256.New()
	for _, p := range parts {
		h.Write(p)
		h.Write([]byte{0})
	}
	return hex.EncodeToString(h.Sum(nil))[:32]
}

// ZeroHeightPrep runs the irismod modules' own prepare-for-zero-height steps.
func ZeroHeightPrep(c *chain.Chain) func(ctx sdk.Context) {
	return func(ctx sdk.Context) {
		htlc.PrepForZeroHeightGenesis(ctx, c.K.HTLC)
		random.PrepForZeroHeightGenesis(ctx, c.K.Random)
		service.PrepForZeroHeightGenesis(ctx, c.K.Service)
		oracle.PrepForZeroHeightGenesis(ctx, c.K.Oracle)
	}
}

func exportHash(c *chain.Chain, zero bool) (string, string) {
	gs, err := c.ExportGenesis(zero, ZeroHeightPrep(c))
	if err != nil {
		return "", err.Error()
	}
	// hash module by module in name order over the bytes as exported (any
	// instability of the bytes is exactly what C11 is about)
	names := make([]string, 0, len(gs))
	for n := range gs {
		names = append(names, n)
	}
	sort.Strings(names)
	h := sha256.New()
	for _, n := range names {
		h.Write([]byte(n))
		h.Write(gs[n])
	}
	return hex.EncodeToString(h.Sum(nil))[:32], ""
}

func exportPerModule(c *chain.Chain, zero bool) map[string]string {
	out := map[string]string{}
	gs, err := c.ExportGenesis(zero, ZeroHeightPrep(c))
	if err != nil {
		return out
	}
	for n, bz := range gs {
		out[n] = hashOf(bz)[:12]
	}
	return out
}

func ev(name, r string, h int64) chain.M {
	return chain.M{"name": name, "r": r, "h": h, "halt": false, "app": "", "store": "", "results": "",
		"ntx": int64(0), "gen1": "", "gen2": "", "zh1": "", "zh2": "", "err": "", "stores": chain.M{}, "rec": "", "proc": ""}
}

type runner struct {
	rec  *chain.Recording
	reps map[string]*replica
	w    *chain.TraceWriter
	proc string
}

func (x *runner) get(r string) *replica {
	if rp, ok := x.reps[r]; ok {
		return rp
	}
	rp := newReplica(x.rec)
	x.reps[r] = rp
	return rp
}

func (x *runner) exec(r string) bool {
	rp := x.get(r)
	if rp.next >= len(x.rec.Blocks) {
		return false
	}
	b := x.rec.Blocks[rp.next]
	rp.next++
	for _, a := range b.Authority {
		rp.c.AuthorityJSON(a)
	}
	raw := b.RawTxs()
	if strings.HasSuffix(r, "2") && rp.next > 1 {
		// Every second replica is a node that also serves gas estimation: before it executes
		// the block it SIMULATES the block's transactions, last first, each on the committed
		// state of the previous block.  Simulation runs the message handlers on a throw-away
		// branch; on a correct node it leaves no trace (C11: nothing depends on process-local
		// caches), so all replicas must still agree.
		for i := len(raw) - 1; i >= 0; i-- {
			func() {
				defer func() { _ = recover() }()
				_, _, err := rp.c.App.Simulate(raw[i])
				if os.Getenv("VERIF_DEBUG") != "" {
					fmt.Fprintln(os.Stderr, "simulate", b.Height, i, err)
				}
			}()
		}
	}
	res := rp.c.RunRawBlock(b.Height, time.Unix(0, b.UnixNs).UTC(), raw)
	e := ev("Exec", x.proc+r, b.Height)
	e["ntx"] = int64(len(raw))
	e["rec"] = filepath.Base(x.rec.Path)
	e["proc"] = x.proc
	if res.Halt {
		e["halt"] = true
		e["err"] = res.HaltMsg
	} else {
		e["app"] = hex.EncodeToString(res.AppHash)[:32]
		e["store"] = rp.c.StoreDigest()[:32]
		e["results"] = chain.ResultsDigest(res.Txs)[:32]
		st := chain.M{}
		for k, v := range rp.c.PerStoreDigest() {
			st[k] = v
		}
		e["stores"] = st
	}
	x.w.Write(e, chain.M{})
	return true
}

// live emits what the recording run itself computed, as replica "live": it ran
// at an earlier wall-clock time, in another process, with the post handler on.
func (x *runner) live() {
	for _, b := range x.rec.Blocks {
		if b.App == "" && !b.Halt {
			continue
		}
		e := ev("Exec", "live", b.Height)
		e["ntx"] = int64(len(b.Txs))
		e["rec"] = filepath.Base(x.rec.Path)
		e["halt"] = b.Halt
		if !b.Halt {
			e["app"], e["store"], e["results"] = b.App[:32], b.Store[:32], b.Results[:32]
		}
		x.w.Write(e, chain.M{})
	}
}

func (x *runner) restart(r string) {
	rp := x.get(r)
	if rp.next == 0 || rp.next >= len(x.rec.Blocks) {
		return
	}
	rp.c = rp.c.Restart()
	x.w.Write(ev("Restart", x.proc+r, rp.c.Height), chain.M{})
}

func (x *runner) export(r string) {
	rp := x.get(r)
	if rp.next == 0 {
		return
	}
	e := ev("Export", x.proc+r, rp.c.Height)
	var err1, err2 string
	e["gen1"], err1 = exportHash(rp.c, false)
	e["gen2"], _ = exportHash(rp.c, false)
	e["zh1"], err2 = exportHash(rp.c, true)
	e["zh2"], _ = exportHash(rp.c, true)
	e["err"] = err1 + err2
	st := chain.M{}
	for k, v := range exportPerModule(rp.c, false) {
		st[k] = v
	}
	e["stores"] = st
	x.w.Write(e, chain.M{})
}

func (x *runner) finish() {
	names := make([]string, 0, len(x.reps))
	for n := range x.reps {
		names = append(names, n)
	}
	sort.Strings(names)
	for _, n := range names {
		for x.exec(n) {
		}
	}
	for _, n := range names {
		x.export(n)
	}
}

func driver(mode string, fl *drv.Flags) error {
	w := chain.NewTraceWriter(fl.Out)
	defer w.Close()
	recs := strings.Split(fl.CfgStr("rec", ""), ":")
	proc := fl.CfgStr("proc", "")
	noInit := fl.CfgInt("noinit", 0) == 1
	for _, rp := range recs {
		if rp == "" {
			continue
		}
		rec, err := chain.ReadRecording(rp)
		if err != nil {
			return err
		}
		var schedules [][]chain.M
		switch mode {
		case "replay":
			schedules = chain.ReadBehaviours(fl.In)
		case "random":
			rng := rand.New(rand.NewSource(fl.Seed))
			for i := 0; i < fl.N; i++ {
				schedules = append(schedules, randomSchedule(rng, len(rec.Blocks)))
			}
		default:
			return fmt.Errorf("unknown mode %q", mode)
		}
		for si, sch := range schedules {
			x := &runner{rec: rec, reps: map[string]*replica{}, w: w, proc: proc}
			if !(noInit && si == 0) {
				init := ev("Init", "", 0)
				init["rec"] = filepath.Base(rp)
				w.Write(init, chain.M{})
			}
			x.live()
			for _, s := range sch {
				r := chain.Str(s, "r")
				switch chain.Str(s, "name") {
				case "Exec":
					x.exec(r)
				case "Restart":
					x.restart(r)
				case "Export":
					x.export(r)
				}
			}
			x.finish()
		}
	}
	return nil
}

// randomSchedule: r1 runs straight through; r2 restarts at random boundaries;
// r3 interleaves with both, restarting and exporting at random points.
func randomSchedule(rng *rand.Rand, n int) []chain.M {
	var out []chain.M
	left := map[string]int{"r1": n, "r2": n, "r3": n}
	names := []string{"r1", "r2", "r3"}
	for left["r1"]+left["r2"]+left["r3"] > 0 {
		r := names[rng.Intn(3)]
		if left[r] == 0 {
			continue
		}
		out = append(out, chain.M{"name": "Exec", "r": r})
		left[r]--
		if r != "r1" && rng.Intn(4) == 0 {
			out = append(out, chain.M{"name": "Restart", "r": r})
		}
		if rng.Intn(8) == 0 {
			out = append(out, chain.M{"name": "Export", "r": r})
		}
	}
	return out
}

var _ = json.Marshal
