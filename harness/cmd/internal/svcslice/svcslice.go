// Package svcslice is the part of the harness that the oracle and random
// drivers share: the slice of the service module those two modules observe
// (request contexts with their batches, requests and responses, bindings,
// earned fees, the service escrow accounts), projected into the abstract state
// of Oracle.tla / Random.tla, plus the set-up of service definitions, bindings
// and parameters on the real chain.
//
// It only reads the service keeper and store; it never writes state.
package svcslice

import (
	"encoding/hex"
	"fmt"
	"sort"

	sdkmath "cosmossdk.io/math"
	storetypes "cosmossdk.io/store/types"
	tmbytes "github.com/cometbft/cometbft/libs/bytes"
	sdk "github.com/cosmos/cosmos-sdk/types"
	gogotypes "github.com/cosmos/gogoproto/types"

	"verif/harness/chain"

	servicetypes "mods.irisnet.org/modules/service/types"
	"mods.irisnet.org/simapp"
)

// Denom is the service base denom (fees, deposits).
const Denom = "stake"

// Options for the service genesis.
type Options struct {
	MaxTimeout     int64
	TaxNum, TaxDen int64 // service fee tax as a rational
	Definitions    []servicetypes.ServiceDefinition
	Bindings       []servicetypes.ServiceBinding // genesis bindings (module services)
}

// MutateGenesis shrinks the service parameters (deposits of a few units, short
// timeouts, no slashing) and adds service definitions.
func MutateGenesis(c *chain.Chain, gs simapp.GenesisState, o Options) {
	cdc := c.App.AppCodec()
	var sg servicetypes.GenesisState
	cdc.MustUnmarshalJSON(gs[servicetypes.ModuleName], &sg)
	sg.Params.MaxRequestTimeout = o.MaxTimeout
	sg.Params.MinDepositMultiple = 1
	sg.Params.MinDeposit = sdk.NewCoins(sdk.NewInt64Coin(Denom, 1))
	sg.Params.ServiceFeeTax = sdkmath.LegacyNewDec(o.TaxNum).QuoInt64(o.TaxDen)
	sg.Params.SlashFraction = sdkmath.LegacyZeroDec()
	sg.Params.BaseDenom = Denom
	sg.Definitions = append(sg.Definitions, o.Definitions...)
	sg.Bindings = append(sg.Bindings, o.Bindings...)
	gs[servicetypes.ModuleName] = cdc.MustMarshalJSON(&sg)
}

// BindMsg binds provider to service at the given price.
func BindMsg(c *chain.Chain, service, provider string, price, deposit, qos int64) sdk.Msg {
	addr := c.Accts[provider].Addr.String()
	return &servicetypes.MsgBindService{
		ServiceName: service, Provider: addr, Owner: addr,
		Deposit: sdk.NewCoins(sdk.NewInt64Coin(Denom, deposit)),
		Pricing: fmt.Sprintf(`{"price":"%d%s"}`, price, Denom),
		QoS:     uint64(qos), Options: "{}",
	}
}

// Env names accounts and request contexts.
type Env struct {
	C        *chain.Chain
	Service  string            // the service whose bindings are projected
	Names    map[string]string // bech32 -> account name
	Provs    []string          // provider account names
	CtxNames map[string]string // hex context id -> "c<n>"
	CtxIDs   map[string][]byte // "c<n>" -> context id
	NCtx     int64
	// LastReq remembers the id of the last request seen per context and provider,
	// so that a driver can answer it after the service module cleaned it up.
	LastReq map[string]string
	// RenderOutput turns a stored response output into the module's abstract
	// response record (kind, x).
	RenderOutput func(output string) (kind string, x int64)
	saved        *ckpt
}

func NewEnv(c *chain.Chain, service string, provs []string) *Env {
	e := &Env{C: c, Service: service, Names: map[string]string{}, Provs: provs,
		CtxNames: map[string]string{}, CtxIDs: map[string][]byte{}, LastReq: map[string]string{}}
	for n, a := range c.Accts {
		e.Names[a.Addr.String()] = n
	}
	c.BundleHook = e.bundleHook
	return e
}

// bundleHook keeps the naming of contexts (assigned in order of first appearance in a
// projection) independent of projections taken inside a bundled transaction that is rolled
// back afterwards (chain.BundlePct).
func (e *Env) bundleHook(phase string) {
	switch phase {
	case "start":
		k := &ckpt{names: map[string]string{}, ids: map[string][]byte{}, last: map[string]string{}, n: e.NCtx}
		for a, b := range e.CtxNames {
			k.names[a] = b
		}
		for a, b := range e.CtxIDs {
			k.ids[a] = b
		}
		for a, b := range e.LastReq {
			k.last[a] = b
		}
		e.saved = k
	case "abort":
		if e.saved != nil {
			e.CtxNames, e.CtxIDs, e.LastReq, e.NCtx = e.saved.names, e.saved.ids, e.saved.last, e.saved.n
			e.saved = nil
		}
	}
}

type ckpt struct {
	names map[string]string
	ids   map[string][]byte
	last  map[string]string
	n     int64
}

func (e *Env) NameOf(bech string) string {
	if n, ok := e.Names[bech]; ok {
		return n
	}
	return bech
}

// Rank is an integer that orders context ids like their bytes do (the store
// iterates the batch queues in id order): the first 30 bits of the id.
func Rank(id []byte) int64 {
	if len(id) < 4 {
		return 0
	}
	return int64(uint32(id[0])<<24|uint32(id[1])<<16|uint32(id[2])<<8|uint32(id[3])) >> 2
}

func small(i sdkmath.Int) int64 {
	v, ok := chain.Small(i)
	if !ok {
		panic("amount out of TLC range: " + i.String())
	}
	return v
}

func stateName(s servicetypes.RequestContextState) string {
	switch s {
	case servicetypes.RUNNING:
		return "running"
	case servicetypes.PAUSED:
		return "paused"
	}
	return "completed"
}

func (e *Env) store(ctx sdk.Context) storetypes.KVStore {
	return ctx.KVStore(e.C.App.UnsafeFindStoreKey(servicetypes.StoreKey))
}

func (e *Env) heightMarker(ctx sdk.Context, key []byte) int64 {
	bz := e.store(ctx).Get(key)
	if bz == nil {
		return 0
	}
	var v gogotypes.Int64Value
	e.C.App.AppCodec().MustUnmarshal(bz, &v)
	return v.Value
}

// queueEntries scans a batch queue (prefix | height(8) | context id).
func (e *Env) queueEntries(ctx sdk.Context, prefix []byte) map[string][]int64 {
	out := map[string][]int64{}
	it := storetypes.KVStorePrefixIterator(e.store(ctx), prefix)
	defer it.Close()
	for ; it.Valid(); it.Next() {
		k := it.Key()[len(prefix):]
		h := int64(sdk.BigEndianToUint64(k[:8]))
		id := hex.EncodeToString(k[8:])
		out[id] = append(out[id], h)
	}
	return out
}

// Request is one request of a context's current batch.
type Request struct {
	ID       []byte
	Provider string
}

// Requests returns the requests of the current batch of the named context (in
// store order = provider index order).
func (e *Env) Requests(ctx sdk.Context, cname string) []Request {
	id, ok := e.CtxIDs[cname]
	if !ok {
		return nil
	}
	rc, found := e.C.K.Service.GetRequestContext(ctx, id)
	if !found {
		return nil
	}
	return e.RequestsAt(ctx, cname, rc.BatchCounter)
}

// RequestsAt returns the requests stored for a given batch counter of the context.
func (e *Env) RequestsAt(ctx sdk.Context, cname string, counter uint64) []Request {
	id, ok := e.CtxIDs[cname]
	if !ok {
		return nil
	}
	k := e.C.K.Service
	var out []Request
	it := k.RequestsIteratorByReqCtx(ctx, id, counter)
	defer it.Close()
	for ; it.Valid(); it.Next() {
		rid := append([]byte{}, it.Key()[1:]...)
		var cr servicetypes.CompactRequest
		e.C.App.AppCodec().MustUnmarshal(it.Value(), &cr)
		out = append(out, Request{ID: rid, Provider: e.NameOf(cr.Provider)})
	}
	return out
}

// RequestID returns the id of provider's request in the context's current
// batch, or a well-formed id that names no request.
func (e *Env) RequestID(ctx sdk.Context, cname, provider string) string {
	rs := e.Requests(ctx, cname)
	for _, r := range rs {
		if r.Provider == provider {
			return hex.EncodeToString(r.ID)
		}
	}
	if len(rs) > 0 {
		// somebody else's request: the code must reject the wrong provider
		return hex.EncodeToString(rs[0].ID)
	}
	if id, ok := e.LastReq[cname+"/"+provider]; ok {
		return id // a request that existed once (expired and cleaned up by now)
	}
	return fmt.Sprintf("%0*d", servicetypes.RequestIDLen, 0)
}

// Project reads contexts, bindings and earned fees.  Contexts are named c1, c2,
// ... in order of first appearance.
func (e *Env) Project(ctx sdk.Context) (ctxs chain.M, bind chain.M, earned chain.M, qBad int64) {
	k := e.C.K.Service
	cdc := e.C.App.AppCodec()
	ctxs = chain.M{}
	type item struct {
		id []byte
		rc servicetypes.RequestContext
	}
	var items []item
	k.IterateRequestContexts(ctx, func(id tmbytes.HexBytes, rc servicetypes.RequestContext) bool {
		items = append(items, item{append([]byte{}, id...), rc})
		return false
	})
	newQ := e.queueEntries(ctx, servicetypes.NewRequestBatchKey)
	expQ := e.queueEntries(ctx, servicetypes.ExpiredRequestBatchKey)
	seen := map[string]bool{}
	for _, it := range items {
		hx := hex.EncodeToString(it.id)
		seen[hx] = true
		name, ok := e.CtxNames[hx]
		if !ok {
			e.NCtx++
			name = fmt.Sprintf("c%d", e.NCtx)
			e.CtxNames[hx] = name
			e.CtxIDs[name] = it.id
		}
		rc := it.rc
		newAt := e.heightMarker(ctx, servicetypes.GetNewRequestBatchHeightKey(it.id))
		expAt := e.heightMarker(ctx, servicetypes.GetExpiredRequestBatchHeightKey(it.id))
		if !sameQueue(newQ[hx], newAt) || !sameQueue(expQ[hx], expAt) {
			qBad++
		}
		provs := []any{}
		for _, p := range rc.Providers {
			provs = append(provs, e.NameOf(p))
		}
		reqs := chain.M{}
		rit := k.RequestsIteratorByReqCtx(ctx, it.id, rc.BatchCounter)
		for ; rit.Valid(); rit.Next() {
			rid := rit.Key()[1:]
			var cr servicetypes.CompactRequest
			cdc.MustUnmarshal(rit.Value(), &cr)
			kind, x := "none", int64(0)
			if resp, found := k.GetResponse(ctx, rid); found {
				if len(resp.Output) == 0 {
					kind = "err"
				} else if e.RenderOutput != nil {
					kind, x = e.RenderOutput(resp.Output)
				} else {
					kind = "out"
				}
			}
			e.LastReq[name+"/"+e.NameOf(cr.Provider)] = hex.EncodeToString(rid)
			reqs[e.NameOf(cr.Provider)] = chain.M{
				"fee": small(cr.ServiceFee.AmountOf(Denom)), "act": k.IsRequestActive(ctx, rid),
				"kind": kind, "x": x, "exp": cr.ExpirationHeight,
			}
		}
		rit.Close()
		ctxs[name] = chain.M{
			"consumer": e.NameOf(rc.Consumer), "provs": provs, "state": stateName(rc.State),
			"cap": small(rc.ServiceFeeCap.AmountOf(Denom)), "timeout": rc.Timeout,
			"rep": rc.Repeated, "freq": int64(rc.RepeatedFrequency), "thr": int64(rc.ResponseThreshold),
			"bdone": rc.BatchState == servicetypes.BATCHCOMPLETED, "bcount": int64(rc.BatchCounter),
			"reqN": int64(rc.BatchRequestCount), "respN": int64(rc.BatchResponseCount),
			"bthr": int64(rc.BatchResponseThreshold), "newAt": newAt, "expAt": expAt,
			"rank": Rank(it.id), "reqs": reqs,
		}
	}
	// queue entries of contexts that no longer exist
	for hx := range newQ {
		if !seen[hx] {
			qBad++
		}
	}
	for hx := range expQ {
		if !seen[hx] {
			qBad++
		}
	}
	bind = chain.M{}
	earned = chain.M{}
	for _, p := range e.Provs {
		addr := e.C.Accts[p].Addr
		if b, found := k.GetServiceBinding(ctx, e.Service, addr); found {
			pr := k.GetPricing(ctx, e.Service, addr)
			bind[p] = chain.M{"avail": b.Available, "price": small(pr.Price.AmountOf(Denom)), "qos": int64(b.QoS)}
		}
		fees, _ := k.GetEarnedFees(ctx, addr)
		earned[p] = small(fees.AmountOf(Denom))
	}
	return ctxs, bind, earned, qBad
}

func sameQueue(entries []int64, marker int64) bool {
	if marker == 0 {
		return len(entries) == 0
	}
	return len(entries) == 1 && entries[0] == marker
}

// Balances of the closed account universe in the service denom.
func (e *Env) Balances(ctx sdk.Context, users []string) chain.M {
	c := e.C
	bal := chain.M{}
	for _, u := range users {
		bal[u] = chain.M{Denom: small(c.Bal(ctx, c.Accts[u].Addr, Denom))}
	}
	bal["svcreq"] = chain.M{Denom: small(c.Bal(ctx, chain.ModuleAddr(servicetypes.RequestAccName), Denom))}
	bal["svcdep"] = chain.M{Denom: small(c.Bal(ctx, chain.ModuleAddr(servicetypes.DepositAccName), Denom))}
	// the application wires the service module's own collector account (tax, slashing)
	bal["svctax"] = chain.M{Denom: small(c.Bal(ctx, chain.ModuleAddr(servicetypes.FeeCollectorName), Denom))}
	return bal
}

// SortedCtx returns the context names of a projected map ordered by rank.
func SortedCtx(ctxs chain.M) []string {
	ks := chain.SortedKeys(ctxs)
	sort.SliceStable(ks, func(i, j int) bool {
		return ctxs[ks[i]].(chain.M)["rank"].(int64) < ctxs[ks[j]].(chain.M)["rank"].(int64)
	})
	return ks
}
