package main

import (
	"fmt"
	"math/rand"
	"sort"

	"verif/harness/chain"
	"verif/harness/drv"
)

// htlcRandom runs one seeded random history at real block granularity: bursts
// of creates and claims, fast-forwards to just before the next expiry, claims
// in the last block before and in the very block of the expiry, several
// contracts per expiry height, block-time steps that cross the limit window,
// parameter changes between blocks.  Events are generated from the last
// observed state so that most are enabled and some deliberately are not.
// Two blocks in five also carry 1-3 negative probes (probe): every message
// type on contracts in every life-cycle state, by every role, with identifiers
// and coins of the wrong kind (cfg noprobe=1 switches them off).
type rgen struct {
	e       *htlcEnv
	rng     *rand.Rand
	created []chain.M // earlier Create events (for duplicates)
	seq     int
}

func (g *rgen) pick(xs []string) string { return xs[g.rng.Intn(len(xs))] }

func (g *rgen) htlcs() (chain.M, []string) {
	m := g.e.last["htlc"].(chain.M)
	return m, chain.SortedKeys(m)
}

func (g *rgen) balOf(a, d string) int64 {
	return g.e.last["bal"].(chain.M)[a].(chain.M)[d].(int64)
}

func (g *rgen) deputyOf(d string) string {
	if p, ok := g.e.last["params"].(chain.M)[d].(chain.M); ok {
		return p["deputy"].(string)
	}
	return depName
}

func (g *rgen) lock() int64 {
	switch x := g.rng.Intn(20); {
	case x < 11:
		return 50
	case x < 15:
		return 51
	case x < 18:
		return 52
	case x < 19:
		return []int64{49, 0, 34561}[g.rng.Intn(3)] // outside the message-level range
	}
	return 120 // valid for the message, above the asset's maximum block lock
}

func (g *rgen) create(nowTs int64) chain.M {
	e := g.e
	ev := htlcEvent("Create")
	g.seq++
	ev["id"] = fmt.Sprintf("r%d", g.seq)
	ev["lock"] = g.lock()
	if len(g.created) > 0 && g.rng.Intn(10) == 0 {
		old := g.created[g.rng.Intn(len(g.created))]
		c := chain.CopyM(old)
		c["id"] = ev["id"]
		c["ok"], c["panic"] = true, false
		amt := chain.M{}
		for k, v := range old["amt"].(chain.M) {
			amt[k] = v
		}
		c["amt"] = amt
		return c
	}
	switch x := g.rng.Intn(20); {
	case x < 9: // ordinary contract
		ev["who"] = g.pick(e.users)
		tos := append(append([]string{}, e.users...), depName)
		ev["to"] = g.pick(tos)
		if g.rng.Intn(25) == 0 {
			ev["to"] = blkName
		}
		if g.rng.Intn(25) == 0 {
			ev["to"] = modName
		}
		amt := chain.M{}
		amt[g.pick(e.plain)] = int64(1 + g.rng.Intn(2))
		if g.rng.Intn(3) == 0 {
			amt[g.pick(e.plain)] = int64(1 + g.rng.Intn(2))
		}
		if g.rng.Intn(6) == 0 {
			d := g.pick(e.assets)
			if g.balOf(ev["who"].(string), d) > 0 {
				amt[d] = int64(1)
			}
		}
		if g.rng.Intn(30) == 0 {
			amt[g.pick(e.plain)] = int64(9) // more than anybody holds
		}
		ev["amt"] = amt
		ev["sec"] = g.pick([]string{"s1", "s2", "s3", "s4"})
		switch y := g.rng.Intn(20); {
		case y < 9:
		case y < 16:
			ev["lts"], ev["ts"] = nowTs, nowTs
		case y < 18:
			ev["ts"] = nowTs
		case y < 19:
			ev["lts"] = nowTs
		default:
			ev["lts"], ev["ts"] = nowTs, nowTs+1
		}
	case x < 15: // incoming transfer: deputy -> user
		ev["who"], ev["to"] = depName, g.pick(e.users)
		if dd := g.deputyOf(g.pick(e.assets)); dd != depName && g.rng.Intn(2) == 0 {
			ev["who"] = dd // the deputy currently in force for some asset
		}
		if g.rng.Intn(20) == 0 {
			ev["to"] = depName
		}
		a := int64(1 + g.rng.Intn(3))
		if g.rng.Intn(15) == 0 {
			a = 4
		}
		ev["amt"] = chain.M{g.pick(e.assets): a}
		ev["sec"] = g.pick([]string{"t1", "t2", "t3", "t4", "t5", "t6"})
		ev["lts"], ev["ts"] = nowTs, nowTs
		ev["transfer"] = true
		switch g.rng.Intn(25) {
		case 0:
			ev["lts"], ev["ts"] = int64(0), int64(0)
		case 1:
			ev["lts"], ev["ts"] = nowTs+1800, nowTs+1800
		case 2:
			ev["lts"], ev["ts"] = nowTs-900, nowTs-900
		case 3:
			ev["lts"], ev["ts"] = nowTs-901, nowTs-901
		case 4:
			ev["lts"], ev["ts"] = nowTs+1799, nowTs+1799
		}
	default: // outgoing transfer: user -> deputy
		ev["who"], ev["to"] = g.pick(e.users), depName
		d := g.pick(e.assets)
		for _, u := range e.users {
			for _, dd := range e.assets {
				if g.balOf(u, dd) > 0 && g.rng.Intn(2) == 0 {
					ev["who"], d = u, dd
				}
			}
		}
		if dd := g.deputyOf(d); dd != depName && g.rng.Intn(2) == 0 {
			ev["to"] = dd
		}
		if g.rng.Intn(20) == 0 {
			ev["to"] = g.pick(e.users)
		}
		a := int64(1 + g.rng.Intn(2))
		if b := g.balOf(ev["who"].(string), d); b > 0 && g.rng.Intn(3) > 0 {
			a = 1 + g.rng.Int63n(b)
		}
		ev["amt"] = chain.M{d: a}
		ev["sec"] = g.pick([]string{"o1", "o2", "o3", "o4"})
		ev["lts"], ev["ts"] = nowTs, nowTs
		ev["transfer"] = true
	}
	g.created = append(g.created, ev)
	return ev
}

// claim on contract id; kind: 0 right, 1 another contract's secret, 2 junk
func (g *rgen) claim(id string, kind int) chain.M {
	ev := htlcEvent("Claim")
	ev["who"] = g.pick(g.e.signers())
	ev["id"] = id
	hs, ids := g.htlcs()
	sec := "junk"
	if c, ok := hs[id].(chain.M); ok && kind == 0 {
		sec = c["sec"].(string)
	} else if kind == 1 && len(ids) > 0 {
		sec = hs[g.pick(ids)].(chain.M)["sec"].(string)
	}
	ev["sec"] = sec
	return ev
}

func (g *rgen) anyClaim() chain.M {
	hs, ids := g.htlcs()
	if len(ids) == 0 || g.rng.Intn(40) == 0 {
		return g.claim("nosuch", 2)
	}
	var open []string
	for _, i := range ids {
		if hs[i].(chain.M)["state"] == "open" {
			open = append(open, i)
		}
	}
	id := g.pick(ids)
	if len(open) > 0 && g.rng.Intn(5) > 0 {
		id = g.pick(open)
	}
	kind := 0
	switch x := g.rng.Intn(10); {
	case x >= 8:
		kind = 2
	case x >= 6:
		kind = 1
	}
	return g.claim(id, kind)
}

// ---------------------------------------------------------------------------
// negative probing: every message type on contracts in every life-cycle
// state, by every role, with identifiers and coins of the wrong kind.

// byState lists the contract names per state of the last observed state.
func (g *rgen) byState() map[string][]string {
	out := map[string][]string{}
	hs, ids := g.htlcs()
	for _, i := range ids {
		if c, ok := hs[i].(chain.M); ok {
			st, _ := c["state"].(string)
			out[st] = append(out[st], i)
		}
	}
	return out
}

// target picks a contract, first choosing uniformly among the life-cycle
// states present (so closed contracts are hit as often as open ones).
func (g *rgen) target() (string, chain.M) {
	bs := g.byState()
	var states []string
	for _, st := range []string{"open", "completed", "refunded"} {
		if len(bs[st]) > 0 {
			states = append(states, st)
		}
	}
	if len(states) == 0 {
		return "", nil
	}
	id := g.pick(bs[g.pick(states)])
	c, _ := g.e.last["htlc"].(chain.M)[id].(chain.M)
	return id, c
}

// role picks the signer of a probe by its relation to contract c: the
// recipient, the sender, the deputy in force, a stranger; accounts that cannot
// sign (module accounts) fall back to any signer.
func (g *rgen) role(c chain.M) string {
	e := g.e
	cand := ""
	switch g.rng.Intn(4) {
	case 0:
		cand, _ = c["to"].(string)
	case 1:
		cand, _ = c["sender"].(string)
	case 2:
		cand = g.deputyOf(g.pick(e.assets))
	default:
		var strangers []string
		for _, a := range e.signers() {
			if a != c["to"] && a != c["sender"] {
				strangers = append(strangers, a)
			}
		}
		if len(strangers) > 0 {
			cand = g.pick(strangers)
		}
	}
	if _, ok := e.c.Accts[cand]; !ok || cand == "" {
		cand = g.pick(e.signers())
	}
	return cand
}

func copyAmt(v any) chain.M {
	out := chain.M{}
	if m, ok := v.(chain.M); ok {
		for k, x := range m {
			out[k] = x
		}
	}
	return out
}

// probe returns one negative / unusual-input event built from the last
// observed state (nil when there is nothing to aim at).
func (g *rgen) probe(nowTs int64) chain.M {
	e := g.e
	id, c := g.target()
	x := g.rng.Intn(20)
	if c == nil && x < 11 {
		x = 11 + g.rng.Intn(9)
	}
	sec, _ := c["sec"].(string)
	claim := func(idName, secName, form string) chain.M {
		ev := htlcEvent("Claim")
		ev["who"], ev["id"], ev["sec"], ev["form"] = g.role(c), idName, secName, form
		return ev
	}
	create := func() chain.M {
		ev := htlcEvent("Create")
		g.seq++
		ev["id"] = fmt.Sprintf("r%d", g.seq)
		ev["lock"] = []int64{50, 51, 52}[g.rng.Intn(3)]
		return ev
	}
	switch x {
	case 0: // the right secret on a contract in whatever state, by a chosen role
		return claim(id, sec, "")
	case 1:
		return claim(id, sec, "idupper")
	case 2:
		return claim(id, sec, "secupper")
	case 3:
		return claim("hl:"+id, sec, "idhl")
	case 4:
		return claim("pre:"+id, sec, "idpre")
	case 5:
		return claim("rev:"+id, sec, "idrev")
	case 6:
		return claim(id, "hl:"+id, "sechl")
	case 7:
		return claim(id, "id:"+id, "secid")
	case 8, 9: // re-creation of an existing contract (any state); the id depends neither on the
		// transfer flag nor on the time lock, so flipping them still names the same contract
		ev := create()
		ev["id"], ev["form"] = id, "recreate"
		ev["who"], ev["to"], ev["amt"] = c["sender"], c["to"], copyAmt(c["amt"])
		ev["sec"], ev["lts"], ev["ts"] = sec, c["lts"], c["ts"]
		tr, _ := c["transfer"].(bool)
		if x == 9 && len(copyAmt(c["amt"])) == 1 {
			tr = !tr
		}
		ev["transfer"] = tr
		if _, ok := e.c.Accts[chain.Str(ev, "who")]; !ok {
			return nil
		}
		return ev
	case 10: // the same hash lock, sender and recipient with another amount: a different contract
		ev := create()
		ev["who"], ev["to"] = c["sender"], c["to"]
		amt := copyAmt(c["amt"])
		for d, v := range amt {
			if n, ok := v.(int64); ok {
				amt[d] = n + 1
				break
			}
		}
		ev["amt"], ev["sec"], ev["lts"], ev["ts"], ev["transfer"] = amt, sec, c["lts"], c["ts"], c["transfer"]
		if _, ok := e.c.Accts[chain.Str(ev, "who")]; !ok {
			return nil
		}
		if v, ok := ev["lts"].(int64); !ok || v < 0 {
			return nil
		}
		return ev
	case 11, 12, 13: // a transfer in a coin that is no asset: ordinary, or shaped like an asset denom
		ev := create()
		d := g.pick(append(append([]string{}, oddDenoms...), g.pick(e.plain)))
		if g.rng.Intn(2) == 0 { // outgoing-shaped: a holder -> the deputy
			ev["who"], ev["to"] = g.pick(e.users), g.deputyOf(g.pick(e.assets))
		} else { // incoming-shaped: the deputy -> a user
			ev["who"], ev["to"] = g.deputyOf(g.pick(e.assets)), g.pick(e.users)
		}
		ev["amt"] = chain.M{d: int64(1 + g.rng.Intn(2))}
		ev["sec"], ev["lts"], ev["ts"], ev["transfer"] = g.pick([]string{"o1", "o2", "t1"}), nowTs, nowTs, true
		return ev
	case 14: // an ordinary contract in shaped coins (accepted: they are plain coins)
		ev := create()
		ev["who"] = g.pick(e.users)
		ev["to"] = g.pick(append(append([]string{}, e.users...), depName, poolName))
		amt := chain.M{g.pick(oddDenoms): int64(1)}
		if g.rng.Intn(2) == 0 {
			amt[g.pick(append(append([]string{}, oddDenoms...), e.plain...))] = int64(1 + g.rng.Intn(2))
		}
		ev["amt"], ev["sec"] = amt, g.pick([]string{"s1", "s2", "s3", "s4"})
		if g.rng.Intn(2) == 0 {
			ev["lts"], ev["ts"] = nowTs, nowTs
		}
		return ev
	case 15: // a transfer with two coins / a zero coin
		ev := create()
		ev["who"], ev["to"] = g.pick(e.users), g.deputyOf("htltone")
		ev["sec"], ev["lts"], ev["ts"], ev["transfer"] = "o3", nowTs, nowTs, true
		if g.rng.Intn(2) == 0 {
			ev["amt"] = chain.M{g.pick(e.assets): int64(1), g.pick(e.plain): int64(1)}
		} else {
			ev["amt"] = chain.M{g.pick(e.assets): int64(0)}
			if g.rng.Intn(2) == 0 {
				ev["amt"], ev["transfer"] = chain.M{"aaa": int64(0), "bbb": int64(1)}, false
			}
		}
		return ev
	case 16: // recipients in unusual roles: keyless accounts (module accounts, blocked; another module's
		// pool escrow, not blocked), the sender itself
		ev := create()
		ev["who"] = g.pick(e.users)
		ev["to"] = g.pick([]string{poolName, poolName, blkName, modName, chain.Str(ev, "who")})
		ev["amt"] = chain.M{g.pick(e.plain): int64(1)}
		ev["sec"] = g.pick([]string{"s1", "s2", "s3", "s4"})
		return ev
	case 17: // a transfer of a real asset between two parties neither / both of which is the deputy,
		// or sent by the deputy of the OTHER asset
		ev := create()
		d := g.pick(e.assets)
		other := e.assets[0]
		if d == other {
			other = e.assets[1]
		}
		switch g.rng.Intn(3) {
		case 0:
			ev["who"], ev["to"] = g.pick(e.users), g.pick(e.users)
		case 1:
			ev["who"], ev["to"] = g.deputyOf(d), g.deputyOf(d)
		default:
			ev["who"], ev["to"] = g.deputyOf(other), g.pick(e.users)
		}
		ev["amt"] = chain.M{d: int64(1 + g.rng.Intn(2))}
		ev["sec"], ev["lts"], ev["ts"], ev["transfer"] = g.pick([]string{"t4", "t5"}), nowTs, nowTs, true
		if _, ok := e.c.Accts[chain.Str(ev, "who")]; !ok {
			return nil
		}
		return ev
	case 18: // an outgoing transfer of more than the asset's unlocked current supply / than the sender holds
		ev := create()
		d := g.pick(e.assets)
		ev["who"], ev["to"] = g.pick(e.users), g.deputyOf(d)
		a := int64(1)
		if su, ok := e.last["sup"].(chain.M)[d].(chain.M); ok {
			cur, _ := su["cur"].(int64)
			out, _ := su["out"].(int64)
			a = cur - out + int64(g.rng.Intn(2))
		}
		if a < 1 {
			a = 1
		}
		ev["amt"] = chain.M{d: a}
		ev["sec"], ev["lts"], ev["ts"], ev["transfer"] = "o4", nowTs, nowTs, true
		return ev
	default: // the id of one contract with the secret of another (both of the chain)
		_, c2 := g.target()
		if c == nil || c2 == nil {
			return nil
		}
		s2, _ := c2["sec"].(string)
		return claim(id, s2, "")
	}
}

func (g *rgen) dueAt(h int64) []string {
	var out []string
	for _, x := range g.e.last["q"].([]any) {
		if x.([]any)[0].(int64) == h {
			out = append(out, x.([]any)[1].(string))
		}
	}
	sort.Strings(out)
	return out
}

func (g *rgen) paramsEvent() chain.M {
	ev := htlcEvent("UpdateParams")
	cur := g.e.last["params"].(chain.M)
	ps := chain.M{}
	for d, v := range cur {
		ps[d] = chain.CopyM(v.(chain.M))
	}
	base := func(d string, limit int64, tl bool, period, tbl, fee int64) chain.M {
		return chain.M{"limit": limit, "timeLimited": tl, "period": period, "tbl": tbl, "active": true,
			"deputy": depName, "fee": fee, "minAmt": int64(1), "maxAmt": int64(3), "minLock": int64(50), "maxLock": int64(100)}
	}
	x := g.rng.Intn(19)
	if len(cur) < len(g.e.assets) && g.rng.Intn(2) == 0 {
		x = 15 // some asset is delisted: list it again, with other limits
	}
	switch x {
	case 14: // a module account (which can never sign) becomes the deputy of an asset
		if p, ok := ps[g.pick(g.e.assets)].(chain.M); ok {
			p["deputy"] = g.pick([]string{modName, blkName, poolName})
		}
	case 15: // a delisted asset is listed again with other limits; a listed one changes kind
		for _, d := range g.e.assets {
			if _, ok := ps[d]; !ok {
				ps[d] = base(d, int64(2+g.rng.Intn(6)), g.rng.Intn(2) == 0, int64(20+g.rng.Intn(60)), int64(1+g.rng.Intn(2)), int64(g.rng.Intn(2)))
			} else if p, ok := ps[d].(chain.M); ok && g.rng.Intn(2) == 0 {
				tl, _ := p["timeLimited"].(bool)
				p["timeLimited"] = !tl
				if !tl {
					p["period"], p["tbl"] = int64(20+g.rng.Intn(60)), int64(1+g.rng.Intn(2))
					if lim, ok := p["limit"].(int64); ok && lim < p["tbl"].(int64) {
						p["tbl"] = lim
					}
				}
			}
		}
	case 16: // the limit set to exactly the recorded current supply / one below it
		for _, d := range g.e.assets {
			p, ok1 := ps[d].(chain.M)
			su, ok2 := g.e.last["sup"].(chain.M)[d].(chain.M)
			if ok1 && ok2 {
				cur, _ := su["cur"].(int64)
				lim := cur - int64(g.rng.Intn(2))
				if lim < 0 {
					lim = 0
				}
				p["limit"] = lim
				if tbl, ok := p["tbl"].(int64); ok && tbl > lim {
					p["tbl"] = lim
				}
			}
		}
	case 17: // every asset delisted (the begin blocker then stops its window bookkeeping)
		ps = chain.M{}
	case 18: // time-limited with a time-based limit of ZERO: valid, and no incoming transfer may be
		// opened or completed until the parameters change again (seed C04-s6 read 0 as "no cap")
		if p, ok := ps[g.pick(g.e.assets)].(chain.M); ok {
			p["timeLimited"], p["period"], p["tbl"] = true, int64(20+g.rng.Intn(60)), int64(0)
		}
	case 9: // swap range tightened to exactly 2 (transfers of 1 and 3 may be in flight)
		for _, d := range g.e.assets {
			if p, ok := ps[d].(chain.M); ok && g.rng.Intn(2) == 0 {
				p["minAmt"], p["maxAmt"] = int64(2), int64(2)
			}
		}
	case 10: // block-lock range tightened (outgoing transfers with lock 50 may be in flight)
		for _, d := range g.e.assets {
			if p, ok := ps[d].(chain.M); ok {
				p["minLock"], p["maxLock"] = int64(51), int64(51+g.rng.Intn(2))
			}
		}
	case 11: // fee raised on the first asset: outgoing amounts must be >= fee + minimum
		if p, ok := ps["htltone"].(chain.M); ok {
			p["fee"] = int64(1 + g.rng.Intn(2))
		}
	case 12: // deputy of the first asset changes to a user
		if p, ok := ps["htltone"].(chain.M); ok {
			p["deputy"] = g.e.users[0]
		}
	case 13: // the first asset switched off / on again
		if p, ok := ps["htltone"].(chain.M); ok {
			p["active"] = !p["active"].(bool)
		}
	case 0: // lower the first asset's limit (possibly below current + incoming)
		ps["htltone"] = base("htltone", int64(1+g.rng.Intn(3)), false, 0, 0, 0)
	case 1: // remove an asset while transfers may be in flight
		delete(ps, g.pick(g.e.assets))
	case 2: // restore / raise
		ps["htltone"] = base("htltone", 6, false, 0, 0, 0)
		ps["htlttwo"] = base("htlttwo", 6, true, int64(20+g.rng.Intn(100)), int64(2+g.rng.Intn(3)), 1)
	case 3: // make the first asset time-limited
		ps["htltone"] = base("htltone", 5, true, int64(30+g.rng.Intn(60)), 2, 0)
	case 4: // deactivate
		if p, ok := ps["htlttwo"].(chain.M); ok {
			p["active"] = false
		}
	case 5: // invalid: time-based limit above the limit
		ps["htltone"] = base("htltone", 2, true, 50, 3, 0)
	case 6: // a user becomes deputy of the second asset
		p := base("htlttwo", 5, true, 100, 3, 1)
		p["deputy"] = g.e.users[len(g.e.users)-1]
		ps["htlttwo"] = p
	case 7: // shrink the time-based limit and the period
		ps["htlttwo"] = base("htlttwo", 5, true, int64(5+g.rng.Intn(30)), 1, 0)
	default: // no assets at all
		ps = chain.M{}
	}
	ev["params"] = ps
	return ev
}

func htlcRandom(fl *drv.Flags, rng *rand.Rand, w *chain.TraceWriter) {
	e := newHTLCEnv(fl)
	e.start(w)
	g := &rgen{e: e, rng: rng}
	noParams := fl.CfgInt("noparams", 0) == 1
	flood := fl.CfgInt("flood", 0)
	noProbe := fl.CfgInt("noprobe", 0) == 1
	for r := 0; r < fl.Len && !e.dead; r++ {
		h := e.c.Height
		dts := []int64{1, 1, 2, 5, 10, 30, 60, 0, 0, 500, 5000}
		dt := dts[rng.Intn(len(dts))]
		if rng.Intn(6) == 0 {
			dt = g.boundaryDt(dt)
		}
		nowTs := e.c.Time.Unix() + dt - e.t0.Unix() + tsOff
		var pending []chain.M
		dueNext := g.dueAt(h + 1)  // refunded by the coming BeginBlock
		dueAfter := g.dueAt(h + 2) // the coming block is their last chance
		switch x := rng.Intn(20); {
		case x < 2 && !noParams:
			e.updateParams(g.paramsEvent(), w)
			continue
		case x < 7 && len(dueNext) == 0 && len(dueAfter) == 0:
			// fast-forward to shortly before the next expiry (or just ahead)
			n := int64(1 + rng.Intn(30))
			min := int64(0)
			for _, q := range e.last["q"].([]any) {
				if d := q.([]any)[0].(int64); min == 0 || d < min {
					min = d
				}
			}
			if min > h+2 && rng.Intn(4) > 0 {
				n = min - h - 2 - int64(rng.Intn(2))
			}
			if n > 0 {
				e.skip(n, []int64{1, 1, 2, 3}[rng.Intn(4)], w)
			}
			continue
		}
		if flood > 0 && r%9 == 1 {
			// dozens of contracts in one block, all expiring at one height (C13)
			n := int(flood) + rng.Intn(int(flood)/2+1)
			for k := 0; k < n; k++ {
				c := htlcEvent("Create")
				g.seq++
				c["id"] = fmt.Sprintf("r%d", g.seq)
				c["who"], c["to"] = e.users[k%len(e.users)], g.pick(append(append([]string{}, e.users...), depName))
				c["amt"] = chain.M{e.plain[k%len(e.plain)]: int64(1)}
				c["sec"] = fmt.Sprintf("f%d", g.seq)
				if k%3 == 0 {
					c["lts"], c["ts"] = nowTs, nowTs
				}
				c["lock"] = int64(50)
				if k%7 == 6 { // a few incoming transfers among them
					c["who"], c["to"] = g.deputyOf("htltone"), e.users[k%len(e.users)]
					c["amt"] = chain.M{"htltone": int64(1)}
					c["lts"], c["ts"], c["transfer"] = nowTs, nowTs, true
				}
				pending = append(pending, c)
			}
			for k := 0; k < 3 && k < len(pending); k++ { // some are claimed at once
				p := pending[rng.Intn(len(pending))]
				cl := htlcEvent("Claim")
				cl["who"], cl["id"], cl["sec"] = g.pick(e.signers()), p["id"], p["sec"]
				pending = append(pending, cl)
			}
			e.runBlock(dt, pending, w)
			continue
		}
		// claims around the expiry boundary
		for _, id := range dueNext {
			if rng.Intn(3) > 0 {
				pending = append(pending, g.claim(id, 0))
			}
		}
		for _, id := range dueAfter {
			if rng.Intn(2) == 0 {
				pending = append(pending, g.claim(id, rng.Intn(3)/2*2))
			}
		}
		n := rng.Intn(5)
		for j := 0; j < n; j++ {
			if rng.Intn(20) < 11 {
				c := g.create(nowTs)
				pending = append(pending, c)
				if rng.Intn(6) == 0 { // claim in the block of creation
					cl := htlcEvent("Claim")
					cl["who"], cl["id"], cl["sec"] = g.pick(e.signers()), c["id"], c["sec"]
					pending = append(pending, cl)
				}
			} else {
				pending = append(pending, g.anyClaim())
			}
		}
		if !noProbe && rng.Intn(5) < 2 { // negative probes, anywhere in the block
			for k := 1 + rng.Intn(3); k > 0; k-- {
				if p := g.probe(nowTs); p != nil {
					at := rng.Intn(len(pending) + 1)
					pending = append(pending[:at], append([]chain.M{p}, pending[at:]...)...)
					if p["name"] == "Create" {
						g.created = append(g.created, p)
					}
				}
			}
		}
		if rng.Intn(8) == 0 && len(pending) > 1 { // the same claim twice in one block
			for _, p := range pending {
				if p["name"] == "Claim" {
					pending = append(pending, chain.CopyM(p))
					break
				}
			}
		}
		e.runBlock(dt, pending, w)
	}
	if !e.dead {
		e.epilogue(w)
	}
}

// boundaryDt returns a block-time step that lands exactly on (or one second
// before / after) the end of the running limit period of a time-limited asset.
func (g *rgen) boundaryDt(dflt int64) int64 {
	ps, _ := g.e.last["params"].(chain.M)
	sups, _ := g.e.last["sup"].(chain.M)
	for _, d := range g.e.assets {
		p, ok1 := ps[d].(chain.M)
		su, ok2 := sups[d].(chain.M)
		if !ok1 || !ok2 {
			continue
		}
		if tl, _ := p["timeLimited"].(bool); !tl {
			continue
		}
		per, _ := p["period"].(int64)
		el, _ := su["elapsed"].(int64)
		if dt := per - el + int64(g.rng.Intn(3)) - 1; dt >= 0 {
			return dt
		}
	}
	return dflt
}
