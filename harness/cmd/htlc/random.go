package main

import (
	"fmt"
	"math/rand"
	"sort"

	"verif/harness/chain"
	"verif/harness/drv"
)

// htlcRandom runs one seeded random history at real block granularity: bursts
// of creates and claims, fast-forwards to just before the next expiry, claims
// in the last block before and in the very block of the expiry, several
// contracts per expiry height, block-time steps that cross the limit window,
// parameter changes between blocks.  Events are generated from the last
// observed state so that most are enabled and some deliberately are not.
type rgen struct {
	e       *htlcEnv
	rng     *rand.Rand
	created []chain.M // earlier Create events (for duplicates)
	seq     int
}

func (g *rgen) pick(xs []string) string { return xs[g.rng.Intn(len(xs))] }

func (g *rgen) htlcs() (chain.M, []string) {
	m := g.e.last["htlc"].(chain.M)
	return m, chain.SortedKeys(m)
}

func (g *rgen) balOf(a, d string) int64 {
	return g.e.last["bal"].(chain.M)[a].(chain.M)[d].(int64)
}

func (g *rgen) deputyOf(d string) string {
	if p, ok := g.e.last["params"].(chain.M)[d].(chain.M); ok {
		return p["deputy"].(string)
	}
	return depName
}

func (g *rgen) lock() int64 {
	switch x := g.rng.Intn(20); {
	case x < 11:
		return 50
	case x < 15:
		return 51
	case x < 18:
		return 52
	case x < 19:
		return []int64{49, 0, 34561}[g.rng.Intn(3)] // outside the message-level range
	}
	return 120 // valid for the message, above the asset's maximum block lock
}

func (g *rgen) create(nowTs int64) chain.M {
	e := g.e
	ev := htlcEvent("Create")
	g.seq++
	ev["id"] = fmt.Sprintf("r%d", g.seq)
	ev["lock"] = g.lock()
	if len(g.created) > 0 && g.rng.Intn(10) == 0 {
		old := g.created[g.rng.Intn(len(g.created))]
		c := chain.CopyM(old)
		c["id"] = ev["id"]
		c["ok"], c["panic"] = true, false
		amt := chain.M{}
		for k, v := range old["amt"].(chain.M) {
			amt[k] = v
		}
		c["amt"] = amt
		return c
	}
	switch x := g.rng.Intn(20); {
	case x < 9: // ordinary contract
		ev["who"] = g.pick(e.users)
		tos := append(append([]string{}, e.users...), depName)
		ev["to"] = g.pick(tos)
		if g.rng.Intn(25) == 0 {
			ev["to"] = blkName
		}
		if g.rng.Intn(25) == 0 {
			ev["to"] = modName
		}
		amt := chain.M{}
		amt[g.pick(e.plain)] = int64(1 + g.rng.Intn(2))
		if g.rng.Intn(3) == 0 {
			amt[g.pick(e.plain)] = int64(1 + g.rng.Intn(2))
		}
		if g.rng.Intn(6) == 0 {
			d := g.pick(e.assets)
			if g.balOf(ev["who"].(string), d) > 0 {
				amt[d] = int64(1)
			}
		}
		if g.rng.Intn(30) == 0 {
			amt[g.pick(e.plain)] = int64(9) // more than anybody holds
		}
		ev["amt"] = amt
		ev["sec"] = g.pick([]string{"s1", "s2", "s3", "s4"})
		switch y := g.rng.Intn(20); {
		case y < 9:
		case y < 16:
			ev["lts"], ev["ts"] = nowTs, nowTs
		case y < 18:
			ev["ts"] = nowTs
		case y < 19:
			ev["lts"] = nowTs
		default:
			ev["lts"], ev["ts"] = nowTs, nowTs+1
		}
	case x < 15: // incoming transfer: deputy -> user
		ev["who"], ev["to"] = depName, g.pick(e.users)
		if dd := g.deputyOf(g.pick(e.assets)); dd != depName && g.rng.Intn(2) == 0 {
			ev["who"] = dd // the deputy currently in force for some asset
		}
		if g.rng.Intn(20) == 0 {
			ev["to"] = depName
		}
		a := int64(1 + g.rng.Intn(3))
		if g.rng.Intn(15) == 0 {
			a = 4
		}
		ev["amt"] = chain.M{g.pick(e.assets): a}
		ev["sec"] = g.pick([]string{"t1", "t2", "t3", "t4", "t5", "t6"})
		ev["lts"], ev["ts"] = nowTs, nowTs
		ev["transfer"] = true
		switch g.rng.Intn(25) {
		case 0:
			ev["lts"], ev["ts"] = int64(0), int64(0)
		case 1:
			ev["lts"], ev["ts"] = nowTs+1800, nowTs+1800
		case 2:
			ev["lts"], ev["ts"] = nowTs-900, nowTs-900
		case 3:
			ev["lts"], ev["ts"] = nowTs-901, nowTs-901
		case 4:
			ev["lts"], ev["ts"] = nowTs+1799, nowTs+1799
		}
	default: // outgoing transfer: user -> deputy
		ev["who"], ev["to"] = g.pick(e.users), depName
		d := g.pick(e.assets)
		for _, u := range e.users {
			for _, dd := range e.assets {
				if g.balOf(u, dd) > 0 && g.rng.Intn(2) == 0 {
					ev["who"], d = u, dd
				}
			}
		}
		if dd := g.deputyOf(d); dd != depName && g.rng.Intn(2) == 0 {
			ev["to"] = dd
		}
		if g.rng.Intn(20) == 0 {
			ev["to"] = g.pick(e.users)
		}
		a := int64(1 + g.rng.Intn(2))
		if b := g.balOf(ev["who"].(string), d); b > 0 && g.rng.Intn(3) > 0 {
			a = 1 + g.rng.Int63n(b)
		}
		ev["amt"] = chain.M{d: a}
		ev["sec"] = g.pick([]string{"o1", "o2", "o3", "o4"})
		ev["lts"], ev["ts"] = nowTs, nowTs
		ev["transfer"] = true
	}
	g.created = append(g.created, ev)
	return ev
}

// claim on contract id; kind: 0 right, 1 another contract's secret, 2 junk
func (g *rgen) claim(id string, kind int) chain.M {
	ev := htlcEvent("Claim")
	ev["who"] = g.pick(g.e.signers())
	ev["id"] = id
	hs, ids := g.htlcs()
	sec := "junk"
	if c, ok := hs[id].(chain.M); ok && kind == 0 {
		sec = c["sec"].(string)
	} else if kind == 1 && len(ids) > 0 {
		sec = hs[g.pick(ids)].(chain.M)["sec"].(string)
	}
	ev["sec"] = sec
	return ev
}

func (g *rgen) anyClaim() chain.M {
	hs, ids := g.htlcs()
	if len(ids) == 0 || g.rng.Intn(40) == 0 {
		return g.claim("nosuch", 2)
	}
	var open []string
	for _, i := range ids {
		if hs[i].(chain.M)["state"] == "open" {
			open = append(open, i)
		}
	}
	id := g.pick(ids)
	if len(open) > 0 && g.rng.Intn(5) > 0 {
		id = g.pick(open)
	}
	kind := 0
	switch x := g.rng.Intn(10); {
	case x >= 8:
		kind = 2
	case x >= 6:
		kind = 1
	}
	return g.claim(id, kind)
}

func (g *rgen) dueAt(h int64) []string {
	var out []string
	for _, x := range g.e.last["q"].([]any) {
		if x.([]any)[0].(int64) == h {
			out = append(out, x.([]any)[1].(string))
		}
	}
	sort.Strings(out)
	return out
}

func (g *rgen) paramsEvent() chain.M {
	ev := htlcEvent("UpdateParams")
	cur := g.e.last["params"].(chain.M)
	ps := chain.M{}
	for d, v := range cur {
		ps[d] = chain.CopyM(v.(chain.M))
	}
	base := func(d string, limit int64, tl bool, period, tbl, fee int64) chain.M {
		return chain.M{"limit": limit, "timeLimited": tl, "period": period, "tbl": tbl, "active": true,
			"deputy": depName, "fee": fee, "minAmt": int64(1), "maxAmt": int64(3), "minLock": int64(50), "maxLock": int64(100)}
	}
	switch g.rng.Intn(14) {
	case 9: // swap range tightened to exactly 2 (transfers of 1 and 3 may be in flight)
		for _, d := range g.e.assets {
			if p, ok := ps[d].(chain.M); ok && g.rng.Intn(2) == 0 {
				p["minAmt"], p["maxAmt"] = int64(2), int64(2)
			}
		}
	case 10: // block-lock range tightened (outgoing transfers with lock 50 may be in flight)
		for _, d := range g.e.assets {
			if p, ok := ps[d].(chain.M); ok {
				p["minLock"], p["maxLock"] = int64(51), int64(51+g.rng.Intn(2))
			}
		}
	case 11: // fee raised on the first asset: outgoing amounts must be >= fee + minimum
		if p, ok := ps["htltone"].(chain.M); ok {
			p["fee"] = int64(1 + g.rng.Intn(2))
		}
	case 12: // deputy of the first asset changes to a user
		if p, ok := ps["htltone"].(chain.M); ok {
			p["deputy"] = g.e.users[0]
		}
	case 13: // the first asset switched off / on again
		if p, ok := ps["htltone"].(chain.M); ok {
			p["active"] = !p["active"].(bool)
		}
	case 0: // lower the first asset's limit (possibly below current + incoming)
		ps["htltone"] = base("htltone", int64(1+g.rng.Intn(3)), false, 0, 0, 0)
	case 1: // remove an asset while transfers may be in flight
		delete(ps, g.pick(g.e.assets))
	case 2: // restore / raise
		ps["htltone"] = base("htltone", 6, false, 0, 0, 0)
		ps["htlttwo"] = base("htlttwo", 6, true, int64(20+g.rng.Intn(100)), int64(2+g.rng.Intn(3)), 1)
	case 3: // make the first asset time-limited
		ps["htltone"] = base("htltone", 5, true, int64(30+g.rng.Intn(60)), 2, 0)
	case 4: // deactivate
		if p, ok := ps["htlttwo"].(chain.M); ok {
			p["active"] = false
		}
	case 5: // invalid: time-based limit above the limit
		ps["htltone"] = base("htltone", 2, true, 50, 3, 0)
	case 6: // a user becomes deputy of the second asset
		p := base("htlttwo", 5, true, 100, 3, 1)
		p["deputy"] = g.e.users[len(g.e.users)-1]
		ps["htlttwo"] = p
	case 7: // shrink the time-based limit and the period
		ps["htlttwo"] = base("htlttwo", 5, true, int64(5+g.rng.Intn(30)), 1, 0)
	default: // no assets at all
		ps = chain.M{}
	}
	ev["params"] = ps
	return ev
}

func htlcRandom(fl *drv.Flags, rng *rand.Rand, w *chain.TraceWriter) {
	e := newHTLCEnv(fl)
	e.start(w)
	g := &rgen{e: e, rng: rng}
	noParams := fl.CfgInt("noparams", 0) == 1
	flood := fl.CfgInt("flood", 0)
	for r := 0; r < fl.Len && !e.dead; r++ {
		h := e.c.Height
		dts := []int64{1, 1, 2, 5, 10, 30, 60, 0, 0, 500, 5000}
		dt := dts[rng.Intn(len(dts))]
		nowTs := e.c.Time.Unix() + dt - e.t0.Unix() + tsOff
		var pending []chain.M
		dueNext := g.dueAt(h + 1)  // refunded by the coming BeginBlock
		dueAfter := g.dueAt(h + 2) // the coming block is their last chance
		switch x := rng.Intn(20); {
		case x < 2 && !noParams:
			e.updateParams(g.paramsEvent(), w)
			continue
		case x < 7 && len(dueNext) == 0 && len(dueAfter) == 0:
			// fast-forward to shortly before the next expiry (or just ahead)
			n := int64(1 + rng.Intn(30))
			min := int64(0)
			for _, q := range e.last["q"].([]any) {
				if d := q.([]any)[0].(int64); min == 0 || d < min {
					min = d
				}
			}
			if min > h+2 && rng.Intn(4) > 0 {
				n = min - h - 2 - int64(rng.Intn(2))
			}
			if n > 0 {
				e.skip(n, []int64{1, 1, 2, 3}[rng.Intn(4)], w)
			}
			continue
		}
		if flood > 0 && r%9 == 1 {
			// dozens of contracts in one block, all expiring at one height (C13)
			n := int(flood) + rng.Intn(int(flood)/2+1)
			for k := 0; k < n; k++ {
				c := htlcEvent("Create")
				g.seq++
				c["id"] = fmt.Sprintf("r%d", g.seq)
				c["who"], c["to"] = e.users[k%len(e.users)], g.pick(append(append([]string{}, e.users...), depName))
				c["amt"] = chain.M{e.plain[k%len(e.plain)]: int64(1)}
				c["sec"] = fmt.Sprintf("f%d", g.seq)
				if k%3 == 0 {
					c["lts"], c["ts"] = nowTs, nowTs
				}
				c["lock"] = int64(50)
				if k%7 == 6 { // a few incoming transfers among them
					c["who"], c["to"] = g.deputyOf("htltone"), e.users[k%len(e.users)]
					c["amt"] = chain.M{"htltone": int64(1)}
					c["lts"], c["ts"], c["transfer"] = nowTs, nowTs, true
				}
				pending = append(pending, c)
			}
			for k := 0; k < 3 && k < len(pending); k++ { // some are claimed at once
				p := pending[rng.Intn(len(pending))]
				cl := htlcEvent("Claim")
				cl["who"], cl["id"], cl["sec"] = g.pick(e.signers()), p["id"], p["sec"]
				pending = append(pending, cl)
			}
			e.runBlock(dt, pending, w)
			continue
		}
		// claims around the expiry boundary
		for _, id := range dueNext {
			if rng.Intn(3) > 0 {
				pending = append(pending, g.claim(id, 0))
			}
		}
		for _, id := range dueAfter {
			if rng.Intn(2) == 0 {
				pending = append(pending, g.claim(id, rng.Intn(3)/2*2))
			}
		}
		n := rng.Intn(5)
		for j := 0; j < n; j++ {
			if rng.Intn(20) < 11 {
				c := g.create(nowTs)
				pending = append(pending, c)
				if rng.Intn(6) == 0 { // claim in the block of creation
					cl := htlcEvent("Claim")
					cl["who"], cl["id"], cl["sec"] = g.pick(e.signers()), c["id"], c["sec"]
					pending = append(pending, cl)
				}
			} else {
				pending = append(pending, g.anyClaim())
			}
		}
		if rng.Intn(8) == 0 && len(pending) > 1 { // the same claim twice in one block
			for _, p := range pending {
				if p["name"] == "Claim" {
					pending = append(pending, chain.CopyM(p))
					break
				}
			}
		}
		e.runBlock(dt, pending, w)
	}
	if !e.dead {
		e.epilogue(w)
	}
}
