package main

import (
	"crypto/sha256"
	"encoding/binary"
	"encoding/hex"
	"fmt"
	"math/big"
	"math/rand"
	"sort"
	"strings"
	"time"

	sdkmath "cosmossdk.io/math"
	cmtcrypto "github.com/cometbft/cometbft/crypto"
	storetypes "cosmossdk.io/store/types"
	sdk "github.com/cosmos/cosmos-sdk/types"
	authtypes "github.com/cosmos/cosmos-sdk/x/auth/types"

	"verif/harness/chain"
	"verif/harness/drv"

	htlctypes "mods.irisnet.org/modules/htlc/types"
	"mods.irisnet.org/simapp"
)

func main() { drv.Main("htlc", htlcDriver) }

// Model <-> chain mapping for HTLC.tla.
//
//	accounts:  "u1".. users, "dep" deputy, "htlc" module account (escrow),
//	           "blk" a blocked address (the fee collector)
//	denoms:    plain "aaa","bbb"; assets "htltone" (not time-limited),
//	           "htlttwo" (time-limited)
//	heights:   real heights; time = seconds since genesis
//	timestamp: logged ts = real unix - genesis unix + 10000 (0 = none)
//	secrets:   abstract names; secret bytes = sha256("verif-secret:"+name);
//	           hash lock = sha256(secret || be64(lts)) or sha256(secret) if
//	           lts = 0 — computed here, never in TLA+
//	ids:       real id = sha256(hashlock||sender||to||amount) computed here
//	           and named ("c1", ...); the chain's ids are mapped back to names
//	compress:  replay of TLC behaviours (DESIGN 4.2 height compression): a
//	           model lock k is the real lock k*C, a model block is C real
//	           blocks (C-1 skipped empty ones + the logged one), periods and
//	           asset lock ranges scale by C.
const tsOff = int64(10000)

type lockInfo struct {
	sec string
	lts int64
}

type htlcEnv struct {
	c        *chain.Chain
	users    []string
	plain    []string
	assets   []string
	t0       time.Time
	compress int64
	tsNow    bool
	names    map[string]string // bech32 -> account name
	addrs    map[string]sdk.AccAddress
	off      map[string]sdkmath.Int
	inBlock  bool
	idName   map[string]string // real id (lower hex) -> name
	idHex    map[string]string // name -> real id
	locks    map[string]lockInfo
	nextID   int
	last     chain.M
	dead     bool
	initBal  int64
	scale    *big.Int // magnitude tier: every amount on chain = model amount * scale (exact scaling)
	cfgStr   string // effective configuration, attached to every logged event (self-describing replays)
	lockOf   map[string]string // contract name -> hash lock (lower hex) of its create message
}

const (
	depName = "dep"
	modName = "htlc"
	blkName = "blk"
	poolName = "pool" // the escrow address of a coinswap pool (lpt-1): keyless like a module account, NOT blocked
)

// oddDenoms: ordinary coins (genesis supply, held by the users) whose denoms are
// SHAPED like asset denoms but are no assets: an asset denom plus a letter, a
// prefix of one (still a well-formed asset denom), one in upper case.  They are
// part of the tracked universe, so whatever the code does with them shows in
// the balance sheet.
var oddDenoms = []string{"htltonex", "htlton", "HTLTONE"}

func newHTLCEnv(fl *drv.Flags) *htlcEnv {
	e := &htlcEnv{
		users:    []string{"u1", "u2", "u3"}[:fl.CfgInt("users", 2)],
		plain:    []string{"aaa", "bbb"},
		assets:   []string{"htltone", "htlttwo"},
		compress: fl.CfgInt("compress", 1),
		names:    map[string]string{},
		addrs:    map[string]sdk.AccAddress{},
		off:      map[string]sdkmath.Int{},
		idName:   map[string]string{},
		idHex:    map[string]string{},
		locks:    map[string]lockInfo{},
		lockOf:   map[string]string{},
		initBal:  fl.CfgInt("initbal", 5),
		scale:    parseScale(fl.CfgStr("scale", "1")),
	}
	tsDefault := int64(0)
	if e.compress > 1 {
		tsDefault = 1
	}
	e.tsNow = fl.CfgInt("tsnow", tsDefault) == 1
	accts := map[string]string{depName: "1000stake"}
	for _, u := range e.users {
		s := "1000stake"
		for _, d := range append(append([]string{}, e.plain...), oddDenoms...) {
			s += fmt.Sprintf(",%s%s", e.amt(e.initBal).String(), d)
		}
		accts[u] = s
	}
	C := e.compress
	period := fl.CfgInt("period", 2*C)
	if C == 1 {
		period = fl.CfgInt("period", 100)
	}
	maxLock := fl.CfgInt("maxlock", 2*50)
	e.cfgStr = fmt.Sprintf("users=%d;initbal=%d;limit1=%d;limit2=%d;tbl2=%d;fee2=%d;period=%d;maxlock=%d;compress=1;tsnow=0;scale=%s",
		len(e.users), e.initBal, fl.CfgInt("limit1", 4), fl.CfgInt("limit2", 5), fl.CfgInt("tbl2", 3), fl.CfgInt("fee2", 1),
		period, maxLock, e.scale.String())
	e.c = chain.New(chain.Options{
		Accounts: accts,
		MutateGenesis: func(c *chain.Chain, gs simapp.GenesisState) {
			cdc := c.App.AppCodec()
			var hg htlctypes.GenesisState
			cdc.MustUnmarshalJSON(gs[htlctypes.ModuleName], &hg)
			dep := c.Accts[depName].Addr.String()
			ap := func(denom string, limit int64, tl bool, per, tbl, minA, maxA, fee int64) htlctypes.AssetParam {
				return htlctypes.AssetParam{
					Denom: denom,
					SupplyLimit: htlctypes.SupplyLimit{Limit: e.amt(limit), TimeLimited: tl,
						TimePeriod: time.Duration(per) * time.Second, TimeBasedLimit: e.amt(tbl)},
					Active: true, DeputyAddress: dep, FixedFee: e.amt(fee),
					MinSwapAmount: e.amt(minA), MaxSwapAmount: e.amt(maxA),
					MinBlockLock: htlctypes.MinTimeLock, MaxBlockLock: uint64(maxLock),
				}
			}
			hg.Params.AssetParams = []htlctypes.AssetParam{
				ap("htltone", fl.CfgInt("limit1", 4), false, 0, 0, 1, 3, 0),
				ap("htlttwo", fl.CfgInt("limit2", 5), true, period, fl.CfgInt("tbl2", 3), 1, 3, fl.CfgInt("fee2", 1)),
			}
			hg.Supplies = nil
			for _, d := range e.assets {
				z := sdk.NewCoin(d, sdkmath.ZeroInt())
				hg.Supplies = append(hg.Supplies, htlctypes.NewAssetSupply(z, z, z, z, 0))
			}
			hg.PreviousBlockTime = c.Time
			gs[htlctypes.ModuleName] = cdc.MustMarshalJSON(&hg)
		},
	})
	c := e.c
	e.t0 = c.Time
	for _, n := range append([]string{depName}, e.users...) {
		e.names[c.Accts[n].Addr.String()] = n
		e.addrs[n] = c.Accts[n].Addr
	}
	e.addrs[modName] = chain.ModuleAddr(htlctypes.ModuleName)
	e.addrs[blkName] = chain.ModuleAddr(authtypes.FeeCollectorName)
	e.addrs[poolName] = sdk.AccAddress(cmtcrypto.AddressHash([]byte("lpt-1"))) // coinswap GetReservePoolAddr
	e.names[e.addrs[modName].String()] = modName
	e.names[e.addrs[blkName].String()] = blkName
	e.names[e.addrs[poolName].String()] = poolName
	ctx := c.Ctx()
	for _, d := range e.denoms() {
		sum := sdkmath.ZeroInt()
		for _, a := range e.accounts() {
			sum = sum.Add(c.Bal(ctx, e.addrs[a], d))
		}
		e.off[d] = c.Supply(ctx, d).Sub(sum)
	}
	c.Project = func(ctx sdk.Context) any { return e.project(ctx) }
	return e
}

var bigOne = big.NewInt(1)

func parseScale(sv string) *big.Int {
	k, ok := new(big.Int).SetString(sv, 10)
	if !ok || k.Sign() <= 0 {
		panic("bad scale " + sv)
	}
	return k
}

// amt maps a model amount to the chain amount (exact scaling).
func (e *htlcEnv) amt(v int64) sdkmath.Int {
	return sdkmath.NewIntFromBigInt(new(big.Int).Mul(big.NewInt(v), e.scale))
}

// Magnitude strata (brief, round 5): scales chosen so that single amounts,
// pairwise sums and sums of several values of the drivers (model values
// 1..60, limits 3..12) straddle 2^31, 2^32, 2^53, 2^63, 2^64, 2^128, with
// non-zero low bits.
var scaleSets = map[string][]string{
	"quick": {
		"1073741825",              // 2^30+1: values 2^30..2^36 (cross 2^31, 2^32)
		"1099511627781",           // 2^40+5: [2^32, 2^53)
		"2251799813685251",        // 2^51+3: sums cross 2^53
		"1000000000000000000",     // 10^18: limits 4e18..8e18 < 2^63 < 10e18, balances > 2^64
		"2305843009213706297",     // 2^61+12345: limits 2^63.., sums of limit+amount cross 2^64 for limits >= 6
		"2635249153387078802",     // (2^64-1)/7: 7 units = 2^64-2, 8 units wrap
		"4611686018427387847",     // 2^62-57: 4 units = 2^64-228 (fits), 5 units >= 2^64
		"6148914691236517205",     // (2^64-1)/3: 3 units = 2^64-1 (fits), 4 units >= 2^64
		"9223372036854775817",     // 2^63+9: every amount >= 2^63, two units >= 2^64
		"18446744073710786183",    // 2^64+1234567: everything in [2^64, 2^68)
		"79228162514264337593543950343",           // 2^96+7
		"42535295865117307932921825928971080753", // 2^125+54321: 4 units = 2^127, 8 units = 2^128
	},
}

func init() {
	scaleSets["thorough"] = append(append([]string{}, scaleSets["quick"]...),
		"2147483659",                              // 2^31+11
		"4294967311",                              // 2^32+15
		"9007199254740993",                        // 2^53+1
		"3074457345618258603",                     // (2^64)/6+..: 6 units just over 2^64
		"3689348814741910323",                     // (2^64-1)/5
		"170141183460469231731687303715884105757", // 2^127+29
	)
}

// scalesOf returns the list of scales a driver run iterates over: cfg
// scales=<set name> (one chain per scale), else the single cfg scale.
func scalesOf(fl *drv.Flags) []string {
	if name := fl.CfgStr("scales", ""); name != "" {
		if set, ok := scaleSets[name]; ok {
			return set
		}
		panic("unknown scale set " + name)
	}
	return []string{fl.CfgStr("scale", "1")}
}

func withScale(fl *drv.Flags, k string) *drv.Flags {
	nf := *fl
	nf.Cfg = map[string]string{}
	for a, b := range fl.Cfg {
		nf.Cfg[a] = b
	}
	nf.Cfg["scale"] = k
	delete(nf.Cfg, "scales")
	return &nf
}

func (e *htlcEnv) denoms() []string {
	return append(append(append([]string{}, e.plain...), oddDenoms...), e.assets...)
}
func (e *htlcEnv) accounts() []string {
	return append(append([]string{}, e.users...), depName, modName, blkName, poolName)
}
func (e *htlcEnv) signers() []string { return append(append([]string{}, e.users...), depName) }

func (e *htlcEnv) nameOf(bech string) string {
	if n, ok := e.names[bech]; ok {
		return n
	}
	return bech
}

// ---------------------------------------------------------------------------
// hashing (kept out of TLA+)

func secretOf(name string) []byte {
	s := sha256.Sum256([]byte("verif-secret:" + name))
	return s[:]
}

func (e *htlcEnv) realTs(ts int64) uint64 {
	if ts == 0 {
		return 0
	}
	return uint64(e.t0.Unix() + ts - tsOff)
}

func (e *htlcEnv) logTs(real uint64) int64 {
	if real == 0 {
		return 0
	}
	return int64(real) - e.t0.Unix() + tsOff
}

func hashLock(secret []byte, ts uint64) []byte {
	buf := append([]byte{}, secret...)
	if ts > 0 {
		var b [8]byte
		binary.BigEndian.PutUint64(b[:], ts)
		buf = append(buf, b[:]...)
	}
	s := sha256.Sum256(buf)
	return s[:]
}

func contractID(lock []byte, sender, to sdk.AccAddress, amount sdk.Coins) []byte {
	buf := append([]byte{}, lock...)
	buf = append(buf, sender...)
	buf = append(buf, to...)
	buf = append(buf, []byte(amount.Sort().String())...)
	s := sha256.Sum256(buf)
	return s[:]
}

// nameID registers a real id under a name: the wanted one if free, else a
// fresh one.
func (e *htlcEnv) nameID(idHex, want string) string {
	if n, ok := e.idName[idHex]; ok {
		return n
	}
	n := want
	for i := 2; n == "" || e.idHex[n] != ""; i++ {
		if want == "" {
			e.nextID++
			n = fmt.Sprintf("x%d", e.nextID)
		} else {
			n = fmt.Sprintf("%s~%d", want, i)
		}
	}
	e.idName[idHex] = n
	e.idHex[n] = idHex
	return n
}

func (e *htlcEnv) hexOfName(name string) string {
	if h, ok := e.idHex[name]; ok {
		return h
	}
	s := sha256.Sum256([]byte("verif-unknown-id:" + name))
	h := hex.EncodeToString(s[:])
	e.idName[h] = name
	e.idHex[name] = h
	return h
}

// ---------------------------------------------------------------------------
// projection: the abstract state of HTLC.tla read from the real stores

func (e *htlcEnv) project(ctx sdk.Context) any {
	c := e.c
	k := c.K.HTLC
	inexact := 0
	sm := func(i sdkmath.Int) int64 {
		if e.scale.Cmp(bigOne) != 0 {
			// exact scaling: the logged value is amount / scale; a remainder means the
			// code produced an amount that is not a multiple of the scale (counted as
			// inexact -> clause C0x_ScaleExact), never silently rounded away
			q, r := new(big.Int).QuoRem(i.BigInt(), e.scale, new(big.Int))
			if r.Sign() != 0 {
				inexact++
			}
			i = sdkmath.NewIntFromBigInt(q)
		}
		v, ok := chain.Small(i)
		if !ok {
			inexact++
		}
		return v
	}
	secs := func(d time.Duration) int64 {
		if d%time.Second != 0 {
			inexact++
		}
		return int64(d / time.Second)
	}
	htlcs := chain.M{}
	var all []htlctypes.HTLC
	var allIDs []string
	store := ctx.KVStore(c.App.UnsafeFindStoreKey(htlctypes.StoreKey))
	it := storetypes.KVStorePrefixIterator(store, htlctypes.HTLCKey)
	for ; it.Valid(); it.Next() {
		var h htlctypes.HTLC
		c.App.AppCodec().MustUnmarshal(it.Value(), &h)
		all = append(all, h)
		allIDs = append(allIDs, hex.EncodeToString(it.Key()[1:]))
	}
	it.Close()
	for i, h := range all {
		name, ok := e.idName[allIDs[i]]
		if !ok {
			name = "?" + allIDs[i][:10]
		}
		amt := chain.M{}
		for _, cn := range h.Amount {
			amt[cn.Denom] = sm(cn.Amount)
		}
		state := map[htlctypes.HTLCState]string{htlctypes.Open: "open", htlctypes.Completed: "completed",
			htlctypes.Refunded: "refunded"}[h.State]
		if state == "" {
			state = fmt.Sprintf("state%d", h.State)
		}
		dir := map[htlctypes.SwapDirection]string{htlctypes.None: "none", htlctypes.Incoming: "in",
			htlctypes.Outgoing: "out"}[h.Direction]
		li, ok := e.locks[hexLower(h.HashLock)]
		if !ok {
			li = lockInfo{"?", -1}
		}
		htlcs[name] = chain.M{
			"sender": e.nameOf(h.Sender), "to": e.nameOf(h.To), "amt": amt, "state": state,
			"expiry": int64(h.ExpirationHeight), "transfer": h.Transfer, "dir": dir,
			"sec": li.sec, "lts": li.lts, "ts": e.logTs(h.Timestamp),
		}
	}
	// expiry queue, raw
	queue := []any{}
	it = storetypes.KVStorePrefixIterator(store, htlctypes.HTLCExpiredQueueKey)
	for ; it.Valid(); it.Next() {
		key := it.Key()[1:]
		h := int64(sdk.BigEndianToUint64(key[:8]))
		id := hex.EncodeToString(key[8:])
		name, ok := e.idName[id]
		if !ok {
			name = "?" + id[:10]
		}
		queue = append(queue, []any{h, name})
	}
	it.Close()
	sup := chain.M{}
	for _, s := range k.GetAllAssetSupplies(ctx) {
		sup[s.CurrentSupply.Denom] = chain.M{
			"inc": sm(s.IncomingSupply.Amount), "out": sm(s.OutgoingSupply.Amount),
			"cur": sm(s.CurrentSupply.Amount), "tl": sm(s.TimeLimitedCurrentSupply.Amount),
			"elapsed": secs(s.TimeElapsed),
		}
	}
	params := chain.M{}
	for _, a := range k.GetParams(ctx).AssetParams {
		params[a.Denom] = chain.M{
			"limit": sm(a.SupplyLimit.Limit), "timeLimited": a.SupplyLimit.TimeLimited,
			"period": secs(a.SupplyLimit.TimePeriod), "tbl": sm(a.SupplyLimit.TimeBasedLimit),
			"active": a.Active, "deputy": e.nameOf(a.DeputyAddress), "fee": sm(a.FixedFee),
			"minAmt": sm(a.MinSwapAmount), "maxAmt": sm(a.MaxSwapAmount),
			"minLock": int64(a.MinBlockLock), "maxLock": int64(a.MaxBlockLock),
		}
	}
	prev := int64(-1)
	if pt, found := k.GetPreviousBlockTime(ctx); found {
		d := pt.Sub(e.t0)
		prev = secs(d)
	}
	bal := chain.M{}
	for _, a := range e.accounts() {
		row := chain.M{}
		for _, d := range e.denoms() {
			row[d] = sm(c.Bal(ctx, e.addrs[a], d))
		}
		bal[a] = row
	}
	supply := chain.M{}
	for _, d := range e.denoms() {
		supply[d] = sm(c.Supply(ctx, d).Sub(e.off[d]))
	}
	return chain.M{
		"h": ctx.BlockHeight(), "now": secs(ctx.BlockTime().Sub(e.t0)), "prev": prev, "inBlock": e.inBlock,
		"minLock": int64(htlctypes.MinTimeLock), "maxLock": int64(htlctypes.MaxTimeLock),
		"blocked": e.blocked(),
		"htlc":    htlcs, "q": queue, "sup": sup, "params": params, "bal": bal, "supply": supply,
		"inexact": int64(inexact), "scaleBits": int64(e.scale.BitLen()),
	}
}

// blocked lists the accounts of the universe the bank keeper refuses as
// recipients of module payouts and plain transfers (application wiring).
func (e *htlcEnv) blocked() []any {
	out := []any{}
	for _, a := range e.accounts() {
		if e.c.App.BankKeeper.BlockedAddr(e.addrs[a]) {
			out = append(out, a)
		}
	}
	return out
}

func hexLower(s string) string {
	b, err := hex.DecodeString(s)
	if err != nil {
		return s
	}
	return hex.EncodeToString(b)
}

// ---------------------------------------------------------------------------
// events

func htlcEvent(name string) chain.M {
	return chain.M{"name": name, "who": "", "id": "", "to": "", "amt": chain.M{}, "sec": "", "lts": int64(0),
		"ts": int64(0), "lock": int64(0), "transfer": false, "dt": int64(0), "n": int64(0), "params": chain.M{},
		"ok": true, "panic": false, "halt": false, "mag": "", "form": ""}
}

// norm brings an abstract event read from JSON into the fixed record shape,
// in real units (compression applied).
func (e *htlcEnv) norm(ev chain.M) chain.M {
	o := htlcEvent(chain.Str(ev, "name"))
	C := e.compress
	o["who"], o["id"], o["to"], o["sec"] = chain.Str(ev, "who"), chain.Str(ev, "id"), chain.Str(ev, "to"), chain.Str(ev, "sec")
	amt := chain.M{}
	for k, v := range chain.Obj(ev, "amt") {
		amt[k] = v
	}
	o["amt"] = amt
	o["lts"], o["ts"] = chain.Num(ev, "lts"), chain.Num(ev, "ts")
	o["lock"] = chain.Num(ev, "lock") * C
	o["transfer"] = chain.Bool(ev, "transfer")
	o["dt"], o["n"] = chain.Num(ev, "dt"), chain.Num(ev, "n")
	o["form"] = chain.Str(ev, "form")
	ps := chain.M{}
	if raw, ok := ev["params"].(map[string]any); ok {
		for d, v := range raw {
			p, ok := v.(map[string]any)
			if !ok {
				continue
			}
			ps[d] = chain.M{
				"limit": chain.Num(p, "limit"), "timeLimited": chain.Bool(p, "timeLimited"),
				"period": chain.Num(p, "period") * C, "tbl": chain.Num(p, "tbl"),
				"active": chain.Bool(p, "active"), "deputy": chain.Str(p, "deputy"), "fee": chain.Num(p, "fee"),
				"minAmt": chain.Num(p, "minAmt"), "maxAmt": chain.Num(p, "maxAmt"),
				"minLock": scaleLock(chain.Num(p, "minLock"), C), "maxLock": scaleLock(chain.Num(p, "maxLock"), C),
			}
		}
	}
	o["params"] = ps
	return o
}

func scaleLock(k, C int64) int64 {
	if C == 1 {
		return k
	}
	return k * C
}

func (e *htlcEnv) coins(m chain.M) sdk.Coins {
	var cs sdk.Coins
	keys := make([]string, 0, len(m))
	for d := range m {
		keys = append(keys, d)
	}
	sort.Strings(keys)
	for _, d := range keys {
		cs = append(cs, sdk.Coin{Denom: d, Amount: e.amt(m[d].(int64))})
	}
	return cs
}

// msgOf builds the real message of a Create / Claim event and completes the
// event (id name, actual timestamps).  blockTime is the time of the block the
// message will execute in.
func (e *htlcEnv) msgOf(ev chain.M, blockTime time.Time) (sdk.Msg, string) {
	who := chain.Str(ev, "who")
	if _, ok := e.c.Accts[who]; !ok {
		who = e.users[0]
		ev["who"] = who
	}
	switch chain.Str(ev, "name") {
	case "Create":
		to, ok := e.addrs[chain.Str(ev, "to")]
		if !ok {
			to = e.addrs[e.users[0]]
			ev["to"] = e.users[0]
		}
		lts, ts := ev["lts"].(int64), ev["ts"].(int64)
		recreate := false
		if chain.Str(ev, "form") == "recreate" {
			// a second create of an EXISTING contract (any state): the hash lock must be the
			// one on chain, so the timestamps are taken from the real record, not from the model
			if hs, ok := e.last["htlc"].(chain.M); ok {
				if c, ok := hs[chain.Str(ev, "id")].(chain.M); ok {
					if v, ok := c["lts"].(int64); ok && v >= 0 {
						lts, recreate = v, true
						ev["lts"] = lts
					}
					if v, ok := c["ts"].(int64); ok && recreate {
						ts = v
						ev["ts"] = ts
					}
				}
			}
		}
		if e.tsNow && ev["transfer"].(bool) && !recreate {
			nowTs := blockTime.Unix() - e.t0.Unix() + tsOff
			if lts != 0 {
				lts = nowTs
			}
			if ts != 0 {
				ts = nowTs
			}
			ev["lts"], ev["ts"] = lts, ts
		}
		sec := chain.Str(ev, "sec")
		lock := hashLock(secretOf(sec), e.realTs(lts))
		e.locks[hex.EncodeToString(lock)] = lockInfo{sec, lts}
		amount := e.coins(ev["amt"].(chain.M))
		id := hex.EncodeToString(contractID(lock, e.addrs[who], to, amount))
		ev["id"] = e.nameID(id, chain.Str(ev, "id"))
		if _, ok := e.lockOf[chain.Str(ev, "id")]; !ok {
			e.lockOf[chain.Str(ev, "id")] = hex.EncodeToString(lock)
		}
		return &htlctypes.MsgCreateHTLC{
			Sender: e.addrs[who].String(), To: to.String(),
			ReceiverOnOtherChain: "", SenderOnOtherChain: "",
			Amount: amount, HashLock: hex.EncodeToString(lock), Timestamp: e.realTs(ts),
			TimeLock: uint64(ev["lock"].(int64)), Transfer: ev["transfer"].(bool),
		}, who
	case "Claim":
		id, sec := e.claimBytes(ev)
		return &htlctypes.MsgClaimHTLC{Sender: e.addrs[who].String(), Id: id, Secret: sec}, who
	}
	return nil, ""
}

// claimBytes manufactures the id and the secret of a claim from the event's
// names and its form (HTLC.tla, negative probing): identifiers of the right
// shape and the wrong kind.
//
//	idupper / secupper   upper-case hex of the very id / secret (the same bytes)
//	idhl  (id "hl:<c>")  the hash lock of contract <c> presented as the id
//	idpre (id "pre:<c>") the first half of <c>'s id, zero padded
//	idrev (id "rev:<c>") <c>'s id with its halves swapped
//	sechl (sec "hl:<c>") the hash lock of <c> presented as the secret
//	secid (sec "id:<c>") the id of <c> presented as the secret
func (e *htlcEnv) claimBytes(ev chain.M) (string, string) {
	idName, secName, form := chain.Str(ev, "id"), chain.Str(ev, "sec"), chain.Str(ev, "form")
	after := func(s string) string {
		if i := strings.Index(s, ":"); i >= 0 {
			return s[i+1:]
		}
		return s
	}
	lockHex := func(name string) string {
		if l, ok := e.lockOf[name]; ok {
			return l
		}
		s := sha256.Sum256([]byte("verif-unknown-lock:" + name))
		return hex.EncodeToString(s[:])
	}
	var id string
	switch form {
	case "idhl":
		id = lockHex(after(idName))
	case "idpre":
		id = e.hexOfName(after(idName))[:32] + strings.Repeat("0", 32)
	case "idrev":
		h := e.hexOfName(after(idName))
		id = h[32:] + h[:32]
	default:
		id = e.hexOfName(idName)
	}
	if form == "idhl" || form == "idpre" || form == "idrev" {
		if n, taken := e.idName[id]; taken && n != idName {
			// the manufactured bytes are some contract's real id (cannot happen with sha256)
			ev["id"] = n
		}
	}
	var sec string
	switch form {
	case "sechl":
		sec = lockHex(after(secName))
	case "secid":
		sec = e.hexOfName(after(secName))
	default:
		sec = hex.EncodeToString(secretOf(secName))
	}
	switch form {
	case "idupper":
		id = strings.ToUpper(id)
	case "secupper":
		sec = strings.ToUpper(sec)
	}
	return id, sec
}

func (e *htlcEnv) paramsMsg(ev chain.M) *htlctypes.MsgUpdateParams {
	ps := ev["params"].(chain.M)
	keys := make([]string, 0, len(ps))
	for d := range ps {
		keys = append(keys, d)
	}
	sort.Strings(keys)
	var aps []htlctypes.AssetParam
	for _, d := range keys {
		p := ps[d].(chain.M)
		dep, ok := e.addrs[p["deputy"].(string)]
		if !ok {
			dep = e.addrs[depName]
			p["deputy"] = depName
		}
		aps = append(aps, htlctypes.AssetParam{
			Denom: d,
			SupplyLimit: htlctypes.SupplyLimit{Limit: e.amt(p["limit"].(int64)), TimeLimited: p["timeLimited"].(bool),
				TimePeriod: time.Duration(p["period"].(int64)) * time.Second, TimeBasedLimit: e.amt(p["tbl"].(int64))},
			Active: p["active"].(bool), DeputyAddress: dep.String(), FixedFee: e.amt(p["fee"].(int64)),
			MinSwapAmount: e.amt(p["minAmt"].(int64)), MaxSwapAmount: e.amt(p["maxAmt"].(int64)),
			MinBlockLock: uint64(p["minLock"].(int64)), MaxBlockLock: uint64(p["maxLock"].(int64)),
		})
	}
	if aps == nil {
		aps = []htlctypes.AssetParam{}
	}
	return &htlctypes.MsgUpdateParams{Authority: chain.GovAuthority(), Params: htlctypes.Params{AssetParams: aps}}
}

// ---------------------------------------------------------------------------
// executor

// logEv writes a trace line; the event carries the effective driver
// configuration so that a replay file cut from the trace is self-describing.
func (e *htlcEnv) logEv(w *chain.TraceWriter, ev chain.M, st any) {
	ev["cfg"] = e.cfgStr
	w.Write(ev, st)
}

func withInBlock(st any, v bool) chain.M {
	m := chain.CopyM(st.(chain.M))
	m["inBlock"] = v
	return m
}

// runBlock executes one logged block: BeginBlock, the pending messages, EndBlock.
func (e *htlcEnv) runBlock(dt int64, pending []chain.M, w *chain.TraceWriter) bool {
	if e.dead {
		return false
	}
	if e.compress > 1 {
		if !e.skip(e.compress-1, dt, w) {
			return false
		}
	}
	if dt < 0 {
		dt = 0
	}
	bt := e.c.Time.Add(time.Duration(dt) * time.Second)
	var txs []chain.Tx
	for _, ev := range pending {
		msg, signer := e.msgOf(ev, bt)
		txs = append(txs, chain.Tx{Signer: signer, Msgs: []sdk.Msg{msg}})
	}
	e.inBlock = true
	res := e.c.RunBlock(time.Duration(dt)*time.Second, txs)
	bb := htlcEvent("BeginBlock")
	bb["dt"] = dt
	if res.Halt {
		bb["halt"], bb["ok"] = true, false
		e.logEv(w, bb, e.last)
		e.dead = true
		return false
	}
	e.logEv(w, bb, res.BeginState)
	e.last = res.BeginState.(chain.M)
	for i, ev := range pending {
		r := res.Txs[i]
		if r.Aborted {
			// member of a multi-message transaction that failed as a whole (chain.BundlePct):
			// whatever it did was rolled back; the specification knows no such event and
			// treats it as a rejection without effect
			ev["_orig"], ev["name"] = ev["name"], "TxFailed"
		}
		ev["ok"], ev["panic"] = r.OK, r.Panic
		ev["mag"] = e.magOf(ev)
		st := r.State
		if st == nil {
			st = res.BeginState
		}
		e.logEv(w, ev, st)
		e.last = st.(chain.M)
	}
	e.inBlock = false
	end := withInBlock(res.EndState, false)
	e.logEv(w, htlcEvent("EndBlock"), end)
	e.last = end
	return true
}

// magOf classifies a limit check by magnitude (for the vacuity counters of
// the magnitude tier): "sum64" when limit, supply and amount each fit 64 bits
// but supply + amount does not — judged on the state before the event.
func (e *htlcEnv) magOf(ev chain.M) string {
	var d string
	var a int64
	claim := false
	switch chain.Str(ev, "name") {
	case "Create":
		if !ev["transfer"].(bool) {
			return ""
		}
		for k, v := range ev["amt"].(chain.M) {
			d, a = k, v.(int64)
		}
	case "Claim":
		c, ok := e.last["htlc"].(chain.M)[chain.Str(ev, "id")].(chain.M)
		if !ok || c["dir"] != "in" || c["state"] != "open" {
			return ""
		}
		for k, v := range c["amt"].(chain.M) {
			d, a = k, v.(int64)
		}
		claim = true
	default:
		return ""
	}
	p, ok1 := e.last["params"].(chain.M)[d].(chain.M)
	su, ok2 := e.last["sup"].(chain.M)[d].(chain.M)
	if !ok1 || !ok2 {
		return ""
	}
	if !claim && chain.Str(ev, "who") != p["deputy"] {
		return ""
	}
	two64 := new(big.Int).Lsh(bigOne, 64)
	fits := func(v int64) bool { return e.amt(v).BigInt().Cmp(two64) < 0 }
	wraps := func(limit, supply int64) bool {
		return fits(limit) && fits(supply) && fits(a) && !fits(supply+a)
	}
	base, tbase := su["cur"].(int64), su["tl"].(int64)
	if !claim {
		base, tbase = base+su["inc"].(int64), tbase+su["inc"].(int64)
	}
	if wraps(p["limit"].(int64), base) || (p["timeLimited"].(bool) && wraps(p["tbl"].(int64), tbase)) {
		return "sum64"
	}
	return ""
}

// nextDue returns the smallest queued height in (h, h+n], or 0.
func (e *htlcEnv) nextDue(h, n int64) int64 {
	best := int64(0)
	for _, x := range e.last["q"].([]any) {
		d := x.([]any)[0].(int64)
		if d > h && d <= h+n && (best == 0 || d < best) {
			best = d
		}
	}
	return best
}

// skip fast-forwards through n blocks (dt seconds each).  Blocks at which
// something is due are logged individually; the others run for real (every
// BeginBlock executes and is watched for a halt) but are logged as one Skip
// event.
func (e *htlcEnv) skip(n, dt int64, w *chain.TraceWriter) bool {
	if dt < 0 {
		dt = 0
	}
	for n > 0 && !e.dead {
		h := e.c.Height
		d := e.nextDue(h, n)
		k := n
		if d != 0 {
			k = d - h - 1
		}
		if k > 0 {
			proj := e.c.Project
			e.c.Project = nil
			ev := htlcEvent("Skip")
			ev["n"], ev["dt"] = k, dt
			for i := int64(0); i < k; i++ {
				res := e.c.RunBlock(time.Duration(dt)*time.Second, nil)
				if res.Halt {
					e.c.Project = proj
					ev["halt"], ev["ok"] = true, false
					e.logEv(w, ev, e.last)
					e.dead = true
					return false
				}
			}
			e.c.Project = proj
			e.inBlock = false
			st := e.project(e.c.Ctx()).(chain.M)
			e.logEv(w, ev, st)
			e.last = st
			n -= k
		}
		if d != 0 {
			c := e.compress
			e.compress = 1
			ok := e.runBlock(dt, nil, w)
			e.compress = c
			if !ok {
				return false
			}
			n--
		}
	}
	return !e.dead
}

func (e *htlcEnv) updateParams(ev chain.M, w *chain.TraceWriter) {
	msg := e.paramsMsg(ev)
	ok, panicked, _ := e.c.Authority(msg)
	ev["ok"], ev["panic"] = ok, panicked
	e.inBlock = false
	st := e.project(e.c.Ctx()).(chain.M)
	e.logEv(w, ev, st)
	e.last = st
}

// fault damages the committed state between two blocks (HTLC.tla DoFault; driver cfg
// fault=1, default off, never used by a registered check): the only way to reach the
// errors the begin blocker swallows on the code as it stands.
func (e *htlcEnv) fault(ev chain.M, w *chain.TraceWriter) {
	ctx, write := e.c.Ctx().CacheContext()
	ok := true
	func() {
		defer func() {
			if r := recover(); r != nil {
				ok = false
			}
		}()
		store := ctx.KVStore(e.c.App.UnsafeFindStoreKey(htlctypes.StoreKey))
		amt, _ := ev["amt"].(chain.M)
		switch chain.Str(ev, "form") {
		case "drain":
			to, known := e.addrs[chain.Str(ev, "who")]
			if !known {
				ok = false
				return
			}
			// the bank keeper's own module-to-account path would refuse nothing here; use the
			// plain keeper send so that blocked recipients do not matter
			if err := e.c.App.BankKeeper.SendCoins(ctx, e.addrs[modName], to, e.coins(amt)); err != nil {
				ok = false
			}
		case "dropsup":
			for d := range amt {
				store.Delete(htlctypes.GetAssetSupplyKey(d))
			}
		case "ghostq":
			id, err := hex.DecodeString(e.hexOfName(chain.Str(ev, "id")))
			if err != nil {
				ok = false
				return
			}
			h, _ := ev["lock"].(int64)
			store.Set(htlctypes.GetHTLCExpiredQueueKey(uint64(h), id), []byte{})
		default:
			ok = false
		}
	}()
	if ok {
		write()
	}
	ev["ok"] = ok
	e.inBlock = false
	st := e.project(e.c.Ctx()).(chain.M)
	e.logEv(w, ev, st)
	e.last = st
}

func (e *htlcEnv) start(w *chain.TraceWriter) {
	e.inBlock = false
	e.last = e.project(e.c.Ctx()).(chain.M)
	e.logEv(w, htlcEvent("Init"), e.last)
}

// run executes one abstract behaviour on a fresh chain.
func htlcRun(fl *drv.Flags, beh []chain.M, w *chain.TraceWriter, epilogue bool) {
	if len(beh) > 0 {
		if cs := chain.Str(beh[0], "cfg"); cs != "" {
			// events cut from a recorded trace: real units, recorded chain configuration
			nf := *fl
			nf.Cfg = map[string]string{}
			for k, v := range fl.Cfg {
				nf.Cfg[k] = v
			}
			for _, kv := range strings.Split(cs, ";") {
				if p := strings.SplitN(kv, "=", 2); len(p) == 2 {
					nf.Cfg[p[0]] = p[1]
				}
			}
			fl = &nf
		}
	}
	e := newHTLCEnv(fl)
	e.start(w)
	var pending []chain.M
	open := false
	dt := int64(1)
	flush := func() bool {
		if !open {
			return true
		}
		open = false
		p := pending
		pending = nil
		return e.runBlock(dt, p, w)
	}
	for _, raw := range beh {
		ev := e.norm(raw)
		switch chain.Str(ev, "name") {
		case "BeginBlock":
			if !flush() {
				return
			}
			open, dt = true, ev["dt"].(int64)
		case "EndBlock":
			if !open {
				open, dt = true, 1
			}
			if !flush() {
				return
			}
		case "Skip":
			if !flush() {
				return
			}
			if !e.skip(ev["n"].(int64), ev["dt"].(int64), w) {
				return
			}
		case "UpdateParams":
			if !flush() {
				return
			}
			e.updateParams(ev, w)
		case "Fault":
			if fl.CfgInt("fault", 0) != 1 {
				continue // fault injection is off unless asked for
			}
			if !flush() {
				return
			}
			// real units: the event's lock is a height, never a time lock to compress
			ev["lock"] = chain.Num(raw, "lock")
			e.fault(ev, w)
		case "Create", "Claim":
			if !open {
				open, dt = true, 1
			}
			pending = append(pending, ev)
		}
	}
	if !flush() {
		return
	}
	if epilogue {
		e.epilogue(w)
	}
}

// epilogue (C03, the money-back guarantee): computed from the REAL state, never
// from what the model expected.  Advance past the expiry of everything the
// chain still holds open or queued (so whatever the code accepted, rightly or
// wrongly, meets its begin blocker), then one more block in which every
// contract of the chain (at most closeMax) is claimed once more with its own
// secret — by then none is open, so each of these claims must be rejected and
// move nothing.
const closeMax = 6

func (e *htlcEnv) epilogue(w *chain.TraceWriter) {
	if e.dead {
		return
	}
	max := int64(0)
	if q, ok := e.last["q"].([]any); ok {
		for _, x := range q {
			if p, ok := x.([]any); ok && len(p) == 2 {
				if d, ok := p[0].(int64); ok && d > max {
					max = d
				}
			}
		}
	}
	hs, _ := e.last["htlc"].(chain.M)
	for _, v := range hs {
		if c, ok := v.(chain.M); ok && c["state"] != "completed" && c["state"] != "refunded" {
			if d, ok := c["expiry"].(int64); ok && d > max && d-e.c.Height <= 2*int64(htlctypes.MaxTimeLock) {
				max = d
			}
		}
	}
	cmp := e.compress
	e.compress = 1
	defer func() { e.compress = cmp }()
	if max > e.c.Height {
		if !e.skip(max-e.c.Height+1, 2, w) {
			return
		}
	}
	hs, _ = e.last["htlc"].(chain.M)
	ids := chain.SortedKeys(hs)
	if len(ids) == 0 {
		return
	}
	// the closeMax contracts closed last are the interesting ones; keep the order stable
	expOf := func(id string) int64 {
		if c, ok := hs[id].(chain.M); ok {
			if d, ok := c["expiry"].(int64); ok {
				return d
			}
		}
		return 0
	}
	sort.SliceStable(ids, func(a, b int) bool { return expOf(ids[a]) > expOf(ids[b]) })
	if len(ids) > closeMax {
		ids = ids[:closeMax]
	}
	var pending []chain.M
	signers := e.signers()
	for k, id := range ids {
		c, ok := hs[id].(chain.M)
		if !ok {
			continue
		}
		sec, _ := c["sec"].(string)
		if sec == "" || sec == "?" {
			sec = "junk"
		}
		cl := htlcEvent("Claim")
		who, _ := c["to"].(string)
		if _, can := e.c.Accts[who]; !can || k%3 == 2 {
			who = signers[k%len(signers)]
		}
		cl["who"], cl["id"], cl["sec"], cl["form"] = who, id, sec, "closing"
		pending = append(pending, cl)
	}
	e.runBlock(1, pending, w)
}

func htlcDriver(mode string, fl *drv.Flags) error {
	w := chain.NewTraceWriter(fl.Out)
	defer w.Close()
	switch mode {
	case "replay":
		for _, beh := range chain.ReadBehaviours(fl.In) {
			ks := scalesOf(fl)
			if len(beh) > 0 && chain.Str(beh[0], "cfg") != "" {
				ks = ks[:1] // events cut from a recorded trace carry their own scale
			}
			for _, k := range ks {
				htlcRun(withScale(fl, k), beh, w, fl.CfgInt("epilogue", 1) == 1)
			}
		}
	case "random":
		rng := rand.New(rand.NewSource(fl.Seed))
		ks := scalesOf(fl)
		for i := 0; i < fl.N; i++ {
			htlcRandom(withScale(fl, ks[i%len(ks)]), rng, w)
		}
	default:
		return fmt.Errorf("unknown mode %q", mode)
	}
	return nil
}
