package main

import (
	"crypto/sha256"
	"encoding/hex"
	"encoding/json"
	"fmt"
	"math/big"
	"math/rand"
	"regexp"
	"sort"
	"strings"
	"time"

	storetypes "cosmossdk.io/store/types"
	sdk "github.com/cosmos/cosmos-sdk/types"

	"verif/harness/chain"
	"verif/harness/cmd/internal/svcslice"
	"verif/harness/drv"

	htlc "mods.irisnet.org/modules/htlc"
	oracle "mods.irisnet.org/modules/oracle"
	random "mods.irisnet.org/modules/random"
	randomtypes "mods.irisnet.org/modules/random/types"
	service "mods.irisnet.org/modules/service"
	servicetypes "mods.irisnet.org/modules/service/types"
	"mods.irisnet.org/simapp"
)

func main() { drv.Main("random", randomDriver) }

// Model <-> chain mapping for Random.tla:
//
//	accounts   consumers "u1".., providers "p1".., "svcreq"/"svcdep" (service
//	           escrows), "feepool"; one denom "stake" (service base denom)
//	request id sha256(height || consumer)  <->  "<consumer>@<height>"
//	contexts   service request context ids <->  "c1", "c2", ... (creation order)
//	values     20-digit decimals stay strings; the PRNG is evaluated in Go and
//	           the trace carries booleans (pure / range / ref) per generated value
type randEnv struct {
	c        *chain.Chain
	svc      *svcslice.Env
	users    []string
	provs    []string // all provider accounts
	bound    int      // the first `bound` providers bind the random service
	price    int64
	timeout  int64
	taxNum   int64
	taxDen   int64
	idOf     map[string]string // hex request id -> "<consumer>@<height>"
	idUpTo   int64
	last     chain.M
	prevHash []byte
	accts    map[string]string
}

func seedBytes(k int64) []byte {
	s := sha256.Sum256([]byte(fmt.Sprintf("verif-seed-%d", k)))
	return s[:]
}

func newRandEnv(fl *drv.Flags) *randEnv {
	e := &randEnv{
		users:   []string{"u1", "u2", "u3", "u4"}[:fl.CfgInt("users", 2)],
		provs:   []string{"p1", "p2"}[:fl.CfgInt("provs", 1)],
		bound:   int(fl.CfgInt("bound", fl.CfgInt("provs", 1))),
		price:   fl.CfgInt("price", 10),
		timeout: fl.CfgInt("timeout", 2),
		taxNum:  fl.CfgInt("taxnum", 1),
		taxDen:  fl.CfgInt("taxden", 10),
		idOf:    map[string]string{},
	}
	accts := map[string]string{}
	for _, u := range e.users {
		accts[u] = fmt.Sprintf("%d%s", fl.CfgInt("funds", 25), svcslice.Denom)
	}
	for _, p := range e.provs {
		accts[p] = fmt.Sprintf("%d%s", 40, svcslice.Denom)
	}
	accts[e.users[0]] += ",100btc" // for fee caps named in another denomination
	e.accts = accts
	e.c = chain.New(chain.Options{
		Accounts: accts,
		MutateGenesis: func(c *chain.Chain, gs simapp.GenesisState) {
			svcslice.MutateGenesis(c, gs, svcslice.Options{MaxTimeout: e.timeout, TaxNum: e.taxNum, TaxDen: e.taxDen,
				Definitions: []servicetypes.ServiceDefinition{servicetypes.GetRandomSvcDefinition()}})
		},
	})
	c := e.c
	e.bindEnv()
	// block 2: providers bind the random service (real MsgBindService)
	var txs []chain.Tx
	for i, p := range e.provs {
		if i >= e.bound {
			break
		}
		price := e.price + int64(i)*2
		txs = append(txs, chain.Tx{Signer: p, Msgs: []sdk.Msg{svcslice.BindMsg(c, randomtypes.ServiceName, p, price, 20, 1)}})
	}
	r := c.RunBlock(5*time.Second, txs)
	for i, t := range r.Txs {
		if !t.OK {
			panic(fmt.Sprintf("random setup tx %d failed: %s", i, t.Log))
		}
	}
	c.Project = func(ctx sdk.Context) any { return e.project(ctx) }
	return e
}

// bindEnv attaches the service-slice projection to the current chain.
func (e *randEnv) bindEnv() {
	e.svc = svcslice.NewEnv(e.c, randomtypes.ServiceName, e.provs)
	e.svc.RenderOutput = renderSeedOutput
}

func (e *randEnv) accounts() []string { return append(append([]string{}, e.users...), e.provs...) }

func (e *randEnv) reqIDName(ctx sdk.Context, id []byte) string {
	for e.idUpTo < ctx.BlockHeight()+2 {
		e.idUpTo++
		for _, u := range e.users {
			rid := randomtypes.GenerateRequestID(randomtypes.Request{Height: e.idUpTo, Consumer: e.c.Accts[u].Addr.String()})
			e.idOf[hex.EncodeToString(rid)] = fmt.Sprintf("%s@%d", u, e.idUpTo)
		}
	}
	if id == nil {
		return ""
	}
	if n, ok := e.idOf[hex.EncodeToString(id)]; ok {
		return n
	}
	if len(id) > 4 {
		id = id[:4]
	}
	return "?" + hex.EncodeToString(id)
}

func short(h string) string {
	if len(h) > 8 {
		return strings.ToLower(h[:8])
	}
	return strings.ToLower(h)
}

func (e *randEnv) reqRecord(r randomtypes.Request) chain.M {
	cname := ""
	if r.ServiceContextID != "" {
		cname = e.svc.CtxNames[strings.ToLower(r.ServiceContextID)]
		if cname == "" {
			cname = "?" + short(r.ServiceContextID)
		}
	}
	cap, _ := chain.Small(r.ServiceFeeCap.AmountOf(svcslice.Denom))
	return chain.M{"id": fmt.Sprintf("%s@%d", e.svc.NameOf(r.Consumer), r.Height), "consumer": e.svc.NameOf(r.Consumer),
		"reqH": r.Height, "oracle": r.Oracle, "ctx": cname, "cap": cap, "txh": short(r.TxHash)}
}

// project reads the abstract state of Random.tla from the real stores.
func (e *randEnv) project(ctx sdk.Context) any {
	c := e.c
	cdc := c.App.AppCodec()
	ctxs, bind, earned, qBad := e.svc.Project(ctx) // first: names the contexts
	store := ctx.KVStore(c.App.UnsafeFindStoreKey(randomtypes.StoreKey))

	// What users and other modules read comes from the keeper's own getters; the
	// raw prefix scans (types/keys.go) only cross-check them (rbBad, strict mode).
	rbBad := int64(0)
	rawCount := func(prefix []byte) int {
		n := 0
		it := storetypes.KVStorePrefixIterator(store, prefix)
		defer it.Close()
		for ; it.Valid(); it.Next() {
			n++
		}
		return n
	}

	// pending queue, read the way a user reads it: the module's gRPC query by height, for
	// every height that has an entry in the raw store and a window around the current one,
	// compared with the query for the whole queue and with the raw store (due | id ->
	// request).  Where the three disagree the entry's id is marked, so that the clauses see
	// an entry that is no request's entry.
	pending := []any{}
	type rawEnt struct {
		due int64
		kid string
		m   chain.M
	}
	var raws []rawEnt
	heights := map[int64]bool{}
	c.K.Random.IterateRandomRequestQueue(ctx, func(h int64, reqID []byte, r randomtypes.Request) bool {
		raws = append(raws, rawEnt{h, e.reqIDName(ctx, reqID), e.reqRecord(r)})
		heights[h] = true
		return false
	})
	for h := ctx.BlockHeight() - 3; h <= ctx.BlockHeight()+8; h++ {
		if h > 0 {
			heights[h] = true
		}
	}
	ident := func(m chain.M) string { return fmt.Sprintf("%v|%v|%v|%v", m["id"], m["txh"], m["oracle"], m["ctx"]) }
	whole := map[string]int{}
	if resp, err := c.K.Random.RandomRequestQueue(ctx, &randomtypes.QueryRandomRequestQueueRequest{Height: 0}); err == nil && resp != nil {
		for _, r := range resp.Requests {
			whole[ident(e.reqRecord(r))]++
		}
	} else {
		rbBad++
	}
	rawLeft := map[string]int{}
	keyName := map[string]string{}
	for _, r := range raws {
		k := fmt.Sprintf("%d|%s", r.due, ident(r.m))
		rawLeft[k]++
		keyName[k] = r.kid
	}
	hs := make([]int64, 0, len(heights))
	for h := range heights {
		hs = append(hs, h)
	}
	sort.Slice(hs, func(i, j int) bool { return hs[i] < hs[j] })
	for _, h := range hs {
		resp, err := c.K.Random.RandomRequestQueue(ctx, &randomtypes.QueryRandomRequestQueueRequest{Height: h})
		if err != nil || resp == nil {
			rbBad++
			continue
		}
		for _, r := range resp.Requests {
			m := e.reqRecord(r)
			id := ident(m)
			k := fmt.Sprintf("%d|%s", h, id)
			m["due"] = farDown(h)
			if rawLeft[k] > 0 {
				rawLeft[k]--
				// the key's request id must be the id of the stored request
				if kid := keyName[k]; kid != m["id"] {
					m["id"] = kid + "!" + m["id"].(string)
				}
			} else {
				rbBad++
				m["id"] = "?raw!" + m["id"].(string)
			}
			if whole[id] > 0 {
				whole[id]--
			} else {
				rbBad++
				m["id"] = "?all!" + m["id"].(string)
			}
			pending = append(pending, m)
		}
	}
	for k, n := range rawLeft {
		for ; n > 0; n-- { // in the store, not reported under its height
			rbBad++
			pending = append(pending, chain.M{"id": "?byheight!" + k, "consumer": "", "reqH": int64(0), "oracle": false,
				"ctx": "", "cap": int64(0), "txh": "", "due": int64(0)})
		}
	}
	for id, n := range whole {
		for ; n > 0; n-- { // reported by the whole-queue query only
			rbBad++
			pending = append(pending, chain.M{"id": "?onlyall!" + id, "consumer": "", "reqH": int64(0), "oracle": false,
				"ctx": "", "cap": int64(0), "txh": "", "due": int64(0)})
		}
	}
	if rawCount(randomtypes.RandomRequestQueueKey) != len(raws) {
		rbBad++
	}

	// results, read back by request id (every id a tracked consumer could have got so far)
	results := chain.M{}
	e.reqIDName(ctx, nil) // extends the id table up to this height
	for hx, name := range e.idOf {
		rid, _ := hex.DecodeString(hx)
		// read back the way a user does: the module's gRPC query under the hex request id
		_ = rid
		if resp, err := c.K.Random.Random(ctx, &randomtypes.QueryRandomRequest{ReqId: hx}); err == nil && resp != nil && resp.Random != nil {
			r := resp.Random
			results[name] = chain.M{"h": r.Height, "value": r.Value, "txh": short(r.RequestTxHash)}
		}
	}
	it := storetypes.KVStorePrefixIterator(store, randomtypes.RandomKey)
	for ; it.Valid(); it.Next() {
		var r randomtypes.Random
		cdc.MustUnmarshal(it.Value(), &r)
		got, ok := results[e.reqIDName(ctx, it.Key()[1:])].(chain.M)
		if !ok || got["value"] != r.Value || got["h"] != r.Height {
			rbBad++
		}
	}
	it.Close()
	if rawCount(randomtypes.RandomKey) != len(results) {
		rbBad++
	}

	// oracle requests waiting for their seed, by service context id
	opend := chain.M{}
	for name, id := range e.svc.CtxIDs {
		if r, err := c.K.Random.GetOracleRandRequest(ctx, id); err == nil {
			opend[name] = e.reqRecord(r)
		}
	}
	if rawCount(randomtypes.OracleRandomRequestKey) != len(opend) {
		rbBad++
	}

	h := ctx.BlockHeight()
	inb := true
	if !ctx.IsZero() && ctx.BlockHeight() == c.Height {
		h = c.Height + 1 // committed state: the next block is c.Height+1
		inb = false
	}
	return chain.M{
		"h": h, "inb": inb, "pending": pending, "results": results, "opend": opend,
		"ctx": ctxs, "bind": bind, "earned": earned, "nctx": e.svc.NCtx,
		"bal":    e.svc.Balances(ctx, e.accounts()),
		"params": chain.M{"timeout": e.timeout, "taxNum": e.taxNum, "taxDen": e.taxDen},
		"qBad":   qBad, "rbBad": rbBad,
	}
}

func randEvent(name, who string) chain.M {
	return chain.M{"name": name, "who": who, "n": int64(0), "oracle": false, "cap": int64(0), "ctx": "", "kind": "", "pay": "",
		"seed": int64(0), "dt": int64(0), "prov": "", "rank": int64(0), "txh": "", "ok": true, "panic": false, "halt": false, "gen": chain.M{}}
}

func (e *randEnv) norm(ev chain.M) chain.M {
	o := randEvent(chain.Str(ev, "name"), chain.Str(ev, "who"))
	o["n"] = chain.Num(ev, "n")
	o["oracle"] = chain.Bool(ev, "oracle")
	o["cap"] = chain.Num(ev, "cap")
	o["ctx"] = chain.Str(ev, "ctx")
	o["kind"] = chain.Str(ev, "kind")
	o["pay"] = chain.Str(ev, "pay")
	o["seed"] = chain.Num(ev, "seed")
	o["dt"] = chain.Num(ev, "dt")
	return o
}

// msgOf maps an abstract event to a real message (on the committed state).
func (e *randEnv) msgOf(ev chain.M) sdk.Msg {
	c := e.c
	who := chain.Str(ev, "who")
	a, ok := c.Accts[who]
	if !ok {
		return nil
	}
	switch chain.Str(ev, "name") {
	case "RequestRandom":
		var cap sdk.Coins
		if v := chain.Num(ev, "cap"); v > 0 {
			switch chain.Str(ev, "pay") {
			case "btccap": // a fee cap in another denomination
				cap = sdk.NewCoins(sdk.NewInt64Coin("btc", v))
			case "twocap": // ... in two
				cap = sdk.NewCoins(sdk.NewInt64Coin("btc", 1), sdk.NewInt64Coin(svcslice.Denom, v))
			default:
				cap = sdk.NewCoins(sdk.NewInt64Coin(svcslice.Denom, v))
			}
		}
		return &randomtypes.MsgRequestRandom{Consumer: a.Addr.String(), BlockInterval: farUp(chain.Num(ev, "n")),
			Oracle: chain.Bool(ev, "oracle"), ServiceFeeCap: cap}
	case "Respond":
		rid := e.svc.RequestID(c.Ctx(), chain.Str(ev, "ctx"), who)
		msg := &servicetypes.MsgRespondService{RequestId: strings.ToUpper(rid), Provider: a.Addr.String()}
		pay := chain.Str(ev, "pay")
		switch pay {
		case "ridlower":
			msg.RequestId = strings.ToLower(rid)
		case "ridshort":
			msg.RequestId = msg.RequestId[:len(msg.RequestId)-2]
		}
		msg.Result, msg.Output = renderSeed(chain.Str(ev, "kind"), pay, chain.Num(ev, "seed"))
		return msg
	}
	return nil
}

var valueRe = regexp.MustCompile(`^0\.[0-9]{20}$`)

// refRand is an independent implementation of the documented generator
// (types/rng.go): sha256 of (t + H(hash)/t + H(consumer)/t [+ H(seed)/t]) mod 10^20.
func refRand(hash []byte, ts int64, who, seed []byte, oracle bool) string {
	bt := big.NewInt(ts)
	sum := new(big.Int).Set(bt)
	add := func(b []byte) {
		h := sha256.Sum256(b)
		sum.Add(sum, new(big.Int).Quo(new(big.Int).SetBytes(h[:]), bt))
	}
	add(hash)
	add(who)
	if oracle {
		add(seed)
	}
	h := sha256.Sum256(sum.Bytes())
	prec := new(big.Int).Exp(big.NewInt(10), big.NewInt(20), nil)
	r := new(big.Int).Mod(new(big.Int).SetBytes(h[:]), prec)
	return "0." + fmt.Sprintf("%020s", r.String())
}

// genOf lists the results written between two projected states, each with the
// verdicts the specification cannot compute itself:
//
//	pure  — the stored value is the exported PRNG applied to (previous block's
//	        app hash, block time, requester, oracle seed)
//	range — a decimal in [0,1) with exactly 20 fractional digits
//	ref   — agrees with the harness's own implementation of the generator (strict mode)
func (e *randEnv) genOf(pre, post chain.M, blockTime time.Time, seed []byte, oracle bool) chain.M {
	gen := chain.M{}
	pr := pre["results"].(chain.M)
	for id, v := range post["results"].(chain.M) {
		nv := v.(chain.M)
		if old, ok := pr[id]; ok {
			ov := old.(chain.M)
			if ov["h"] == nv["h"] && ov["value"] == nv["value"] && ov["txh"] == nv["txh"] {
				continue
			}
		}
		val := nv["value"].(string)
		consumer := strings.SplitN(id, "@", 2)[0]
		var addr sdk.AccAddress
		if a, ok := e.c.Accts[consumer]; ok {
			addr = a.Addr
		}
		want := randomtypes.MakePRNG(e.prevHash, blockTime.Unix(), addr, seed, oracle).GetRand().FloatString(randomtypes.RandPrec)
		gen[id] = chain.M{"value": val, "pure": val == want, "range": valueRe.MatchString(val),
			"ref": val == refRand(e.prevHash, blockTime.Unix(), addr, seed, oracle)}
	}
	return gen
}

// runBlock executes one block: BeginBlock line, one line per message, EndBlock line.
func (e *randEnv) runBlock(begin chain.M, pending []chain.M, w *chain.TraceWriter) bool {
	var txs []chain.Tx
	for _, ev := range pending {
		txs = append(txs, chain.Tx{Signer: chain.Str(ev, "who"), Msgs: []sdk.Msg{e.msgOf(ev)}})
	}
	dt := chain.Num(begin, "dt")
	if dt <= 0 {
		dt = 5
		begin["dt"] = dt
	}
	e.prevHash = e.c.App.LastCommitID().Hash
	res := e.c.RunBlock(time.Duration(dt)*time.Second, txs)
	if res.Halt {
		begin["halt"], begin["ok"] = true, false
		w.Write(begin, e.last)
		return false
	}
	bs := res.BeginState.(chain.M)
	begin["gen"] = e.genOf(e.last, bs, res.Time, nil, false)
	w.Write(begin, bs)
	e.last = bs
	for i, ev := range pending {
		r := res.Txs[i]
		if r.Aborted {
			// member of a multi-message transaction that failed as a whole (chain.BundlePct):
			// whatever it did was rolled back; the specification knows no such event and
			// treats it as a rejection without effect
			ev["_orig"], ev["name"] = ev["name"], "TxFailed"
		}
		ev["ok"], ev["panic"] = r.OK, r.Panic
		st := r.State.(chain.M)
		switch chain.Str(ev, "name") {
		case "RequestRandom":
			if r.OK {
				ev["txh"] = short(r.TxHash)
				if chain.Bool(ev, "oracle") {
					// the provider the module picked (pseudo-randomly) for the new context
					name := fmt.Sprintf("c%d", st["nctx"].(int64))
					if cx, ok := st["ctx"].(chain.M)[name].(chain.M); ok {
						if ps := cx["provs"].([]any); len(ps) > 0 {
							ev["prov"] = ps[0]
						}
						ev["rank"] = cx["rank"]
					}
				}
			}
		case "Respond":
			ev["gen"] = e.genOf(e.last, st, res.Time, seedBytes(chain.Num(ev, "seed")), true)
		}
		w.Write(ev, st)
		e.last = st
	}
	end := randEvent("EndBlock", "")
	es := res.EndState.(chain.M)
	end["gen"] = e.genOf(e.last, es, res.Time, nil, false)
	w.Write(end, es)
	e.last = es
	return true
}

// zhOK: the states for which Random.tla models a zero-height restart (no
// service context, only block-hash requests in the queue).
func (e *randEnv) zhOK() bool {
	if len(e.last["ctx"].(chain.M)) > 0 || len(e.last["opend"].(chain.M)) > 0 || e.last["inb"].(bool) {
		return false
	}
	h := e.last["h"].(int64)
	for _, q := range e.last["pending"].([]any) {
		m := q.(chain.M)
		if m["oracle"].(bool) || m["due"].(int64) < h-1 {
			return false
		}
	}
	return true
}

// zeroHeight restarts the chain from a zero-height export of its committed
// state: the modules' own PrepForZeroHeightGenesis steps, ExportGenesis, a new
// application initialised from that genesis at height 1, and its first (empty)
// block.  The trace continues on the new chain.
func (e *randEnv) zeroHeight(w *chain.TraceWriter) {
	ev := randEvent("ZeroHeight", "")
	if !e.zhOK() {
		ev["ok"] = false
		w.Write(ev, e.last)
		return
	}
	old := e.c
	gs, err := old.ExportGenesis(true, func(ctx sdk.Context) {
		htlc.PrepForZeroHeightGenesis(ctx, old.K.HTLC)
		random.PrepForZeroHeightGenesis(ctx, old.K.Random)
		service.PrepForZeroHeightGenesis(ctx, old.K.Service)
		oracle.PrepForZeroHeightGenesis(ctx, old.K.Oracle)
	})
	if err != nil {
		panic("zero-height export: " + err.Error())
	}
	bz, err := json.Marshal(gs)
	if err != nil {
		panic(err)
	}
	e.c = chain.New(chain.Options{Accounts: e.accts, GenesisBytes: bz, InitialHeight: 1, GenesisTime: old.Time})
	e.bindEnv()
	e.c.Project = func(ctx sdk.Context) any { return e.project(ctx) }
	e.last = e.project(e.c.Ctx()).(chain.M)
	w.Write(ev, e.last)
}

func (e *randEnv) start(w *chain.TraceWriter) {
	e.last = e.project(e.c.Ctx()).(chain.M)
	w.Write(randEvent("Init", ""), e.last)
}

// randRun replays one abstract behaviour (BeginBlock, messages, EndBlock, ...).
func randRun(fl *drv.Flags, beh []chain.M, w *chain.TraceWriter) {
	e := newRandEnv(fl)
	e.start(w)
	var begin chain.M
	var pending []chain.M
	flush := func() bool {
		if begin == nil {
			begin = randEvent("BeginBlock", "")
		}
		ok := e.runBlock(begin, pending, w)
		begin, pending = nil, nil
		return ok
	}
	for _, raw := range beh {
		ev := e.norm(raw)
		switch chain.Str(ev, "name") {
		case "BeginBlock":
			if begin != nil || len(pending) > 0 {
				if !flush() {
					return
				}
			}
			begin = ev
		case "EndBlock":
			if !flush() {
				return
			}
		case "ZeroHeight":
			if begin != nil || len(pending) > 0 {
				if !flush() {
					return
				}
			}
			e.zeroHeight(w)
		default:
			if e.msgOf(ev) == nil {
				continue
			}
			pending = append(pending, ev)
		}
	}
	if begin != nil || len(pending) > 0 {
		if !flush() {
			return
		}
	}
	if fl.CfgInt("epilogue", 1) == 1 {
		e.epilogue(w)
	}
}

// epilogue: run empty blocks until every pending request fell due and every
// service batch expired.
func (e *randEnv) epilogue(w *chain.TraceWriter) {
	for i := 0; i < 12; i++ {
		busy := false
		for _, q := range e.last["pending"].([]any) {
			if m, ok := q.(chain.M); ok {
				if due, _ := m["due"].(int64); due < 1<<29 { // (entries next to MaxInt64 never fall due)
					busy = true
				}
			}
		}
		for _, c := range e.last["ctx"].(chain.M) {
			cx := c.(chain.M)
			if cx["newAt"].(int64) != 0 || cx["expAt"].(int64) != 0 {
				busy = true
			}
		}
		if !busy {
			return
		}
		if !e.runBlock(randEvent("BeginBlock", ""), nil, w) {
			return
		}
	}
}

func randomDriver(mode string, fl *drv.Flags) error {
	w := chain.NewTraceWriter(fl.Out)
	defer w.Close()
	switch mode {
	case "replay":
		for _, beh := range chain.ReadBehaviours(fl.In) {
			randRun(fl, beh, w)
		}
	case "random":
		rng := rand.New(rand.NewSource(fl.Seed))
		for i := 0; i < fl.N; i++ {
			randRandom(fl, rng, w)
		}
	default:
		return fmt.Errorf("unknown mode %q", mode)
	}
	return nil
}

// randRandom runs one seeded history.
func randRandom(fl *drv.Flags, rng *rand.Rand, w *chain.TraceWriter) {
	e := newRandEnv(fl)
	e.start(w)
	maxN := int(fl.CfgInt("maxn", 3))
	far := fl.CfgInt("far", 0) == 1 // block intervals next to the largest accepted one (payload.go farK)
	target := int64(0)              // convergence window: many requests of several blocks falling due at one height
	for b := 0; b < fl.Len; b++ {
		begin := randEvent("BeginBlock", "")
		begin["dt"] = int64(1 + rng.Intn(9))
		var pending []chain.M
		// responses to running service requests (the harness plays the providers): seeds written
		// down in every way payload.go knows, malformed ones of every kind, error results,
		// answers ValidateBasic must refuse; now and then by another provider or by a consumer
		ctxs := e.last["ctx"].(chain.M)
		h := e.last["h"].(int64)
		anybody := func() string {
			if rng.Intn(2) == 0 {
				return e.users[rng.Intn(len(e.users))]
			}
			return e.provs[rng.Intn(len(e.provs))]
		}
		randomAnswer := func(who, cn string) chain.M {
			ev := randEvent("Respond", who)
			ev["ctx"] = cn
			switch x := rng.Intn(20); {
			case x < 10:
				ev["kind"] = "seed"
				ev["seed"] = int64(rng.Intn(8))
				if rng.Intn(5) < 2 {
					ev["pay"] = []string{"upper", "dupbody", "extra", "dupseed", "ridlower"}[rng.Intn(5)]
				}
			case x < 13:
				ev["kind"] = "err"
				ev["pay"] = []string{"", "", "err400", "errout", "ridshort"}[rng.Intn(5)]
			case x < 16:
				ev["kind"] = "bad"
				ev["pay"] = []string{"", "short", "long", "nonhex", "num", "extraprop", "nobody", "emptybody", "duplastbad"}[rng.Intn(9)]
			case x < 17:
				ev["kind"] = "badhex"
			case x < 18:
				ev["kind"] = "short"
			default:
				ev["kind"] = "seed"
				ev["seed"] = int64(rng.Intn(8))
				ev["pay"] = []string{"emptyout", "badresult", "nohdr", "ridshort"}[rng.Intn(4)]
			}
			return ev
		}
		for _, cn := range chain.SortedKeys(ctxs) {
			cx := ctxs[cn].(chain.M)
			reqs, _ := cx["reqs"].(chain.M)
			if len(reqs) == 0 && rng.Intn(5) == 0 {
				// an early answer: the context waits for its due block, or was started by this block's
				// begin-blocker and gets its request only at the end of the block
				pending = append(pending, randomAnswer(anybody(), cn))
			}
			for _, p := range chain.SortedKeys(reqs) {
				rq, _ := reqs[p].(chain.M)
				lastChance := rq["exp"] == h
				if rq["act"] != true {
					if rng.Intn(6) == 0 { // a second answer
						pending = append(pending, randomAnswer(p, cn))
					}
					continue
				}
				if (!lastChance && rng.Intn(3) == 0) || (lastChance && rng.Intn(6) == 0) {
					continue
				}
				who := p
				switch x := rng.Intn(24); {
				case x < 3:
					who = e.provs[rng.Intn(len(e.provs))]
				case x == 3:
					who, _ = cx["consumer"].(string)
					if _, ok := e.c.Accts[who]; !ok {
						who = p
					}
				case x == 4:
					who = anybody()
				}
				ev := randomAnswer(who, cn)
				pending = append(pending, ev)
				if rng.Intn(6) == 0 { // a second answer to the same request
					ev2 := randomAnswer(who, cn)
					pending = append(pending, ev2)
				}
			}
		}
		// late answers: to contexts whose batch expired and was cleaned up
		if rng.Intn(5) == 0 && e.svc.NCtx > 0 {
			cn := fmt.Sprintf("c%d", 1+rng.Int63n(e.svc.NCtx))
			if _, alive := ctxs[cn]; !alive {
				pending = append(pending, randomAnswer(e.provs[rng.Intn(len(e.provs))], cn))
			}
		}
		// requests; now and then a burst falling due at one height
		n := rng.Intn(3)
		if rng.Intn(7) == 0 {
			n = 3 + rng.Intn(len(e.users)+2)
		}
		for j := 0; j < n; j++ {
			u := e.users[rng.Intn(len(e.users))]
			ev := randEvent("RequestRandom", u)
			ev["n"] = int64(rng.Intn(maxN + 1))
			switch x := rng.Intn(30); {
			case x < 2:
				// a block interval of 2^64 - k: its due height overflows (refused since beca1b5;
				// accepted, it would be queued under a past height for ever)
				ev["n"] = -int64(1 + rng.Intn(3))
			case x < 5 && far:
				// intervals at and around the largest accepted one (due height MaxInt64; logged
				// minus MaxInt64 - 2^30): k <= 0 accepted, k > 0 refused
				ev["n"] = int64(1<<30) - h + int64([]int{0, 0, -1, -1 - rng.Intn(1000), 1, 2}[rng.Intn(6)])
			case x == 5 && rng.Intn(2) == 0:
				ev["n"] = int64(0)
			}
			if rng.Intn(3) == 0 {
				ev["oracle"] = true
				ev["cap"] = e.price + int64(rng.Intn(5)) - 1
				switch rng.Intn(12) {
				case 0:
					ev["cap"] = int64(0)
				case 1:
					ev["cap"] = int64(30 + rng.Intn(30)) // often more than the consumer has
				case 2:
					ev["pay"] = []string{"btccap", "twocap"}[rng.Intn(2)]
				}
			} else if rng.Intn(12) == 0 {
				ev["cap"] = e.price // a fee cap on a block-hash request is ignored
				if rng.Intn(3) == 0 {
					ev["pay"] = "btccap"
				}
			}
			pending = append(pending, ev)
		}
		if target < h && rng.Intn(6) == 0 {
			target = h + int64(maxN) + int64(rng.Intn(3))
		}
		if target >= h {
			for _, u := range e.users {
				if rng.Intn(4) == 0 {
					continue
				}
				ev := randEvent("RequestRandom", u)
				ev["n"] = target - h
				if rng.Intn(5) == 0 {
					ev["oracle"] = true
					ev["cap"] = e.price
				}
				pending = append(pending, ev)
			}
		}
		rng.Shuffle(len(pending), func(i, j int) { pending[i], pending[j] = pending[j], pending[i] })
		if !e.runBlock(begin, pending, w) {
			return
		}
		// zero-height restarts (cfg zh=1; only where the specification models them)
		if fl.CfgInt("zh", 0) == 1 && b > 3 && rng.Intn(8) == 0 && e.zhOK() && len(e.last["pending"].([]any)) > 0 {
			e.zeroHeight(w)
		}
	}
	e.epilogue(w)
}
