package main

import (
	"bytes"
	"encoding/hex"
	"encoding/json"
	"math"
	"regexp"
	"strings"
)

// Unusual inputs of the random driver (round 7, negative probing).
//
// Block intervals next to the largest accepted one.  RequestRandom accepts an
// interval n iff h + n <= MaxInt64.  Heights beyond 2^40 are logged minus
// farK = MaxInt64 - 2^30, and an abstract interval n >= 2^29 stands for n + farK:
// the map is additive, so due = h + n holds on both sides and the largest
// accepted interval is the one with h + n = 2^30 (Random.tla FarMax).
const farK = math.MaxInt64 - (1 << 30)

func farUp(n int64) uint64 {
	if n >= 1<<29 {
		return uint64(n) + farK
	}
	return uint64(n) // n < 0: 2^64 + n, as before
}

func farDown(h int64) int64 {
	if h > 1<<40 {
		return h - farK
	}
	if h < 0 {
		return -1 << 29 // a height below zero (a due height that wrapped): kept inside the trace's number range
	}
	return h
}

// Answers of the seed provider.  `kind` says what today's code makes of the
// answer, `pay` how it is written down (Random.tla DoRespond / OnResponse):
//
//	seed     a result is generated        "" lower-case hex, upper, dupbody (two "body" members, the first
//	                                      holds the seed), extra (other top-level members, white space),
//	                                      dupseed (two "seed" members, both well-formed: the first is used),
//	                                      ridlower (request id in lower case)
//	bad      body refused by the schema,  "" xyz, short (62 digits), long (66), nonhex, num (a number),
//	         the waiting request STAYS    extraprop, nobody, emptybody, duplastbad (two "seed" members, the
//	                                      LAST one malformed: the schema validator reads the last)
//	badhex   two "seed" members, the last well-formed (the schema passes), the FIRST — the one gjson
//	         reads — not hexadecimal: "invalid seed", the waiting request is dropped without result
//	short    ... the first hexadecimal but not 32 bytes: hex.DecodeString succeeds, the length test
//	         fails and the handler logs err.Error() with err == nil: the transaction panics
//	         (recovered by baseapp; nothing is written).  findings/oraclerandom.md R7-1
//	err      an error result              "" 500, err400
//	refused by ValidateBasic whatever the kind: emptyout, badresult, nohdr, ridshort; errout (kind err)
func renderSeed(kind, pay string, k int64) (result, output string) {
	ok := `{"code":200,"message":""}`
	good := hex.EncodeToString(seedBytes(k))
	other := hex.EncodeToString(seedBytes(k + 1))
	body := func(b string) string { return `{"header":{},"body":` + b + `}` }
	seed := func(s string) string { return `{"seed":"` + s + `"}` }
	switch pay {
	case "ridshort":
		if kind == "err" {
			return `{"code":500,"message":"no entropy"}`, ""
		}
		return ok, body(seed(good))
	case "emptyout":
		if kind != "err" {
			return ok, ""
		}
	case "badresult":
		if kind != "err" {
			return `{"code":201,"message":""}`, body(seed(good))
		}
	case "nohdr":
		if kind != "err" {
			return ok, `{"body":` + seed(good) + `}`
		}
	}
	switch kind {
	case "seed":
		switch pay {
		case "upper":
			return ok, body(seed(strings.ToUpper(good)))
		case "dupbody":
			return ok, `{"header":{},"body":` + seed(good) + `,"body":` + seed("xyz") + `}`
		case "extra":
			return ok, "{ \"header\" : {\"t\":1}, \"x\":[1,{\"seed\":\"q\"}],\n \"body\" : " + seed(good) + " , \"z\":null}"
		case "dupseed":
			return ok, body(`{"seed":"` + good + `","seed":"` + other + `"}`)
		}
		return ok, body(seed(good))
	case "bad":
		switch pay {
		case "short":
			return ok, body(seed(good[:62]))
		case "long":
			return ok, body(seed(good + "ab"))
		case "nonhex":
			return ok, body(seed("g" + good[1:]))
		case "num":
			return ok, body(`{"seed":12345}`)
		case "extraprop":
			return ok, body(`{"seed":"` + good + `","more":1}`)
		case "nobody":
			return ok, `{"header":{}}`
		case "emptybody":
			return ok, body(`{}`)
		case "duplastbad":
			return ok, body(`{"seed":"` + good + `","seed":"xyz"}`)
		}
		return ok, body(seed("xyz"))
	case "badhex":
		return ok, body(`{"seed":"` + "zz" + good[2:] + `","seed":"` + good + `"}`)
	case "short":
		return ok, body(`{"seed":"abcd","seed":"` + good + `"}`)
	}
	if pay == "errout" {
		return `{"code":500,"message":"no entropy"}`, body(`{}`)
	}
	if pay == "err400" {
		return `{"code":400,"message":"bad request"}`, ""
	}
	return `{"code":500,"message":"no entropy"}`, ""
}

// firstMember returns the raw value of the FIRST member `key` of a JSON object.
func firstMember(raw json.RawMessage, key string) (json.RawMessage, bool) {
	raw = bytes.TrimSpace(raw)
	if len(raw) == 0 || raw[0] != '{' {
		return nil, false
	}
	dec := json.NewDecoder(bytes.NewReader(raw))
	if _, err := dec.Token(); err != nil {
		return nil, false
	}
	for dec.More() {
		t, err := dec.Token()
		if err != nil {
			return nil, false
		}
		var v json.RawMessage
		if err := dec.Decode(&v); err != nil {
			return nil, false
		}
		if k, ok := t.(string); ok && k == key {
			return v, true
		}
	}
	return nil, false
}

var seedPat = regexp.MustCompile(`^[0-9a-fA-F]{64}$`)

// renderSeedOutput classifies a stored response output on its raw text,
// independently of the module: the body is the FIRST "body" member; it is
// well-formed when (members read the way a JSON decoder reads them: the last of
// duplicates) it holds exactly one member "seed", a string of 64 hexadecimal
// digits; the seed is the FIRST "seed" member.
func renderSeedOutput(output string) (string, int64) {
	body, ok := firstMember(json.RawMessage(output), "body")
	if !ok {
		return "bad", 0
	}
	var members map[string]json.RawMessage
	if json.Unmarshal(body, &members) != nil || len(members) != 1 {
		return "bad", 0
	}
	var last string
	if json.Unmarshal(members["seed"], &last) != nil || !seedPat.MatchString(last) {
		return "bad", 0
	}
	first, _ := firstMember(body, "seed")
	var s string
	if json.Unmarshal(first, &s) != nil {
		return "badhex", 0
	}
	bz, err := hex.DecodeString(s)
	if err != nil {
		return "badhex", 0
	}
	if len(bz) != 32 {
		return "short", 0
	}
	for k := int64(0); k < 9; k++ {
		if bytes.Equal(seedBytes(k), bz) {
			return "seed", k
		}
	}
	return "seed", -1
}
