// Command harness drives the real irismod application and writes ndjson traces
// for the TLA+ trace specifications in /verif/spec.
//
//	harness <module> replay  -in behaviours.ndjson -out trace.ndjson [-cfg k=v,...]
//	harness <module> random  -seed S -n N -len L   -out trace.ndjson [-cfg k=v,...]
//
// A behaviours file has one JSON array of abstract events per line (written by
// TLC from the module's specification, by a scenario file, or by the random
// generators in this package — all three go through the same executor).
package main

import (
	"flag"
	"fmt"
	"os"
	"sort"
	"strconv"
	"strings"

	sdk "github.com/cosmos/cosmos-sdk/types"
)

type driver func(mode string, fl *flags) error

var drivers = map[string]driver{}

type flags struct {
	In, Out string
	Seed    int64
	N, Len  int
	Cfg     map[string]string
}

func (f *flags) cfgInt(k string, d int64) int64 {
	if v, ok := f.Cfg[k]; ok {
		n, err := strconv.ParseInt(v, 10, 64)
		if err != nil {
			panic(err)
		}
		return n
	}
	return d
}

func (f *flags) cfgStr(k, d string) string {
	if v, ok := f.Cfg[k]; ok {
		return v
	}
	return d
}

func main() {
	if len(os.Args) < 3 {
		var names []string
		for n := range drivers {
			names = append(names, n)
		}
		sort.Strings(names)
		fmt.Fprintf(os.Stderr, "usage: harness <module> <mode> [flags]; modules: %v\n", names)
		os.Exit(2)
	}
	mod, mode := os.Args[1], os.Args[2]
	fs := flag.NewFlagSet("harness", flag.ExitOnError)
	fl := &flags{Cfg: map[string]string{}}
	var cfg string
	fs.StringVar(&fl.In, "in", "", "behaviours file")
	fs.StringVar(&fl.Out, "out", "", "trace output file")
	fs.Int64Var(&fl.Seed, "seed", 1, "random seed")
	fs.IntVar(&fl.N, "n", 10, "number of random histories")
	fs.IntVar(&fl.Len, "len", 30, "events per random history")
	fs.StringVar(&cfg, "cfg", "", "k=v,... driver configuration")
	fs.Parse(os.Args[3:])
	for _, kv := range strings.Split(cfg, ",") {
		if kv == "" {
			continue
		}
		p := strings.SplitN(kv, "=", 2)
		if len(p) != 2 {
			panic("bad -cfg entry " + kv)
		}
		fl.Cfg[p[0]] = p[1]
	}
	d, ok := drivers[mod]
	if !ok {
		fmt.Fprintf(os.Stderr, "unknown module %q\n", mod)
		os.Exit(2)
	}
	// the SDK's global bech32 config is the default ("cosmos"), as in e2e
	_ = sdk.GetConfig()
	if err := d(mode, fl); err != nil {
		fmt.Fprintln(os.Stderr, "harness error:", err)
		os.Exit(2)
	}
}
