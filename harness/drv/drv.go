// Package drv is the common command-line front end of the per-module harness
// binaries (one binary per module under harness/cmd/<module>, so that modules
// build independently).  It drives the real irismod application and writes ndjson traces
// for the TLA+ trace specifications in /verif/spec.
//
//	harness <module> replay  -in behaviours.ndjson -out trace.ndjson [-cfg k=v,...]
//	harness <module> random  -seed S -n N -len L   -out trace.ndjson [-cfg k=v,...]
//
// A behaviours file has one JSON array of abstract events per line (written by
// TLC from the module's specification, by a scenario file, or by the random
// generators in this package — all three go through the same executor).
package drv

import (
	"flag"
	"fmt"
	"os"
	"runtime/debug"
	"strconv"
	"strings"

	sdk "github.com/cosmos/cosmos-sdk/types"

	"verif/harness/chain"
)

// Driver runs one mode ("replay", "random", ...) of a module harness.
type Driver func(mode string, fl *Flags) error

// Flags are the common command-line flags.
type Flags struct {
	In, Out string
	Seed    int64
	N, Len  int
	Cfg     map[string]string
}

func (f *Flags) CfgInt(k string, d int64) int64 {
	if v, ok := f.Cfg[k]; ok {
		n, err := strconv.ParseInt(v, 10, 64)
		if err != nil {
			panic(err)
		}
		return n
	}
	return d
}

func (f *Flags) CfgStr(k, d string) string {
	if v, ok := f.Cfg[k]; ok {
		return v
	}
	return d
}

// Main parses "<mode> [flags]" and runs the driver.
func Main(module string, d Driver) {
	if len(os.Args) < 2 {
		fmt.Fprintf(os.Stderr, "usage: harness-%s <mode> [flags]\n", module)
		os.Exit(2)
	}
	mode := os.Args[1]
	fs := flag.NewFlagSet("harness", flag.ExitOnError)
	fl := &Flags{Cfg: map[string]string{}}
	var cfg string
	fs.StringVar(&fl.In, "in", "", "behaviours file")
	fs.StringVar(&fl.Out, "out", "", "trace output file")
	fs.Int64Var(&fl.Seed, "seed", 1, "random seed")
	fs.IntVar(&fl.N, "n", 10, "number of random histories")
	fs.IntVar(&fl.Len, "len", 30, "events (blocks) per random history")
	fs.StringVar(&cfg, "cfg", "", "k=v,... driver configuration")
	fs.Parse(os.Args[2:])
	for _, kv := range strings.Split(cfg, ",") {
		if kv == "" {
			continue
		}
		p := strings.SplitN(kv, "=", 2)
		if len(p) != 2 {
			panic("bad -cfg entry " + kv)
		}
		fl.Cfg[p[0]] = p[1]
	}
	_ = sdk.GetConfig()
	chain.DriverCfg = cfg
	// a driver that dies on a state it did not expect (possible on a broken tree) must not take
	// the recorded part of the execution with it: flush, report, exit 3
	defer func() {
		if r := recover(); r != nil {
			chain.FlushAll()
			fmt.Fprintf(os.Stderr, "harness panic: %v\n%s\n", r, debug.Stack())
			os.Exit(3)
		}
	}()
	if err := d(mode, fl); err != nil {
		fmt.Fprintln(os.Stderr, "harness error:", err)
		os.Exit(2)
	}
}
