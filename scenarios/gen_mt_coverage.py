#!/usr/bin/env python3
"""Generates scenarios/mt_coverage*.ndjson: the MT coverage scenario in model amounts for
every amount map of harness/cmd/mt (base 2^63: H = 2^28, M = 2; 2^62: H = 2^27, M = 4;
2^53, 2^32, 2^31: H = 2^18, M = 2048).  H = one unit of the base, MAX = M*H - 1 = image of
2^64 - 1.  Run from /verif:  python3 scenarios/gen_mt_coverage.py"""
import json, os

def scenario(H, M):
    MAX = M * H - 1
    TOP = (M - 1) * H          # 2^64 - B
    def ev(name, who, cls="", id="", to="", amt=0, data="", cname=""):
        return dict(name=name, who=who, cls=cls, id=id, to=to, amt=amt, data=data, cname=cname,
                    ok=True, panic=False, gen="", amtReal="")
    return [
        ev("IssueDenom", "u1", cname="n", data="a"),
        ev("IssueDenom", "u1", cname=" ", data="a"),
        ev("MintMT", "u1", "d1", "", "", 5, "a"),
        ev("MintMT", "u2", "d1", "", "", 3, "a"),
        ev("MintMT", "u1", "d1", "m1", "u2", 3),
        ev("MintMT", "u1", "d1", "m1", "u2", 0),
        ev("MintMT", "u1", "d1", "m1", "u2", 2, "a"),
        ev("MintMT", "u1", "d1", "m1", "u3", MAX),
        ev("MintMT", "u1", "d1", "m1", "u3", MAX - 8),            # supply = MAX, u3 = MAX-8
        ev("MintMT", "u1", "d1", "m1", "u1", 1),
        ev("EditMT", "u1", "d1", "m1", data="b"),
        ev("EditMT", "u1", "d1", "m1", data="keep"),
        ev("EditMT", "u2", "d1", "m1", data="c"),
        ev("TransferMT", "u1", "d1", "m1", "u2", 2),              # u1 3, u2 5
        ev("TransferMT", "u1", "d1", "m1", "u1", 3),
        ev("TransferMT", "u1", "d1", "m1", "u2", 4),
        ev("TransferMT", "u3", "d1", "m1", "u2", H + 1),          # u3 TOP-10, u2 H+6
        ev("TransferMT", "u3", "d1", "m1", "u2", TOP - 10),       # all; u2 = MAX-3
        ev("TransferMT", "u3", "d1", "m1", "u2", 1),
        ev("BurnMT", "u2", "d1", "m1", amt=H + 3),                # u2 TOP-7, supply TOP-4
        ev("BurnMT", "u1", "d1", "m1", amt=4),
        ev("BurnMT", "u1", "d1", "m1", amt=3),                    # supply TOP-7
        ev("BurnMT", "u2", "d1", "m1", amt=TOP - 7),              # supply 0
        ev("BurnMT", "u2", "d1", "m1", amt=1),
        ev("TransferDenom", "u2", "d1", to="u2"),
        ev("TransferDenom", "u1", "d1", to="u3"),
        ev("MintMT", "u1", "d1", "m1", "u1", 1),
        ev("MintMT", "u3", "d1", "m1", "u3", 7),
        ev("MintMT", "u3", "d1", "", "u1", 2, "b"),
        ev("IssueDenom", "u2", cname="x y", data=""),
        ev("MintMT", "u2", "d2", "", "", H + 5, ""),              # m3: u2 H+5
        ev("TransferMT", "u2", "d2", "m3", "u1", H + 5),
        ev("MintMT", "u2", "d2", "m3", "u1", TOP - 6),            # supply MAX, u1 MAX
        ev("MintMT", "u2", "d2", "m3", "u2", 1),
        ev("TransferMT", "u1", "d2", "m3", "u3", MAX),
        ev("TransferMT", "u3", "d2", "m3", "u3", MAX),
        ev("TransferMT", "u2", "d2", "m3", "u1", MAX),            # holds 0: insufficient
        ev("TransferMT", "u2", "d2", "m3", "u1", H),              # holds 0: insufficient
        ev("BurnMT", "u3", "d2", "m3", amt=MAX),
        ev("TransferMT", "u3", "d2", "m1", "u1", 1),
        ev("TransferMT", "u3", "d1", "m3", "u1", 1),
        ev("BurnMT", "u3", "nodenom", "nomt", amt=1),
        ev("EditMT", "u3", "d1", "nomt", data="a"),
        ev("MintMT", "u3", "d1", "m3", "u1", 1),
        ev("TransferDenom", "u3", "nodenom", to="u1"),
    ]

here = os.path.dirname(os.path.abspath(__file__))
for name, H, M in (("mt_coverage.ndjson", 2**28, 2), ("mt_coverage_h27.ndjson", 2**27, 4),
                   ("mt_coverage_h18.ndjson", 2**18, 2048)):
    with open(os.path.join(here, name), "w") as f:
        f.write(json.dumps(scenario(H, M)) + "\n")
