#!/usr/bin/env python3
"""Writes scenarios/oracle_probe.ndjson: the fixed negative-probing scenario of C17 (round 7).

Driver cfg: users=2,provs=2,funds=300,maxtimeout=2,price=10 (p1 asks 10, p2 asks 12).

One behaviour.  Feed `fa` (creator u1, providers p1 p2, timeout 2, frequency 2) is taken through
every state — never started, running without a batch, batch open with no / one answer, batch fully
answered and waiting for its expiration, paused by its creator, paused for lack of funds — and in
each state every command (start, pause, edit) is sent by a provider, by another user and by the
creator.  Feed `fb` (creator u2, nested value path, one batch per block) receives an answer of every
payload class of harness/cmd/oracle/payload.go; feed `FA` (created by provider p1 while `fa` exists,
index value path, provider string in upper case) is the case twin.  Names, provider strings and fee
caps of the wrong kind, invalid settings, answers by strangers / twice / late / in the expiry block.
"""
import json, os

beh = []


def ev(name, who="", feed="", **kw):
    e = {"name": name}
    if who:
        e["who"] = who
    if feed != "":
        e["feed"] = feed
    e.update(kw)
    beh.append(e)


def block(dt=5):
    ev("BeginBlock", dt=dt)


def end():
    ev("EndBlock")


def strangers(feed):
    """every command by a provider and by another user (all must be refused)"""
    for who in ("p1", "u2"):
        ev("StartFeed", who, feed)
        ev("PauseFeed", who, feed)
        ev("EditFeed", who, feed, lh=2)


def answer(who, feed, x, pay="", kind="val"):
    ev("Respond", who, feed, kind=kind, x=x, pay=pay)


CREATE = dict(agg="avg", lh=3, provs=["p1", "p2"], thr=1, cap=12, timeout=2, freq=2)

# ---- block 3: u1 keeps 60; fa never started -> running without a batch
block()
ev("Send", "u1", "u2", x=240)
ev("CreateFeed", "u1", "fa", **CREATE)
strangers("fa")                                  # state: paused (never started)
ev("PauseFeed", "u1", "fa")                      # refused: not running
ev("EditFeed", "u1", "fa", lh=2)
ev("StartFeed", "u1", "fa")
strangers("fa")                                  # state: idle (running, no batch yet)
ev("StartFeed", "u1", "fa")                      # refused: running
ev("EditFeed", "u1", "fa", thr=2)
ev("PauseFeed", "u1", "fa")
ev("StartFeed", "u1", "fa")
# feeds that must not be created
ev("CreateFeed", "u2", "fa", **CREATE)                                   # exists
for bad in ("", "1fa", "fa b", "fa.x", "-fa", "_fa"):
    ev("CreateFeed", "u2", bad, **CREATE)                                # ValidateFeedName
ev("CreateFeed", "u2", "fx", **dict(CREATE, lh=0))
ev("CreateFeed", "u2", "fx", **dict(CREATE, lh=101))
ev("CreateFeed", "u2", "fx", **dict(CREATE, thr=0))
ev("CreateFeed", "u2", "fx", **dict(CREATE, thr=3))
ev("CreateFeed", "u2", "fx", **dict(CREATE, cap=0))
ev("CreateFeed", "u2", "fx", **dict(CREATE, timeout=0))
ev("CreateFeed", "u2", "fx", **dict(CREATE, timeout=3, freq=3))
ev("CreateFeed", "u2", "fx", **dict(CREATE, timeout=2, freq=1))
ev("CreateFeed", "u2", "fx", **dict(CREATE, agg="sum"))
ev("CreateFeed", "u2", "fx", **dict(CREATE, agg="MAX"))
ev("CreateFeed", "u2", "fx", pay="nosvc", **CREATE)
ev("CreateFeed", "u2", "fx", pay="svccase", **CREATE)
ev("CreateFeed", "u2", "fx", pay="btccap", **CREATE)
ev("CreateFeed", "u1", "fx", pay="twocap", **CREATE)
ev("CreateFeed", "u2", "fx", **dict(CREATE, provs=["p1", "?upper"]))         # the same account twice
ev("CreateFeed", "u2", "fx", **dict(CREATE, provs=["?garbage", "?valoper"]))  # both the empty address
ev("CreateFeed", "u2", "fx", **dict(CREATE, provs=["p1", "p1"]))
# feeds that are created: nested path; the case twin by a provider, provider string in upper case;
# strings that are no account address
ev("CreateFeed", "u2", "fb", pay="nested", **dict(CREATE, agg="max", timeout=1, freq=1))
ev("StartFeed", "u2", "fb")
ev("CreateFeed", "p1", "FA", pay="index", **dict(CREATE, agg="min", provs=["?upper"], timeout=1, freq=2))
ev("CreateFeed", "u2", "fg", **dict(CREATE, provs=["p1", "?garbage"], thr=2))   # refused since 8afa321 (R7-3)
ev("CreateFeed", "u2", "fm", **dict(CREATE, provs=["?module", "p2", "u1"], thr=3))
end()          # batch 1 of fa (expires at 5), batch 1 of fb (expires at 4)

# ---- block 4: fa open with no / one answer, then fully answered
block(3)
strangers("fa")                                  # open0
ev("StartFeed", "u1", "fa")
ev("EditFeed", "u1", "fa", lh=3)
for pay in ("emptyout", "badresult", "nohdr", "ridshort"):
    answer("p1", "fa", 7, pay)                   # refused by ValidateBasic
answer("p1", "fa", 0, "errout", kind="err")
answer("u2", "fa", 7)                            # a stranger
answer("p1", "fa", 150000000, "exp")
strangers("fa")                                  # openN
ev("StartFeed", "u1", "fa")
ev("EditFeed", "u1", "fa", thr=1)                # the open batch keeps its threshold 2
answer("p1", "fa", 9)                            # twice
answer("p2", "fa", -50000000, "str")             # completes: avg(1.5, -0.5) = 0.5
strangers("fa")                                  # full
ev("StartFeed", "u1", "fa")
ev("EditFeed", "u1", "fa", cap=13)
ev("PauseFeed", "u1", "fa")
answer("p1", "fb", 3, "zeros")
answer("p2", "fb", -2, "dupfirst")
ev("StartFeed", "p1", "FA")
# names of the wrong kind
for odd in ("Fa", "f", "fa/1", "c1", "fb/"):
    ev("StartFeed", "u1", odd)
    ev("PauseFeed", "u1", odd)
    ev("EditFeed", "u1", odd, lh=1)
    answer("p1", odd, 1)
    ev("SvcDirect", "u1", odd, kind="kill")
ev("CallPrice", "u1", "Fa", cap=1)
end()          # fb: batch 1 expires, batch 2 starts; FA: batch 1

# ---- block 5: fa paused by its creator while its answered batch waits
block(4)
strangers("fa")
answer("p1", "fa", 9)
ev("EditFeed", "u1", "fa", pay="btccap", cap=12)
ev("EditFeed", "u1", "fa", pay="twocap", cap=12)
ev("EditFeed", "u1", "fa", provs=["p1", "?upper"])
ev("EditFeed", "u1", "fa", provs=["?garbage", "?valoper"])
ev("EditFeed", "u1", "fa", lh=101)
ev("EditFeed", "u1", "fa", thr=3)
ev("EditFeed", "u1", "fa", timeout=3, freq=3)
ev("EditFeed", "u1", "fa", timeout=2, freq=1)
ev("EditFeed", "u1", "fa", freq=1)
ev("EditFeed", "u2", "fm", provs=["p2", "?valoper"])                       # refused since 8afa321 (R7-3)
ev("EditFeed", "u2", "fm", provs=["?upper", "?module"], thr=2)
ev("StartFeed", "u1", "fa")
answer("p1", "fb", 3, "dupbody")
answer("p2", "fb", -2, "extra")
answer("p1", "FA", 5, "ridlower")                # FA's batch 1 (index path), completes
end()          # fa: batch 1 expires, batch 2 starts (threshold 1, expires at 7); u1: 60 - 22 - 22 = 16

# ---- block 6: answers that hold no number
block(6)
answer("p2", "fa", 7, "true")
answer("p1", "fa", 7, "missing")                 # completes: avg(1, 0)
answer("p1", "fb", 3, "null")
answer("p2", "fb", 5, "false")
end()
block(2)       # ---- block 7
answer("p1", "fb", 3, "obj")
answer("p2", "fb", 5, "arr")
answer("p1", "FA", 5, "negzero")
end()          # fa: batch 2 expires; batch 3 costs 22, u1 has 16: paused for lack of funds
block(7)       # ---- block 8
strangers("fa")                                  # autop
ev("PauseFeed", "u1", "fa")
ev("EditFeed", "u1", "fa", lh=2)
answer("p1", "fa", 9)                            # late: no batch
ev("Send", "u2", "u1", x=30)
ev("StartFeed", "u1", "fa")
answer("p1", "fb", 3, "strbad")
answer("p2", "fb", 5, "nobody")
end()          # fa: batch 3 (expires at 10)
block(3)       # ---- block 9
answer("p1", "fa", -250000000)
ev("PauseFeed", "u1", "fa")                      # paused with one of two answers in
ev("StartFeed", "u1", "fa")
answer("p1", "fb", 0, "err400", kind="err")
answer("p2", "fb", -340000000)
end()
block(5)       # ---- block 10: the block fa's batch 3 expires in
answer("p2", "fa", -100000000)                   # completes in the expiry block
answer("p1", "fb", -150000000)
answer("p2", "fb", 7, "nan")                     # "NaN" next to a number on a max feed: skipped, the maximum is -1.5
ev("PauseFeed", "u2", "fb")
end()
block(5)
end()

out = os.path.join(os.path.dirname(os.path.abspath(__file__)), "oracle_probe.ndjson")
with open(out, "w") as f:
    f.write(json.dumps(beh) + "\n")
print(len(beh), "events ->", out)
