#!/usr/bin/env python3
"""Writes scenarios/farm_lifecycle.ndjson and scenarios/farm_oddinputs.ndjson (negative probing).

Every behaviour walks pools through their life-cycle states and fires a battery of operations - stake, unstake,
harvest, top-up, rate change, destroy, wrong-denom stake/unstake - by the creator (u1), a farmer with a stake (u2)
and a stranger (u3) at every timing: before the start, in the block of the transition, at the (former) start and
end heights, later.  Nearly all of them must be rejected; the specification predicts each result (strict mode), the
clauses judge what the real code does, and the driver's epilogue withdraws whatever the REAL chain recorded.
Driver cfg: users=3,rdenoms=2,initlp=6,initr=60,prec=10.  The first block of a history has height 3.

Regenerate with:  python3 scenarios/farm_mk_lifecycle.py
"""
import json, os

HERE = os.path.dirname(os.path.abspath(__file__))


def ev(name, who="", pool="", amt=0, lpt="", total=None, rpb=None, start=0, editable=False):
    return {"name": name, "who": who, "pool": pool, "amt": amt, "lpt": lpt, "total": total or {}, "rpb": rpb or {},
            "start": start, "editable": editable, "ok": True, "panic": False, "halt": False, "reward": {}, "bond": {}}


END = ev("EndBlock")


def create(who, start, total, rpb, editable=True, lpt="lpt-1"):
    return ev("CreatePool", who, lpt=lpt, total=total, rpb=rpb, start=start, editable=editable)


def battery(p, creator="u1", staker="u2", stranger="u3", destroy=True):
    """Every operation on pool p by every role; the creator's destroy last."""
    b = [ev("Stake", staker, p, 1), ev("Stake", creator, p, 1), ev("Stake", stranger, p, 2),
         ev("Harvest", staker, p), ev("Harvest", stranger, p), ev("Harvest", creator, p),
         ev("Unstake", staker, p, 1), ev("Unstake", stranger, p, 1), ev("Unstake", staker, p, 9),
         ev("AdjustPool", creator, p, total={"rw1": 1}), ev("AdjustPool", creator, p, rpb={"rw1": 1}),
         ev("AdjustPool", stranger, p, total={"rw1": 1}), ev("AdjustPool", staker, p, rpb={"rw1": 3}),
         ev("StakeOther", staker, p, 1, lpt="lpt-2"), ev("UnstakeOther", staker, p, 1, lpt="rw1"),
         ev("DestroyPool", stranger, p), ev("DestroyPool", staker, p)]
    if destroy:
        b.append(ev("DestroyPool", creator, p))
    return b


def blocks(*bs):
    out = []
    for b in bs:
        out += list(b) + [END]
    return out


# 1. destroyed BEFORE its start height (and a running control pool next to it)
#    farm-1: start 6, 8rw1 at 2/block -> scheduled end 10; destroyed at height 4
#    farm-2: start 3, running, 9rw1+6rw2 at 2+2 -> end 6
b1 = blocks(
    [create("u1", 6, {"rw1": 8}, {"rw1": 2}), create("u1", 3, {"rw1": 9, "rw2": 6}, {"rw1": 2, "rw2": 2}),
     ev("Stake", "u2", "farm-2", 2)] + battery("farm-1", destroy=False),                        # h=3 not started
    [ev("DestroyPool", "u3", "farm-1"), ev("DestroyPool", "u1", "farm-1")] + battery("farm-1"),  # h=4 same block
    battery("farm-1"),                                                                           # h=5 before the former start
    battery("farm-1") + [ev("Harvest", "u2", "farm-2")],                                         # h=6 the former start height
    battery("farm-1"),                                                                           # h=7
    [create("u3", 8, {"rw1": 4}, {"rw1": 2})] + battery("farm-1"),                               # h=8 create with the same lpt
    [],                                                                                          # h=9
    battery("farm-1"),                                                                           # h=10 the former end height
    battery("farm-1"),                                                                           # h=11
)

# 2. destroyed AFTER its start with farmers in it; a pool in its last block; a pool that is over
#    farm-1: start 3, 6rw1 at 2 -> end 6, editable, destroyed at 4
#    farm-2: start 3, 4rw1 at 2 -> end 5, not editable
b2 = blocks(
    [create("u1", 3, {"rw1": 6}, {"rw1": 2}), create("u1", 3, {"rw1": 4}, {"rw1": 2}, editable=False),
     ev("Stake", "u2", "farm-1", 2), ev("Stake", "u2", "farm-2", 1), ev("Stake", "u3", "farm-2", 2)],   # h=3
    [ev("DestroyPool", "u1", "farm-1")] + battery("farm-1"),                                     # h=4 same block
    battery("farm-2") + battery("farm-1"),                                                       # h=5 farm-2 in its last block
    battery("farm-2") + battery("farm-1"),                                                       # h=6 both over
    [ev("Stake", "u3", "farm-2", 1), ev("Harvest", "u3", "farm-2")],                             # h=7
)

# 3. several pools due at ONE height, one of them with nothing left to refund (Refund returns an error that
#    the end-blocker swallows), one destroyed by its creator in that very block; then probes of all of them
#    farm-1: start 3, 4rw1 at 2 -> end 5, staked from its start: budget exactly used up, refund "fails"
#    farm-2: start 3, 5rw1 at 2 -> end 5, staked: 1rw1 refunded
#    farm-3: start 3, 7rw1 at 3 -> end 5, destroyed at 5
#    farm-4: start 4, 3rw1+4rw2 at 3+2 -> end 5, nobody staked: everything refunded
#    farm-5: start 3, 4rw1+5rw2 at 2+2 -> end 5, staked from its start: rw1 used up, 1rw2 refunded
b3 = blocks(
    [create("u1", 3, {"rw1": 4}, {"rw1": 2}), create("u1", 3, {"rw1": 5}, {"rw1": 2}),
     create("u3", 3, {"rw1": 7}, {"rw1": 3}), create("u1", 4, {"rw1": 3, "rw2": 4}, {"rw1": 3, "rw2": 2}),
     create("u3", 3, {"rw1": 4, "rw2": 5}, {"rw1": 2, "rw2": 2}, editable=False),
     ev("Stake", "u2", "farm-1", 1), ev("Stake", "u3", "farm-2", 2), ev("Stake", "u2", "farm-3", 1),
     ev("Stake", "u1", "farm-5", 3),
     ev("Stake", "u3", "farm-4", 1), ev("Harvest", "u3", "farm-4"), ev("Unstake", "u3", "farm-4", 1)],   # h=3 (farm-4 starts next block)
    [ev("Harvest", "u3", "farm-2"), ev("Stake", "u2", "farm-4", 1), ev("Unstake", "u2", "farm-4", 1)],  # h=4
    # h=5: the creator's destroy of farm-1 fails (nothing left once the last block has accrued); farm-3 goes
    [ev("DestroyPool", "u1", "farm-1"), ev("DestroyPool", "u3", "farm-3"), ev("Stake", "u2", "farm-3", 1),
     ev("Harvest", "u2", "farm-3"), ev("Unstake", "u2", "farm-3", 1), ev("AdjustPool", "u3", "farm-3", total={"rw1": 1}),
     ev("Harvest", "u2", "farm-1"), ev("Stake", "u3", "farm-4", 1)],
    battery("farm-1") + battery("farm-2", staker="u3", stranger="u2") + battery("farm-4"),               # h=6
    battery("farm-3", creator="u3", stranger="u1") + battery("farm-5", creator="u3", staker="u1", stranger="u2"),  # h=7
)

with open(os.path.join(HERE, "farm_lifecycle.ndjson"), "w") as f:
    for b in (b1, b2, b3):
        f.write(json.dumps(b) + "\n")

# identifiers and denoms of the wrong kind, on a running pool with a farmer in it and on a pool that is over
ODD_IDS = ["1", "farm-01", "farm-", "Farm-1", "FARM-1", "farm-10", "farm-0", " farm-1", "lpt-1", "farm-1 "]
ODD_DEN = ["rw1", "rw2", "stake", "lpt-2", "LPT-1"]


def odd(p):
    o = []
    for d in ODD_DEN:
        o += [ev("StakeOther", "u2", p, 1, lpt=d), ev("UnstakeOther", "u2", p, 2, lpt=d), ev("StakeOther", "u3", p, 1, lpt=d)]
    for i in ODD_IDS:
        o += [ev("Stake", "u2", i, 1), ev("Unstake", "u2", i, 2), ev("Harvest", "u2", i), ev("DestroyPool", "u1", i),
              ev("AdjustPool", "u1", i, total={"rw1": 1})]
    for lpt in ["lpt-2", "LPT-1", "rw1", "stake", "lpt-11", "lpt-", "lpt-0"]:
        o.append(create("u1", 0, {"rw1": 4}, {"rw1": 2}, lpt=lpt))
    # start heights of the wrong kind: in the past, zero, so far ahead that the end height overflows
    # (CreatePoolFar: start = MaxInt64 - 1; types/farm.go ExpiredHeight refuses)
    o += [create("u1", 2, {"rw1": 4}, {"rw1": 2}), create("u1", -1, {"rw1": 4}, {"rw1": 2}),
          ev("CreatePoolFar", "u1", lpt="lpt-1", total={"rw1": 4}, rpb={"rw1": 2}, start=1, editable=True)]
    for c in [{"rw2": 1}, {"stake": 1}, {"lpt-1": 1}, {"LPT-1": 1}, {"rw1": 1, "rw2": 1}]:
        o += [ev("AdjustPool", "u1", p, total=c), ev("AdjustPool", "u1", p, rpb=c)]
    return o


def at(h, evs):
    for e in evs:
        if e["name"] == "CreatePool" and e["start"] == 0:
            e["start"] = h
        if e["name"] == "CreatePool" and e["start"] == -1:
            e["start"] = 0
    return evs


b4 = blocks(
    [create("u1", 3, {"rw1": 8}, {"rw1": 2}), ev("Stake", "u2", "farm-1", 2)] + at(3, odd("farm-1")),   # h=3
    at(4, odd("farm-1")) + [ev("DestroyPool", "u1", "farm-1")] + at(4, odd("farm-1")),                  # h=4 running, then over
    at(5, odd("farm-1")),                                                                               # h=5
)
with open(os.path.join(HERE, "farm_oddinputs.ndjson"), "w") as f:
    f.write(json.dumps(b4) + "\n")
print("written", len(b1), len(b2), len(b3), len(b4))
