#!/usr/bin/env python3
"""Writes scenarios/random_probe.ndjson: the fixed negative-probing scenario of C18 / C13-random (round 7).

Driver cfg: users=4,provs=2,bound=1,funds=60,timeout=2,price=10 (p1 is bound at price 10, p2 is an
unbound provider account; u1 also holds btc).

Every consumer makes at most ONE accepted request per block (requests of one consumer in one block
share an id and are outside C18's quantifier).  Oracle-seeded requests with interval 0 are made block
after block; the request made in block b is started by the begin-blocker of b+1, gets its service
request at the end of b+1 and is answered in b+2 — each with the next way of writing an answer down
(harness/cmd/random/payload.go).  Around them: answers before the due block, in the block the
context is started, by the consumer, by a provider that was not asked, twice, late, never; the answer
that makes the handler panic; fee caps of zero, above the balance, below the price, in the wrong
denomination, on a block-hash request; intervals 0, 1, the largest accepted one (due height MaxInt64,
logged as 2^30) and the first refused one; intervals that wrap; requests of several consumers and of
several blocks falling due at one height; a consumer that runs out of funds between two requests.
"""
import json, os

FARMAX = 1 << 30
beh = []
nctx = 0
h = 3            # height of the block being written


def ev(name, who="", **kw):
    e = {"name": name}
    if who:
        e["who"] = who
    e.update(kw)
    beh.append(e)


def block(dt=5):
    ev("BeginBlock", dt=dt)


def end():
    global h
    ev("EndBlock")
    h += 1


def oracle(who, n=0, cap=10, ok=True, **kw):
    """an oracle-seeded request; returns the name of its service context if accepted"""
    global nctx
    ev("RequestRandom", who, n=n, oracle=True, cap=cap, **kw)
    if ok:
        nctx += 1
        return "c%d" % nctx
    return None


def plain(who, n, **kw):
    ev("RequestRandom", who, n=n, oracle=False, **kw)


def answer(who, ctx, kind="seed", pay="", seed=1):
    ev("Respond", who, ctx=ctx, kind=kind, pay=pay, seed=seed)


# the ways an accepted answer is written down: (kind, pay)
WAYS = [("seed", "upper"), ("seed", "dupbody"), ("seed", "extra"), ("seed", "dupseed"), ("seed", "ridlower"),
        ("bad", ""), ("bad", "short"), ("bad", "long"), ("bad", "nonhex"), ("bad", "num"), ("bad", "extraprop"),
        ("bad", "nobody"), ("bad", "emptybody"), ("bad", "duplastbad"), ("badhex", ""), ("err", ""), ("err", "err400"),
        ("seed", "")]

# ---- block 3
block()
c1 = oracle("u1", 0)                                   # interval 0
c2 = oracle("u2", 1)                                   # interval 1
plain("u3", FARMAX - h)                                # the largest accepted interval: due at MaxInt64
plain("u4", 2, cap=10)                                 # a fee cap on a block-hash request is ignored
plain("u3", FARMAX - h + 1)                            # refused: the due height overflows
plain("u4", -1)                                        # refused: interval 2^64 - 1
oracle("u1", 0, cap=0, ok=False)                       # refused: no fee cap
oracle("u2", 1, cap=61, ok=False)                      # refused: more than the balance
oracle("u2", 1, pay="btccap", ok=False)                # refused (no such coins)
oracle("u1", 1, pay="btccap", ok=False)                # refused: another denomination
oracle("u1", 1, pay="twocap", ok=False)                # refused: two denominations
answer("p1", c1)                                       # before the due block: no request yet
end()
# ---- block 4: c1 started by this block's begin-blocker
block(3)
answer("p1", c1)                                       # in the start block: the request comes at the end of the block
c3 = oracle("u1", 0)
plain("u2", 1)                                         # due at 5, like u4's request of block 3
c4 = oracle("u3", 0, cap=9)                            # below the price: the batch will be skipped
plain("u4", FARMAX - h - 1)                            # one below the largest
end()                                                  # c1: request to p1 (expires at 6)
# ---- block 5
block(7)
for pay in ("emptyout", "badresult", "nohdr", "ridshort"):
    answer("p1", c1, "seed", pay)                      # refused by ValidateBasic
answer("p1", c1, "err", "errout")
answer("p1", c1, "err", "ridshort")
answer("u1", c1)                                       # the consumer itself
answer("p2", c1)                                       # a provider that was not asked
answer("u3", c1)                                       # a stranger
answer("p1", c1, "short")                              # the handler panics: nothing is written
answer("p1", c1, "seed", "", seed=2)                   # fulfils u1@3
answer("p1", c1, "seed", "", seed=3)                   # twice
plain("u4", 0)                                         # due at 5 as well
waiting = [(c2, h), (c3, h), (c4, h)]                  # (context, block in which it is started)
pays = list(WAYS)
c5 = oracle("u1", 0)
c6 = oracle("u2", 0)
waiting += [(c5, h + 1), (c6, h + 1)]
end()
# ---- blocks 6 ..: one oracle request per consumer and block, each answered two blocks later
skipped = {c4}
never = set()
late = []
while pays:
    block(2 + h % 5)
    due = [c for (c, started) in waiting if started == h - 1 and c not in skipped]
    waiting = [(c, s) for (c, s) in waiting if s != h - 1]
    for c in due:
        if not pays:
            never.add(c)
            continue
        kind, pay = pays.pop(0)
        answer("p1", c, kind, pay, seed=4)
        if kind == "bad" and pay == "":
            answer("p1", c, "seed", "", seed=5)        # a second answer after a malformed one: refused
        late.append((c, h + 3))
    for (c, at) in list(late):
        if at == h:
            answer("p1", c, "seed", "", seed=6)        # late: the context is gone
            late.remove((c, at))
            break
    if len(pays) > 3:
        for u in ("u1", "u2", "u3"):
            waiting.append((oracle(u, 0), h + 1))
    end()
# ---- a consumer that runs out of funds between two requests: u4 has 60
for i in range(5):
    block()
    oracle("u4", 0)                                    # 5 x 10
    end()
block()
ca = oracle("u4", 0)                                   # the last 10
end()
block()
cb = oracle("u4", 0)                                   # accepted: the balance is still 10 ...
end()                                                  # ... until ca's batch takes it here
block()
end()                                                  # cb: insufficient balance, paused, the waiting request dropped
block()
oracle("u4", 0, ok=False)                              # refused: nothing left
end()

out = os.path.join(os.path.dirname(os.path.abspath(__file__)), "random_probe.ndjson")
with open(out, "w") as f:
    f.write(json.dumps(beh) + "\n")
print(len(beh), "events ->", out)
