# generator of scenarios/service_probe.ndjson and scenarios/service_bundle.ndjson (round 7); events are compact,
# the harness fills in the defaults of the fixed event record (norm)
import json
def ev(name, who="", **kw):
    d={"name":name,"who":who}; d.update(kw); return d
EB=lambda dt=1: ev("EndBlock", dt=dt)
S="s1"
A=[ ev("SetRate", rn=2, rd=1), ev("Define","u1",svc=S),
    ev("Bind","u1",svc=S,prov="u1",amt=8,price=4,qos=1),
    ev("Bind","u2",svc=S,prov="u2",amt=6,price=2,pdenom="btc",qos=1), EB(),
    ev("Call","u3",svc=S,provs=["u1","u2"],amt=9,timeout=2), EB(),
    ev("SetRate", rn=1, rd=2), ev("Pause","u3",ctx="c1",ok=False), ev("Kill","u3",ctx="c1",ok=False),
    ev("SetRate", rn=0, rd=1), ev("Disable","u1",svc=S,prov="u1"), EB(),
    EB(),
    ev("Respond","u2",req="c1-1-1",ok=False), ev("Pause","u3",ctx="c1",ok=False),
    ev("Start","u3",ctx="c1",idv="lc",ok=False), ev("Kill","u3",ctx="c1",idv="pfx",ok=False),
    ev("Respond","u1",req="c1-1-0",idv="pad",ok=False), EB() ]
B=[ ev("Define","u1",svc=S),
    ev("Bind","u1",svc=S,prov="u1",amt=4,price=2,qos=1),
    ev("Bind","u2",svc=S,prov="u2",amt=6,price=3,qos=1), EB(),
    ev("Call","u3",svc=S,provs=["u1","u2"],amt=9,timeout=2,repeated=True,freq=2,total=3), EB(),
    ev("Disable","u1",svc=S,prov="u1"), ev("Pause","u3",ctx="c1"),
    ev("RefundDeposit","u1",svc=S,prov="u1",ok=False), ev("Disable","u1",svc=S,prov="u1",ok=False),
    ev("Enable","u2",svc=S,prov="u2",amt=1,ok=False), EB(3),
    ev("RefundDeposit","u1",svc=S,prov="u1"), ev("RefundDeposit","u1",svc=S,prov="u1",ok=False),
    ev("Start","u3",ctx="c1",idv="lc"), ev("Kill","u3",ctx="c1"),
    ev("Start","u3",ctx="c1",ok=False), ev("Update","u3",ctx="c1",amt=5,ok=False),
    ev("UpdateBinding","u2",svc=S,prov="u2",amt=2,ddenom="btc",ok=False),
    ev("Enable","u1",svc=S,prov="u1",amt=4,ddenom="both",ok=False),
    ev("Call","u3",svc=S,provs=["u2"],amt=5,ddenom="both",timeout=1,ok=False),
    ev("Call","u3",svc=S,provs=["u2"],amt=5,ddenom="nosupply",timeout=1,ok=False),
    ev("Disable","u1",svc=S,prov="u2",ok=False),
    ev("Bind","u2",svc=S,prov="u2",amt=6,price=1,qos=1,ok=False),
    ev("Bind","u3",svc=S,prov="u2",amt=6,price=1,qos=1,ok=False),
    ev("Withdraw","u2",prov="u1",ok=False), ev("SetWithdraw","u1",to="request",ok=False),
    ev("SetWithdraw","u1",to="deposit",ok=False), ev("SetWithdraw","u1",to="feepool",ok=False), EB(),
    ev("Pause","u3",ctx="c1",ok=False), ev("UpdateBinding","u1",svc=S,prov="u1",amt=3), EB() ]
open('/verif/scenarios/service_probe.ndjson','w').write(json.dumps(A)+"\n"+json.dumps(B)+"\n")
C=[ ev("Define","u1",svc=S), ev("Bind","u1",svc=S,prov="u1",amt=4,price=2,qos=1), EB(),
    ev("Call","u3",svc=S,provs=["u1"],amt=5,timeout=2,repeated=True,freq=2,total=2),
    ev("Call","u3",svc=S,provs=["u1"],amt=5,timeout=2), EB(),
    ev("Respond","u1",req="c1-1-0"), ev("Respond","u1",req="c2-1-0"),
    ev("Call","u3",svc=S,provs=["u1"],amt=5,timeout=1,ok=False), ev("Call","u3",svc=S,provs=["u1"],amt=0,timeout=1,ok=False), EB(),
    ev("Pause","u3",ctx="c1"), ev("Start","u3",ctx="c1"), EB(), EB(),
    ev("Call","u3",svc=S,provs=["u1"],amt=5,timeout=1), ev("Call","u3",svc=S,provs=["u1"],amt=5,timeout=1),
    ev("Call","u3",svc=S,provs=["u1"],amt=5,timeout=1), EB(),
    ev("Respond","u1",req="c4-1-0"), EB() ]
open('/verif/scenarios/service_bundle.ndjson','w').write(json.dumps(C)+"\n")
