#!/usr/bin/env python3
"""Writes scenarios/nft_probe.ndjson: the fixed history that exercises, on every run, the
antecedents of the negative-probing round (NFTTrace.tla ProbeNames).  Driver cfg: users=3,pre=1
(the genesis state holds the IBC-style class "ibc/abc" of u2 with token "tka" of u1)."""
import json, os

K = "keep"
evs = []


def ev(name, who, cls="", id="", to="", mintR=False, updateR=False, cmeta="", n=K, u=K, h=K, d=K):
    evs.append(dict(name=name, who=who, cls=cls, id=id, to=to, mintR=mintR, updateR=updateR, cmeta=cmeta,
                    n=n, u=u, h=h, d=d, ok=True, panic=False))


def issue(who, cls, mintR=False, updateR=False):
    ev("IssueDenom", who, cls, mintR=mintR, updateR=updateR, cmeta="m")


def mint(who, cls, id, to, n="a", u="x", h="", d=""):
    ev("MintNFT", who, cls, id, to, n=n, u=u, h=h, d=d)


# ids the pattern / the keyword list refuse, the length limit, a sender that cannot sign
issue("u1", "ab")
issue("u1", "ibcabc")
issue("u1", "SENT")
issue("u1", "L101")
issue("u1", "L102")
issue("mod", "clb")
issue("u1", "cla")
# relatives of an existing class id that are not classes (yet)
ev("TransferDenom", "u1", "clab", to="u2")
ev("EditNFT", "u1", "clA", "tka", n="z")
issue("u2", "clA", mintR=True)
issue("u2", "clab", updateR=True)
# the IBC-style class of the genesis state
mint("u2", "ibc/abc", "tkb", "u2")
ev("EditNFT", "u1", "ibc/abc", "tka", n="b")
ev("BurnNFT", "u3", "ibc/abc", "tka")
ev("TransferNFT", "u1", "ibc/abc", "tka", "u3")
ev("TransferDenom", "u2", "ibc/abc", to="u3")
ev("BurnNFT", "u3", "ibc/abc", "tka")
# token ids of the wrong kind, values at the limits
mint("u1", "cla", "ab", "u1")
mint("u1", "cla", "SENT", "u1")
mint("u1", "cla", "L101", "u1")
mint("u1", "cla", "L102", "u1")
mint("u1", "cla", "tka", "u1", n=K, u="u256")
mint("u1", "cla", "tkb", "u1", u="u257")
mint("u1", "cla", "tkb", "u1", d="badjson")
ev("EditNFT", "u1", "cla", "tka", u="u257")
ev("EditNFT", "u1", "cla", "tka", d="badjson")
ev("TransferNFT", "u1", "cla", "tka", "u1", d="badjson")
ev("TransferNFT", "u1", "cla", "tka", "u2", u="u257")   # refused since /repo 19c5b32 (F37)
ev("TransferNFT", "u1", "cla", "tka", "u2")
# the previous owner, who is also the class's creator, on a token that moved on
ev("EditNFT", "u1", "cla", "tka", n="z")
ev("BurnNFT", "u1", "cla", "tka")
# ids that are prefixes of one another / differ in case / equal the class id
mint("u1", "cla", "tkab", "u3")
mint("u1", "cla", "tkA", "u3")
mint("u1", "cla", "cla", "u3")
ev("BurnNFT", "u2", "cla", "tka")
# the burned token, its relatives still there: everybody, the one who burned it
ev("EditNFT", "u3", "cla", "tka", n="z")
ev("TransferNFT", "u2", "cla", "tka", "u1")
ev("BurnNFT", "u2", "cla", "tka")
# a token nobody ever minted; a token that exists under another class only; no class at all
ev("EditNFT", "u1", "cla", "tkb", n="z")
ev("TransferNFT", "u1", "cla", "tkb", "u2")
ev("BurnNFT", "u1", "cla", "tkb")
ev("BurnNFT", "u3", "clab", "tkab")
mint("u1", "clz", "tka", "u1")
ev("TransferDenom", "u1", "clz", to="u2")
ev("TransferNFT", "u1", "clz", "tka", "u2")
# a token owner who is not the creator hands the class over; the module account
ev("TransferDenom", "u3", "cla", to="u3")
mint("u1", "L101", "L101", "mod")
ev("TransferDenom", "u1", "L101", to="mod")
ev("BurnNFT", "mod", "L101", "L101")
ev("TransferNFT", "mod", "L101", "L101", "u1")
ev("MintNFT", "mod", "L101", "tka", "u1", n="a", u="x", h="", d="")
ev("TransferNFT", "u3", "cla", "tkab", "mod")
# handover to oneself, handover, the previous creator again
ev("TransferDenom", "u1", "cla", to="u1")
ev("TransferDenom", "u1", "cla", to="u2")
ev("TransferDenom", "u1", "cla", to="u3")
# the burned id minted again, for somebody who never held it, in the class handed over
mint("u2", "cla", "tka", "u3")
# an empty mint-restricted class, a stranger
mint("u1", "clA", "tka", "u1")
# one field at a time, nothing at all
ev("EditNFT", "u3", "cla", "tkA", n="q")
ev("EditNFT", "u3", "cla", "tkA", u="q")
ev("EditNFT", "u3", "cla", "tkA", h="q")
ev("EditNFT", "u3", "cla", "tkA", d="q")
ev("EditNFT", "u3", "cla", "tkA")
# update-restricted class: a plain transfer passes, the sentinel everywhere
mint("u2", "clab", "tka", "u2")
ev("TransferNFT", "u2", "clab", "tka", "u3")
ev("TransferNFT", "u3", "clab", "tka", "u3", n="z")
ev("EditNFT", "u3", "clab", "tka")

out = os.path.join(os.path.dirname(os.path.abspath(__file__)), "nft_probe.ndjson")
with open(out, "w") as f:
    f.write(json.dumps(evs) + "\n")
print(len(evs), "events ->", out)
