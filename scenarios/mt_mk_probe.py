#!/usr/bin/env python3
"""Writes scenarios/mt_probe.ndjson: the fixed history that exercises, on every run, the antecedents
of the negative-probing round (MTTrace.tla ProbeNames).  Driver cfg: users=3 (any base; amounts are
small).  Ids are the abstract names d1, d2 / m1, m2 in order of creation."""
import json, os

evs = []


def ev(name, who, cls="", id="", to="", amt=0, data="", cname="", form=""):
    evs.append(dict(name=name, who=who, cls=cls, id=id, to=to, amt=amt, data=data, cname=cname,
                    ok=True, panic=False, gen="", form=form))


ev("IssueDenom", "u1", cname="n", data="a")            # d1
ev("IssueDenom", "u1", cname=" ")                      # blank name
ev("IssueDenom", "mod", cname="n")                     # a sender that cannot sign
ev("IssueDenom", "u1", cname="n", data="b")            # d2, same owner
ev("MintMT", "u1", "d1", "", "", 5, data="a")          # m1 -> u1 (default recipient)
ev("MintMT", "u1", "d1", "", "u2", 3, data="b", form="idspace")   # m2 -> u2, id written as blanks
ev("MintMT", "u1", "d1", "m1", "u1", 2, form="idspace")           # the id is trimmed: u1 has 7
# ids written the wrong way, by the entitled actor
ev("MintMT", "u1", "d1", "m1", "u1", 1, form="idupper")
ev("EditMT", "u1", "d1", "m1", data="b", form="idprefix")
ev("TransferMT", "u1", "d1", "m1", "u2", 1, form="idspace")
ev("BurnMT", "u1", "d1", "m1", "", 1, form="split")
ev("TransferDenom", "u1", "d1", "", "u2", form="clsupper")
ev("MintMT", "u1", "d1", "m1", "u1", 1, form="clsprefix")
ev("EditMT", "u1", "d1", "m1", data="b", form="clsspace")
# a token id of another class; no class; no token
ev("MintMT", "u1", "d2", "m1", "u1", 1)
ev("EditMT", "u1", "d2", "m1", data="b")
ev("TransferMT", "u1", "d2", "m1", "u2", 1)
ev("BurnMT", "u1", "d2", "m1", "", 1)
ev("TransferMT", "u1", "d9", "m1", "u2", 1)
ev("MintMT", "u1", "d1", "m99", "u1", 1)
ev("EditMT", "u1", "d1", "m99", data="b")
# the module account as recipient and as sender
ev("MintMT", "u1", "d1", "m1", "mod", 1)
ev("TransferMT", "u1", "d1", "m1", "mod", 1)           # u1 6, mod 2
ev("TransferMT", "mod", "d1", "m1", "u1", 1)
# amount 0, one above the balance
ev("MintMT", "u1", "d1", "m1", "u1", 0)
ev("TransferMT", "u1", "d1", "m1", "u2", 0)
ev("BurnMT", "u1", "d1", "m1", "", 0)
ev("TransferMT", "u1", "d1", "m1", "u2", 7)
ev("BurnMT", "u1", "d1", "m1", "", 7)
# the whole holding to somebody who holds the token already; the holder at zero
ev("TransferMT", "u1", "d1", "m1", "u2", 2)            # u1 4, u2 2
ev("TransferMT", "u1", "d1", "m1", "u2", 4)            # u1 0, u2 6
ev("TransferMT", "u1", "d1", "m1", "u2", 1)
ev("BurnMT", "u1", "d1", "m1", "", 1)
ev("TransferMT", "u3", "d1", "m1", "u1", 1)
ev("TransferMT", "u2", "d1", "m1", "u1", 1)            # u1 1, u2 5
# a holder who is not the owner
ev("MintMT", "u2", "d1", "m1", "u2", 1)
ev("EditMT", "u2", "d1", "m1", data="b")
ev("TransferDenom", "u2", "d1", "", "u2")
ev("MintMT", "u1", "d1", "m1", "u1", 1, data="a")      # metadata while minting an existing token
# handover to oneself, handover, the previous owner
ev("TransferDenom", "u1", "d1", "", "u1")
ev("TransferDenom", "u1", "d1", "", "u3")
ev("EditMT", "u1", "d1", "m1", data="b")
ev("TransferDenom", "u1", "d1", "", "u1")
ev("TransferMT", "u1", "d1", "m1", "u2", 1)            # still a holder: u1 0, u2 6
# a supply burned out completely
ev("BurnMT", "u2", "d1", "m2", "", 3)
ev("TransferMT", "u2", "d1", "m2", "u1", 1)
ev("BurnMT", "u2", "d1", "m2", "", 1)
ev("EditMT", "u3", "d1", "m2", data="c")
ev("MintMT", "u3", "d1", "m2", "u3", 2)
ev("TransferDenom", "u1", "d2", "", "mod")

out = os.path.join(os.path.dirname(os.path.abspath(__file__)), "mt_probe.ndjson")
with open(out, "w") as f:
    f.write(json.dumps(evs) + "\n")
print(len(evs), "events ->", out)
