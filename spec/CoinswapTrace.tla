--------------------------- MODULE CoinswapTrace ---------------------------
(***************************************************************************)
(* Validation of traces recorded from the real coinswap module against     *)
(* Coinswap.tla.  One ndjson line per event: {"ev": <event+result>, "st":  *)
(* <projected abstract state after the event>}; an "Init" event starts a   *)
(* new trace.                                                              *)
(*   monitor: st' is the logged state; every clause of C01 / C02 is        *)
(*            evaluated on (pre, ev, st); failures are printed as          *)
(*            CLAUSE-FAIL lines — verdicts come only from here.            *)
(*   strict:  Apply(pre, ev) must give the logged result, response and     *)
(*            state; a mismatch is DRIFT, reported, never a verdict.       *)
(***************************************************************************)
EXTENDS Coinswap

VARIABLES l, pre, ghPre, drift, driftAt
tvars == <<st, ev, gh, hist, l, pre, ghPre, drift, driftAt>>

Trace == ndJsonDeserialize(IOEnv.TRACE_FILE)

FromLog(r) ==
  [now |-> r.now, seq |-> r.seq, std |-> r.std, blocked |-> r.blocked, params |-> r.params,
   pools |-> r.pools, bal |-> r.bal, supply |-> r.supply]

TraceInit ==
  /\ Trace[1].ev.name = "Init"
  /\ st = FromLog(Trace[1].st) /\ pre = FromLog(Trace[1].st)
  /\ ev = Trace[1].ev /\ gh = GhostInitOf(FromLog(Trace[1].st)) /\ ghPre = GhostInitOf(FromLog(Trace[1].st)) /\ hist = <<>>
  /\ l = 2 /\ drift = 0 /\ driftAt = 0

Predicted(s, e) ==
  LET r == Apply(s, e) IN
  [st |-> r.st, ok |-> r.ok, panic |-> r.panic, minted |-> r.minted, wd |-> r.wd]
Observed(e, t) == [st |-> t, ok |-> e.ok, panic |-> e.panic, minted |-> e.minted, wd |-> e.wd]

TraceNext ==
  /\ l <= Len(Trace)
  /\ LET e == Trace[l].ev
         t == FromLog(Trace[l].st)
     IN /\ ev' = e /\ st' = t
        /\ IF e.name = "Init"
           THEN /\ gh' = GhostInitOf(t) /\ ghPre' = GhostInitOf(t) /\ pre' = t
                /\ UNCHANGED <<drift, driftAt>>
           ELSE /\ gh' = GhostStep(gh, st, e, t) /\ ghPre' = gh /\ pre' = st
                /\ LET d == Predicted(st, e) # Observed(e, t) IN
                   /\ drift' = drift + (IF d THEN 1 ELSE 0)
                   /\ driftAt' = IF d /\ driftAt = 0 THEN l ELSE driftAt
  /\ l' = l + 1
  /\ UNCHANGED hist

TraceSpec == TraceInit /\ [][TraceNext]_tvars

-----------------------------------------------------------------------------
Clauses ==
  [C01_ShareValue |-> C01_ShareValue(pre, ev, st),
   C01_LegRule |-> C01_LegRule(pre, ev, st),
   C01_ExactInMax |-> C01_ExactInMax(pre, ev, st),
   C01_ExactOutTight |-> C01_ExactOutTight(pre, ev, st),
   C02_SwapSender |-> C02_SwapSender(pre, ev, st),
   C02_SwapRecipient |-> C02_SwapRecipient(pre, ev, st),
   C02_Bounds |-> C02_Bounds(pre, ev, st),
   C02_Frame |-> C02_Frame(pre, ev, st),
   C02_AddTakesAtMost |-> C02_AddTakesAtMost(pre, ev, st),
   C02_RemoveGivesAtLeast |-> C02_RemoveGivesAtLeast(pre, ev, st),
   C02_Supply |-> C02_Supply(pre, ev, st),
   C02_Conservation |-> C02_Conservation(st),
   Rejected_NoEffect |-> Rejected_NoEffect(pre, ev, st),
   \* history twins: the same clauses with the registry / parameters according to the history
   C01_ShareValueH |-> C01_ShareValueH(pre, ev, st, ghPre, gh),
   C01_LegRuleH |-> C01_LegRuleH(pre, ev, st, ghPre, gh),
   C01_ExactInMaxH |-> C01_ExactInMaxH(pre, ev, st, ghPre, gh),
   C01_ExactOutTightH |-> C01_ExactOutTightH(pre, ev, st, ghPre, gh),
   C02_SwapSenderH |-> C02_SwapSenderH(pre, ev, st, ghPre, gh),
   C02_SwapRecipientH |-> C02_SwapRecipientH(pre, ev, st, ghPre, gh),
   C02_BoundsH |-> C02_BoundsH(pre, ev, st, ghPre, gh),
   C02_FrameH |-> C02_FrameH(pre, ev, st, ghPre, gh),
   C02_AddTakesAtMostH |-> C02_AddTakesAtMostH(pre, ev, st, ghPre, gh),
   C02_RemoveGivesAtLeastH |-> C02_RemoveGivesAtLeastH(pre, ev, st, ghPre, gh),
   C02_SupplyH |-> C02_SupplyH(pre, ev, st, ghPre, gh),
   C02_PoolFresh |-> C02_PoolFresh(pre, ev, st, ghPre, gh),
   \* diagnostics (never a verdict)
   X02_RegistryStable |-> X02_RegistryStable(st, gh),
   X01_PoolNotWedged |-> X01_PoolNotWedged(st),
   X01_WedgedForever |-> X01_WedgedForever(pre, ev, st),
   X01_AddNeverLockedOut |-> X01_AddNeverLockedOut(pre, ev),
   X01_NoPanic |-> X01_NoPanic(ev),
   X02_RouteBalanced |-> X02_RouteBalanced(pre, ev, st),
   X02_RoundTripNoGain |-> X02_RoundTripNoGain(pre, ev, st, ghPre),
   X02_BlockedUntouched |-> X02_BlockedUntouched(pre, ev, st),
   X02_ModuleOnlyGifts |-> X02_ModuleOnlyGifts(st, gh),
   X02_DonateFrame |-> X02_DonateFrame(pre, ev, st),
   X02_OneSidedReserve |-> X02_OneSidedReserve(pre, ev)]

Failing == IF ev.name = "Init"
           THEN (IF C02_Conservation(st) THEN {} ELSE {"C02_Conservation"})
           ELSE {c \in DOMAIN Clauses : ~Clauses[c]}

Monitor == Failing = {} \/ PrintT(<<"CLAUSE-FAIL", l - 1, Failing, Apply(pre, ev).why>>)

(* antecedent counters (vacuity) *)
IsSwap(h, buy) == SwapOK(pre, ev) /\ ev.hops = h /\ ev.isBuy = buy
WhoHolds(d, a) == ev.who \in DOMAIN pre.bal /\ d \in DOMAIN pre.bal[ev.who] /\ pre.bal[ev.who][d] >= a
(* a one-sided message on an existing pool naming a coin that is neither reserve, of which the escrow holds some *)
WkHeld ==
  /\ WellFormed(pre) /\ ev.denom \in DOMAIN pre.pools /\ ev.tok \notin {pre.std, ev.denom}
  /\ ev.tok \in DOMAIN pre.bal[pre.pools[ev.denom].esc]
  /\ pre.bal[pre.pools[ev.denom].esc][ev.tok] > 0
Exercised ==
  IF ev.name = "Init" THEN {} ELSE
  LET why == Apply(pre, ev).why IN
  {c \in {"sell_1", "buy_1", "sell_2", "buy_2", "swap_third", "swap_third_2",
          "add_create", "add_funded", "add_refund_empty", "remove_ok", "remove_all",
          "adduni_ok", "remuni_ok", "donate_ok", "reject", "panic", "deadline_edge",
          "deadline_rej", "bound_edge", "bound_rej", "blocked_rej", "mint_zero",
          "wedged", "wedged_add_rej", "wedged_adduni", "sandwich", "round_trip", "route_skewed",
          "to_module", "donate_blocked_rej", "donate_module",
          \* negative probing: identifiers of the wrong kind, odd roles, odd life-cycle states
          "donate_foreign", "donate_share", "donate_odd", "pool_on_odd",
          "wk_adduni_held", "wk_remuni_held", "wk_remove_shaped", "wk_remove_nopool", "wk_add_std",
          "wk_counterparty", "wk_swap_lpt", "wk_swap_nopool", "wk_swap_equal", "wk_swap_held", "wk_untracked",
          "role_no_share", "remuni_all_rej", "emptied_probe", "foreign_in_escrow"} :
     CASE c = "sell_1" -> IsSwap(1, FALSE)
       [] c = "buy_1" -> IsSwap(1, TRUE)
       [] c = "sell_2" -> IsSwap(2, FALSE)
       [] c = "buy_2" -> IsSwap(2, TRUE)
       [] c = "swap_third" -> SwapOK(pre, ev) /\ ev.to # ev.who
       [] c = "swap_third_2" -> SwapOK(pre, ev) /\ ev.to # ev.who /\ ev.hops = 2
       [] c = "add_create" -> ev.name = "AddLiquidity" /\ ev.ok /\ Created(pre, st) # {}
       [] c = "add_funded" -> ev.name = "AddLiquidity" /\ ev.ok /\ why = ""
       [] c = "add_refund_empty" -> ev.name = "AddLiquidity" /\ ev.ok /\ why = "refund_empty"
       [] c = "remove_ok" -> ev.name = "RemoveLiquidity" /\ ev.ok
       [] c = "remove_all" -> ev.name = "RemoveLiquidity" /\ ev.ok /\ why = "emptied"
       [] c = "adduni_ok" -> ev.name = "AddUnilateral" /\ ev.ok
       [] c = "remuni_ok" -> ev.name = "RemoveUnilateral" /\ ev.ok
       [] c = "donate_ok" -> ev.name = "Donate" /\ ev.ok
       [] c = "reject" -> ~ev.ok /\ ev.name # "Config"
       [] c = "panic" -> ev.panic
       [] c = "deadline_edge" -> ev.name \in CsMsgs /\ ev.ok /\ ev.deadline = pre.now
       [] c = "deadline_rej" -> ev.name \in CsMsgs /\ ~ev.ok /\ why = "deadline"
       [] c = "bound_rej" -> ev.name = "Swap" /\ ~ev.ok /\ why = "bound"
       [] c = "bound_edge" -> SwapOK(pre, ev) /\ SwapKnown(pre, ev)
                              /\ (IF ev.isBuy THEN SwapPaid(pre, ev, st) = ev.amt
                                              ELSE SwapRecv(pre, ev, st) = ev.amt2)
       [] c = "blocked_rej" -> ev.name = "Swap" /\ ~ev.ok /\ ev.to \in BlockedOf(pre)
       [] c = "wedged" -> ~X01_PoolNotWedged(st)
       [] c = "wedged_add_rej" -> ~X01_AddNeverLockedOut(pre, ev)
       [] c = "wedged_adduni" -> ev.name = "AddUnilateral" /\ ev.ok /\ ev.denom \in DOMAIN pre.pools
                                 /\ Wedged(pre, ev.denom)
       [] c = "sandwich" -> IsSingleSwapOK(pre, ev) /\ Sandwich(gh)
       [] c = "round_trip" -> IsSingleSwapOK(pre, ev) /\ ev.to = ev.who /\ ghPre.last.who = ev.who
                              /\ ev.inDenom = ghPre.last.outD /\ ev.outDenom = ghPre.last.inD
                              /\ Legs(pre, ev, st)[1].paid <= ghPre.last.recv
       [] c = "route_skewed" -> SwapOK(pre, ev) /\ SwapKnown(pre, ev) /\ IsDouble(pre, ev.inDenom, ev.outDenom)
                                /\ (PoolS(pre, ev.inDenom) >= 4 * PoolS(pre, ev.outDenom)
                                    \/ PoolS(pre, ev.outDenom) >= 4 * PoolS(pre, ev.inDenom))
       [] c = "to_module" -> ev.name = "Swap" /\ ev.to = MOD   \* accepted or rejected, as the wiring says
       [] c = "donate_blocked_rej" -> ev.name = "Donate" /\ ~ev.ok /\ ev.to \in BlockedOf(pre)
       [] c = "donate_module" -> ev.name = "Donate" /\ ev.ok /\ ev.to = MOD
       [] c = "mint_zero" -> ev.name \in {"AddLiquidity", "AddUnilateral"} /\ ev.ok /\ ev.minted = 0
       \* a plain bank send to the escrow of an existing pool of a coin that is neither of its reserves
       [] c = "donate_foreign" -> ev.name = "Donate" /\ ev.ok /\ \E q \in DOMAIN pre.pools :
                                    pre.pools[q].esc = ev.to /\ ev.denom \notin {pre.std, q}
       [] c = "donate_share" -> ev.name = "Donate" /\ ev.ok /\ IsLpt(ev.denom) /\ ev.to \notin {MOD, FEEP}
       [] c = "donate_odd" -> ev.name = "Donate" /\ ev.ok /\ ShareShaped(ev.denom) /\ ev.to \notin {MOD, FEEP}
       [] c = "pool_on_odd" -> ev.name = "AddLiquidity" /\ ev.ok /\ ShareShaped(ev.denom)
       \* one-sided message naming a coin that is neither reserve while the escrow HOLDS some of it
       [] c = "wk_adduni_held" -> ev.name = "AddUnilateral" /\ ~ev.ok /\ WkHeld
       [] c = "wk_remuni_held" -> ev.name = "RemoveUnilateral" /\ ~ev.ok /\ WkHeld
       \* withdrawal naming an ordinary coin shaped like a liquidity denom, which the sender holds,
       \* while the pool with that sequence number exists
       [] c = "wk_remove_shaped" -> ev.name = "RemoveLiquidity" /\ ~ev.ok /\ ShareShaped(ev.denom)
                                     /\ WhoHolds(ev.denom, ev.amt) /\ pre.seq > 1 /\ why = "no_pool"
       [] c = "wk_remove_nopool" -> ev.name = "RemoveLiquidity" /\ ~ev.ok /\ why = "no_pool"
       [] c = "wk_add_std" -> ev.name = "AddLiquidity" /\ ~ev.ok /\ why = "std_denom"
       \* the counterparty field names the standard coin or a liquidity denom
       [] c = "wk_counterparty" -> ev.name \in {"AddUnilateral", "RemoveUnilateral"} /\ ~ev.ok
                                    /\ (ev.denom = pre.std \/ IsLpt(ev.denom)) /\ why = "no_pool"
       [] c = "wk_swap_lpt" -> ev.name = "Swap" /\ ~ev.ok /\ (IsLpt(ev.inDenom) \/ IsLpt(ev.outDenom))
       [] c = "wk_swap_equal" -> ev.name = "Swap" /\ ~ev.ok /\ ev.inDenom = ev.outDenom
       [] c = "wk_swap_nopool" -> ev.name = "Swap" /\ ~ev.ok /\ why = "pool"
       \* an order to buy a coin out of a pool that holds it without trading it (foreign donation)
       [] c = "wk_swap_held" -> ev.name = "Swap" /\ ~ev.ok /\ why = "pool"
                                 /\ \E q \in DOMAIN pre.pools :
                                      /\ ev.outDenom \notin {pre.std, q}
                                      /\ pre.pools[q].esc \in DOMAIN pre.bal
                                      /\ ev.outDenom \in DOMAIN pre.bal[pre.pools[q].esc]
                                      /\ pre.bal[pre.pools[q].esc][ev.outDenom] > 0
       [] c = "wk_untracked" -> ~ev.ok /\ why = "untracked"
       \* a removal by somebody who owns no share of the pool
       [] c = "role_no_share" -> ev.name \in {"RemoveLiquidity", "RemoveUnilateral"} /\ ~ev.ok
                                  /\ why = "funds"
       [] c = "remuni_all_rej" -> ev.name = "RemoveUnilateral" /\ ~ev.ok /\ why = "all_liquidity"
       \* a message turned away by a pool without shares (emptied or wedged)
       [] c = "emptied_probe" -> ev.name \in CsMsgs /\ ~ev.ok /\ WellFormed(pre)
                                  /\ \E q \in DOMAIN pre.pools : PoolL(pre, q) = 0
                                       /\ q \in {ev.denom, ev.inDenom, ev.outDenom}
       \* a pool works (successful message on it) while its escrow holds a foreign coin
       [] c = "foreign_in_escrow" -> ev.name \in CsMsgs /\ ev.ok /\ WellFormed(pre)
                                      /\ \E q \in DOMAIN pre.pools :
                                           /\ q \in {ev.denom, ev.inDenom, ev.outDenom}
                                           /\ \E d \in DOMAIN pre.bal[pre.pools[q].esc] :
                                                d \notin {pre.std, q} /\ pre.bal[pre.pools[q].esc][d] > 0}
  \cup (IF ev.ok \/ ev.name \notin CsMsgs \cup {"Donate"} THEN {} ELSE {"rej_" \o why})
Coverage == Exercised = {} \/ PrintT(<<"EXERCISED", Exercised>>)

Report == (l = Len(Trace) + 1) => PrintT(<<"TRACE-END", Len(Trace), drift, driftAt>>)

DriftReport == (drift > 0 /\ driftAt = l - 1) =>
  PrintT(<<"DRIFT", driftAt, ev.name, ev>>)

TraceAccepted == TLCGet("stats").diameter = Len(Trace)

Alias == [l |-> l, ev |-> ev]
=============================================================================
