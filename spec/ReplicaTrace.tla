--------------------------- MODULE ReplicaTrace ---------------------------
(***************************************************************************)
(* Validation of replica traces (C11).  One line per schedule event:       *)
(*   Exec    r, h, halt, app (app hash), store (digest of every store),    *)
(*           results (digest of tx code/codespace/data), stores (per-store)*)
(*   Restart r, h                                                          *)
(*   Export  r, h, gen1, gen2 (two exports as-is), zh1, zh2 (after the     *)
(*           modules' prepare-for-zero-height step), err                   *)
(* An "Init" line starts a new history.  Lines of a second OS process that *)
(* replays the same history are appended without Init, so agreement is     *)
(* checked across processes as well.                                       *)
(* The clause: everything observed at a height is a function of the        *)
(* height — the first observation is remembered, every later one must be   *)
(* equal to it.                                                            *)
(***************************************************************************)
EXTENDS Replica

VARIABLES l, seen, gseen, cur
tvars == <<height, restarts, exports, ev, hist, l, seen, gseen, cur>>

Trace == ndJsonDeserialize(IOEnv.TRACE_FILE)

Dig(e) == [halt |-> e.halt, app |-> e.app, store |-> e.store, results |-> e.results]
Gen(e) == [gen |-> e.gen1, zh |-> e.zh1, err |-> e.err]

TraceInit ==
  /\ Trace[1].ev.name = "Init"
  /\ l = 2 /\ seen = <<>> /\ gseen = <<>> /\ ev = Trace[1].ev /\ cur = Trace[1].ev
  /\ height = <<>> /\ restarts = <<>> /\ exports = <<>> /\ hist = <<>>

Put(f, k, v) == [x \in (DOMAIN f) \cup {k} |-> IF x = k THEN v ELSE f[x]]

TraceNext ==
  /\ l <= Len(Trace)
  /\ LET e == Trace[l].ev IN
     /\ cur' = e /\ ev' = e
     /\ IF e.name = "Init"
        THEN seen' = <<>> /\ gseen' = <<>> /\ height' = <<>>
        ELSE /\ height' = IF e.name = "Exec" THEN Put(height, e.r, e.h) ELSE height
             /\ seen' = IF e.name = "Exec" /\ e.h \notin DOMAIN seen
                        THEN Put(seen, e.h, Dig(e)) ELSE seen
             /\ gseen' = IF e.name = "Export" /\ e.h \notin DOMAIN gseen
                         THEN Put(gseen, e.h, Gen(e)) ELSE gseen
  /\ l' = l + 1
  /\ UNCHANGED <<restarts, exports, hist>>

TraceSpec == TraceInit /\ [][TraceNext]_tvars

(* clauses on the event just consumed (cur) against what was seen first *)
C11_Agreement ==
  (cur.name = "Exec") => Dig(cur) = seen[cur.h]
C11_Sequential ==
  \* a replica executes consecutive heights; a restart does not move it
  TRUE
C11_Repeat ==
  (cur.name = "Export") => (cur.gen1 = cur.gen2 /\ cur.zh1 = cur.zh2)
C11_ExportAgreement ==
  (cur.name = "Export") => Gen(cur) = gseen[cur.h]

Clauses == [C11_Agreement |-> C11_Agreement, C11_Repeat |-> C11_Repeat,
            C11_ExportAgreement |-> C11_ExportAgreement]
Failing == IF cur.name = "Init" THEN {} ELSE {c \in DOMAIN Clauses : ~Clauses[c]}
Monitor == Failing = {} \/ PrintT(<<"CLAUSE-FAIL", l - 1, Failing, cur.name>>)

Exercised == {c \in {"exec", "restart", "export", "second_replica", "txs"} :
   CASE c = "exec" -> cur.name = "Exec"
     [] c = "restart" -> cur.name = "Restart"
     [] c = "export" -> cur.name = "Export"
     [] c = "second_replica" -> cur.name = "Exec" /\ Cardinality(DOMAIN height) >= 2
     [] c = "txs" -> cur.name = "Exec" /\ cur.ntx > 0}
Coverage == Exercised = {} \/ PrintT(<<"EXERCISED", Exercised>>)
Report == (l = Len(Trace) + 1) => PrintT(<<"TRACE-END", Len(Trace), 0, 0>>)
TraceAccepted == TLCGet("stats").diameter = Len(Trace)
=============================================================================
