SPECIFICATION Spec
CONSTANTS
  Users = {"u1", "u2"}
  Provs = {"p1", "p2"}
  RecordHist = FALSE
  MaxH = 6
  MaxFeeds = 1
  FeedNames = {"fa"}
  Creators = {"u1"}
  Aggs = {"min"}
  Limits = {2}
  ProvLists <- ProvListsDef
  Thresholds = {1, 2}
  Caps = {12}
  Freqs = {1}
  Xs = {1}
  Prices <- PricesDef
  Funds = 40
  MaxTimeout = 2
  TaxNum = 1
  TaxDen = 10
  MaxEdits = 2
  DTs = {1}
  EditTFs <- EditTFsDef
  EditCaps = {10, 14}
  MaxCalls = 1
  Sends = {30}
VIEW View
INVARIANTS
  Inv_C17_StateMirror
  Inv_Conserved
PROPERTIES
  Act_C17_Append
  Act_C17_Aggregate
  Act_C17_History
  Act_C17_Authority
  Act_C17_AppendH
  Act_C17_AggregateH
  Act_C17_HistoryH
  Act_C17_StateMirrorH
  Act_C17_AuthorityH
  Act_Rejected_NoEffect
  Act_X17_EditApplied
  Act_X17_EditRejects
  Act_X17_Restart
CHECK_DEADLOCK FALSE
