SPECIFICATION Spec
CONSTANTS
  Users = {"u1", "u2"}
  Contents = {"a", "a+a~1", "b"}
  MaxMsgs = 2
  MaxRec = 8
  MaxTx = 4
  IdScheme = "counter"
  RecordHist = FALSE
VIEW View
INVARIANTS
  Inv_C19_Unique
  Inv_C19_Permanent
PROPERTIES
  Act_C19_Fresh
  Act_C19_Immutable
  Act_Rejected_NoEffect
CHECK_DEADLOCK FALSE
