SPECIFICATION GenSpecP
CONSTANTS
  RecordHist = TRUE
  FixF4 = FALSE
  FixF36 = TRUE
  Users = {"u1", "u2", "u3", "u4"}
  Consumers = {"u3", "u4"}
  Actors = {"u3", "u4", "u1"}
  MaxH = 20
  MaxCtx = 3
  InitBal = 30
  TaxNum = 1
  TaxDen = 2
  SlashNum = 1
  SlashDen = 2
  MaxTimeout = 3
  MinMult = 1
  MinDepP = 2
  Wait = 2
  FeeCaps = {2, 4, 9}
  Timeouts = {1, 2}
  Freqs = {0, 2, 3}
  Totals = {2, 3}
  RepeatedVals = {TRUE, FALSE}
  Modules = TRUE
  BindOps = TRUE
  MDenoms = {"stake", "btc"}
  InitBtc = 6
  RateN = 2
  RateD = 1
  RateVals <- RateValsP
  SetupSpec <- SetupP
  ProvSeqs <- ProvSeqsB
  UpdateSpecs <- UpdateSpecsA
CONSTRAINT GenConstraint
CHECK_DEADLOCK FALSE
