SPECIFICATION GenSpecP
CONSTANTS
  Users = {"u1", "u2", "u3"}
  Recipients = {"u1", "u2", "u3", "mod"}
  Creators = {"u1", "u2"}
  Classes <- Classes_probe
  Tokens <- Tokens_probe
  NameVals = {"a"}
  UriVals = {"x", "u257"}
  HashVals = {}
  DataVals = {"badjson"}
  CMetaVals = {"m"}
  RecordHist = TRUE
CONSTRAINT GenConstraint
CHECK_DEADLOCK FALSE
