SPECIFICATION GenSpecP
CONSTANTS
  Users = {"u1", "u2"}
  RDenoms = {"rw1"}
  LP = "lpt-1"
  FeeDenom = "stake"
  RecordHist = TRUE
  MaxH = 14
  MaxStake = 3
  MaxPools = 2
  Prec = 10
  InitLP = 3
  InitR = 20
  Fee = 5
  TaxNum = 2
  TaxDen = 5
  RewardTotals = {5, 7, 9}
  RewardRates = {1, 2, 3}
  MaxStart = 2
  TopUps = {1, 3}
  Donations = {}
  Creators = {"u1", "u2"}
  Proposers = {}
  GovOn = FALSE
  InitCP = 0
  MaxProps = 0
  CPTotals = {}
  Deposits = {}
  GovMinDep = 0
  GovThr = 0
  GovDP = 0
  GovVP = 0
  CancelNum = 0
  CancelDen = 1
  BurnPre = FALSE
  BurnQ = FALSE
  BurnV = FALSE
CONSTRAINT GenConstraint
CHECK_DEADLOCK FALSE
