SPECIFICATION LiveSpec
CONSTANTS
  Users = {"u1", "u2"}
  Provs = {"p1"}
  RecordHist = FALSE
  MaxH = 6
  MaxReq = 3
  Intervals = {0, 1, 2}
  Caps = {10}
  Bound = {}
  Price = 10
  Funds = 15
  Timeout = 2
  TaxNum = 1
  TaxDen = 10
  Kinds = {"seed"}
  MaxZH = 0
PROPERTIES
  Live_Fulfilled
CHECK_DEADLOCK FALSE
