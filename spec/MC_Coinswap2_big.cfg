SPECIFICATION SpecBounded
CONSTANTS
  Users = {"u1", "u2"}
  Tokens = {"btc", "eth"}
  Std = "stake"
  RecordHist = FALSE
  InitStd = 12
  InitTok = 6
  CFee = 2
  FeeNum = 1
  FeeDen = 10
  UniNum = 1
  UniDen = 10
  TaxNum = 1
  TaxDen = 2
  Amts = {2, 4}
  Mins = {0, 1}
  Liqs = {2}
  Donations = {1}
  DlOffs = {1}
  MaxNow = 1
  Senders = {"u1"}
  Recipients = {"u1", "u2", "feepool", "module"}
  MaxSteps = 5
  DonateAlso = {"module", "feepool"}
  Odd = {}
  InitOdd = 0
  WrongKind = FALSE
  WithUni = FALSE
VIEW ViewDepth
INVARIANTS
  Inv_C02_Conservation
PROPERTIES
  Act_C01_ShareValue
  Act_C01_LegRule
  Act_C01_ExactInMax
  Act_C01_ExactOutTight
  Act_C02_SwapSender
  Act_C02_SwapRecipient
  Act_C02_Bounds
  Act_C02_Frame
  Act_C02_AddTakesAtMost
  Act_C02_RemoveGivesAtLeast
  Act_C02_Supply
  Act_Rejected_NoEffect
  Act_X01_WedgedForever
  Act_X02_RouteBalanced
  Act_X02_RoundTripNoGain
  Act_X02_BlockedUntouched
  Act_X02_ModuleOnlyGifts
  Act_X02_DonateFrame
  Act_X02_RegistryStable
  Act_C02_PoolFresh
CHECK_DEADLOCK FALSE
